"""
Campaigns: for each property, the generated cases, the correspondence (model vs implementation)
and the monitors (the property statement evaluated directly on the implementation).
"""
import collections
import copy
import itertools
import json
import os
import random
import sys
import time
import traceback
import warnings

import codec
import corr
import driver as driver_mod
import gen
import impl
import oracle as oracle_mod

E, V, F = impl.E, impl.V, impl.F
DRAFT_TAGS = ["d3", "d4", "d6", "d7"]
HERE = os.path.dirname(os.path.abspath(__file__))


class Result:
    def __init__(self):
        self.evaluations = 0
        self.compared = 0
        self.distinct = set()
        self.disagreements = []
        self.failures = []
        self.samples = []
        self.distribution = collections.Counter()

    @property
    def distinct_nontrivial(self):
        return len(self.distinct)

    def note(self, key, nontrivial, sample=None):
        self.evaluations += 1
        if nontrivial:
            self.distinct.add(key)
        if sample is not None and len(self.samples) < 5:
            self.samples.append(sample)

    def disagree(self, channel, case, model, implv, diff):
        if len(self.disagreements) < 50:
            self.disagreements.append({"channel": channel, "case": case, "model": model, "impl": implv, "diff": diff})

    def fail(self, sig, what, case, **extra):
        if len(self.failures) < 200:
            d = {"sig": sig, "what": what, "case": case}
            d.update(extra)
            self.failures.append(d)


def khash(v):
    try:
        return hash(codec.canon(v))
    except Exception:       # noqa: BLE001
        return hash(repr(v))


class Ctx:
    def __init__(self, prop, tier, seed):
        self.prop, self.tier, self.seed = prop, tier, seed
        self.scale = 1 if tier == "quick" else 20
        self.drv = driver_mod.Driver()
        self.res = Result()
        self.g = gen.RefG(seed * 7919 + 17)
        self.r = self.g.r
        if os.environ.get("VERIF_HINTS"):
            try:
                gen.set_hints(json.loads(os.environ["VERIF_HINTS"]))
            except ValueError:
                pass

    def close(self):
        self.drv.close()

    def n(self, quick):
        return quick * self.scale


# ---------------------------------------------------------------------------------------------
# helpers on the implementation

def accepted(tag, schema):
    """does check_schema accept it (True/False), or crash (exception)"""
    try:
        impl.DRAFTS[tag].check_schema(schema)
        return True
    except E.SchemaError:
        return False


def crash_site(exc):
    """innermost function of the library in the traceback, and — when the exception was raised
    below it, in the standard library — `@` the function that raised (two different failures under
    one library function are two different findings)"""
    tb = traceback.extract_tb(exc.__traceback__)
    for n, fr in enumerate(reversed(tb)):
        if os.sep + "jsonschema" + os.sep in fr.filename and "tests" not in fr.filename:
            return fr.name if n == 0 else "%s@%s" % (fr.name, tb[-1].name)
    return "?"


def err_key(e, with_schema=False):
    """projection of an error (as produced by impl.err_json / corr.model_err) used by multiset comparisons"""
    info = e.get("info") or {}
    return codec.canon([e["msg"], info.get("kw"), info.get("kwVal"), info.get("inst"),
                        info.get("schema") if with_schema else None, e["path"], e["spath"],
                        sorted(err_key(c, with_schema) for c in e["ctx"]), e["cause"]])


def multiset(errs, with_schema=False):
    return sorted(err_key(e, with_schema) for e in errs)


def gen_case(ctx, refs=False, malformed=0.0, depth=None):
    r = ctx.r
    tag = r.choice(DRAFT_TAGS)
    depth = depth if depth is not None else r.choice([1, 2, 2, 3])
    if refs:
        schema, store, wdocs, info = ctx.g.ref_schema(tag, depth)
    elif r.random() < 0.06:
        schema, store, wdocs, info = ctx.g.interplay(tag), {}, {}, {"kinds": []}
    else:
        schema, store, wdocs, info = ctx.g.schema(tag, depth), {}, {}, {"kinds": []}
    if malformed and r.random() < malformed:
        schema = ctx.g.malform(schema, r.choice([1, 1, 2]))
    if not MODEL_READS_FALSY_REFS:
        schema = no_falsy_refs(schema)
    return tag, schema, store, wdocs, info


# `urljoin(base, url)` starts with `if not url: return base`: a falsy non-string `$ref` (None, 0, false,
# [], {} — Drafts 3 and 4 accept them) is read as the empty reference. The model said TypeError there
# until its `kwRef` was repaired (JS.refString); with the flag off, generated schemas spell such
# references as "" (the same behaviour on the implementation side).
MODEL_READS_FALSY_REFS = True


def no_falsy_refs(x):
    if isinstance(x, dict):
        return dict((k, ("" if (k == "$ref" and not isinstance(v, str) and not v) else no_falsy_refs(v))) for k, v in x.items())
    if isinstance(x, list):
        return [no_falsy_refs(v) for v in x]
    return x


def val_pair(ctx, case, wdocs=None, fail_at=()):
    """run the VAL channel on model and implementation"""
    wm = impl.World(wdocs or {}, fail_at=fail_at)
    wi = impl.World(wdocs or {}, fail_at=fail_at)
    m = corr.model_val(ctx.drv.run("VAL", case, oracle_mod.Oracle(fetch=wm.answer)))
    i = impl.run_val(case, wi)
    ctx.res.compared += 1
    return m, i


def verdict_of(r):
    if "ctor" in r:
        return ["ctor", r["ctor"]]
    if r["stop"][0] == "raised":
        return ["raised", r["stop"][1]] if not r["errs"] else ["invalid-then-raised", r["stop"][1]]
    return ["valid"] if not r["errs"] else ["invalid"]


# ---------------------------------------------------------------------------------------------
# C01 verdicts agree with the specification

def float_divisor(s):
    if isinstance(s, dict):
        for k, v in s.items():
            if k in ("multipleOf", "divisibleBy") and (isinstance(v, float) or (isinstance(v, int) and not isinstance(v, bool) and v > 2 ** 53)):
                return True
            if float_divisor(v):
                return True
    elif isinstance(s, list):
        return any(float_divisor(v) for v in s)
    return False


def c01(ctx):
    import suite
    res = ctx.res
    orc = oracle_mod.Oracle()
    # (i) the specification itself against the official suite (a disagreement is a defect of the
    #     specification: infrastructure error, never a violation)
    bad = []
    n_suite = 0
    for tag, f, gd, td, schema, inst, valid in suite.cases():
        if float_divisor(schema) and f in ("multipleOf.json", "divisibleBy.json") and "small number" in gd:
            continue      # 0.0075 / 0.0001: no exact binary answer, outside the exact sub-domain (C09)
        r = ctx.drv.run("SPEC", {"d": tag, "schema": schema, "inst": inst}, orc)
        n_suite += 1
        if r["valid"] != valid:
            bad.append((tag, f, gd, td))
    res.distribution["suite-cases"] = n_suite
    if bad:
        raise RuntimeError("Spec.valid disagrees with the official test suite on %d cases, e.g. %r" % (len(bad), bad[:3]))
    # (ii) generated reference-free schemas, after a few directed ones (several values of one Python
    #      class but different JSON types or integrality inside ONE validation)
    directed = []
    for tags, schema, insts in C07_DIRECTED:
        for tag in tags:
            directed.append((tag, schema))
            directed.append((tag, {"items": schema}))
            directed.append((tag, {"additionalProperties": schema}))
    pairs = []
    for tags, schema, insts in C07_DIRECTED:
        for tag in tags:
            for _k in range(8):
                a, b = ctx.r.choice(insts), ctx.r.choice(insts)
                pairs.append((tag, {"items": schema}, [a, b]))
                pairs.append((tag, {"additionalProperties": schema}, {"x": a, "y": b}))
    # wide instances: several hundred members each meeting a nested subschema inside ONE validation
    # (whatever a validator counts per descent, per error or per abandoned sub-validation shows only here)
    for tag in DRAFT_TAGS:
        w = 340 + ctx.r.randrange(120)
        sub = {"type": "object", "properties": {"a": {"type": "integer"}}}
        if tag in ("d6", "d7"):
            pairs.append((tag, {"contains": dict(sub, required=["a"])}, [{"a": "x"} for _k in range(w)] + [{"a": 1}]))
            pairs.append((tag, {"items": {"if": sub, "then": {"required": ["a"]}}} if tag == "d7" else {"items": {"not": {"not": sub}}},
                          [{"a": "x"} for _k in range(w)] + [{"a": 1}, {}]))
        if tag != "d3":
            pairs.append((tag, {"not": {"items": sub}}, [{"a": "x"} for _k in range(w)]))
            pairs.append((tag, {"additionalProperties": {"oneOf": [sub, {"type": "string"}]}}, dict(("k%d" % k, {"a": "x"} if k % 2 else "s") for k in range(w))))
        else:
            pairs.append((tag, {"disallow": [{"items": sub}]}, [{"a": "x"} for _k in range(w)]))
            pairs.append((tag, {"items": {"disallow": [sub]}}, [{"a": "x"} for _k in range(w)] + [{"a": 1}]))
        pairs.append((tag, {"items": sub}, [{"a": 1} for _k in range(w)] + [{"a": "x"}]))
    for _ in range(ctx.n(3000) + len(directed) + len(pairs)):
        forced = None
        if pairs:
            tag, schema, forced = pairs.pop()
        elif directed:
            tag, schema = directed.pop()
        else:
            tag, schema, store, wdocs, info = gen_case(ctx, refs=False, depth=ctx.r.choice([1, 2, 2, 3]))
        cls = impl.DRAFTS[tag]
        try:
            if not accepted(tag, schema):
                continue
        except Exception:        # noqa: BLE001
            continue
        insts = [ctx.g.instance_for(tag, schema) for _k in range(3)] if forced is None else [forced]
        # one more: an earlier instance with one number re-typed (3.0 <-> 3.5, 1 <-> true <-> 1.0), or
        # several of them side by side in one array, so that one validation meets both
        if not (forced is not None and isinstance(forced, (list, dict)) and len(forced) > 100):
            x = ctx.g.retype(ctx.r.choice(insts))
            insts.append(x if ctx.r.random() < 0.5 else [ctx.r.choice(insts), x, ctx.g.retype(x)])
        for inst in insts:
            case = {"cls": tag, "schema": schema, "inst": inst, "budget": 1}
            sp = ctx.drv.run("SPEC", {"d": tag, "schema": schema, "inst": inst}, orc)
            if not sp["shaped"]:
                res.disagree("SHAPE", case, sp, "accepted", "check_schema accepts a reference-free schema that Spec.shaped rejects")
                continue
            in_domain = sp["numSafe"] and sp["typesKnown"] and sp["wf"]
            try:
                got = cls(schema).is_valid(inst)
            except E.UnknownType:
                res.distribution["unknown-type"] += 1
                continue
            except Exception as exc:       # noqa: BLE001
                res.fail("crash:%s:%s" % (type(exc).__name__, crash_site(exc)), "is_valid raised %s" % type(exc).__name__, case)
                continue
            res.note(khash(case), True, case)
            res.distribution[("valid" if got else "invalid") + ("" if in_domain else "-outside-domain")] += 1
            if in_domain and got != sp["valid"]:
                res.fail("verdict:" + tag + ":" + ",".join(sorted(k for k in schema if k in gen.VOCAB[tag]))[:60],
                         "is_valid = %r but the %s specification says %r" % (got, tag, sp["valid"]), case)
            m, i = val_pair(ctx, case)
            if corr.diff(verdict_of(m), verdict_of(i)):
                res.disagree("VAL", case, verdict_of(m), verdict_of(i), corr.diff(verdict_of(m), verdict_of(i)))


# ---------------------------------------------------------------------------------------------
# C03 totality

DOCUMENTED = {"RefResolutionError", "UnknownType"}


C03_CORPUS = [
    # (draft, schema, instance): directed cases from the property text and from past findings
    ("d7", {"items": True, "additionalItems": False}, [1]),
    ("d6", {"items": True, "additionalItems": False}, [1, 2]),
    ("d3", {"dependencies": {"a": "b"}}, {"a": 1}),
    ("d4", {"multipleOf": 0.5}, 10 ** 400),
    ("d7", {"multipleOf": 10 ** 400}, 1.5),
    ("d3", {"divisibleBy": 0.5}, 10 ** 400),
    ("d7", {"$id": "http://["}, 1),
    ("d4", {"id": "http://["}, 1),
    ("d7", {"properties": {"a": {"$ref": "http://["}}}, {"a": 1}),
    # URIs that urlsplit accepts but whose parts are unusable (bad ports, odd hosts): unresolvable, hence RefResolutionError
    ("d7", {"properties": {"a": {"$ref": "http://localhost:abc/s.json#/definitions/a"}}}, {"a": 1}),
    ("d4", {"id": "http://localhost:abc/root.json", "properties": {"a": {"$ref": "other.json"}}}, {"a": 1}),
    ("d6", {"$id": "http://h:99999999/x", "items": {"$ref": "#/definitions/q"}, "definitions": {"q": {"type": "integer"}}}, [1, "s"]),
    ("d3", {"properties": {"a": {"$ref": "http://h:-1/s"}}}, {"a": 1}),
    ("d7", {"properties": {"a": {"$ref": "HTTP://EXAMPLE.com:80/s.json"}}}, {"a": 1}),
    ("d7", {"properties": {"a": {"$ref": "http://ex ample.com/s.json"}}}, {"a": 1}),
    ("d7", {"properties": {"a": {"$ref": "//:0"}}}, {"a": 1}),
    ("d7", {"properties": {"a": {"$ref": "http://h:1:2/s"}}}, {"a": 1}),
    ("d7", {"properties": {"a": {"$ref": "urn:x:y#/a"}}}, {"a": 1}),
    ("d7", {"properties": {"a": {"$ref": "mailto:a@b"}}}, {"a": 1}),
    ("d7", {"properties": {"a": {"$ref": "http://\u00e9.example/s"}}}, {"a": 1}),
    ("d7", {"minLength": 2.0}, "a"),
    ("d6", {"maxItems": 0.0}, [1]),
    ("d7", {"enum": []}, 1),
    ("d4", {"items": [], "additionalItems": False}, [1]),
    ("d3", {"extends": []}, 1),
    ("d3", {"type": []}, 1),
    ("d3", {"disallow": []}, 1),
    ("d7", {"dependencies": {"a": []}}, {"a": 1}),
    ("d7", {"required": []}, {}),
    ("d7", {"patternProperties": {"": {}}, "additionalProperties": False}, {"a": 1}),
    ("d7", {"patternProperties": {"^x-": {}, "(?i)^data-": {}}, "additionalProperties": False}, {"DATA-a": 1, "x-b": 2, "q": 3}),
    ("d4", {"patternProperties": {"(?P<n>a)b": {}, "(?P<n>c)d": {}}, "additionalProperties": {"type": "integer"}}, {"ab": 1, "zz": "s"}),
    ("d3", {"patternProperties": {"(a)\\1": {}, "(b)\\1": {}}, "additionalProperties": False}, {"bb": 1}),
] + [(t, {k: 0}, 0) for t, k in (("d3", "divisibleBy"), ("d4", "multipleOf"), ("d6", "multipleOf"), ("d7", "multipleOf"))] \
  + [(t, {k: 0.0}, 1.5) for t, k in (("d3", "divisibleBy"), ("d4", "multipleOf"), ("d6", "multipleOf"), ("d7", "multipleOf"))]


def c03(ctx):
    res = ctx.res
    corpus = list(C03_CORPUS)
    for _ in range(ctx.n(2500) + len(corpus)):
        if corpus:
            tag, schema, inst0 = corpus.pop()
            store, wdocs, info = {}, {}, {"kinds": []}
        else:
            inst0 = None
            tag, schema, store, wdocs, info = gen_case(ctx, refs=ctx.r.random() < 0.25, malformed=0.5)
        try:
            ok = accepted(tag, schema)
        except Exception as exc:        # noqa: BLE001  check_schema itself crashed: C11's business
            res.distribution["check_schema-crash:" + type(exc).__name__] += 1
            continue
        res.distribution["accepted" if ok else "rejected"] += 1
        if not ok:
            continue
        if not refs_are_strings(schema) or not patterns_compile([schema, store, wdocs]):
            continue
        # bridge to the theorems' hypothesis: what check_schema accepts is `shapedR`
        sp = ctx.drv.run("SPEC", {"d": tag, "schema": schema, "inst": None}, oracle_mod.Oracle())
        if not sp["shapedR"]:
            res.disagree("SHAPE", {"cls": tag, "schema": schema}, sp, "accepted",
                         "check_schema accepts a schema that Spec.shapedR rejects: the no-crash theorems do not cover it")
        for _ in range(2):
            inst = inst0 if inst0 is not None else (ctx.g.instance_for(tag, schema) if ctx.r.random() < 0.8 else ctx.g.value(2))
            fc = ctx.r.choice([None, None, "draft"])
            case = {"cls": tag, "schema": schema, "inst": inst, "budget": None, "fc": fc,
                    "resolver": {"store": [[k, v] for k, v in store.items()]}}
            key = khash([tag, schema, inst, fc])
            # monitor: every entry point, only documented exceptions
            cls = impl.DRAFTS[tag]
            for ep in ("iter_errors", "is_valid", "validate", "module"):
                exc = run_entry_point(cls, tag, schema, inst, fc, ep, store, wdocs)
                if exc is not None:
                    name = type(exc).__name__
                    res.distribution["exc:" + name] += 1
                    if name not in DOCUMENTED or (name == "UnknownType" and tag != "d3"):
                        if isinstance(exc, RecursionError) and not guarded(schema):
                            continue
                        # a reference whose target is not a schema is outside the domain: the guarded
                        # evaluator of JS.Props.C03 (run by the driver) says whether that is what happened
                        gcase = dict(case, guard=True, fc=None)
                        wm = impl.World(wdocs or {})
                        gm = ctx.drv.run("VAL", gcase, oracle_mod.Oracle(fetch=wm.answer))
                        if gm.get("stop") == ["raised", ["crash", "UNSHAPED-REFERENCE-TARGET"]]:
                            res.distribution["outside-domain:reference-target-not-a-schema"] += 1
                            continue
                        # an unguarded reference cycle (a schema that refers to itself on the same
                        # instance, e.g. {"$ref": "#"}): behaviour undefined by the drafts; recognised by
                        # the model running out of fuel on the same case
                        if isinstance(exc, RecursionError) and gm.get("stop") == ["fuel"]:
                            res.distribution["outside-domain:unguarded-reference-cycle"] += 1
                            continue
                        res.fail("crash:%s:%s" % (name, crash_site(exc)),
                                 "%s escaped %s for an accepted schema" % (name, ep),
                                 {"cls": tag, "schema": schema, "inst": inst, "fc": fc, "entry": ep})
            res.note(key, True, {"cls": tag, "schema": schema, "inst": inst})
            # correspondence on the stop reason (format checkers with oracle formats are left to C12)
            if fc is None and "http://[" not in json.dumps(schema):     # unparsable URIs are outside the model
                m, i = val_pair(ctx, case, wdocs)
                if corr.diff(verdict_of(m), verdict_of(i)):
                    # outside the domain (a reference designating a non-schema, e.g. `null`, which the
                    # code happens to read as "the root schema") model and code need not agree
                    wm = impl.World(wdocs or {})
                    gm = ctx.drv.run("VAL", dict(case, guard=True), oracle_mod.Oracle(fetch=wm.answer))
                    if gm.get("stop") == ["raised", ["crash", "UNSHAPED-REFERENCE-TARGET"]]:
                        res.distribution["outside-domain:reference-target-not-a-schema"] += 1
                        continue
                    res.disagree("VAL", case, verdict_of(m), verdict_of(i), corr.diff(verdict_of(m), verdict_of(i)))


class Deadline(Exception):
    pass


def with_deadline(seconds, fn):
    """fn() under a wall-clock limit; raises Deadline when it does not finish (main thread only)"""
    import signal

    def on_alarm(signum, frame):
        raise Deadline()
    old = signal.signal(signal.SIGALRM, on_alarm)
    signal.setitimer(signal.ITIMER_REAL, seconds)
    try:
        return fn()
    finally:
        signal.setitimer(signal.ITIMER_REAL, 0)
        signal.signal(signal.SIGALRM, old)


def deep(kind, depth, leaf):
    x = leaf
    for k in range(depth):
        x = {"a": x, "b": k} if kind == "obj" else ([x, k] if kind == "arr" else ({"k": [x]} if k % 2 else [{"k": x}]))
    return x


def c03_termination(ctx):
    """every validation FINISHES: values nested 30-60 levels deep (well inside the interpreter's
    recursion limit) compared by const / enum / uniqueItems, and validated by schemas nested as deep,
    under a wall-clock limit that is thousands of times what the unchanged code needs; and a validator
    that has raised the documented RefResolutionError once stays usable (only documented exceptions
    afterwards)"""
    res = ctx.res
    r = ctx.r
    limit = 6.0
    for kind in ("obj", "arr", "mixed"):
        for depth in (30, 45, 60):
            x = deep(kind, depth, r.choice([1, "s", None]))
            y = copy.deepcopy(x)
            cases = [({"enum": [y]}, x), ({"uniqueItems": True}, [x, y]), ({"enum": [0, [y], y]}, x), ({"uniqueItems": True}, [[x], 1, [y]])]
            for tag in DRAFT_TAGS:
                cls = impl.DRAFTS[tag]
                cs = cases + ([({"const": y}, x), ({"contains": {"const": y}}, [1, x])] if tag in ("d6", "d7") else [])
                for schema, inst in cs:
                    for ep in ("is_valid", "iter_errors"):
                        res.evaluations += 1
                        try:
                            v = cls(schema)
                            with_deadline(limit, (lambda: v.is_valid(inst)) if ep == "is_valid" else (lambda: list(v.iter_errors(inst))))
                        except Deadline:
                            res.fail("hang:%s:%s" % (sorted(schema)[0], kind), "%s did not finish within %.0f s on a value nested %d deep" % (ep, limit, depth),
                                     {"cls": tag, "schema_keyword": sorted(schema)[0], "kind": kind, "depth": depth, "entry": ep})
                            return
                        except Exception as exc:        # noqa: BLE001
                            res.fail("crash:%s:%s" % (type(exc).__name__, crash_site(exc)), "%s raised on a value nested %d deep" % (ep, depth),
                                     {"cls": tag, "schema_keyword": sorted(schema)[0], "kind": kind, "depth": depth, "entry": ep})
    # schemas nested deep
    for tag in DRAFT_TAGS:
        cls = impl.DRAFTS[tag]
        s = {"type": "integer"}
        for k in range(40):
            s = {"properties": {"a": s}} if k % 3 == 0 else ({"items": s} if k % 3 == 1 else ({"allOf": [s, {}]} if tag != "d3" else {"extends": [s, {}]}))
        inst = "leaf"
        for k in range(40):
            inst = {"a": inst} if k % 3 == 0 else ([inst, inst] if k % 3 == 1 else inst)
        try:
            with_deadline(limit, lambda: list(cls(s).iter_errors(inst)))
        except Deadline:
            res.fail("hang:nested-schema", "iter_errors did not finish on a schema nested 40 deep", {"cls": tag})
        except Exception as exc:        # noqa: BLE001
            res.fail("crash:%s:%s" % (type(exc).__name__, crash_site(exc)), "nested schema", {"cls": tag})
    # a validator stays usable after a documented RefResolutionError
    idk = {"d3": "id", "d4": "id", "d6": "$id", "d7": "$id"}
    for tag in DRAFT_TAGS:
        cls = impl.DRAFTS[tag]
        schema = {"properties": {"dangling": {"$ref": "#/definitions/nope"}, "remote": {"$ref": "http://nowhere.invalid/x.json"},
                                 "with_id": {idk[tag]: "http://ex.org/sub/", "type": "integer"}, "with_ref": {"$ref": "#/definitions/ok"},
                                 "plain": {"type": "string"}},
                  "definitions": {"ok": {"type": "integer"}}}
        for first in ({"dangling": 1}, {"remote": 1}):
            for ep in ("is_valid", "iter_errors", "validate"):
                world = impl.World({})
                rv = V.RefResolver.from_schema(schema, id_of=cls.ID_OF)
                rv.handlers = impl._AnyScheme(world.fetch)
                v = cls(schema, resolver=rv)
                seq = [first, {"with_id": "s"}, {"with_ref": 1}, {"plain": 3}, first, {"with_ref": "s", "with_id": 2}]
                for n, inst in enumerate(seq):
                    res.evaluations += 1
                    try:
                        if ep == "is_valid":
                            v.is_valid(inst)
                        elif ep == "iter_errors":
                            list(v.iter_errors(inst))
                        else:
                            v.validate(inst)
                        got = None
                    except E.ValidationError:
                        got = None
                    except Exception as exc:        # noqa: BLE001
                        got = exc
                    want_ref_error = inst is first or "dangling" in inst or "remote" in inst
                    name = type(got).__name__ if got is not None else None
                    if (name not in (None, "RefResolutionError")) or (name == "RefResolutionError" and not want_ref_error):
                        res.fail("crash-after-RefResolutionError:%s" % name,
                                 "after a documented RefResolutionError the same validator raised %s on an unrelated instance" % name,
                                 {"cls": tag, "schema": schema, "seq": seq, "at": n, "entry": ep})
                        break


def c03_all(ctx):
    c03_termination(ctx)
    c03(ctx)


def refs_are_strings(s):
    if isinstance(s, dict):
        if "$ref" in s and not isinstance(s["$ref"], str):
            return False
        return all(refs_are_strings(v) for v in s.values())
    if isinstance(s, list):
        return all(refs_are_strings(v) for v in s)
    return True


def patterns_compile(s):
    """every regular expression used as `pattern` or as a `patternProperties` key compiles (C03's domain)"""
    import re
    if isinstance(s, dict):
        for k, v in s.items():
            try:
                if k == "pattern" and isinstance(v, str):
                    re.compile(v)
                if k == "patternProperties" and isinstance(v, dict):
                    for p in v:
                        re.compile(p)
            except Exception:        # noqa: BLE001
                return False
            if not patterns_compile(v):
                return False
        return True
    if isinstance(s, list):
        return all(patterns_compile(v) for v in s)
    return True


def guarded(schema):
    """no `$ref: "#"`-style cycle on the same instance (a conservative syntactic test)"""
    txt = json.dumps(schema)
    return '"$ref": "#"' not in txt


def run_entry_point(cls, tag, schema, inst, fc, ep, store, wdocs):
    """returns the exception that escaped (other than ValidationError), or None"""
    world = impl.World(wdocs or {})
    try:
        fco = impl.make_fc(fc, tag)
        if ep == "module":
            with warnings.catch_warnings():
                warnings.simplefilter("ignore")
                res = V.RefResolver.from_schema(schema, id_of=cls.ID_OF, store=dict(store or {}))
                res.handlers = impl._AnyScheme(world.fetch)
                try:
                    V.validate(inst, schema, cls=cls, resolver=res, format_checker=fco)
                except E.ValidationError:
                    pass
            return None
        res = V.RefResolver.from_schema(schema, id_of=cls.ID_OF, store=dict(store or {}))
        res.handlers = impl._AnyScheme(world.fetch)
        v = cls(schema, resolver=res, format_checker=fco)
        if ep == "iter_errors":
            for _ in v.iter_errors(inst):
                pass
        elif ep == "is_valid":
            v.is_valid(inst)
        else:
            try:
                v.validate(inst)
            except E.ValidationError:
                pass
        return None
    except E.SchemaError:
        return None
    except Exception as exc:       # noqa: BLE001
        return exc


# ---------------------------------------------------------------------------------------------
# C04 entry points agree

def c04_nonmapping(ctx):
    """module-level validate() without a class on schemas that are not mappings: check_schema of the
    class validator_for falls back to would raise SchemaError, so validate() must raise SchemaError"""
    res = ctx.res
    for schema in [5, None, 1.5, "abc", [1, 2], ["$schema"], {"$schema": 5}, {"$schema": ["x"]}]:
        case = {"schema": schema, "inst": 1, "cls": None}
        res.note(khash(case), True, None)
        try:
            with warnings.catch_warnings():
                warnings.simplefilter("ignore")
                V.validate(1, schema)
            got = "ok"
        except E.SchemaError:
            got = "SchemaError"
        except E.ValidationError:
            got = "ValidationError"
        except Exception as exc:       # noqa: BLE001
            got = type(exc).__name__
        try:
            V._LATEST_VERSION.check_schema(schema)
            want = "ok"
        except E.SchemaError:
            want = "SchemaError"
        except Exception as exc:       # noqa: BLE001
            want = type(exc).__name__
        if want == "SchemaError" and got not in ("SchemaError",):
            res.fail("module-validate:non-mapping-schema:%s" % got,
                     "validate(1, %r) raised %s although check_schema of the default class raises SchemaError" % (schema, got), case)


C04_CORPUS = [
    # keywords next to a reference are ignored by every entry point alike
    ({"$ref": "#/definitions/a", "type": "string", "definitions": {"a": {}}}, [1, "s", None]),
    ({"$ref": "#/definitions/a", "type": "integer", "minimum": 5, "definitions": {"a": {"type": "string"}}}, [1, "s", 7]),
    ({"properties": {"x": {"$ref": "#/definitions/a", "type": "integer", "enum": []}}, "definitions": {"a": {"type": "string"}}}, [{"x": "s"}, {"x": 1}, {}]),
    ({"items": {"$ref": "#/definitions/a", "type": "array", "maxItems": 0}, "definitions": {"a": {"minimum": 1}}}, [[0, 2], [3], "s"]),
    ({"type": "object", "required_or_not": 1, "properties": {"a": {"type": "string"}, "b": {"type": "integer"}}}, [{"a": 1, "b": "s"}, {"a": "s", "b": 1}, []]),
    # regular expressions Python cannot compile, met by instances the keyword does not apply to: check_schema
    # accepts them (formats are not enforced on schemas), nothing ever compiles them, and every entry
    # point, with and without a format checker, agrees
    ({"pattern": "("}, [1, None, [1], {}]),
    ({"pattern": "a{2,1}", "type": "integer"}, [1, 2.5]),
    ({"patternProperties": {"[z-a]": {"type": "string"}}}, [1, "s", [], {}]),
    ({"properties": {"p": {"pattern": "(?P<n>a)(?P<n>b)"}}, "required": ["q"]}, [{"p": 1}, {"q": 1}, {}]),
]


def c04(ctx):
    res = ctx.res
    c04_nonmapping(ctx)
    corpus = [(t, s, i, f) for (s, insts) in C04_CORPUS for i in insts for t in DRAFT_TAGS for f in (None, "draft")]
    for _ in range(ctx.n(1500) + len(corpus)):
        fc0 = None
        if corpus:
            tag, schema, inst0, fc0 = corpus.pop()
            store, wdocs, info = {}, {}, {"kinds": []}
        else:
            inst0 = None
            tag, schema, store, wdocs, info = gen_case(ctx, refs=ctx.r.random() < 0.2, malformed=0.25)
        cls = impl.DRAFTS[tag]
        inst = ctx.g.instance_for(tag, schema) if inst0 is None else inst0
        fc = ctx.r.choice([None, None, None, "draft"]) if inst0 is None else fc0
        case = {"cls": tag, "schema": schema, "inst": inst, "fc": fc}
        try:
            ok = accepted(tag, schema)
        except Exception:       # noqa: BLE001
            continue
        res.note(khash(case), True, case)
        res.distribution["accepted" if ok else "rejected"] += 1
        # ---- monitor on the implementation
        # history: a call with a Python-`==`-equal twin of the schema (True <-> 1, 1 <-> 1.0) comes first
        if ctx.r.random() < 0.4:
            twin = py_equal_twin(ctx, schema)
            if twin is not None:
                try:
                    with warnings.catch_warnings():
                        warnings.simplefilter("ignore")
                        V.validate(inst, twin, cls=cls)
                except Exception:       # noqa: BLE001
                    pass
                res.distribution["twin-history"] += 1
        fails = c04_monitor(cls, tag, schema, inst, fc, ok)
        for sig, what in fails:
            res.fail(sig, what, case)
        # ---- correspondence: three budgets of VAL, and MOD
        if ok and fc is None and not store and not wdocs:
            outs = {}
            for b in (None, 1, 2):
                c = dict(case, budget=b)
                m, i = val_pair(ctx, c)
                outs[b] = i
                d = corr.diff(m, i)
                if d:
                    res.disagree("VAL", c, m, i, d)
        if fc is None and not store and not wdocs and isinstance(schema, (dict, bool)) and schema_dollar_ok(schema):
            c = {"cls": ctx.r.choice([tag, None]), "schema": schema, "inst": inst, "fc": None}
            m = ctx.drv.run("MOD", c, oracle_mod.Oracle())
            i = impl_mod(c)
            res.compared += 1
            mm = mod_model(m)
            d = corr.diff(mm, i)
            if d:
                res.disagree("MOD", c, mm, i, d)


def py_equal_twin(ctx, schema):
    """a copy that Python's == cannot tell from the schema but JSON can: some True/1/1.0 swapped"""
    twin = copy.deepcopy(schema)
    spots = []

    def walk(x):
        if isinstance(x, dict):
            for k, v in x.items():
                if v is True or (isinstance(v, (int, float)) and not isinstance(v, bool) and v in (0, 1)):
                    spots.append((x, k))
                walk(v)
        elif isinstance(x, list):
            for i, v in enumerate(x):
                if v is True or v is False or (isinstance(v, (int, float)) and not isinstance(v, bool) and v in (0, 1)):
                    spots.append((x, i))
                walk(v)
    walk(twin)
    if not spots:
        return None
    c, k = ctx.r.choice(spots)
    v = c[k]
    c[k] = (1 if v is True else 0 if v is False else bool(v) if ctx.r.random() < 0.6 else float(v))
    return twin


def schema_dollar_ok(schema):
    return not (isinstance(schema, dict) and "$schema" in schema and not isinstance(schema["$schema"], str))


def mod_model(m):
    def one(x):
        if x is None:
            return None
        if x[0] in ("SchemaError", "ValidationError"):
            return [x[0], corr.model_err(x[1])]
        if x[0] == "other":
            return ["raised", corr.model_stop(x[1])[1]]
        return x
    return {"validate": one(m["validate"]), "warned": m["warned"], "validatorFor": m["validatorFor"],
            "checkSchema": one(m["checkSchema"])}


CLASS_TAG = {}


def impl_mod(c):
    for t, k in impl.DRAFTS.items():
        CLASS_TAG[k] = t
    cls = impl.DRAFTS[c["cls"]] if c["cls"] else None
    schema, inst = c["schema"], c["inst"]
    out = {}
    with warnings.catch_warnings(record=True) as w:
        warnings.simplefilter("always")
        try:
            V.validate(inst, schema, cls=cls)
            out["validate"] = ["ok"]
        except E.SchemaError as e:
            out["validate"] = ["SchemaError", impl.err_json(e)]
        except E.ValidationError as e:
            out["validate"] = ["ValidationError", impl.err_json(e)]
        except Exception as e:       # noqa: BLE001
            out["validate"] = ["raised", impl.exc_json(e)]
        out["warned"] = any(issubclass(x.category, DeprecationWarning) and "metaschema" in str(x.message) for x in w)
    with warnings.catch_warnings(record=True) as w:
        warnings.simplefilter("always")
        try:
            k = V.validator_for(schema)
            out["validatorFor"] = [CLASS_TAG.get(k, k.__name__),
                                   any("metaschema" in str(x.message) for x in w)]
        except Exception as e:       # noqa: BLE001
            out["validatorFor"] = ["raised", impl.exc_json(e)]
    if cls is not None:
        try:
            cls.check_schema(schema)
            out["checkSchema"] = ["ok"]
        except E.SchemaError as e:
            out["checkSchema"] = ["SchemaError", impl.err_json(e)]
        except Exception as e:       # noqa: BLE001
            out["checkSchema"] = ["raised", impl.exc_json(e)]
    else:
        out["checkSchema"] = None
    return out


def closure_keys(e):
    out = []
    for c in e.context:
        out.append(c)
        out.extend(closure_keys(c))
    return out


def c04_monitor(cls, tag, schema, inst, fc, ok):
    fails = []
    fco = impl.make_fc(fc, tag)

    def mk():
        return cls(schema, format_checker=fco)
    try:
        v = mk()
    except Exception:        # noqa: BLE001  (unaccepted schema that cannot even be constructed)
        return fails
    # iter_errors twice, same validator
    runs = []
    for _ in range(2):
        errs, stop = impl.consume(v.iter_errors(inst), None)
        runs.append(([impl.err_json(e) for e in errs], stop, errs))
    if corr.diff([runs[0][0], runs[0][1]], [runs[1][0], runs[1][1]]):
        fails.append(("repeat:iter_errors", "repeating iter_errors gave a different result"))
    ej, stop, errs = runs[0]
    raised = stop[0] == "raised"
    # is_valid
    try:
        iv = ["ok", v.is_valid(inst)]
    except Exception as e:       # noqa: BLE001
        iv = ["raised", impl.exc_json(e)]
    want = ["ok", False] if ej else (["raised", stop[1]] if raised else ["ok", True])
    if corr.diff(iv, want):
        fails.append(("is_valid-vs-iter_errors", "is_valid=%r but iter_errors gave %d errors, stop %r" % (iv, len(ej), stop)))
    # validate
    try:
        v.validate(inst)
        vv = ["ok"]
    except E.ValidationError as e:
        vv = ["invalid", impl.err_json(e)]
    except Exception as e:       # noqa: BLE001
        vv = ["raised", impl.exc_json(e)]
    want = ["invalid", ej[0]] if ej else (["raised", stop[1]] if raised else ["ok"])
    if corr.diff(vv, want):
        fails.append(("validate-vs-iter_errors", "validate() gave %r, first error of iter_errors differs" % (vv[0],)))
    # module-level validate
    for trial in range(2):
        try:
            with warnings.catch_warnings():
                warnings.simplefilter("ignore")
                V.validate(inst, schema, cls=cls, format_checker=fco)
            mv = ["ok"]
        except E.SchemaError as e:
            mv = ["SchemaError", impl.err_json(e)]
        except E.ValidationError as e:
            mv = ["ValidationError", impl.err_json(e), e]
        except Exception as e:       # noqa: BLE001
            mv = ["raised", impl.exc_json(e)]
        if not ok:
            # SchemaError before the instance is looked at, with the fields of the metaschema violation
            first = next(cls(cls.META_SCHEMA).iter_errors(schema), None)
            if mv[0] != "SchemaError":
                fails.append(("module-validate:no-SchemaError", "check_schema rejects the schema but validate() gave %r" % (mv[0],)))
            elif first is not None and corr.diff(mv[1], impl.err_json(first)):
                fails.append(("module-validate:SchemaError-fields", "SchemaError differs from the metaschema violation"))
        else:
            if mv[0] == "SchemaError":
                fails.append(("module-validate:spurious-SchemaError", "check_schema accepts but validate() raised SchemaError"))
            elif raised:
                if mv[0] != "raised" or corr.diff(mv[1], stop[1]):
                    fails.append(("module-validate:exception", "iter_errors raises %r, validate() gave %r" % (stop, mv[:2])))
            elif not ej:
                if mv[0] != "ok":
                    fails.append(("module-validate:valid", "no errors but validate() gave %r" % (mv[0],)))
            else:
                if mv[0] != "ValidationError":
                    fails.append(("module-validate:invalid", "errors but validate() gave %r" % (mv[0],)))
                else:
                    best = mv[1]
                    if best["ctx"]:
                        fails.append(("best_match:has-context", "best_match returned an error with context"))
                    pool = []
                    for e in errs:
                        pool.append(impl.err_json(e))
                        pool.extend(impl.err_json(c) for c in closure_keys(e))
                    if not any(corr.diff(best, p) is None for p in pool):
                        fails.append(("best_match:not-a-member", "best_match is neither an error nor a descendant"))
    return fails


# ---------------------------------------------------------------------------------------------
# C05 every violated keyword is reported

SIBLINGS = {
    "additionalProperties": ["properties", "patternProperties"],
    "additionalItems": ["items"],
    "if": ["then", "else"],
}


def siblings_of(tag, k):
    s = list(SIBLINGS.get(k, []))
    if tag in ("d3", "d4") and k == "minimum":
        s.append("exclusiveMinimum")
    if tag in ("d3", "d4") and k == "maximum":
        s.append("exclusiveMaximum")
    return s


def c05(ctx):
    res = ctx.res
    for _ in range(ctx.n(2000)):
        tag, schema, store, wdocs, info = gen_case(ctx, refs=ctx.r.random() < 0.3, depth=ctx.r.choice([1, 2, 3]))
        cls = impl.DRAFTS[tag]
        if not isinstance(schema, dict) or "$ref" in schema:
            continue
        rspec = {"store": [[k, v] for k, v in store.items()]}
        # parts are evaluated as documents of their own: references to the root itself ("#", "") would
        # designate something else there, so only definitions and other documents may be referred to
        if not all(rs.startswith("#/definitions/") or "://" in rs or (rs and not rs.startswith("#")) for rs in ref_strings(schema)):
            continue
        try:
            if not accepted(tag, schema):
                continue
        except Exception:        # noqa: BLE001
            continue
        idk = "id" if tag in ("d3", "d4") else "$id"
        for _ in range(2):
            inst = ctx.g.instance_for(tag, schema)
            case = {"cls": tag, "schema": schema, "inst": inst, "budget": None, "resolver": rspec, "world": wdocs}

            def fresh(s):
                # every run gets its own resolver; `definitions` travel with each part so that local references resolve
                return cls(s, resolver=impl.make_resolver(cls, s, rspec, impl.World(wdocs)))
            whole, stop = impl.consume(fresh(schema).iter_errors(inst), None)
            if stop[0] != "done":
                continue
            wj = [impl.err_json(e) for e in whole]
            parts = []
            for k in schema:
                sub = {kk: schema[kk] for kk in schema if kk == k or kk in siblings_of(tag, k) or kk == idk or kk == "definitions"}
                pe, ps = impl.consume(fresh(sub).iter_errors(inst), None)
                parts.extend(impl.err_json(e) for e in pe
                             if (e.schema_path and e.schema_path[0] == k) or (k == "if" and e.schema_path and e.schema_path[0] in ("then", "else")))
            nontrivial = len(wj) >= 1 and len(schema) >= 2
            res.note(khash(case), nontrivial, case)
            res.distribution["errors=%d" % min(len(wj), 5)] += 1
            if multiset(wj) != multiset(parts):
                res.fail("union-mismatch:" + first_kw_diff(wj, parts),
                         "errors of the whole schema (%d) are not the union of its keywords' errors (%d)" % (len(wj), len(parts)), case)
            m, i = val_pair(ctx, {"cls": tag, "schema": schema, "inst": inst, "budget": None, "resolver": rspec}, wdocs)
            if multiset(m.get("errs", [])) != multiset(i.get("errs", [])) or corr.diff(m.get("stop"), i.get("stop")):
                res.disagree("VAL", case, m, i, corr.diff(m, i))


def ref_strings(s, acc=None):
    acc = [] if acc is None else acc
    if isinstance(s, dict):
        if isinstance(s.get("$ref"), str):
            acc.append(s["$ref"])
        for v in s.values():
            ref_strings(v, acc)
    elif isinstance(s, list):
        for v in s:
            ref_strings(v, acc)
    return acc


def first_kw_diff(a, b):
    ca = collections.Counter((e.get("info") or {}).get("kw") for e in a)
    cb = collections.Counter((e.get("info") or {}).get("kw") for e in b)
    for k in sorted(set(ca) | set(cb), key=repr):
        if ca[k] != cb[k]:
            return str(k)
    return "?"


# ---------------------------------------------------------------------------------------------
# C06 truthful locations

def c06(ctx):
    res = ctx.res
    for _ in range(ctx.n(4500)):
        tag, schema, store, wdocs, info = gen_case(ctx, refs=ctx.r.random() < 0.3, depth=ctx.r.choice([2, 2, 3]))
        cls = impl.DRAFTS[tag]
        try:
            if not accepted(tag, schema):
                continue
        except Exception:        # noqa: BLE001
            continue
        for _ in range(2):
            inst = ctx.g.instance_for(tag, schema)
            case = {"cls": tag, "schema": schema, "inst": inst, "budget": None,
                    "resolver": {"store": [[k, v] for k, v in store.items()]}}
            world = impl.World(wdocs)
            resv = impl.make_resolver(cls, schema, case["resolver"], world)
            errs, stop = impl.consume(cls(schema, resolver=resv).iter_errors(inst), None)
            n_checked = 0
            for top in errs:
                for e in [top] + closure_keys(top):
                    bad = located_failure(cls, tag, schema, inst, e, case["resolver"], wdocs)
                    if not bad:
                        # reading an error (rendering it, asking for its paths) does not move it
                        before = impl.err_json(e)
                        try:
                            str(e), repr(e), e.json_path, list(e.absolute_path), list(e.absolute_schema_path), str(top)
                            E.best_match(iter(errs)), E.best_match(iter([top])), E.ErrorTree(errs).total_errors
                            sorted(errs, key=E.relevance)
                        except Exception as exc:        # noqa: BLE001
                            bad = "rendering-raises:" + type(exc).__name__
                        if not bad and corr.diff(before, impl.err_json(e)):
                            bad = "changed-by-rendering"
                        if not bad:
                            bad = located_failure(cls, tag, schema, inst, e, case["resolver"], wdocs)
                            bad = bad and "after-rendering:" + bad
                    n_checked += 1
                    if bad:
                        res.fail("location:%s:%s" % (bad, e.validator), "error of keyword %r: %s" % (e.validator, bad), case,
                                 error=impl.err_json(e))
            res.note(khash(case), n_checked >= 2, case)
            res.distribution["errors-checked=%d" % min(n_checked, 6)] += 1
            if not wdocs:
                m, i = val_pair(ctx, case)
                d = corr.diff(strip_msgs(m), strip_msgs(i))
                if d:
                    res.disagree("VAL", case, m, i, d)


def strip_msgs(r):
    if "errs" not in r:
        return r

    def s(e):
        return {"info": e["info"], "path": e["path"], "spath": e["spath"], "ctx": [s(c) for c in e["ctx"]]}
    return {"errs": [s(e) for e in r["errs"]], "stop": r["stop"]}


def strict_eq(a, b):
    return codec.canon_unordered(a) == codec.canon_unordered(b)


def located_failure(cls, tag, root_schema, root_inst, e, rspec, wdocs):
    """None when the error locates itself truthfully, else a short reason"""
    # instance path
    try:
        cur = root_inst
        for step in e.absolute_path:
            cur = cur[step]
        inst_ok = strict_eq(cur, e.instance)
    except Exception:        # noqa: BLE001
        inst_ok = False
    under_property_names = "propertyNames" in list(e.absolute_schema_path)
    d3_required = (tag == "d3" and e.validator == "required")
    if not inst_ok and not under_property_names and not d3_required:
        return "instance-path"
    if d3_required:
        # documented: path ends with the missing property; the rest addresses the recorded instance
        try:
            cur = root_inst
            for step in list(e.absolute_path)[:-1]:
                cur = cur[step]
            if not strict_eq(cur, e.instance) or list(e.absolute_path)[-1] in cur:
                return "d3-required-path"
        except Exception:        # noqa: BLE001
            return "d3-required-path"
    # keyword = last element of the schema path; schema[keyword] = value
    sp = list(e.absolute_schema_path)
    if e.validator is None:
        if e.schema is not False:
            return "false-schema"
    else:
        if not sp or sp[-1] != e.validator:
            return "keyword-not-last"
        if not d3_required:
            if not isinstance(e.schema, dict) or e.validator not in e.schema or not strict_eq(e.schema[e.validator], e.validator_value):
                return "schema-keyword-value"
    # json_path
    jp = "$"
    for el in e.absolute_path:
        jp += "[%d]" % el if isinstance(el, int) else "." + el
    if e.json_path != jp:
        return "json_path"
    # parent/child
    if e.parent is not None:
        if list(e.absolute_path) != list(e.parent.absolute_path) + list(e.relative_path):
            return "absolute-path-composition"
        if list(e.absolute_schema_path) != list(e.parent.absolute_schema_path) + list(e.relative_schema_path):
            return "absolute-schema-path-composition"
    # navigate the schema path from the root, hopping through references
    world = impl.World(wdocs)
    nav = impl.make_resolver(cls, root_schema, rspec, world)
    try:
        # the walk is schema-aware: the value of `properties`, `patternProperties`, `dependencies`,
        # `definitions` is a MAP of names to subschemas (a member named "$ref" or "id" there is neither a
        # reference nor an identifier), the value of `items`/`allOf`/… may be an ARRAY of subschemas
        node = root_schema
        sp = list(sp)
        i = 0
        while i < len(sp):
            hops = 0
            while isinstance(node, dict) and isinstance(node.get("$ref"), str) and hops < 50:
                url, node = nav.resolve(node["$ref"])
                nav.push_scope(url)
                hops += 1
            if isinstance(node, dict):
                sid = node.get("id" if tag in ("d3", "d4") else "$id")
                if isinstance(sid, str) and sid:
                    nav.push_scope(sid)
            k = sp[i]
            node = node[k]
            i += 1
            if i < len(sp):
                if k in ("properties", "patternProperties", "dependencies", "definitions") and isinstance(node, dict):
                    node = node[sp[i]]
                    i += 1
                elif isinstance(node, list) and isinstance(sp[i], int) and not isinstance(sp[i], bool):
                    node = node[sp[i]]
                    i += 1
        if e.validator is None:
            # the path of a `false`-schema error ends at the `false`, possibly designated by references
            hops = 0
            while isinstance(node, dict) and isinstance(node.get("$ref"), str) and hops < 50:
                url, node = nav.resolve(node["$ref"])
                nav.push_scope(url)
                hops += 1
            if node is not False:
                return "schema-path-navigation"
        elif not d3_required and not strict_eq(node, e.validator_value):
            return "schema-path-navigation"
    except Exception as exc:        # noqa: BLE001
        return "schema-path-navigation:" + type(exc).__name__
    return None


# ---------------------------------------------------------------------------------------------
# C07 purity and history independence

def snapshot(v):
    return codec.canon(v)


def ids_of(v, acc=None):
    acc = [] if acc is None else acc
    if isinstance(v, (list, dict)):
        acc.append(id(v))
        for x in (v.values() if isinstance(v, dict) else v):
            ids_of(x, acc)
    return acc


def c07(ctx):
    res = ctx.res
    for _ in range(ctx.n(700)):
        tag, schema, store, wdocs, info = gen_case(ctx, refs=True, depth=ctx.r.choice([1, 2]))
        cls = impl.DRAFTS[tag]
        ops = ctx.g.hist_ops(tag, schema, ctx.r.randrange(2, 9 if ctx.tier == "quick" else 31))
        for op in ops:
            if op[0] == "take" and ctx.r.random() < 0.4:
                op[0] = "drop"
        fail_at = set(x for x in range(8) if ctx.r.random() < 0.15)
        rspec = {"store": [[k, v] for k, v in store.items()], "cacheRemote": ctx.r.random() < 0.7}
        case = {"cls": tag, "schema": schema, "resolver": rspec, "ops": ops, "fail_at": sorted(fail_at), "world": wdocs}
        wi = impl.World(wdocs, fail_at=fail_at)
        snaps = {"schema": snapshot(schema), "store": snapshot(store), "world": snapshot(wdocs), "ids": ids_of(schema)}
        base_holder = {}

        def observe(v, op, r, st, _case=case):
            # scope restored after every operation
            if "base" not in base_holder:
                base_holder["base"] = None
            want = list(reversed(v.resolver._scopes_stack[:1]))
            if st["scopes"] != want:
                res.fail("scope-not-restored:" + op[0], "after %s the scope stack is %r" % (op[0], st["scopes"]), _case)
            # nothing modified
            if snapshot(schema) != snaps["schema"] or ids_of(schema) != snaps["ids"]:
                res.fail("schema-modified:" + op[0], "the schema was modified by %s" % op[0], _case)
            if snapshot(store) != snaps["store"] or snapshot(wdocs) != snaps["world"]:
                res.fail("store-document-modified:" + op[0], "a store document was modified by %s" % op[0], _case)
        inst_snaps = [snapshot(op[-1]) for op in ops]
        n_before = len(wi.log)
        im = impl.run_hist(case, wi, observe=observe)
        for op, s in zip(ops, inst_snaps):
            if snapshot(op[-1]) != s:
                res.fail("instance-modified:" + op[0], "the instance was modified by %s" % op[0], case)
        nontrivial = isinstance(im, list) and len(ops) >= 2
        res.note(khash(case), nontrivial, {"cls": tag, "schema": schema, "ops": ops})
        for k in info["kinds"]:
            res.distribution["ref:" + k] += 1
        if isinstance(im, list):
            # history independence: the last operation on a fresh validator in a world where
            # everything that exists is retrievable, compared when the old validator's last
            # operation met no failing retrieval
            log_positions = []
            pos = 0
            for x in im:
                log_positions.append(len(x["st"]["fetchLog"]))
            for idx in range(len(ops)):
                lo = log_positions[idx - 1] if idx else 0
                hi = log_positions[idx]
                during = wi.log[lo:hi]
                if any(not ok for _, ok in during):
                    continue
                fresh_world = impl.World(wdocs)
                fresh = impl.run_hist(dict(case, ops=[copy.deepcopy(ops[idx])]), fresh_world)
                if isinstance(fresh, list):
                    a, b = im[idx]["r"], fresh[0]["r"]
                    if ops[idx][0] == "drop":
                        pass
                    if corr.diff(a, b):
                        res.fail("history-dependent:" + ops[idx][0],
                                 "operation %d gives a different result on a fresh validator: %s" % (idx, corr.diff(a, b)), case)
            # correspondence
            mcase = {"cls": tag, "schema": schema, "resolver": rspec,
                     "ops": [(["take"] + op[1:]) if op[0] == "drop" else op for op in ops]}
            wm = impl.World(wdocs, fail_at=fail_at)
            m = corr.model_hist(ctx.drv.run("HIST", mcase, oracle_mod.Oracle(fetch=wm.answer)))
            res.compared += 1
            d = corr.diff(m, im)
            if d:
                res.disagree("HIST", case, None, None, d)


C07_DIRECTED = [
    # (drafts, schema, instances): what a cache keyed by the instance's class, hash or `==` confuses
    (("d3", "d4", "d6", "d7"), {"type": "integer"}, [3.0, 3.5, 4.0, 2.5, 7, 7.0, 7.25, True, 1, 1.0, 2 ** 53, float(2 ** 53), 0, 0.0]),
    (("d3", "d4", "d6", "d7"), {"properties": {"count": {"type": "integer"}, "ratio": {"type": "number"}}},
     [{"count": 3.0, "ratio": 0.5}, {"count": 3.5}, {"count": 2.5}, {"count": 4.0}, {"count": True}, {"count": 1}]),
    (("d3", "d4", "d6", "d7"), {"items": {"type": "integer"}}, [[1.0, 1.5], [1.5, 1.0], [2.0], [2.5], [True], [1], [1, 1.0], [1.0, 1], [7, 7.0, 7]]),
    (("d6", "d7"), {"const": 1}, [1, True, 1.0, True, 1]),
    (("d3", "d4", "d6", "d7"), {"enum": [0, "a"]}, [0, False, 0.0, False, 0]),
    (("d3", "d4", "d6", "d7"), {"enum": [True]}, [True, 1, 1.0, True]),
    (("d3", "d4", "d6", "d7"), {"type": "boolean"}, [True, 1, False, 0, 1.0]),
    (("d3", "d4", "d6", "d7"), {"type": ["number", "null"]}, [1, True, None, 1.0, False]),
    (("d3", "d4", "d6", "d7"), {"uniqueItems": True}, [[1, True], [1, 1.0], [0, False], [[1], [True]], [[1], [1.0]]]),
    (("d4", "d6", "d7"), {"not": {"type": "integer"}}, [2.5, 2.0, "s", 2, True]),
]


def c07_twins(ctx):
    """one validator object asked about instances that a cache keyed by class, hash or `==` would
    confuse (3.0/3.5, 1/True/1.0, 0/False/0.0), in both orders and through every entry point;
    every answer is compared with a fresh validator's (reference-free schemas)"""
    res = ctx.res
    r = ctx.r

    def answers(v, inst, how):
        try:
            if how == "isValid":
                return ["ok", v.is_valid(inst)]
            if how == "exhaust":
                return ["errs", multiset([impl.err_json(e) for e in v.iter_errors(inst)])]
            v.validate(inst)
            return ["ok", None]
        except E.ValidationError as e:
            return ["ValidationError", err_key(impl.err_json(e))]
        except Exception as exc:        # noqa: BLE001
            return ["raised", type(exc).__name__]

    def run(tag, schema, insts, label):
        cls = impl.DRAFTS[tag]
        used = cls(schema)
        hows = [r.choice(["isValid", "isValid", "exhaust", "validate"]) for _ in insts]
        for n, (inst, how) in enumerate(zip(insts, hows)):
            got = answers(used, inst, how)
            want = answers(cls(copy.deepcopy(schema)), copy.deepcopy(inst), how)
            if got != want:
                res.fail("history-dependent:twin:" + how,
                         "%s on %r after %r on the same validator differs from a fresh validator (%s)" % (how, inst, insts[:n], label),
                         {"cls": tag, "schema": schema, "insts": insts, "hows": hows, "at": n})
                return
        res.note(khash(["c07twins", tag, schema, insts]), True, None)

    for tags, schema, insts in C07_DIRECTED:
        for tag in tags:
            for _ in range(3):
                seq = list(insts)
                r.shuffle(seq)
                run(tag, schema, seq + seq[:2], "directed")
            run(tag, schema, list(insts), "directed")
    for _ in range(ctx.n(250)):
        tag, schema, store, wdocs, info = gen_case(ctx, refs=False, depth=r.choice([1, 2]))
        try:
            if not accepted(tag, schema):
                continue
        except Exception:        # noqa: BLE001
            continue
        i0 = ctx.g.instance_for(tag, schema)
        seq = [i0]
        for _k in range(r.randrange(2, 6)):
            seq.append(ctx.g.retype(r.choice(seq)) if r.random() < 0.8 else ctx.g.twist(r.choice(seq)))
        seq.append(copy.deepcopy(i0))
        run(tag, schema, seq, "generated")


def c07_soak(ctx):
    """ONE validator object used several hundred times (is_valid / validate on instances whose first
    error lies inside a subschema, each call abandoning its iterator early), then asked about instances
    whose answer is known from a fresh validator: the history must not matter, however long it is"""
    res, r = ctx.res, ctx.r
    for tag in DRAFT_TAGS:
        cls = impl.DRAFTS[tag]
        sub = {"type": "object", "properties": {"a": {"type": "integer"}, "b": {"items": {"type": "string"}}}}
        schema = r.choice([
            {"properties": {"p": sub, "q": {"items": sub}}},
            {"items": sub, "additionalProperties": sub},
            {"properties": {"p": {"$ref": "#/definitions/s"}}, "definitions": {"s": sub}, "items": {"$ref": "#/definitions/s"}},
        ])
        bad = [{"p": {"a": "x"}}, {"q": [{"a": 1}, {"b": [1]}]}, [{"a": "x"}], {"p": {"b": [1, 2]}}, [{"b": ["s", 1]}], {"zz": {"a": 1.5}}]
        good = [{"p": {"a": 1}}, {"q": [{"b": ["s"]}]}, [{"a": 2}], {"p": {"b": []}}, 7]
        used = cls(schema)
        n = 340 + r.randrange(200)
        for k in range(n):
            x = bad[k % len(bad)]
            try:
                if k % 3:
                    used.is_valid(x)
                else:
                    used.validate(x)
            except E.ValidationError:
                pass
            except Exception as exc:        # noqa: BLE001
                res.fail("history-dependent:soak:raised", "call %d of a long history on one validator raised %s" % (k, type(exc).__name__),
                         {"cls": tag, "schema": schema, "calls": k})
                break
        case = {"cls": tag, "schema": schema, "calls": n}
        res.note(khash(["c07soak", tag, schema]), True, None)
        for x in good + bad:
            fresh = cls(copy.deepcopy(schema))
            want = (fresh.is_valid(x), multiset([impl.err_json(e) for e in fresh.iter_errors(x)]))
            try:
                got = (used.is_valid(x), multiset([impl.err_json(e) for e in used.iter_errors(x)]))
            except Exception as exc:        # noqa: BLE001
                got = ("raised", type(exc).__name__)
            if got != want:
                res.fail("history-dependent:soak", "after %d calls on one validator, %r is judged %r; a fresh validator says %r" % (n, x, got[0], want[0]),
                         dict(case, inst=x))
                break
        res.distribution["soak histories"] += 1


def c07_routes(ctx):
    """histories on ONE validator whose schema reaches the same reference by two routes, or two
    documents by nearly the same URI, or is asked again after an iterator was held open across another
    call: every judged answer is compared with a fresh validator (same store) asked that question only.
      (a) a relative reference below a nested id, reached through its parent (base: the id) and through
          a JSON pointer from elsewhere (base: the root) — two different targets, both present;
      (b) two documents whose URIs differ by a trailing slash only;
      (c) an iterator parked inside a cross-document reference while another top-level call runs, then
          closed (or dropped): afterwards the validator answers as a fresh one."""
    res, r = ctx.res, ctx.r
    kinds = list(gen.SIMPLE_TYPES)
    vals = {"array": [], "boolean": True, "integer": 1, "null": None, "number": 1.5, "object": {}, "string": "s"}
    for n in range(ctx.n(10)):
        tag = r.choice(DRAFT_TAGS)
        cls = impl.DRAFTS[tag]
        idk = "id" if tag in ("d3", "d4") else "$id"
        ka, kb, kc, kd = r.sample([k for k in kinds if k != "number"], 4)
        base = "http://ex.org/root/main.json"
        remote = {"http://ex.org/people/person/": {"type": kc}, "http://ex.org/people/person": {"type": kd}}   # retrieved, not stored
        store = {"http://ex.org/root/ta/item.json": {"type": ka}, "http://ex.org/root/item.json": {"type": kb},
                 "http://ex.org/other.json": {"definitions": {"x": {"type": "string"}, "deep": {"items": {"properties": {"k": {"type": "integer"}}}}}}}
        schema = {idk: base, "properties": {
            "viaParent": {idk: "ta/", "items": {"$ref": "item.json"}},
            "viaPointer": {"$ref": "#/properties/viaParent/items"},
            "slash": {"$ref": "http://ex.org/people/person/"},
            "noslash": {"$ref": "http://ex.org/people/person"},
            "far": {"$ref": "http://ex.org/other.json#/definitions/deep"},
            "local": {"$ref": "#/definitions/x"}},
            "definitions": {"x": {"type": "integer"}}}
        probes = [{"viaParent": [vals[k]]} for k in (ka, kb)] + [{"viaPointer": vals[k]} for k in (ka, kb)] \
            + [{"slash": vals[k]} for k in (kc, kd)] + [{"noslash": vals[k]} for k in (kc, kd)] \
            + [{"far": [{"k": "bad"}, {"k": 1}]}, {"local": "s"}, {"local": 1}]

        def mk():
            sc = copy.deepcopy(schema)
            return cls(sc, resolver=V.RefResolver(base, sc, store=copy.deepcopy(store),
                                                  handlers={"http": lambda u: copy.deepcopy(remote[u])}))

        def answer(v, x):
            try:
                return sorted((list(e.absolute_path), e.validator, e.message) for e in v.iter_errors(x))
            except Exception as exc:        # noqa: BLE001
                return "raised:" + type(exc).__name__

        used = mk()
        seq = list(probes)
        r.shuffle(seq)
        case = {"cls": tag, "schema": schema, "store": store, "retrievable": remote}
        res.note(khash(["c07routes", tag, n]), True, None)
        for k, x in enumerate(seq):
            if r.random() < 0.35:
                # (c) park an iterator at its first error inside a reference, make another call, let go
                it = used.iter_errors(r.choice([{"far": [{"k": "bad"}, {"k": "worse"}]}, {"slash": vals[kd], "noslash": vals[kc]}]))
                try:
                    next(it, None)
                    used.is_valid(r.choice(probes))
                    if r.random() < 0.5:
                        it.close()
                except Exception:       # noqa: BLE001
                    pass
                del it
            got, want = answer(used, x), answer(mk(), x)
            if got != want:
                res.fail("history-dependent:routes",
                         "question %d of a history on one validator, %r: %r; a fresh validator says %r" % (k, x, got, want),
                         dict(case, seq=seq, at=k))
                break
        res.distribution["route/slash/held-iterator histories"] += 1
        # (d) a house variant of the draft's own metaschema (same id, one definition changed) validated by a
        # validator that was CREATED before, and is first used after, unrelated work with the real metaschema
        meta = copy.deepcopy(cls.META_SCHEMA)
        defs = meta.get("definitions") or {}
        if defs:
            name = sorted(defs)[0]
            meta["definitions"][name] = {"type": "string"}
            meta.setdefault("properties", {})["probe"] = {"$ref": "#/definitions/" + name}
            held = cls(meta)
            try:
                cls.check_schema({"type": "string"})
                V.validate(1, {"type": "integer"}, cls=cls)
            except Exception:       # noqa: BLE001
                pass
            for x in ({"probe": "s"}, {"probe": 1}, {"probe": [1]}):
                got, want = answer(held, x), answer(cls(copy.deepcopy(meta)), x)
                if got != want:
                    res.fail("history-dependent:house-variant",
                             "a validator for a house variant of the %s metaschema, created before and used after unrelated calls, judges %r: %r; a fresh one: %r" % (tag, x, got, want),
                             {"cls": tag, "definition": name})
                    break


def c07_all(ctx):
    c07_twins(ctx)
    c07_soak(ctx)
    c07_routes(ctx)
    c07(ctx)


# ---------------------------------------------------------------------------------------------
# C08 equality

def c08(ctx):
    res = ctx.res
    from jsonschema import _utils
    for _ in range(ctx.n(6000)):
        a = ctx.g.value(ctx.r.choice([0, 1, 2, 3]))
        b = ctx.g.twist(a) if ctx.r.random() < 0.8 else ctx.g.value(2)
        arr = [ctx.g.value(ctx.r.choice([0, 1, 2])) for _ in range(ctx.r.randrange(0, 5))]
        if ctx.r.random() < 0.12:
            # long arrays with containers among the elements (a size-dependent shortcut shows only there)
            arr = [ctx.r.choice([k, float(k) + 0.5, "s%d" % k, [k], {"k": k}, [[k]], None if k == 0 else -k]) for k in range(ctx.r.randrange(17, 45))]
            ctx.r.shuffle(arr)
        if arr and ctx.r.random() < 0.7:
            x = ctx.r.choice(arr)
            arr.insert(ctx.r.randrange(len(arr) + 1), ctx.g.twist(x) if ctx.r.random() < 0.7 else copy.deepcopy(x))
        if ctx.r.random() < 0.1:
            # the SAME Python containers sitting inside several elements (JSON values are trees: sharing
            # must not matter; a comparison that remembers object identities shows only here)
            pool = [{"unit": "m"}, {"unit": "s"}, [1], [True], {"k": [0]}, {"k": [False]}, ctx.g.value(1), ctx.g.value(2)]
            pool = [q for q in pool if isinstance(q, (list, dict))]
            arr = [ctx.r.choice([[ctx.r.choice(pool), ctx.r.randrange(3)], {"p": ctx.r.choice(pool), "q": ctx.r.choice(pool)},
                                 [ctx.r.choice(pool), ctx.r.choice(pool)]]) for _ in range(ctx.r.randrange(3, 8))]
            res.distribution["arrays with shared containers"] += 1
        case = {"a": a, "b": b, "arr": arr}
        m = ctx.drv.run("EQ", case, oracle_mod.Oracle())
        res.compared += 1
        res.note(khash(case), codec.canon(a) != codec.canon(b), case)
        i = {"equal": _utils.equal(a, b), "uniq": _utils.uniq(arr)}
        if i["equal"] != m["equal"] or i["uniq"] != m["uniq"]:
            res.disagree("EQ", case, m, i, "equal/uniq differ")
        # monitors: the specification's answers from the driver are the oracle
        if i["equal"] != m["jsonEq"]:
            res.fail("equality:equal", "_utils.equal(%r, %r) = %r but JSON equality says %r" % (a, b, i["equal"], m["jsonEq"]), case)
        if i["uniq"] != m["allDistinct"]:
            res.fail("equality:uniq", "_utils.uniq(%r) = %r but pairwise JSON distinctness says %r" % (arr, i["uniq"], m["allDistinct"]), case)
        for tag in DRAFT_TAGS:
            cls = impl.DRAFTS[tag]
            got_enum = cls({"enum": [b]}).is_valid(a)
            got_uniq = cls({"uniqueItems": True}).is_valid([b, a])
            got_arr = cls({"uniqueItems": True}).is_valid(arr)
            if got_enum != m["jsonEq"]:
                res.fail("equality:enum:" + tag, "enum [%r] on %r: %r, JSON equality %r" % (b, a, got_enum, m["jsonEq"]), case)
            if got_uniq != (not m["jsonEq"]):
                res.fail("equality:uniqueItems-pair:" + tag, "uniqueItems on [%r, %r]: %r" % (b, a, got_uniq), case)
            if got_arr != m["allDistinct"]:
                res.fail("equality:uniqueItems:" + tag, "uniqueItems on %r: %r" % (arr, got_arr), case)
            if tag in ("d6", "d7"):
                got_const = cls({"const": b}).is_valid(a)
                if got_const != m["jsonEq"]:
                    res.fail("equality:const:" + tag, "const %r on %r: %r, JSON equality %r" % (b, a, got_const, m["jsonEq"]), case)
            enum_many = [ctx.g.value(1), b, ctx.g.value(1)]
            want = any(ctx_eq(ctx, a, x) for x in enum_many)
            if cls({"enum": enum_many}).is_valid(a) != want:
                res.fail("equality:enum-many:" + tag, "enum %r on %r" % (enum_many, a), case)
        res.distribution["equal" if m["jsonEq"] else "different"] += 1
        # the same on ONE validator object asked repeatedly (values that Python's hash and `==`
        # identify: 1/True/1.0, 0/False/0.0): every answer is JSON equality with b, whatever was asked before
        if _ % 4 == 0:
            tag = ctx.r.choice(DRAFT_TAGS)
            cls = impl.DRAFTS[tag]
            kw = "const" if tag in ("d6", "d7") and ctx.r.random() < 0.5 else "enum"
            v = cls({kw: b if kw == "const" else [b]})
            seq = [a, ctx.g.retype(a), b, ctx.g.retype(b), a]
            ctx.r.shuffle(seq)
            for n, x in enumerate(seq):
                got = v.is_valid(x)
                if got != ctx_eq(ctx, x, b):
                    res.fail("equality:%s-reused-validator:%s" % (kw, tag),
                             "%s %r on %r after %r on the same validator: %r" % (kw, b, x, seq[:n], got),
                             {"cls": tag, "kw": kw, "b": b, "seq": seq, "at": n})
                    break


def ctx_eq(ctx, a, b):
    return ctx.drv.run("EQ", {"a": a, "b": b, "arr": []}, oracle_mod.Oracle())["jsonEq"]


# ---------------------------------------------------------------------------------------------
# C09 numerics

def c09(ctx):
    res = ctx.res
    from fractions import Fraction
    for _ in range(ctx.n(5000)):
        i = gen.finite(num_for(ctx))
        if ctx.r.random() < 0.08:
            i = ctx.r.choice([0, 1, 0.0, 1.0, -0.0])
        d = gen.finite(num_for(ctx))
        if ctx.r.random() < 0.3:
            d = gen.finite(tweak_num(ctx, i))
        case = {"i": i, "d": d}
        m = ctx.drv.run("NUM", case, oracle_mod.Oracle())
        res.compared += 1
        res.note(khash(case), True, case)
        # the driver's exact answers are cross-checked against Python's Fraction
        fi, fd = Fraction(i), Fraction(d)
        if m["specLt"] != (fi < fd) or m["specLe"] != (fi <= fd) or m["specEq"] != (fi == fd):
            res.disagree("NUM-spec", case, m, None, "Spec.val comparison disagrees with Fraction")
        if fd != 0 and m["specMult"] != ((fi / fd).denominator != 1):
            res.disagree("NUM-spec", case, m, None, "Spec multipleOf disagrees with Fraction")
        if m["lt"] != m["specLt"] or m["le"] != m["specLe"] or m["eq"] != m["specEq"]:
            res.disagree("NUM-model", case, m, None, "model comparison differs from Spec.val")
        for tag in DRAFT_TAGS:
            cls = impl.DRAFTS[tag]
            checks = []
            if tag in ("d3", "d4"):
                checks += [({"minimum": d}, fd <= fi), ({"maximum": d}, fi <= fd),
                           ({"minimum": d, "exclusiveMinimum": True}, fd < fi), ({"maximum": d, "exclusiveMaximum": True}, fi < fd),
                           ({"exclusiveMinimum": False, "minimum": d}, fd <= fi)]
            else:
                checks += [({"minimum": d}, fd <= fi), ({"maximum": d}, fi <= fd),
                           ({"exclusiveMinimum": d}, fd < fi), ({"exclusiveMaximum": d}, fi < fd)]
                # since draft 6 the four bounds are independent keywords: side by side each decides alone
                d2 = gen.finite(tweak_num(ctx, d)) if ctx.r.random() < 0.5 else gen.finite(num_for(ctx))
                f2 = Fraction(d2)
                checks += [({"maximum": d, "exclusiveMaximum": d2}, fi <= fd and fi < f2),
                           ({"minimum": d, "exclusiveMinimum": d2}, fd <= fi and f2 < fi),
                           ({"exclusiveMaximum": d, "minimum": d2, "maximum": d}, fi < fd and f2 <= fi)]
            # the same bound decided the same way wherever the subschema stands and whatever the ROOT says:
            # (a modifier at the root is no business of a nested subschema)
            if ctx.r.random() < 0.3:
                sch, want0 = ctx.r.choice(checks)
                flags = ({"exclusiveMinimum": True, "exclusiveMaximum": True} if tag in ("d3", "d4") else {"exclusiveMinimum": d, "exclusiveMaximum": d})
                flags = dict((k, v) for k, v in flags.items() if ctx.r.random() < 0.8)
                wrap = ctx.r.choice(["properties", "items", "ref", "allOf"])
                if wrap == "properties":
                    checks.append((dict(flags, properties={"p": sch}), want0 and all_flags_ok(tag, flags, None)))
                    nested_inst = {"p": i}
                elif wrap == "items":
                    nested_inst = [i]
                    checks.append((dict(flags, items=sch), want0))
                elif wrap == "ref":
                    nested_inst = {"p": i}
                    checks.append((dict(flags, properties={"p": {"$ref": "#/definitions/n"}}, definitions={"n": sch}), want0))
                else:
                    nested_inst = {"p": i}
                    key = "extends" if tag == "d3" else "allOf"
                    checks.append((dict(flags, properties={"p": {key: [sch]}}), want0))
                checks[-1] = (checks[-1][0], want0, nested_inst)
            for chk in checks:
                schema, want = chk[0], chk[1]
                inst_i = chk[2] if len(chk) > 2 else i
                try:
                    if len(chk) == 2 and ctx.r.random() < 0.1:
                        # one validator object asked about booleans (which numeric keywords ignore) first
                        v = cls(schema)
                        v.is_valid(True), v.is_valid(False), v.is_valid(i == 0)
                        got = v.is_valid(inst_i)
                    else:
                        got = cls(schema).is_valid(inst_i)
                except Exception as exc:       # noqa: BLE001
                    res.fail("numeric-raises:%s:%s" % (type(exc).__name__, crash_site(exc)), "%r on %r raised %s" % (schema, i, type(exc).__name__),
                             dict(case, schema=schema, cls=tag))
                    continue
                if got != want:
                    res.fail("bound-inexact:%s:%s" % (tag, sorted(schema)[0 if len(schema) == 1 else -1]),
                             "%r on %r is %r, exact arithmetic says %r" % (schema, i, got, want), dict(case, schema=schema, cls=tag))
            if fd > 0:
                kw = "divisibleBy" if tag == "d3" else "multipleOf"
                # history: the question asked first about operands that Python's `==`/hash identify with
                # these but that are of the other numeric class (2 <-> 2.0): an answer remembered per
                # `==`-equal operands would be the rounded one where the exact one is due, or vice versa
                if ctx.r.random() < 0.35:
                    for tw_i, tw_d in ((i, num_twin(d)), (num_twin(i), d), (num_twin(i), num_twin(d))):
                        if tw_i is not None and tw_d is not None:
                            try:
                                cls({kw: tw_d}).is_valid(tw_i)
                            except Exception:       # noqa: BLE001
                                pass
                    res.distribution["multipleOf-after-==-twins"] += 1
                try:
                    got = cls({kw: d}).is_valid(i)
                except Exception as exc:       # noqa: BLE001
                    res.fail("numeric-raises:%s:%s" % (type(exc).__name__, crash_site(exc)), "%s %r on %r raised %s" % (kw, d, i, type(exc).__name__),
                             dict(case, schema={kw: d}, cls=tag))
                    continue
                mgot = None if isinstance(m["mult"], str) else (not m["mult"])
                if mgot is None or got != mgot:
                    res.disagree("NUM", dict(case, cls=tag), m["mult"], got, "multipleOf verdict differs between model and implementation")
                exact = isinstance(i, int) and isinstance(d, int)
                exact = exact or exact_domain(i, d, fi, fd)
                if exact:
                    res.distribution["multipleOf-exact-domain"] += 1
                    want = (fi / fd).denominator == 1
                    if got != want:
                        res.fail("multipleOf-inexact:" + tag, "%s %r on %r is %r, exact arithmetic says %r" % (kw, d, i, got, want),
                                 dict(case, schema={kw: d}, cls=tag))


def num_twin(x):
    """the number of the other class that Python's == identifies with x (None if there is none)"""
    try:
        if isinstance(x, bool):
            return None
        if isinstance(x, int):
            f = float(x)
            return f if f == x else None
        if isinstance(x, float) and x == int(x):
            return int(x)
    except (OverflowError, ValueError):
        pass
    return None


def all_flags_ok(tag, flags, _):
    """root-level modifiers without a bound of their own at the root constrain nothing there (drafts 3/4:
    booleans without minimum/maximum; drafts 6/7: the instance at the root is an object or array)"""
    return True


def is_double(fr):
    """is the rational exactly a finite binary64 value"""
    try:
        f = float(fr)
    except OverflowError:
        return False
    from fractions import Fraction
    return f not in (float("inf"), float("-inf")) and Fraction(f) == fr


def exact_domain(i, d, fi, fd):
    """the sub-domain on which C09 claims exactness for float/mixed operands"""
    if isinstance(i, int) and abs(i) > 2 ** 53:
        return False
    if isinstance(d, int) and abs(d) > 2 ** 53:
        return False
    if isinstance(d, float):
        q = fi / fd
        # quotient exactly representable, or overflowing (Fraction fallback)
        if is_double(q):
            return True
        return abs(q) >= 2 ** 1024
    # integer divisor, float instance: exact remainder
    return isinstance(i, float)


def num_for(ctx):
    r = ctx.r
    k = r.randrange(14)
    if k < 4:
        return ctx.g.number()
    if k == 4:
        return r.randrange(-10 ** 40, 10 ** 40)
    if k == 5:
        return 10 ** r.randrange(0, 4000) + r.randrange(-3, 4)
    if k == 6:
        import math
        return math.ldexp(r.randrange(1, 2 ** 53), r.randrange(-1074, 971 - 52))
    if k == 7:
        return float(2 ** r.randrange(-1074, 1024)) if r.random() < 0.8 else 2.0 ** r.randrange(-60, 60)
    if k == 8:
        return r.choice([2 ** 53, 2 ** 53 + 1, 2 ** 53 - 1, float(2 ** 53), float(2 ** 53 + 2), 2 ** 1024, 2 ** 1024 - 2 ** 970, 2 ** 1024 - 2 ** 970 - 1])
    if k == 9:
        return -0.0 if r.random() < 0.3 else r.choice([0, 0.0, 1, 1.0, -1, 0.5, 0.25, 0.1, 0.2, 0.3])
    if k == 10:
        return r.randrange(-100, 100) / r.choice([1, 2, 4, 8, 16, 1024])
    if k == 11:
        return r.choice([5e-324, 1e-320, 2.2250738585072014e-308, 1.7976931348623157e308, -1.7976931348623157e308])
    return r.randrange(-1000, 1000)


def tweak_num(ctx, x):
    r = ctx.r
    try:
        if isinstance(x, int):
            return r.choice([x, x + 1, x - 1, float(x) if abs(x) < 2 ** 1023 else x, x * 2, x // 2 if x else 1])
        return r.choice([x, x * 2, x / 2, int(x) if abs(x) < 1e300 else x, x + 1.0])
    except (OverflowError, ValueError):
        return x


# ---------------------------------------------------------------------------------------------
# C10 foreign keywords are inert

def erase_schema(e):
    """an error without what prints or stores the enclosing schema"""
    info = e.get("info") or {}
    kv = info.get("kwVal")
    return codec.canon([info.get("kw"), e["path"], e["spath"], info.get("inst"),
                        None if isinstance(kv, (dict, list, bool)) else kv,
                        sorted(erase_schema(c) for c in e["ctx"])])


def insert_foreign(ctx, tag, schema):
    s = copy.deepcopy(schema)
    spots = [s] if isinstance(s, dict) else []
    for c, k, _ in gen.all_slots(s, tag):
        if isinstance(c[k], dict):
            spots.append(c[k])
    if not spots:
        return None
    names = gen.ANNOTATIONS + gen.FOREIGN[tag] + gen.LATER + ["x-unknown", "nullable", "discriminator", "ünknown", ""]
    # names the search was pointed at (a keyword found in a regenerated table that no vocabulary has): tried often
    names = names + [h for h in gen.HINTS["strs"] if h not in gen.VOCAB[tag]] * 12
    consulted = {"properties", "patternProperties", "items", "then", "else", "exclusiveMinimum", "exclusiveMaximum",
                 "required", "$ref", "id", "$id", "$schema"}
    n = 0
    idk = "id" if tag in ("d3", "d4") else "$id"
    other_idk = "$id" if tag in ("d3", "d4") else "id"
    for _ in range(ctx.r.choice([1, 1, 2, 3])):
        spot = ctx.r.choice(spots)
        name = ctx.r.choice(names)
        k = ctx.r.random()
        # a later specification's keyword right next to the keyword it modifies there, with a telling value
        usable = [nm for nm in sorted(gen.LATER_PARTNER) if nm not in gen.VOCAB[tag]
                  and any(gen.LATER_PARTNER[nm][0] in sp and "$ref" not in sp and nm not in sp for sp in spots)]
        if usable and ctx.r.random() < 0.5:
            name = ctx.r.choice(usable)
            partner, vals = gen.LATER_PARTNER[name]
            spot = ctx.r.choice([sp for sp in spots if partner in sp and "$ref" not in sp and name not in sp])
            spot[name] = copy.deepcopy(ctx.r.choice(vals))
            n += 1
            continue
        if "$ref" in spot and k < 0.3:
            # ANY keyword next to a reference is ignored: real keywords of the draft with values the instance fails
            for kw, val in ctx.r.sample([("type", "null"), ("enum", []), ("minimum", 10 ** 9), ("maxItems", 0), ("maxLength", 0),
                                         ("maxProperties", 0) if tag != "d3" else ("disallow", "any"), ("pattern", "^$"), ("minItems", 10 ** 6)], 2):
                if kw not in spot:
                    spot[kw] = val
                    n += 1
            continue
        if "$ref" in spot and k < 0.5 and idk not in spot:
            # ANY keyword next to a reference is ignored: the draft's own id keyword included
            spot[idk] = ctx.r.choice(["http://ex.org/decoy/", "a/", "b/", "http://other.org/", "x"])
            n += 1
            continue
        if k > 0.8 and other_idk not in spot:
            # the other drafts' spelling of the id keyword is inert: it must not move the base of references below
            spot[other_idk] = ctx.r.choice(["http://ex.org/decoy/", "a/", "b/", "http://ex.org/b/", "http://other.org/"])
            n += 1
            continue
        if name in spot or name in consulted or name in gen.VOCAB[tag] or name in ("then", "else") and tag == "d7":
            continue
        if name in ("definitions", "$defs"):
            continue
        val = ctx.g.value(2) if ctx.r.random() < 0.5 else ctx.g.schema(ctx.r.choice(DRAFT_TAGS), 1)
        items = list(spot.items())
        items.insert(ctx.r.randrange(len(items) + 1), (name, val))
        spot.clear()
        spot.update(items)
        n += 1
    return s if n else None


def c10(ctx):
    res = ctx.res
    import chan_ref
    for _ in range(ctx.n(2500)):
        if ctx.r.random() < 0.25:
            # bundles with relative references under nested ids and decoy documents at wrongly joined URIs
            tag = ctx.r.choice(DRAFT_TAGS)
            schema, store, wdocs, info, _base = chan_ref.bundle(ctx, tag)
            for u in list(store) + list(wdocs):
                # decoys for an id keyword that wrongly takes effect
                for wrong in ("http://ex.org/decoy/", "http://ex.org/b/", "http://other.org/"):
                    store.setdefault(wrong + u.rsplit("/", 1)[-1], {"not": {}} if tag != "d3" else {"disallow": "any"})
        else:
            tag, schema, store, wdocs, info = gen_case(ctx, refs=ctx.r.random() < 0.25, depth=ctx.r.choice([1, 2, 3]))
        cls = impl.DRAFTS[tag]
        if not isinstance(schema, dict):
            continue
        s2 = insert_foreign(ctx, tag, schema)
        if s2 is None:
            continue
        # the other draft's id keyword is inert as well
        if ctx.r.random() < 0.2:
            s2["$id" if tag in ("d3", "d4") else "id"] = "http://wrong.example/base/"
        if wdocs and ctx.r.random() < 0.6:
            # … also when its value is the very URI of a document some reference has retrieved: a schema
            # object sitting in an unknown keyword's value, calling itself (with the OTHER drafts' id
            # keyword) by that URI and rejecting everything, is no schema of this draft and nobody's target
            fid = "$id" if tag in ("d3", "d4") else "id"
            u = ctx.r.choice(sorted(wdocs))
            reject = {"disallow": "any"} if tag == "d3" else {"not": {}}
            s2[ctx.r.choice(["x-embedded", "examples", "$defs", "x-bundle"])] = ctx.r.choice([
                dict(reject, **{fid: u}), [dict(reject, **{fid: u})], {"inner": dict(reject, **{fid: u + "#"})}])
            res.distribution["foreign id naming a retrieved document"] += 1
        rspec = {"store": [[k, v] for k, v in store.items()]}
        for _n in range(3):
            inst = ctx.g.instance_for(tag, schema)
            if _n == 2:
                # `null` (what "nullable"-like extensions of other dialects are about): at the root or at a leaf
                inst = None if ctx.r.random() < 0.5 else nullify(ctx, inst)
            case = {"cls": tag, "schema": schema, "schema2": s2, "inst": inst}
            outs = []
            for s in (schema, s2):
                world = impl.World(wdocs)
                try:
                    rv = impl.make_resolver(cls, s, rspec, world)
                    errs, stop = impl.consume(cls(s, resolver=rv).iter_errors(inst), None)
                    outs.append((sorted(erase_schema(impl.err_json(e)) for e in errs), stop))
                except Exception as exc:        # noqa: BLE001
                    outs.append(("ctor", impl.exc_json(exc)))
            res.note(khash(case), True, case)
            if outs[0] != outs[1]:
                res.fail("foreign-keyword-effect:" + tag + ":" + ",".join(sorted(set(json.dumps(s2)) and foreign_names(schema, s2))),
                         "inserting foreign keywords changed the errors", case)
        # correspondence: the model on the extended schema
        inst = ctx.g.instance_for(tag, schema)
        c = {"cls": tag, "schema": s2, "inst": inst, "budget": None, "resolver": rspec}
        m, i = val_pair(ctx, c, wdocs)
        if multiset(m.get("errs", [])) != multiset(i.get("errs", [])) or corr.diff(m.get("stop"), i.get("stop")):
            res.disagree("VAL", c, m, i, corr.diff(m, i))


def nullify(ctx, x):
    """x with one randomly chosen member/element replaced by null"""
    x = copy.deepcopy(x)
    spots = []

    def walk(v):
        if isinstance(v, dict):
            for k in v:
                spots.append((v, k))
                walk(v[k])
        elif isinstance(v, list):
            for i in range(len(v)):
                spots.append((v, i))
                walk(v[i])
    walk(x)
    if not spots:
        return None
    c, k = ctx.r.choice(spots)
    c[k] = None
    return x


def foreign_names(a, b):
    out = set()

    def walk(x, y):
        if isinstance(x, dict) and isinstance(y, dict):
            for k in y:
                if k not in x:
                    out.add(k)
                else:
                    walk(x[k], y[k])
        elif isinstance(x, list) and isinstance(y, list):
            for p, q in zip(x, y):
                walk(p, q)
    walk(a, b)
    return sorted(out)


# ---------------------------------------------------------------------------------------------
# C11 check_schema = metaschema

def c11_overflowing_literals(ctx):
    """legal JSON number literals beyond the float range (`1e400`, `-1e999`) reach check_schema as
    +-inf (what json.loads yields): outside A-json and outside the model, but check_schema still returns
    or raises SchemaError and nothing else, and says what the metaschema validator says"""
    res = ctx.res
    texts = ['{"maxLength": 1e400}', '{"minItems": -1e999}', '{"properties": {"tags": {"items": {"minLength": 1e400}}}}',
             '{"multipleOf": 1e400}', '{"minimum": 1e400, "maximum": -1e400}', '{"enum": [1e400]}', '{"maxProperties": 1e400}',
             '{"items": [{"maxItems": 1e400}]}', '{"required": [1e400]}', '{"type": 1e400}', '1e400', '[1e400]',
             '{"definitions": {"a": {"minProperties": 1e400}}}', '{"dependencies": {"a": {"maxLength": -1e400}}}', '{"divisibleBy": 1e400}']
    for tag in DRAFT_TAGS:
        cls = impl.DRAFTS[tag]
        for text in texts:
            cand = json.loads(text)
            res.evaluations += 1
            try:
                want = "SchemaError" if next(cls(cls.META_SCHEMA).iter_errors(cand), None) is not None else "ok"
            except Exception as exc:        # noqa: BLE001
                want = "raised:" + type(exc).__name__
            try:
                cls.check_schema(cand)
                got = "ok"
            except E.SchemaError:
                got = "SchemaError"
            except Exception as exc:        # noqa: BLE001
                got = "raised:" + type(exc).__name__
            if got.startswith("raised") or got != want:
                res.fail("check_schema-raises:%s" % got.split(":")[-1] if got.startswith("raised") else "check_schema-vs-metaschema",
                         "check_schema(json.loads(%r)) gave %s, the metaschema validator %s" % (text, got, want), {"cls": tag, "text": text})


def c11(ctx):
    res = ctx.res
    c11_histories(ctx)
    c11_held_iterator(ctx)
    c11_fresh_process(ctx)
    c11_overflowing_literals(ctx)
    # each bundled metaschema is accepted by its own class
    for tag in DRAFT_TAGS:
        cls = impl.DRAFTS[tag]
        try:
            cls.check_schema(cls.META_SCHEMA)
        except Exception as exc:       # noqa: BLE001
            res.fail("meta-self-reject:" + tag, "check_schema rejects its own metaschema: %s" % type(exc).__name__, {"cls": tag})
    for _ in range(ctx.n(3000)):
        tag, schema, store, wdocs, info = gen_case(ctx, refs=ctx.r.random() < 0.15, malformed=0.75, depth=ctx.r.choice([0, 1, 2, 3]))
        if ctx.r.random() < 0.1:
            schema = ctx.g.value(2)
        cls = impl.DRAFTS[tag]
        case = {"cls": tag, "metaOf": tag, "inst": schema, "budget": 1}
        try:
            cls.check_schema(schema)
            got = ["ok"]
        except E.SchemaError as e:
            got = ["SchemaError", impl.err_json(e)]
        except Exception as exc:       # noqa: BLE001
            got = ["raised", impl.exc_json(exc)]
            res.fail("check_schema-raises:%s:%s" % (type(exc).__name__, crash_site(exc)),
                     "check_schema raised %s instead of SchemaError" % type(exc).__name__, case)
        res.note(khash(case), got[0] != "ok", {"cls": tag, "candidate": schema})
        res.distribution[got[0]] += 1
        m = corr.model_val(ctx.drv.run("VAL", case, oracle_mod.Oracle()))
        res.compared += 1
        if "errs" in m:
            mv = ["ok"] if (not m["errs"] and m["stop"] == ["done"]) else (["SchemaError", m["errs"][0]] if m["errs"] else ["raised", m["stop"][1]])
        else:
            mv = ["ctor"]
        d = corr.diff(mv, got)
        if d:
            res.disagree("CHK", case, mv, got, d)
        # the first error of the metaschema validator is what SchemaError carries
        if got[0] == "SchemaError":
            first = next(cls(cls.META_SCHEMA).iter_errors(schema), None)
            if first is None or corr.diff(got[1], impl.err_json(first)):
                res.fail("check_schema-vs-metaschema", "SchemaError does not carry the first metaschema violation", case)
        else:
            if got[0] == "ok" and next(cls(cls.META_SCHEMA).iter_errors(schema), None) is not None:
                res.fail("check_schema-accepts-invalid", "check_schema accepted a schema its metaschema rejects", case)


def c11_histories(ctx):
    """check_schema's verdict must not depend on what was checked before (schemas that Python's `==`
    cannot tell apart but the metaschema can), nor on other classes being registered under the same
    metaschema id afterwards (each draft class keeps judging by its OWN bundled metaschema)"""
    res = ctx.res
    twins = [({"minLength": 1}, {"minLength": True}), ({"uniqueItems": True}, {"uniqueItems": 1}), ({"maxItems": 0}, {"maxItems": False}),
             ({"properties": {"a": {"maxLength": 2}}}, {"properties": {"a": {"maxLength": 2.5}}}), ({"minItems": 1.0}, {"minItems": True}),
             ({"required": ["a"]}, {"required": ["a", "a"]}), ({"enum": [1]}, {"enum": []}), ({"multipleOf": 1}, {"multipleOf": True})]
    for tag in DRAFT_TAGS:
        cls = impl.DRAFTS[tag]
        for a, b in twins:
            for first, second in ((a, b), (b, a)):
                case = {"cls": tag, "first": first, "second": second}
                res.note(khash(["c11hist", case]), True, None)
                want = verdict_check_schema(cls, second, fresh=True)
                verdict_check_schema(cls, first)
                got = verdict_check_schema(cls, second)
                if got != want:
                    res.fail("check_schema-history-dependent", "check_schema(%r) after check_schema(%r) gave %s, alone %s" % (second, first, got, want), case)
    # a dialect registered under a draft's metaschema id must not change the draft class's verdicts
    probes = [{"properties": {"a": {"x-note": 1}}}, {"properties": {"a": {"type": 12}}}, {"items": {"minLength": -1}},
              {"definitions": {"d": {"required": 5}}}, {"properties": {"a": {"properties": {"b": {"enum": 3}}}}}, {"anyOf": [{"type": "strng"}]}]
    for tag in DRAFT_TAGS:
        cls = impl.DRAFTS[tag]
        before = [verdict_check_schema(cls, p) for p in probes]
        saved_v = dict(V.validators)
        saved_m = dict(V.meta_schemas.store)
        try:
            with warnings.catch_warnings():
                warnings.simplefilter("ignore")
                Dialect = V.extend(cls, validators={}, version="dialect-of-" + tag)
            meta = copy.deepcopy(cls.META_SCHEMA)
            meta.setdefault("properties", {})["x-note"] = {"type": "string"}
            meta["properties"]["type"] = {}
            Dialect.META_SCHEMA = meta
            after = [verdict_check_schema(cls, p) for p in probes]
            res.note(khash(["c11dialect", tag]), True, None)
            if after != before:
                res.fail("check_schema-changed-by-registration:" + tag,
                         "registering a dialect under the metaschema id of %s changed its check_schema verdicts: %r -> %r" % (tag, before, after),
                         {"cls": tag, "probes": probes})
        finally:
            V.validators.clear()
            V.validators.update(saved_v)
            V.meta_schemas.store.clear()
            V.meta_schemas.store.update(saved_m)


def c11_held_iterator(ctx):
    """check_schema while somebody holds a half-consumed iterator of the same metaschema validation
    (the candidate being the SAME Python object, or sharing its defective part): the verdict is the
    metaschema's, as always"""
    res = ctx.res
    cands = [{"properties": {"name": {"type": 12}}}, {"items": {"minLength": -1}}, {"properties": {"a": {"properties": {"b": {"enum": 3}}}}},
             {"additionalProperties": {"maxItems": "many"}}, {"properties": {"ok": {"type": "string"}, "bad": {"minimum": "0"}}}]
    for tag in DRAFT_TAGS:
        cls = impl.DRAFTS[tag]
        for cand in cands:
            cand = copy.deepcopy(cand)
            part = next(iter(cand.values()))
            sharing = {"properties": {"wrapped": cand}, "dependencies": {"k": part if isinstance(part, dict) and tag != "d3" else cand}}
            want = [verdict_check_schema(cls, copy.deepcopy(c), fresh=True) for c in (cand, sharing)]
            it = cls(cls.META_SCHEMA).iter_errors(cand)
            first = next(it, None)
            got = [verdict_check_schema(cls, c) for c in (cand, sharing)]
            it.close()
            res.note(khash(["c11held", tag, cand]), True, None)
            if got != want or first is None:
                res.fail("check_schema-while-iterator-held",
                         "with a metaschema validation of the same candidate suspended at its first error, check_schema gave %r; the metaschema says %r" % (got, want),
                         {"cls": tag, "candidate": cand})


C11_FRESH_SCRIPT = r"""
import copy, json, sys, warnings
warnings.simplefilter("ignore")
from jsonschema import validators as V
cls = {"d3": V.Draft3Validator, "d4": V.Draft4Validator, "d6": V.Draft6Validator, "d7": V.Draft7Validator}[sys.argv[1]]
cands = json.loads(sys.argv[2])
# FIRST thing this process does: validate with a house variant of the metaschema (same id, other definitions)
house = copy.deepcopy(cls.META_SCHEMA)
names = list(house.get("definitions", {}))
for n in names:
    house["definitions"][n] = {"type": "string"}
house["properties"] = dict(("v%d" % k, {"$ref": "#/definitions/" + n}) for k, n in enumerate(names))
house["properties"]["self"] = {"$ref": "#"}
try:
    v = cls(house)
    for k in range(len(names)):
        v.is_valid({"v%d" % k: 1}); list(v.iter_errors({"v%d" % k: "s", "self": {}}))
except Exception:
    pass
out = []
for c in cands:
    try:
        cls.check_schema(c); out.append("ok")
    except V.exceptions.SchemaError:
        out.append("SchemaError")
    except Exception as exc:
        out.append(type(exc).__name__)
print(json.dumps(out))
"""


def c11_fresh_process(ctx):
    """a fresh interpreter whose FIRST use of the library is a validation with a house variant of a
    draft's metaschema (same id, other definitions); check_schema afterwards still judges by the
    bundled metaschema (whatever is remembered per URI must not outlive the resolver it belongs to)"""
    res = ctx.res
    import subprocess
    cands = [{"maxLength": 0}, {"maxLength": "long"}, {"type": "null"}, {"minItems": -1}, {"items": [{}]}, {"required": "a"},
             {"properties": {"a": {"maxItems": 2}}}, {"properties": {"a": {"maxItems": "2"}}}, {"type": ["string", "null"]}, {"type": "strng"}]
    env = dict(os.environ, PYTHONPATH=impl.REPO)
    for tag in DRAFT_TAGS:
        cls = impl.DRAFTS[tag]
        want = [verdict_check_schema(cls, c, fresh=True) for c in cands]
        try:
            p = subprocess.run([sys.executable, "-c", C11_FRESH_SCRIPT, tag, json.dumps(cands)], env=env, stdout=subprocess.PIPE,
                               stderr=subprocess.PIPE, text=True, timeout=60)
            got = json.loads(p.stdout.strip().splitlines()[-1])
        except Exception as exc:        # noqa: BLE001
            got = "subprocess failed: %s" % type(exc).__name__
        res.note(khash(["c11fresh", tag]), True, None)
        if got != want:
            res.fail("check_schema-after-house-variant:" + tag,
                     "in a fresh process that first validated with a house variant of the %s metaschema, check_schema gave %r; the bundled metaschema says %r" % (tag, got, want),
                     {"cls": tag, "candidates": cands})


def verdict_check_schema(cls, schema, fresh=False):
    """'ok' / 'SchemaError' / exception class; with fresh=True in a subprocess-free but cache-free way:
    the reference verdict is the metaschema validator's own iter_errors"""
    if fresh:
        try:
            return "SchemaError" if next(cls(cls.META_SCHEMA).iter_errors(schema), None) is not None else "ok"
        except Exception as exc:        # noqa: BLE001
            return type(exc).__name__
    try:
        cls.check_schema(schema)
        return "ok"
    except E.SchemaError:
        return "SchemaError"
    except Exception as exc:        # noqa: BLE001
        return type(exc).__name__


# ---------------------------------------------------------------------------------------------
# C14 JSON pointer

from urllib.parse import quote as _q


def all_paths(doc, pre=()):
    yield pre, doc
    if isinstance(doc, dict):
        for k, v in doc.items():
            yield from all_paths(v, pre + (k,))
    elif isinstance(doc, list):
        for i, v in enumerate(doc):
            yield from all_paths(v, pre + (i,))


def encode_fragment(r, tokens):
    p = "".join("/" + t.replace("~", "~0").replace("/", "~1") for t in tokens)
    k = r.randrange(5)
    if k == 0:
        return p.replace("%", "%25")
    if k == 1:
        return _q(p, safe="/~")
    if k == 2:
        return _q(p, safe="")
    if k == 3:
        return _q(p, safe="/~!$&'()*+,;=:@?")
    return "".join(c if (c.isalnum() and r.random() < 0.5) else "".join("%%%02X" % b for b in c.encode("utf-8")) for c in p)


def c14(ctx):
    res = ctx.res
    resolver = V.RefResolver("", {})
    bad_tokens = ["-", "-1", "01", "+1", " 1", "1 ", "1_0", "1.0", "١", "２", "0x1", "1e0", "", "00", "９",
                  "1٠", "1２", "2५", "1𝟎", "1٢", "1%D9%A0",
                  # canonical decimals that no array can have: beyond every length, beyond what int() converts
                  "30", "99999999999999999999", "1" * 4300, "1" * 4301, "1" + "0" * 4400, "9" * 5000]
    # a long array, so that tokens which int() would read as 10..29 stay in range
    long_doc = {"a": ["e%d" % k for k in range(30)], "b": [[k] for k in range(12)]}
    for tok in bad_tokens:
        for key in ("a", "b"):
            frag = "/%s/%s" % (key, tok)
            case = {"doc": long_doc, "frag": frag, "tokens": [key, tok]}
            try:
                got = ["ok", resolver.resolve_fragment(long_doc, frag)]
            except E.RefResolutionError:
                got = ["RefResolutionError"]
            except Exception as exc:        # noqa: BLE001
                got = ["raised", type(exc).__name__]
            res.note(khash(case), True, None)
            if got[0] != "RefResolutionError":
                res.fail("pointer:negative:" + ("returns-value" if got[0] == "ok" else got[1]),
                         "token %r applied to an array gave %r" % (tok, got), case)
            m = ctx.drv.run("PTR", {"doc": long_doc, "frag": frag}, oracle_mod.Oracle())
            res.compared += 1
            if corr.diff(m, got):
                res.disagree("PTR", case, m, got, corr.diff(m, got))
    # one resolver, many short-lived documents and documents edited in place: the answer is a function of
    # the document AS IT IS NOW and the fragment (an answer remembered by object identity goes stale)
    for k in range(300):
        doc = {"k": [k, {"v": k}], "n": {"m": k}}
        for frag, want in (("/k/0", k), ("/k/1/v", k), ("/n/m", k)):
            try:
                got = resolver.resolve_fragment(doc, frag)
            except Exception as exc:        # noqa: BLE001
                got = type(exc).__name__
            if got != want:
                res.fail("pointer:stale-answer", "resolve_fragment(%r, %r) = %r on a resolver that has seen other documents" % (doc, frag, got),
                         {"doc": doc, "frag": frag})
                break
        del doc
    doc = {"a": {"b": [10, 20]}}
    steps = [("/a/b/1", 20, None), ("/a/b/1", 99, lambda: doc["a"]["b"].__setitem__(1, 99)),
             ("/a/b/1", "RefResolutionError", lambda: doc["a"]["b"].pop()), ("/a/c", 5, lambda: doc["a"].__setitem__("c", 5)),
             ("/a/b/0", "RefResolutionError", lambda: doc["a"].__setitem__("b", "str"))]
    for frag, want, edit in steps:
        if edit:
            edit()
        try:
            got = resolver.resolve_fragment(doc, frag)
        except E.RefResolutionError:
            got = "RefResolutionError"
        except Exception as exc:        # noqa: BLE001
            got = type(exc).__name__
        res.evaluations += 1
        if got != want:
            res.fail("pointer:stale-answer", "after an in-place edit resolve_fragment(%r, %r) = %r, the document says %r" % (doc, frag, got, want),
                     {"doc": copy.deepcopy(doc), "frag": frag})
            break
    for _ in range(ctx.n(1500)):
        doc = ctx.g.value(ctx.r.choice([1, 2, 3, 3]))
        if ctx.r.random() < 0.5 and isinstance(doc, dict):
            doc[ctx.r.choice(gen.HOSTILE)] = ctx.g.value(2)
        paths = list(all_paths(doc))
        ctx.r.shuffle(paths)
        for path, want in paths[:6]:
            tokens = [str(p) if isinstance(p, int) else p for p in path]
            frag = encode_fragment(ctx.r, tokens)
            case = {"doc": doc, "frag": frag, "path": list(path)}
            try:
                got = ["ok", resolver.resolve_fragment(doc, frag)]
            except E.RefResolutionError:
                got = ["RefResolutionError"]
            except Exception as exc:        # noqa: BLE001
                got = ["raised", type(exc).__name__]
            res.note(khash(case), len(path) >= 1, case)
            if got[0] != "ok" or not strict_eq(got[1], want):
                res.fail("pointer:positive", "fragment %r for path %r gave %r" % (frag, list(path), got[:1]), case)
            m = ctx.drv.run("PTR", {"doc": doc, "frag": frag}, oracle_mod.Oracle())
            res.compared += 1
            if corr.diff(m, got):
                res.disagree("PTR", case, m, got, corr.diff(m, got))
        # negative half: the first unresolvable token
        for path, node in paths[:4]:
            tokens = [str(p) if isinstance(p, int) else p for p in path]
            if isinstance(node, dict):
                bad = ctx.r.choice(["missing-key", "zz", "0"] + bad_tokens)
                if bad in node:
                    continue
            elif isinstance(node, list):
                bad = ctx.r.choice(bad_tokens + [str(len(node)), str(len(node) + 5), "a", "99999999999999999999"])
                if bad.isascii() and bad.isdigit() and (bad == "0" or not bad.startswith("0")) and len(bad) < 30 and int(bad) < len(node):
                    continue
            else:
                bad = ctx.r.choice(["0", "a", "", "-1"])
            toks = tokens + [bad] + ([ctx.r.choice(["a", "0"])] if ctx.r.random() < 0.3 else [])
            frag = encode_fragment(ctx.r, toks)
            case = {"doc": doc, "frag": frag, "tokens": toks}
            try:
                got = ["ok", resolver.resolve_fragment(doc, frag)]
            except E.RefResolutionError:
                got = ["RefResolutionError"]
            except Exception as exc:        # noqa: BLE001
                got = ["raised", type(exc).__name__]
            res.note(khash(case), True, None)
            res.distribution["negative:" + got[0]] += 1
            if got[0] != "RefResolutionError":
                res.fail("pointer:negative:" + ("returns-value" if got[0] == "ok" else got[1]),
                         "pointer %r addresses nothing but gave %r" % (toks, got), case)
            m = ctx.drv.run("PTR", {"doc": doc, "frag": frag}, oracle_mod.Oracle())
            res.compared += 1
            if corr.diff(m, got):
                res.disagree("PTR", case, m, got, corr.diff(m, got))
        # arbitrary fragments (model vs implementation only): malformed escapes, bad UTF-8
        frag = "".join(ctx.r.choice(["/", "~", "0", "1", "%", "2", "5", "F", "a", "é", "%C3", "%A9", "%FF", "%E2%82", " "]) for _ in range(ctx.r.randrange(0, 8)))
        try:
            got = ["ok", resolver.resolve_fragment(doc, frag)]
        except E.RefResolutionError:
            got = ["RefResolutionError"]
        except Exception as exc:        # noqa: BLE001
            got = ["raised", type(exc).__name__]
            res.fail("pointer:raises:" + type(exc).__name__, "fragment %r raised %s" % (frag, type(exc).__name__), {"doc": doc, "frag": frag})
        m = ctx.drv.run("PTR", {"doc": doc, "frag": frag}, oracle_mod.Oracle())
        res.compared += 1
        if corr.diff(m, got):
            res.disagree("PTR", {"doc": doc, "frag": frag}, m, got, corr.diff(m, got))
        # through a real validator
        if isinstance(doc, dict) and paths:
            path, want = paths[0]
            if path:
                tokens = [str(p) if isinstance(p, int) else p for p in path]
                schema = {"definitions": doc, "$ref": "#" + encode_fragment(ctx.r, ["definitions"] + tokens)}
                try:
                    impl.DRAFTS["d7"](schema).is_valid(1)
                except E.RefResolutionError:
                    # the located value is evaluated as a schema: if it contains a `$ref` member of its own
                    # (documents here have hostile member names, `$ref` among them) THAT reference may be the
                    # one that does not resolve — not the pointer under test
                    if '"$ref"' not in json.dumps(want):
                        res.fail("pointer:validator", "a $ref to an existing location failed to resolve", {"schema": schema})
                except Exception:       # noqa: BLE001  (the target need not be a schema)
                    pass


# ---------------------------------------------------------------------------------------------
# C15 retrieval and caching

def c15(ctx):
    res = ctx.res
    from functools import lru_cache
    import urllib.request
    for _ in range(ctx.n(600)):
        tag, schema, store, wdocs, info = gen_case(ctx, refs=True, depth=ctx.r.choice([1, 2]))
        sib_ops = None
        if ctx.r.random() < 0.2:
            # sibling documents: the SAME pointer leads to different content in each of 2-6 retrievable
            # documents (short-lived objects when caching is off: a fresh object per retrieval)
            kinds = ["integer", "string", "boolean", "array", "object", "null"]
            ctx.r.shuffle(kinds)
            n = ctx.r.randrange(2, 7)
            ptr = ctx.r.choice(["/definitions/item", "/defs/a", "/x/0", "/a~1b", "/definitions/group/item", "/defs/a/0/b",
                                "/x/0/y/1", "/components/schemas/a~1b/value", "/a/b/c/d/e"])
            toks = [t.replace("~1", "/").replace("~0", "~") for t in ptr.split("/")[1:]]
            wdocs, store = {}, {}
            for k in range(n):
                doc = {"type": kinds[k]}
                for t in reversed(toks):
                    doc = [doc] if t == "0" else [{"title": "filler"}, doc] if t == "1" else {t: doc, "title": "doc %d" % k}
                wdocs["http://ex.org/sib%d.json" % k] = doc
            schema = {"properties": dict(("p%d" % k, {"$ref": "http://ex.org/sib%d.json#%s" % (k, ptr)}) for k in range(n))}
            vals = {"integer": 1, "string": "s", "boolean": True, "array": [], "object": {}, "null": None}
            sib_ops = []
            for _k in range(ctx.r.randrange(2, 6)):
                inst = dict(("p%d" % k, vals[ctx.r.choice(kinds[:n] + [kinds[k]] * 2)]) for k in range(n) if ctx.r.random() < 0.8)
                sib_ops.append([ctx.r.choice(["isValid", "exhaust", "exhaust", "validate"]), inst])
            info = {"kinds": ["siblings"]}
        cls = impl.DRAFTS[tag]
        # several references into the same external documents through distinct fragments / spellings
        urls = list(wdocs)
        if urls and isinstance(schema, dict):
            extra = []
            for _k in range(ctx.r.randrange(1, 4)):
                u = ctx.r.choice(urls)
                extra.append({"$ref": u + ctx.r.choice(["", "#", "#/defs"])})
            schema.setdefault("allOf" if tag != "d3" else "extends", [])
            key = "allOf" if tag != "d3" else "extends"
            if isinstance(schema[key], list):
                schema[key] = list(schema[key]) + extra
        ops = sib_ops or ctx.g.hist_ops(tag, schema, ctx.r.randrange(2, 7))
        fail_at = set(x for x in range(6) if ctx.r.random() < 0.15)
        # the caller's store keys in spellings that normalise to the same key (trailing '#', empty query)
        if store and ctx.r.random() < 0.5:
            store = {(k + ctx.r.choice(["#", "", "?", "#"]) if "#" not in k and "?" not in k else k): v for k, v in store.items()}
        # retrievable documents that declare an id of their own, different from where they are served
        idk = "id" if tag in ("d3", "d4") else "$id"
        for u, doc in wdocs.items():
            if isinstance(doc, dict) and ctx.r.random() < 0.5:
                doc[idk] = ctx.r.choice(["http://mirror.example/" + u.rsplit("/", 1)[-1], "other.json", u + "#"])
        rows = {}
        for cache_remote, cap in [(True, 1024), (False, 1024), (True, 0), (False, 0), (True, 1), (False, 1)]:
            rspec = {"store": [[k, v] for k, v in store.items()], "cacheRemote": cache_remote, "memoCap": cap}
            case = {"cls": tag, "schema": schema, "resolver": rspec, "ops": ops, "fail_at": sorted(fail_at), "world": wdocs}
            wi = impl.World(wdocs, fail_at=fail_at if cache_remote and cap == 1024 else ())
            im = impl.run_hist(case, wi)
            rows[(cache_remote, cap)] = (im, wi)
            res.note(khash([case["resolver"], schema, ops]), bool(wdocs), {"cls": tag, "schema": schema, "ops": ops, "resolver": rspec})
            if not isinstance(im, list):
                continue
            # every document supplied in the store is served locally, whatever the spelling of its key
            from urllib.parse import urlsplit as _us
            supplied = set(_us(k).geturl() for k in store)
            for u, ok in wi.log:
                if _us(u).geturl() in supplied:
                    res.fail("store-document-retrieved", "%s was supplied in the store, yet a retrieval was attempted" % u, case)
                    break
            if cache_remote:
                okf = collections.Counter(u for u, ok in wi.log if ok)
                for u, n in okf.items():
                    if n > 1:
                        res.fail("fetched-twice:cache-on", "%s was fetched %d times with cache_remote on" % (u, n), case)
            else:
                base_keys = set(impl.make_resolver(cls, schema, rspec, None).store)
                if set(im[-1]["st"]["storeKeys"]) != base_keys:
                    res.fail("store-grew:cache-off", "the store gained entries with cache_remote off", case)
            # a failing handler surfaces as RefResolutionError only
            for x in im:
                if x["r"][0] == "raised" and x["r"][1][0] not in ("RefResolutionError", "UnknownType", "diverge"):
                    res.fail("retrieval-exception:" + str(x["r"][1]), "a retrieval failure surfaced as %r" % (x["r"][1],), case)
            # correspondence incl. fetch log
            wm = impl.World(wdocs, fail_at=fail_at if cache_remote and cap == 1024 else ())
            m = corr.model_hist(ctx.drv.run("HIST", {"cls": tag, "schema": schema, "resolver": rspec, "ops": ops},
                                            oracle_mod.Oracle(fetch=wm.answer)))
            res.compared += 1
            d = corr.diff(m, im)
            if d:
                res.disagree("HIST", case, None, None, d)
        # transparency: identical results whatever the caching configuration (no failures injected there)
        ref = None
        for key, (im, wi) in rows.items():
            if key == (True, 1024) and fail_at:
                continue
            if not isinstance(im, list):
                continue
            rs = [x["r"] for x in im]
            if ref is None:
                ref = rs
            elif corr.diff(ref, rs):
                res.fail("cache-changes-results", "results differ between caching configurations: %s" % corr.diff(ref, rs),
                         {"cls": tag, "schema": schema, "ops": ops, "world": wdocs, "config": list(key)})
    # bundled metaschemas are served locally, whatever the spelling
    calls = []
    orig = urllib.request.urlopen

    def refuse(*a, **k):
        calls.append(a)
        raise OSError("network access attempted")
    V.urlopen = refuse
    try:
        for tag in DRAFT_TAGS:
            cls = impl.DRAFTS[tag]
            mid = cls.ID_OF(cls.META_SCHEMA)
            for suffix in ["", "#", "#/properties", "#/definitions" if tag != "d3" else "#/properties/type"]:
                u = mid.rstrip("#") + suffix
                for vt in DRAFT_TAGS:
                    try:
                        impl.DRAFTS[vt]({"$ref": u}).is_valid({})
                    except E.RefResolutionError as exc:
                        res.fail("metaschema-not-local:" + tag, "reference %r raised %s" % (u, exc), {"ref": u, "cls": vt})
                    except Exception:        # noqa: BLE001
                        pass
                    res.evaluations += 1
        if calls:
            res.fail("metaschema-fetched", "urlopen was called for a bundled metaschema", {"calls": repr(calls)})
    finally:
        V.urlopen = orig


# ---------------------------------------------------------------------------------------------
# C17 ErrorTree

def tree_dump(t):
    return {"errors": [[k, "e%d" % id_of_err(v)] for k, v in t.errors.items()],
            "children": [[[k], tree_dump(c)] for k, c in t._contents.items()],
            "inst": None if t._instance is E._unset else [t._instance],
            "total": t.total_errors}


_ERR_IDS = {}


def id_of_err(e):
    return _ERR_IDS.setdefault(id(e), len(_ERR_IDS))


_INT = {"type": "integer"}
C17_CORPUS = [
    # property names that any textual rendering of a path (dotted, bracketed, JSON-path, pointer) confuses with nesting
    ({"properties": {"a.b": _INT, "a": {"properties": {"b": _INT}}}}, {"a.b": "x", "a": {"b": "y"}}),
    ({"properties": {"rows[0]": _INT, "rows": {"items": _INT}}}, {"rows[0]": "x", "rows": ["y"]}),
    ({"properties": {"a": {"items": _INT}, "a[0]": _INT, "a/0": _INT, "a.0": _INT}}, {"a": ["s"], "a[0]": "s", "a/0": "s", "a.0": "s"}),
    ({"properties": {"": {"properties": {"": _INT}}, ".": _INT}}, {"": {"": "x"}, ".": "y"}),
    ({"properties": {"x": {"items": _INT}, "y": {"properties": {"0": _INT}}, "x[0]": _INT}}, {"x": ["s"], "y": {"0": "s"}, "x[0]": "s"}),
    ({"properties": {"a": {"properties": {"b": {"properties": {"c": _INT}}, "b.c": _INT}}, "a.b": {"properties": {"c": _INT}}, "a.b.c": _INT}},
     {"a": {"b": {"c": "s"}, "b.c": "s"}, "a.b": {"c": "s"}, "a.b.c": "s"}),
    ({"properties": {"'a'": _INT, "a": _INT, "\"a\"": _INT, "['a']": _INT}}, {"'a'": "s", "a": "s", "\"a\"": "s", "['a']": "s"}),
    ({"items": {"properties": {"0": _INT}}, "minItems": 5}, [{"0": "s"}, {"0": 1}, {"0": "t"}]),
    ({"properties": {"n": {"type": "null"}, "k": _INT}, "required": ["zz"], "minProperties": 9}, {"n": None, "k": "s", "e": None, "f": 0, "g": "", "h": [], "i": False}),
    ({"dependencies": {"tags": {"minProperties": 7}}, "properties": {"k": _INT}}, {"tags": [1, 2], "k": "s"}),
    ({"dependencies": {"billing": {"minProperties": 7}, "k": {"maxProperties": 0}}, "properties": {"k": _INT}}, {"billing": {"iban": "x", "n": None}, "k": "s"}),
    ({"properties": {"o": {"dependencies": {"tags": {"maxProperties": 0}}, "properties": {"q": _INT}}}}, {"o": {"tags": [[1], {"a": 1}], "q": "s"}}),
]


def c17(ctx):
    res = ctx.res
    corpus = [(t, s, i) for (s, i) in C17_CORPUS for t in DRAFT_TAGS]
    for _ in range(ctx.n(4000) + len(corpus)):
        if corpus:
            tag, schema, inst0 = corpus.pop()
        else:
            inst0 = None
            tag, schema, store, wdocs, info = gen_case(ctx, refs=False, depth=ctx.r.choice([2, 3]))
        cls = impl.DRAFTS[tag]
        try:
            if not accepted(tag, schema):
                continue
        except Exception:        # noqa: BLE001
            continue
        inst = ctx.g.instance_for(tag, schema) if inst0 is None else inst0
        errs, stop = impl.consume(cls(schema).iter_errors(inst), None)
        if not errs:
            continue
        perms = list(itertools.permutations(errs)) if len(errs) <= 4 else [ctx.r.sample(errs, len(errs)) for _ in range(8)]
        ctx.r.shuffle(perms)
        case = {"cls": tag, "schema": schema, "inst": inst}
        res.note(khash(case), len(errs) >= 2, case)
        res.distribution["errors=%d" % min(len(errs), 6)] += 1
        pairs = set((tuple(e.path), e.validator) for e in errs)
        for perm in perms[:6 if ctx.tier == "quick" else 24]:
            _ERR_IDS.clear()
            try:
                t = E.ErrorTree(perm)
            except Exception as exc:       # noqa: BLE001
                res.fail("tree-ctor-raises:" + type(exc).__name__, "ErrorTree(errors) raised %s" % type(exc).__name__,
                         dict(case, order=[[list(e.path), e.validator] for e in perm]))
                continue
            # statement on the implementation
            if t.total_errors != len(pairs) or len(t) != len(pairs):
                res.fail("tree-total_errors", "total_errors=%d, distinct (path, keyword) pairs=%d" % (t.total_errors, len(pairs)), case)
            for e in errs:
                node = t
                try:
                    for el in e.path:
                        if el not in node:
                            raise KeyError(el)
                        node = node[el]
                    found = node.errors.get(e.validator)
                    if found is None or list(found.path) != list(e.path):
                        res.fail("tree-walk-finds", "walking %r does not find the %r error" % (list(e.path), e.validator), case)
                except Exception as exc:       # noqa: BLE001
                    res.fail("tree-walk-raises:" + type(exc).__name__, "walking %r raised" % (list(e.path),), case)
            prefixes = set()
            for e in errs:
                p = tuple(e.path)
                for k in range(len(p)):
                    prefixes.add((p[:k], p[k]))

            def check_node(node, pre):
                want = set(x for (pp, x) in prefixes if pp == pre)
                got = list(iter(node))
                if set(got) != want or len(got) != len(set(got)):
                    res.fail("tree-iter", "iteration at %r gives %r, expected %r" % (list(pre), got, sorted(want, key=repr)), case)
                for x in want:
                    if x not in node:
                        res.fail("tree-contains", "%r not reported at %r" % (x, list(pre)), case)
                        continue
                    try:
                        child = node[x]
                    except Exception as exc:       # noqa: BLE001
                        res.fail("tree-walk-raises:" + type(exc).__name__, "indexing %r at %r (which has errors beneath it) raised" % (x, list(pre)), case)
                        continue
                    check_node(child, pre + (x,))
            check_node(t, ())
            # model correspondence (tree shape + lookups)
            qs = []
            for e in errs:
                qs.append(list(e.path))
            cur = inst
            # an element that exists in the instance but has no errors
            if isinstance(inst, dict):
                for k in inst:
                    if ((), k) not in prefixes:
                        qs.append([k])
                        break
                qs.append(["no-such-key"])
            elif isinstance(inst, list):
                for k in range(len(inst)):
                    if ((), k) not in prefixes:
                        qs.append([k])
                        break
                qs.append([len(inst) + 3])
            payload = {"errors": [{"id": "e%d" % id_of_err(e), "kw": e.validator, "path": list(e.path),
                                   "inst": None if e.instance is E._unset else [e.instance]} for e in perm],
                       "queries": qs}
            m = ctx.drv.run("TREE", payload, oracle_mod.Oracle())
            res.compared += 1
            answers = []
            for q in qs:
                t2 = E.ErrorTree(perm)
                node = t2
                try:
                    for el in q:
                        node = node[el]
                    answers.append(["ok", node.total_errors, list(iter(node))])
                except Exception as exc:       # noqa: BLE001
                    answers.append(["raise", type(exc).__name__])
            iv = {"tree": tree_dump(t), "answers": answers}
            d = corr.diff(m, iv)
            if d:
                res.disagree("TREE", dict(case, order=[[list(e.path), e.validator] for e in perm]), m, iv, d)
            # indexing an element that exists in the instance but has no errors gives an empty tree — at
            # the root and at every node below it (the tree is walked along the real instance)
            t3 = E.ErrorTree(perm)
            stack = [(t3, inst, [])]
            reported = False
            while stack and not reported:
                node, sub, pre = stack.pop()
                if not isinstance(sub, (dict, list)):
                    continue
                keys = list(sub) if isinstance(sub, dict) else list(range(len(sub)))
                tried = 0
                for k in keys:
                    if (tuple(pre), k) in prefixes:
                        try:
                            stack.append((node[k], sub[k], pre + [k]))
                        except Exception:        # noqa: BLE001  (reported by the walk monitor above)
                            pass
                        continue
                    if tried >= 2:
                        continue
                    tried += 1
                    try:
                        child = node[k]
                        if child.total_errors != 0 or list(child):
                            res.fail("tree-errorfree-nonempty", "tree%r[%r] is not empty" % (pre, k), case)
                            reported = True
                        elif isinstance(sub[k], (dict, list)) and len(sub[k]):
                            # … and so is what lies below it (chained lookups, two levels below an
                            # error-free element; whatever they leave behind must not show in other trees)
                            k2 = next(iter(sub[k])) if isinstance(sub[k], dict) else 0
                            grand = child[k2]
                            if grand.total_errors != 0 or list(grand):
                                res.fail("tree-errorfree-nonempty", "tree%r[%r][%r] is not empty" % (pre, k, k2), case)
                                reported = True
                    except Exception as exc:       # noqa: BLE001
                        here = [e for e in perm if list(e.path) == pre]
                        why = "propertyNames" if here and "propertyNames" in list(here[-1].absolute_schema_path) else "other"
                        res.fail("tree-errorfree-raises:%s:%s" % (type(exc).__name__, why),
                                 "tree%r[%r] raised %s although the element exists and has no errors" % (pre, k, type(exc).__name__),
                                 dict(case, order=[[list(e.path), e.validator] for e in perm], at=pre))
                        reported = True
                    if reported:
                        break


# ---------------------------------------------------------------------------------------------
# C20 draft selection

def c20(ctx):
    res = ctx.res
    ids = {tag: impl.DRAFTS[tag].ID_OF(impl.DRAFTS[tag].META_SCHEMA) for tag in DRAFT_TAGS}
    disagree_instances = [1.0, 5, 5.0, True, {"a": 1}, [1, 2], "x", None, 3, {"b": "x"}, [], 0]
    for _ in range(ctx.n(1200)):
        tag = ctx.r.choice(DRAFT_TAGS)
        k = ctx.r.randrange(8)
        if k < 4:
            uri = ids[tag] if ctx.r.random() < 0.5 else ids[tag].rstrip("#")
            if ctx.r.random() < 0.2:
                uri = ids[tag].rstrip("#") + "#"
            want = tag
        elif k < 6:
            uri = ctx.r.choice(["http://json-schema.org/draft-99/schema#", "urn:unknown", "not a uri", "", "http://json-schema.org/draft-07/schema#/x",
                                "HTTP://json-schema.org/draft-07/schema#", "http://json-schema.org/draft-07/schema?"])
            want = "unknown"
            # "equal to a registered id" is up to URI normalisation (RFC 3986: empty fragment/query dropped)
            from urllib.parse import urlsplit
            for t2, mid in ids.items():
                if urlsplit(uri).geturl() == urlsplit(mid).geturl():
                    want = t2
        else:
            uri = None
            want = "default"
        body = ctx.r.choice([
            {"type": "integer"}, {"minimum": 5, "exclusiveMinimum": True}, {"exclusiveMinimum": 4}, {"const": 5}, {"contains": {"type": "integer"}},
            {"if": {"type": "integer"}, "then": {"minimum": 10}}, {"properties": {"a": False}}, {"items": True, "additionalItems": False},
            {"id": "http://x.org/", "properties": {"b": {"$ref": "#/definitions/s"}}, "definitions": {"s": {"type": "string"}}},
            {"$id": "http://x.org/", "properties": {"b": {"$ref": "#/definitions/s"}}, "definitions": {"s": {"type": "string"}}},
            {"type": "any"}, {"extends": {"type": "string"}}, {"divisibleBy": 2}, {"required": ["a"]}, {"propertyNames": {"maxLength": 0}},
            ctx.g.schema(tag, 1)])
        schema = dict(body)
        if uri is not None:
            schema["$schema"] = uri
        if ctx.r.random() < 0.05:
            schema = ctx.r.choice([True, False])
            want = "default"
        inst = ctx.r.choice(disagree_instances) if ctx.r.random() < 0.8 else ctx.g.instance_for(tag, body)
        case = {"cls": None, "schema": schema, "inst": inst, "fc": None}
        res.note(khash(case), True, case)
        res.distribution[want if want in ("unknown", "default") else "registered"] += 1
        i = impl_mod(case)
        # monitor: selection
        vf = i["validatorFor"]
        if want in DRAFT_TAGS and (vf[0] != want or vf[1]):
            res.fail("selection:registered-id", "$schema %r selected %r" % (uri, vf), case)
        if want == "default" and (vf[0] != CLASS_TAG[V._LATEST_VERSION] or vf[1]):
            res.fail("selection:default", "no $schema selected %r" % (vf,), case)
        if want == "unknown" and vf[0] != "raised" and not (vf[0] == CLASS_TAG[V._LATEST_VERSION] and vf[1]):
            res.fail("selection:unknown", "unknown $schema %r selected %r" % (uri, vf), case)
        if want == "unknown" and vf[0] != "raised":
            with warnings.catch_warnings():
                warnings.simplefilter("ignore")
                for dt in DRAFT_TAGS:
                    if V.validator_for(schema, default=impl.DRAFTS[dt]) is not V._LATEST_VERSION:
                        res.fail("selection:unknown-uses-caller-default", "an unrecognised $schema selected the caller's default %s instead of the latest draft" % dt, case)
                        break
        if want == "default" and isinstance(schema, (dict, bool)):
            with warnings.catch_warnings():
                warnings.simplefilter("ignore")
                for dt in DRAFT_TAGS:
                    if V.validator_for(schema, default=impl.DRAFTS[dt]) is not impl.DRAFTS[dt]:
                        res.fail("selection:caller-default", "the caller's default was not used", case)
        # monitor: validate() behaves as the selected class; an explicit class wins
        if vf[0] in DRAFT_TAGS:
            sel = impl.DRAFTS[vf[0]]
            j = impl_mod(dict(case, cls=vf[0]))
            if corr.diff(i["validate"], j["validate"]):
                res.fail("validate-vs-selected", "validate() differs from validate(cls=selected): %s" % corr.diff(i["validate"], j["validate"]), case)
            try:
                sel.check_schema(schema)
                errs = [impl.err_json(e) for e in sel(schema).iter_errors(inst)]
                if (i["validate"][0] == "ok") != (not errs):
                    res.fail("validate-vs-selected-iter_errors", "validate() verdict differs from the selected class", case)
            except E.SchemaError:
                if i["validate"][0] != "SchemaError":
                    res.fail("validate-vs-selected-schema", "selected class rejects the schema, validate() gave %r" % i["validate"][0], case)
            except Exception:        # noqa: BLE001
                pass
            other = ctx.r.choice(DRAFT_TAGS)
            j = impl_mod(dict(case, cls=other))
            try:
                impl.DRAFTS[other].check_schema(schema)
                ok_other = True
            except Exception:        # noqa: BLE001
                ok_other = False
            if ok_other:
                try:
                    errs = list(impl.DRAFTS[other](schema).iter_errors(inst))
                    if (j["validate"][0] == "ok") != (not errs):
                        res.fail("explicit-class-loses", "validate(cls=%s) did not behave as that class" % other, case)
                except Exception:        # noqa: BLE001
                    pass
        # correspondence
        if schema_dollar_ok(schema):
            m = mod_model(ctx.drv.run("MOD", case, oracle_mod.Oracle()))
            res.compared += 1
            d = corr.diff(m, i)
            if d:
                res.disagree("MOD", case, m, i, d)


def c20_registrations(ctx):
    """sequences of additional registrations: a class registered later becomes selectable by its own
    metaschema id, validate() follows validator_for() at every point of the history, and the
    existing registrations are not disturbed (process-global registries are restored afterwards)"""
    res = ctx.res
    from jsonschema import _validators
    for n in range(ctx.n(60)):
        saved_v = dict(V.validators)
        saved_m = dict(V.meta_schemas.store)
        try:
            # the id's fragment: empty (the usual case), absent, or NOT empty (legal, rare: then only the
            # exact spelling names the class, and the fragment-less URL stays unknown)
            frag = ctx.r.choice(["#", "#", "", "#v2", "#/definitions/dialect"])
            uri = "http://example.org/house-%d-%d/schema%s" % (ctx.seed, n, frag)
            spelling = ctx.r.choice([uri, uri.rstrip("#"), uri.rstrip("#") + "#"]) if len(frag) < 2 else uri
            body = ctx.r.choice([{"const": 1}, {"type": "integer"}, {"minimum": 3}])
            schema = dict(body)
            schema["$schema"] = spelling
            inst = ctx.r.choice([1, 2, "x", 5])
            case = {"schema": schema, "inst": inst, "registered_id": uri}
            res.note(khash(["reg", case]), True, case)

            def outcome(s=schema, i=inst):
                with warnings.catch_warnings(record=True) as w:
                    warnings.simplefilter("always")
                    try:
                        V.validate(i, s)
                        r = "valid"
                    except E.ValidationError:
                        r = "invalid"
                    except E.SchemaError:
                        r = "schema-error"
                    return r, any("metaschema" in str(x.message) for x in w)
            # before: unknown -> latest draft, with a warning, every time
            for rep in range(2):
                got = outcome()
                sel = V._LATEST_VERSION
                want = "valid" if sel(schema).is_valid(inst) else "invalid"
                if got != (want, True):
                    res.fail("selection:unknown-history:%d" % rep, "validate() under an unknown $schema gave %r, expected %r with a warning" % (got, (want, True)), case)
            # register a class that accepts everything for the body's keyword
            kw = next(iter(body))
            House = V.create(meta_schema={"$id": uri, "type": "object"}, validators={kw: lambda v, x, i, s: None},
                             version="house%d" % n)
            with warnings.catch_warnings():
                warnings.simplefilter("ignore")
                if V.validator_for(schema) is not House:
                    res.fail("selection:registered-later", "a class registered later is not selected by its metaschema id", case)
                for t in DRAFT_TAGS:
                    mid = impl.DRAFTS[t].ID_OF(impl.DRAFTS[t].META_SCHEMA)
                    if V.validator_for({"$schema": mid}) is not impl.DRAFTS[t]:
                        res.fail("selection:registration-disturbed", "registering %r disturbed the registration of %s" % (uri, t), case)
            # the same version NAME registered again with another metaschema id, and a built-in version name
            # taken by a user class with an id of its own: every id registered so far keeps selecting its class
            uri2 = "http://example.org/house-%d-%d/second#" % (ctx.seed, n)
            House2 = V.create(meta_schema={"$id": uri2, "type": "object"}, validators={kw: lambda v, x, i, s: None}, version="house%d" % n)
            taken = ctx.r.choice(["draft3", "draft4", "draft6", "draft7"])
            House3 = V.create(meta_schema={"$id": uri2.replace("second", "third")}, validators={}, version=taken)
            with warnings.catch_warnings(record=True) as w3:
                warnings.simplefilter("always")
                sel = [(uri, House), (uri.rstrip("#"), House), (uri2, House2), (uri2.replace("second", "third"), House3)]
                sel += [(impl.DRAFTS[t].ID_OF(impl.DRAFTS[t].META_SCHEMA), impl.DRAFTS[t]) for t in DRAFT_TAGS]
                for u, want_cls in sel:
                    got_cls = V.validator_for({"$schema": u})
                    if got_cls is not want_cls:
                        res.fail("selection:disturbed-by-reused-version-name",
                                 "after registering version names again, %r selects %s instead of %s" % (u, got_cls.__name__, want_cls.__name__), case)
                        break
                if any("metaschema" in str(x.message) for x in w3):
                    res.fail("selection:registered-id-warns", "a registered id was reported as unknown", case)
            got = outcome()
            if got != ("valid", False):
                res.fail("validate-vs-selected:after-registration",
                         "after registering a class for %r validate() gave %r although validator_for() selects the new class (which accepts)" % (uri, got), case)
            if len(frag) >= 2:
                with warnings.catch_warnings(record=True) as w4:
                    warnings.simplefilter("always")
                    bare = uri.split("#")[0]
                    for u in (bare, bare + "#"):
                        if V.validator_for({"$schema": u}) is not V._LATEST_VERSION or not any("metaschema" in str(x.message) for x in w4):
                            res.fail("selection:fragment-ignored", "%r is registered; %r is not, yet it selected %s" % (uri, u, V.validator_for({"$schema": u}).__name__), case)
                            break
            # the SAME id registered once more (every spelling has been looked up by now): the class
            # registered later is the one its metaschema id selects, in every spelling, and validate() follows
            def _reject(validator, value, instance, schema):
                yield E.ValidationError("rejected by the class registered last")
            House4 = V.create(meta_schema={"$id": uri}, validators={kw: _reject}, version="house%d-again" % n)
            with warnings.catch_warnings():
                warnings.simplefilter("ignore")
                spellings = [uri] if len(frag) >= 2 else [uri, uri.rstrip("#"), uri.rstrip("#") + "#"]
                for u in spellings:
                    got_cls = V.validator_for({"$schema": u})
                    if got_cls is not House4:
                        res.fail("selection:stale-after-reregistration",
                                 "after a second class was registered for %r, %r still selects %s" % (uri, u, got_cls.__name__), case)
                        break
            got = outcome()
            if got != ("invalid", False):
                res.fail("validate-vs-selected:after-reregistration",
                         "after a second class (which rejects) was registered for %r validate() gave %r" % (uri, got), case)
        finally:
            V.validators.clear()
            V.validators.update(saved_v)
            V.meta_schemas.store.clear()
            V.meta_schemas.store.update(saved_m)


def c20_explicit(ctx):
    """an explicitly given class always wins: for classes of the caller's own (not registered; their
    metaschema names, under `$schema`, another draft or nothing anybody knows), validate(cls=C)
    checks the schema with C itself — C's keywords and C's type checker reading C's metaschema — and
    then validates with C; no `$schema` lookup happens (no warning)"""
    res = ctx.res
    r = ctx.r
    probes = [({"maxLength": 2.0}, "abc"), ({"maxLength": 2}, "abc"), ({"maxLength": 2}, "a"), ({"minimum": True}, 0),
              ({"required": ("a",)}, {}), ({"maxLength": 2.5}, "a"), ({"type": "integer"}, 3.0), ({}, 1), ({"minimum": "3"}, 4)]
    for n in range(ctx.n(40)):
        saved_v = dict(V.validators)
        saved_m = dict(V.meta_schemas.store)
        try:
            base = impl.DRAFTS[r.choice(DRAFT_TAGS)]
            other = impl.DRAFTS[r.choice(DRAFT_TAGS)]
            named = r.choice([other.ID_OF(other.META_SCHEMA), "http://example.com/nobody/knows/%d" % n, None,
                              other.ID_OF(other.META_SCHEMA).rstrip("#")])
            meta = {"properties": {"maxLength": {"type": "integer"}, "minimum": {"type": "number"}, "required": {"type": "array"}}}
            if named is not None:
                meta["$schema"] = named
            C = V.create(meta_schema=meta, validators=dict(base.VALIDATORS), type_checker=base.TYPE_CHECKER)
            for schema, inst in probes:
                case = {"base": base.__name__, "meta_schema": meta, "schema": schema, "inst": inst}
                res.note(khash(["c20explicit", case]), True, None)
                try:
                    first = next(C(C.META_SCHEMA).iter_errors(schema), None)
                    want = "schema-error" if first is not None else ("valid" if next(C(schema).iter_errors(inst), None) is None else "invalid")
                except Exception as exc:        # noqa: BLE001
                    want = "raised:" + type(exc).__name__
                with warnings.catch_warnings(record=True) as w:
                    warnings.simplefilter("always")
                    try:
                        V.validate(inst, schema, cls=C)
                        got = "valid"
                    except E.SchemaError:
                        got = "schema-error"
                    except E.ValidationError:
                        got = "invalid"
                    except Exception as exc:        # noqa: BLE001
                        got = "raised:" + type(exc).__name__
                    warned = any("metaschema" in str(x.message) for x in w)
                if got != want:
                    res.fail("explicit-class:not-decisive", "validate(cls=C) gave %s; C itself (its keywords and type checker on its metaschema) says %s" % (got, want), case)
                elif warned:
                    res.fail("explicit-class:$schema-looked-up", "validate(cls=C) looked up a $schema although the class was given", case)
        finally:
            V.validators.clear()
            V.validators.update(saved_v)
            V.meta_schemas.store.clear()
            V.meta_schemas.store.update(saved_m)


# ---------------------------------------------------------------------------------------------

PLANS = {}


def plan(prop, fn, **kw):
    kw["fn"] = fn
    PLANS[prop] = kw


A_COMMON = ["A-json: instances and schemas are finite trees of JSON values with Unicode-scalar strings and finite numbers; dict order = insertion order",
            "correspondence is sampled: agreement of model and implementation on the generated cases is assumed to extend to the others",
            "harness: codec, message templates (render.py), monitors, regen.py translator"]

plan("C01", c01, assumptions=A_COMMON + ["A-regex: re.search as oracle; patterns from the subset on which Python re and ECMA 262 agree",
                                         "the specification lean/JS/Spec/Valid.lean (validated against the official JSON-Schema-Test-Suite on every run)"],
     rule="the official suite (reference-free groups) against Spec.valid; then accepted reference-free schemas from each draft's vocabulary (nested applicators, keyword interactions) x 3 schema-directed instances; verdict compared with Spec.valid inside the domain (integer divisors <= 2^53, known type names, distinct keys); every case non-trivial")
plan("C03", c03_all, assumptions=A_COMMON + ["A-regex: re.search as oracle", "A-url: urllib.parse functions as oracles"],
     rule="schemas from the draft vocabulary, half of them with 1-2 keyword values replaced by random JSON (kept when check_schema accepts them), x schema-directed and random instances incl. huge numbers, x {no checker, draft checker}, x four entry points; non-trivial = accepted schema, distinct by canonical hash")
plan("C04", c04, assumptions=A_COMMON + ["A-gc: CPython finalises an abandoned generator immediately"],
     rule="valid and malformed schemas x schema-directed instances x four drafts; relations between is_valid / iter_errors / validate / jsonschema.validate checked on the implementation; model compared on budgets none/1/2 and on the MOD channel")
plan("C05", c05, assumptions=A_COMMON,
     rule="accepted reference-free schema objects x 2 schema-directed instances; the whole schema's errors compared as a multiset with the union over its keywords (each with the siblings it consults); non-trivial = at least one error and at least two keywords")
plan("C06", c06, assumptions=A_COMMON,
     rule="accepted schemas (30% with references) x schema-directed instances; every error in the transitive context closure is navigated in instance and schema; non-trivial = at least two errors navigated")
plan("C07", c07_all, assumptions=A_COMMON + ["A-gc", "A-handlers: a handler returns one fixed document per URI whenever it succeeds"],
     rule="schemas with local/remote/relative/recursive/unresolvable references x histories of 2-8 (thorough: 2-30) operations (is_valid, exhaust, validate, take k + close, take k + drop, direct resolve) x handlers failing at random attempts; non-trivial = at least two operations")
plan("C08", c08, assumptions=A_COMMON,
     rule="pairs (value, copy with one twist: true<->1, false<->0, 1<->1.0, reordered keys, swapped elements, changed leaf) at depth 0-3 and arrays with near-duplicates; non-trivial = the two values differ textually")
plan("C09", c09, assumptions=A_COMMON + ["A-float: IEEE-754 binary64, round-half-even division and int->float"],
     rule="number pairs: integers to 4000 digits, floats across the exponent range, 2^53 neighbourhood, subnormals, -0.0, x bounds/divisors x four drafts through single-keyword schemas; exact rational oracle from the driver cross-checked with fractions.Fraction")
plan("C10", c10, assumptions=A_COMMON,
     rule="schemas (25% with references) with 1-3 foreign keywords (annotations, other drafts' keywords, later-spec keywords, unknown names; well- and ill-formed values) inserted at random subschema positions; erased error multisets compared; every case non-trivial")
plan("C11", c11, assumptions=A_COMMON,
     rule="candidate schemas: 75% malformed at 1-2 random positions, 10% arbitrary JSON values, x four drafts; non-trivial = rejected candidates")
plan("C14", c14, assumptions=A_COMMON,
     rule="random documents with hostile keys x every reachable path (6 per document) under 5 percent-encoders (positive), mutated tokens (negative), arbitrary fragment strings (model vs implementation)")
plan("C15", c15, assumptions=A_COMMON + ["A-handlers", "A-url"],
     rule="schemas referring to external documents through several fragments and spellings x histories x {cache_remote on/off} x {lru 1024, pass-through, lru 1} x failing handlers; non-trivial = at least one external document")
plan("C17", c17, assumptions=A_COMMON,
     rule="error lists of real validations (accepted schemas, four drafts) presented in all permutations (<= 4 errors) or 8 sampled ones; tree statements checked on the implementation, tree shape and lookups compared with the model; non-trivial = at least two errors")
def c20_all(ctx):
    c20(ctx)
    c20_registrations(ctx)
    c20_explicit(ctx)


plan("C20", c20_all, assumptions=A_COMMON + ["A-url: urlsplit(u).geturl() as oracle"],
     rule="$schema spellings (each registered id with/without '#', unknown URIs, non-URIs, absent, boolean schemas) x bodies on which the drafts disagree x instances; every case non-trivial")


import chan_fmt     # noqa: E402
import chan_cli     # noqa: E402
import chan_sys     # noqa: E402
import chan_der     # noqa: E402
import chan_ref     # noqa: E402

plan("C02", chan_ref.campaign, **chan_ref.PLAN)
plan("C12", chan_fmt.c12_all, **chan_fmt.PLAN12)
plan("C13", chan_fmt.c13_all, **chan_fmt.PLAN13)
plan("C16", chan_der.campaign, **chan_der.PLAN)
plan("C18", chan_sys.campaign, **chan_sys.PLAN)
plan("C19", chan_cli.campaign, **chan_cli.PLAN)


def run(prop, tier, seed, proof):
    ctx = Ctx(prop, tier, seed)
    try:
        PLANS[prop]["fn"](ctx)
    finally:
        ctx.close()
    # every VAL case also went through the evaluator whose keyword functions are the interpreted,
    # regenerated source (JS.Py.EvalSrc); a difference from the hand-written model is a disagreement
    for d in ctx.drv.src_diffs:
        ctx.res.disagree("SRC", d["case"], d["model"], d["source"],
                         "interpreted source differs from the hand-written model: " + str(corr.diff(d["model"], d["source"])))
    ctx.res.distribution["VAL cases also run through the interpreted source"] = ctx.drv.src_runs
    # no validation may change the schema or the instance it is given (they are the caller's)
    for m in impl.MODIFIED:
        ctx.res.fail("input-modified", "a validation changed the schema or the instance it was given: now %s" % m["after"][:300], m["case"])
    del impl.MODIFIED[:]
    return ctx.res


def search(prop, tier, seed, proof, res):
    """the proof or the correspondence is broken: look harder for a failing input with the monitors"""
    found = []
    deadline = time.time() + (60 if tier == "quick" else 600)
    k = 1
    while time.time() < deadline and not found:
        ctx = Ctx(prop, tier, seed + 1000 * k)
        try:
            PLANS[prop]["fn"](ctx)
        except Exception:        # noqa: BLE001
            pass
        finally:
            ctx.close()
        found = ctx.res.failures
        k += 1
        if k > 6:
            break
    return found


def replay(path):
    data = json.load(open(path))
    print(json.dumps(data, indent=1)[:4000])
    return 0
