"""
C19 — the command line (`python -m jsonschema`, jsonschema/cli.py).

One scenario = a directory of real files (schema file, instance files, sibling documents), an
argv, and a text on standard input. For every scenario

  * the real CLI runs in-process (`cli.run(cli.parse_args(argv), stdout, stderr, stdin)`) on two
    recording streams (so that the order of writes across the two streams is observed), and, for
    a sample, as `python -m jsonschema …` to observe the real exit status;
  * the MONITOR evaluates the property on what the real CLI did, against what the *library*
    reports for the same files (`cls.check_schema`, `cls(schema, resolver).iter_errors(instance)`),
    rendered through the error format;
  * the model (`Cli.main` through the `CLI` channel) runs on the same scenario; its events are
    rendered to text with the templates below (a copy of cli.py's format strings: part of the
    trusted harness) and compared with the real status, stdout and stderr.

Signatures reported by the monitor:
  cli:status                exit status is not "0 iff everything loads and is valid, else 1"
  cli:instance-skipped      the output stops after some instance although others follow
  cli:stderr                stderr is not the concatenation of the per-instance renderings
  cli:plain-stdout          plain mode wrote something to stdout
  cli:pretty-success        pretty mode: stdout is not one success header per valid instance
  cli:bad-file-diagnostics  an unreadable/unparsable file did not yield exactly one diagnostic
  cli:write-order           the writes do not follow the order of the instance list
  cli:schema-failure        a schema failure did not stop the run with status 1 and one diagnostic
  cli:usage                 `--error-format` with `--output pretty` was not refused (or a legal combination was)
  cli:exception             an exception other than the library's documented one escaped `run`
  cli:undecodable-file-aborts  a file that is not valid text (UnicodeDecodeError) aborts the run instead of
                            yielding a parse-error diagnostic and letting the remaining instances be processed
  cli:subprocess            `python -m jsonschema` disagrees with the in-process run
"""
import collections
import contextlib
import copy
import io
import itertools
import json
import locale
import os
import re
import shutil
import subprocess
import sys
import tempfile
import urllib.parse
import urllib.request
from textwrap import dedent

import codec
import corr
import impl
import oracle as oracle_mod
import render

from jsonschema import cli as real_cli      # noqa: E402  (impl put the repository first on sys.path)

E, V = impl.E, impl.V

PYTHON = "/venv/bin/python"
CLASS_NAMES = {"d3": "Draft3Validator", "d4": "Draft4Validator", "d6": "Draft6Validator", "d7": "Draft7Validator"}
TAGS = ["d3", "d4", "d6", "d7"]

PLAN = dict(
    assumptions=[
        "A-json: instances and schemas are finite trees of JSON values with Unicode-scalar strings and finite numbers; dict order = insertion order",
        "correspondence is sampled: agreement of model and implementation on the generated cases is assumed to extend to the others",
        "A-files: a file is missing (ENOENT), not JSON (JSONDecodeError, or bytes that are not text in the locale encoding: UnicodeDecodeError) or a JSON value; other OSErrors and NaN/Infinity literals are outside the model",
        "A-render: the wording of diagnostics is rendered by the harness from the model's events with a copy of cli.py's format strings, the real repr/str.format and ValidationError.__str__; tracebacks of pretty-mode parse errors are matched by a pattern",
        "A-url: urllib.parse functions as oracles; --base-uri scenarios retrieve sibling files through file:// URIs read by the harness",
        "an uncaught exception ends the interpreter with status 1",
    ],
    rule="schema file {missing, not JSON (6 texts, 4 undecodable byte strings), rejected by check_schema, valid} x instance lists of length 0-5 over "
         "{missing, not JSON (text or undecodable bytes), invalid with 1-3 errors, valid}: every combination in every order for length <= 3 under "
         "{plain, pretty, custom --error-format, explicit --validator}, sampled for length 4-5 and for random schemas "
         "of the four drafts; no -i (instance on stdin: valid, invalid, not JSON, undecodable, empty); --error-format incl. the empty "
         "string and with --output pretty (usage error); --validator from the four drafts on schemas the drafts disagree "
         "about; $schema-selected drafts; --base-uri with relative $ref to sibling files (present, missing, not JSON, undecodable) "
         "and the same without --base-uri; file names with spaces, quotes and non-ASCII letters; a sample re-run as "
         "`python -m jsonschema`; non-trivial = at least two listed instances in different states")

# ---------------------------------------------------------------------------------------------
# copies of cli.py's format strings (trusted)

PRETTY_ERROR = dedent(
    """\
    ===[{type}]===({path})===

    {body}
    -----------------------------
    """,
)
PRETTY_SUCCESS = "===[SUCCESS]===({path})===\n"
DEFAULT_FORMAT = "{error.instance}: {error.message}\n"
HEADER = re.compile(r"^===\[(\w+)\]===\((.*)\)===$", re.M)


class Piece:
    """a piece of expected output: literal text, or (pretty-mode parse error) a pattern"""
    __slots__ = ("stream", "text", "pattern", "kind", "path")

    def __init__(self, stream, text, kind, path, pattern=None):
        self.stream, self.text, self.kind, self.path, self.pattern = stream, text, kind, path, pattern

    def regex(self):
        return self.pattern if self.pattern is not None else re.escape(self.text)


FILE_ENCODING = locale.getpreferredencoding(False)      # what `open(path)` decodes with
STDIN_ENCODING = "utf-8"                                # the subprocess runs with PYTHONIOENCODING=utf-8


def state_of(content, encoding=None):
    """("json", value) or ("notJson", exception class name, str(exception)) — computed here with the
       real decoders on the same characters/bytes, not taken from the CLI"""
    if isinstance(content, bytes):
        try:
            content = content.decode(encoding or FILE_ENCODING)
        except UnicodeDecodeError as e:
            return ("notJson", "UnicodeDecodeError", str(e))
    try:
        return ("json", json.loads(content))
    except json.JSONDecodeError as e:
        return ("notJson", "JSONDecodeError", str(e))


def undecodable(content, encoding=None):
    st = state_of(content, encoding)
    return st[0] == "notJson" and st[1] == "UnicodeDecodeError"


def p_not_found(mode, path):
    if mode == "pretty":
        return Piece("err", PRETTY_ERROR.format(path=path, type="FileNotFoundError", body="{!r} does not exist.".format(path)),
                     "notFound", path)
    return Piece("err", "{!r} does not exist.\n".format(path), "notFound", path)


def p_parse_error(mode, path, content):
    _, cls, msg = state_of(content, STDIN_ENCODING if path == "<stdin>" else None)
    if mode == "pretty":
        head = "===[{}]===({})===\n\n".format(cls, path)
        # the traceback is not modelled: any lines that are not frame headers, ending with the exception line
        pat = (re.escape(head) + r"Traceback \(most recent call last\):\n(?:(?!===\[)[^\n]*\n)*?"
               + r"(?:json\.decoder\.)?" + cls + ": " + re.escape(msg) + r"\n\n-{29}\n")
        return Piece("err", head, "parseError", path, pattern=pat)
    shown = "<stdin>" if path == "<stdin>" else repr(path)
    return Piece("err", "Failed to parse {}: {}\n".format(shown, msg), "parseError", path)


def p_error(mode, fmt, path, error, kind="validationError"):
    if mode == "pretty":
        return Piece("err", PRETTY_ERROR.format(path=path, type=error.__class__.__name__, body=error), kind, path)
    return Piece("err", fmt.format(file_name=path, error=error), kind, path)


def p_success(mode, path):
    return Piece("out", PRETTY_SUCCESS.format(path=path) if mode == "pretty" else "", "success", path)


def stream_regex(pieces, stream):
    return "".join(p.regex() for p in pieces if p.stream == stream)


def matches(pieces, stream, actual):
    return re.fullmatch(stream_regex(pieces, stream), actual) is not None


# ---------------------------------------------------------------------------------------------
# scenarios

class Scenario:
    """files: name -> text (absent = missing); everything else as on the command line"""

    def __init__(self, files, schema_name, instances, mode="plain", fmt=None, validator=None,
                 base_uri=None, stdin_text="", label=""):
        self.files = files
        self.schema_name = schema_name
        self.instances = instances          # list of names, or None = read stdin
        self.mode, self.fmt, self.validator, self.base_uri = mode, fmt, validator, base_uri
        self.stdin_text = stdin_text
        self.label = label

    def describe(self):
        def show(c):
            return "bytes:" + c.hex() if isinstance(c, bytes) else c
        return {"files": {k: show(v) for k, v in self.files.items()}, "schema": self.schema_name, "instances": self.instances, "output": self.mode,
                "errorFormat": self.fmt, "validator": self.validator, "baseUri": self.base_uri,
                "stdin": show(self.stdin_text), "label": self.label}


def in_domain(v):
    try:
        codec.encode(v)
        return True
    except (ValueError, TypeError):
        return False


NOT_JSON = ["{not json", "", "[1, 2", "{\"a\": }", "nope", "[1] trailing"]
# bytes that are not UTF-8 text: `json.load` raises UnicodeDecodeError, not JSONDecodeError
UNDECODABLE = [b"\xff\xfe{", "{\"a\": \"caf\xe9\"}".encode("latin-1"), b"[1, 2]\x80", b"\xc3"]


def not_json(r):
    return r.choice(UNDECODABLE) if r.random() < 0.3 else r.choice(NOT_JSON)
FORMATS = ["{error.message}|", "{file_name}: {error.message}\n", "<{error.validator}:{error.instance!r}>\n", "",
           "{error.instance}: {error.message}\n", "{{x}} {error.message}\n",
           # formats are text: letters outside ASCII, backslashes and percent signs stay what they are
           "→ {error.message} ✗\n", "Fehler: {error.message} — ungültig\n", "C:\\temp\\n {error.message} \\t|\n",
           "100% {error.message} \\u00e9\n"]

# (schema, valid instances, invalid instances) — the number of errors is measured, not assumed
BANK = [
    ({"type": "integer", "minimum": 3}, [5, 7, 3], [1, "x", 1.5, None, 2.5]),
    ({"properties": {"a": {"type": "string"}, "b": {"type": "integer"}}, "required": ["a"]},
     [{"a": "x"}, {"a": "", "b": 1}, 12], [{"a": 1}, {"a": 1, "b": "y"}, {"b": "y"}, {}]),
    ({"items": {"type": "integer"}, "maxItems": 2}, [[1, 2], [], "s"], [[1, "a"], ["a", "b", "c"], [1, 2, 3]]),
    ({"anyOf": [{"type": "string"}, {"minimum": 10}], "not": {"const": "no"}}, ["yes", 11], [3, "no"]),
    (True, [1, "a", None], []),
    (False, [], [1, {"a": 1}]),
    ({"$schema": "http://json-schema.org/draft-04/schema#", "minimum": 5, "exclusiveMinimum": True}, [6, "s"], [5, 1]),
    ({"$schema": "http://json-schema.org/draft-03/schema#", "properties": {"a": {"required": True}}, "divisibleBy": 2},
     [{"a": 1}, 4], [{}, 3]),
    ({"$schema": "http://json-schema.org/draft-06/schema", "exclusiveMinimum": 4, "contains": {"type": "null"}}, [5, [None]], [4, [1]]),
    ({"$schema": "urn:unknown-metaschema", "const": 1}, [1, 1.0], [2, True]),
    ({"definitions": {"p": {"type": "integer", "exclusiveMinimum": 0}}, "properties": {"n": {"$ref": "#/definitions/p"}},
      "additionalProperties": False}, [{"n": 1}, {}], [{"n": 0}, {"n": "x", "m": 1}, {"m": 1}]),
]
# schemas on which the drafts disagree (for --validator)
DISAGREE = [
    ({"minimum": 5, "exclusiveMinimum": True}, [6, 5, 1, "s"]),
    ({"exclusiveMinimum": 4}, [5, 4]),
    ({"type": "any"}, [1]),
    ({"required": ["a"]}, [{"a": 1}, {}]),
    ({"properties": {"a": {"required": True}}}, [{"a": 1}, {}]),
    ({"const": 5, "contains": {"type": "integer"}}, [5, [5], 6]),
    ({"if": {"type": "integer"}, "then": {"minimum": 10}}, [3, 30, "x"]),
    ({"extends": {"type": "string"}, "disallow": ["null"]}, ["s", 1, None]),
    ({"id": "http://x.org/s", "$id": "http://y.org/s", "properties": {"b": {"$ref": "#/definitions/s"}}, "definitions": {"s": {"type": "string"}}},
     [{"b": "s"}, {"b": 1}]),
    (True, [1]),
]
BAD_SCHEMAS = [{"type": 12}, {"minimum": "x"}, {"properties": []}, {"type": "nope"}, {"required": "a"}, 12, None,
               {"items": {"type": 5}}, {"$schema": "http://json-schema.org/draft-04/schema#", "required": []},
               {"anyOf": []}, 1.5]
# `validator_for` answers for lists and strings ("$schema" not in schema), the model's `validatorFor`
# does not: monitored, not compared (reported to the model's owner)
NONMAPPING_SCHEMAS = [[], [1, 2], "abc", ["$schema"], "x$schemay"]

NAMES = ["i{}.json", "inst {}.json", "it's{}.json", "q\"{}.json", "d{}.JSON"]


class Builder:
    """turns (schema text, a list of instance states) into a Scenario with real file names"""

    def __init__(self, r):
        self.r = r
        self.unicode_names = sys.getfilesystemencoding().lower().replace("-", "") == "utf8"

    def name(self, k):
        pats = NAMES + (["ünï{}.json"] if self.unicode_names else [])
        return self.r.choice(pats).format(k) if self.r.random() < 0.3 else "i{}.json".format(k)

    def scenario(self, schema_text, inst_states, label, **kw):
        """inst_states: None (stdin) or a list of ("M",) | ("N", text) | ("J", value)"""
        files = {}
        schema_name = "schema.json"
        if schema_text is not None:
            files[schema_name] = schema_text
        names = None
        if inst_states is not None:
            names = []
            for k, stt in enumerate(inst_states):
                nm = self.name(k)
                if stt[0] == "M":
                    nm = "missing-" + nm
                elif stt[0] == "N":
                    files[nm] = stt[1]
                else:
                    files[nm] = json.dumps(stt[1])
                names.append(nm)
            if names and self.r.random() < 0.1:        # the same file listed twice
                names.append(names[0])
        return Scenario(files, schema_name, names, label=label, **kw)


def gen_scenarios(ctx):
    """the scenario stream (deterministic in ctx.r)"""
    r = ctx.r
    b = Builder(r)

    def states(shape, valid, invalid):
        out = []
        for ch in shape:
            if ch == "M":
                out.append(("M",))
            elif ch == "N":
                out.append(("N", not_json(r)))
            elif ch == "V":
                out.append(("J", r.choice(valid)) if valid else ("J", r.choice(invalid)))
            else:
                out.append(("J", r.choice(invalid)) if invalid else ("J", r.choice(valid)))
        return out

    def config(i):
        k = i % 4
        if k == 0:
            return {}
        if k == 1:
            return {"mode": "pretty"}
        if k == 2:
            return {"fmt": r.choice(FORMATS)}
        return {"validator": r.choice(TAGS)}

    # 1. every combination in every order, length <= 3, under four configurations
    reps = max(1, ctx.n(1))
    for rep in range(reps):
        for n in range(0, 4):
            for shape in itertools.product("MNIV", repeat=n):
                if n == 0:
                    continue
                for cfg in range(4):
                    schema, valid, invalid = r.choice(BANK[:4] if cfg == 3 else BANK)
                    yield b.scenario(json.dumps(schema), states(shape, valid, invalid), "exhaustive:" + "".join(shape), **config(cfg))
    # 2. the schema file's own states x instance lists x modes
    for _ in range(ctx.n(120)):
        kind = r.choice(["missing", "notJson", "invalid", "invalid", "nonmapping"])
        schema, valid, invalid = r.choice(BANK)
        shape = "".join(r.choice("MNIV") for _ in range(r.randrange(0, 4)))
        sts = states(shape, valid, invalid) if (shape or r.random() < 0.5) else None
        text = {"missing": None, "notJson": not_json(r),
                "invalid": json.dumps(r.choice(BAD_SCHEMAS)),
                "nonmapping": json.dumps(r.choice(NONMAPPING_SCHEMAS))}[kind]
        cfg = config(r.randrange(4))
        stdin_text = json.dumps(r.choice(valid + invalid)) if sts is None else ""
        yield b.scenario(text, sts if sts else None, "schema-" + kind, stdin_text=stdin_text, **cfg)
    # 3. stdin
    for _ in range(ctx.n(80)):
        schema, valid, invalid = r.choice(BANK)
        k = r.randrange(5)
        stdin_text = [json.dumps(r.choice(valid or invalid)), json.dumps(r.choice(invalid or valid)), not_json(r), "",
                      r.choice(UNDECODABLE)][k]
        yield b.scenario(json.dumps(schema), None, "stdin", stdin_text=stdin_text, **config(r.randrange(4)))
    # 4. longer lists, sampled
    for _ in range(ctx.n(400)):
        schema, valid, invalid = r.choice(BANK)
        shape = "".join(r.choice("MNIIVV") for _ in range(r.choice([4, 4, 5])))
        yield b.scenario(json.dumps(schema), states(shape, valid, invalid), "sampled:" + shape, **config(r.randrange(4)))
    # 5. --error-format with --output pretty (usage error unless the format is empty), and plain with formats
    for _ in range(ctx.n(40)):
        schema, valid, invalid = r.choice(BANK)
        shape = "".join(r.choice("MNIV") for _ in range(r.randrange(1, 4)))
        yield b.scenario(json.dumps(schema), states(shape, valid, invalid), "format+mode",
                         mode=r.choice(["pretty", "pretty", "plain"]), fmt=r.choice(FORMATS))
    # 6. --validator on schemas the drafts disagree about
    for _ in range(ctx.n(150)):
        schema, insts = r.choice(DISAGREE)
        sts = [("J", r.choice(insts)) for _ in range(r.randrange(1, 4))]
        if r.random() < 0.3:
            sts.insert(r.randrange(len(sts) + 1), r.choice([("M",), ("N", not_json(r))]))
        yield b.scenario(json.dumps(schema), sts, "validator", validator=r.choice(TAGS + [None]),
                         mode=r.choice(["plain", "pretty"]))
    # 7. --base-uri with relative references to sibling files
    for _ in range(ctx.n(150)):
        yield base_uri_scenario(ctx, b)
    # 8. random schemas of the four drafts with schema-directed instances
    for _ in range(ctx.n(250)):
        tag = r.choice(TAGS)
        schema = ctx.g.schema(tag, r.choice([1, 2]))
        if not in_domain(schema):
            continue
        sts = []
        for _ in range(r.randrange(1, 5)):
            k = r.random()
            if k < 0.12:
                sts.append(("M",))
            elif k < 0.24:
                sts.append(("N", not_json(r)))
            else:
                v = ctx.g.instance_for(tag, schema) if r.random() < 0.8 else ctx.g.value(2)
                if in_domain(v):
                    sts.append(("J", v))
        yield b.scenario(json.dumps(schema), sts or [("M",)], "random:" + tag,
                         validator=tag if r.random() < 0.7 else None, mode=r.choice(["plain", "pretty"]),
                         fmt=None)


def base_uri_scenario(ctx, b):
    r = ctx.r
    kind = r.choice(["sibling", "sibling", "fragment", "missing-sibling", "notjson-sibling", "undecodable-sibling", "no-base-uri", "nested", "id-and-base",
                     "early-exit", "early-exit"])
    files_extra = {"defs.json": json.dumps({"definitions": {"pos": {"type": "integer", "minimum": 1}, "s": {"type": "string"}, "t": {"type": "string"}}}),
                   "int.json": json.dumps({"type": "integer"}),
                   "chain.json": json.dumps({"items": {"$ref": "int.json"}})}
    if kind == "sibling":
        schema, valid, invalid = {"$ref": "int.json"}, [1, 2], ["x", 1.5]
    elif kind == "fragment":
        schema = {"properties": {"a": {"$ref": "defs.json#/definitions/pos"}, "b": {"$ref": "defs.json#/definitions/s"}}}
        valid, invalid = [{"a": 1, "b": "x"}, {}], [{"a": 0}, {"a": "x", "b": 1}]
    elif kind == "nested":
        schema, valid, invalid = {"$ref": "chain.json"}, [[1, 2], []], [[1, "x"], ["a", "b"]]
    elif kind == "missing-sibling":
        schema, valid, invalid = {"properties": {"a": {"$ref": "nowhere.json"}}}, [{}, 1], [{"a": 1}]
    elif kind == "notjson-sibling":
        files_extra["broken.json"] = "{not json"
        schema, valid, invalid = {"properties": {"a": {"$ref": "broken.json"}}}, [{}, 1], [{"a": 1}]
    elif kind == "undecodable-sibling":
        files_extra["bytes.json"] = r.choice(UNDECODABLE)
        schema, valid, invalid = {"properties": {"a": {"$ref": "bytes.json"}}}, [{}, 1], [{"a": 1}]
    elif kind == "early-exit":
        # a reference into a sibling file under a keyword that only asks is_valid (and so abandons the
        # sub-validation at its first error), next to a same-document reference whose pointer also exists,
        # with another meaning, in the sibling file: instances are judged one by one, whatever came before
        wrapper = r.choice(["not", "not", "contains", "oneOf"])
        target = {"$ref": "defs.json#/definitions/pos"}
        sub = {"not": target} if wrapper == "not" else {"contains": target} if wrapper == "contains" else {"oneOf": [{"type": "string"}, target]}
        schema = {"properties": {"a": sub, "b": {"$ref": "#/definitions/t"}}, "definitions": {"t": {"type": "null"}}}
        if wrapper == "not":
            valid, invalid = [{"a": "x"}, {"b": None}, {"a": 0, "b": None}, {"a": "y"}], [{"a": 5}, {"b": "s"}, {"a": "x", "b": "s"}]
        elif wrapper == "contains":
            valid, invalid = [{"a": ["x", 0, 3]}, {"b": None}, {"a": [0, 1], "b": None}], [{"a": ["x", 0]}, {"b": "s"}]
        else:
            valid, invalid = [{"a": "x"}, {"a": 3}, {"b": None}], [{"a": 0}, {"b": "s"}, {"a": None}]
    elif kind == "id-and-base":
        schema = {"$id": "sub/root.json", "properties": {"a": {"$ref": "../int.json"}, "b": {"$ref": "#/definitions/t"}},
                  "definitions": {"t": {"type": "null"}}}
        valid, invalid = [{"a": 1, "b": None}, {}], [{"a": "x"}, {"b": 1}]
    else:
        schema, valid, invalid = {"properties": {"a": {"$ref": "int.json"}}}, [{}, 1], [{"a": 1}, {"a": "x"}]
    shape = "".join(r.choice("MNIIVV") for _ in range(r.randrange(1, 5)))
    if kind == "early-exit":
        shape = "".join(r.choice("IVVV") for _ in range(r.randrange(3, 7)))
    sts = []
    for ch in shape:
        if ch == "M":
            sts.append(("M",))
        elif ch == "N":
            sts.append(("N", not_json(r)))
        else:
            sts.append(("J", r.choice(valid if ch == "V" else invalid)))
    sc = b.scenario(json.dumps(schema), sts, "base-uri:" + kind, mode=r.choice(["plain", "pretty"]),
                    base_uri=None if kind == "no-base-uri" else "DIR", validator=r.choice([None, None, "d7", "d4", "d6"]))
    sc.files.update(files_extra)
    return sc


# ---------------------------------------------------------------------------------------------
# running the real thing

class Recorder:
    """two streams writing into one log, so that the order of writes across them is observed"""

    def __init__(self):
        self.log = []

    def stream(self, name):
        rec = self

        class _S(io.TextIOBase):
            def write(self, s):
                rec.log.append((name, s))
                return len(s)

            def writable(self):
                return True
        return _S()

    def text(self, name):
        return "".join(s for n, s in self.log if n == name)


def argv_of(sc, d):
    args = []
    for nm in sc.instances or []:
        args += ["-i", os.path.join(d, nm)]
    if sc.mode != "plain" or sc.label.startswith("format+mode"):
        args += ["--output", sc.mode]
    if sc.fmt is not None:
        args += ["--error-format", sc.fmt]
    if sc.validator is not None:
        args += ["--validator", CLASS_NAMES[sc.validator]]
    if sc.base_uri is not None:
        args += ["--base-uri", base_uri_of(sc, d)]
    args.append(os.path.join(d, sc.schema_name))
    return args


def base_uri_of(sc, d):
    return None if sc.base_uri is None else "file://" + urllib.request.pathname2url(d) + "/"


def write_files(sc, d):
    os.makedirs(d)
    for nm, content in sc.files.items():
        if isinstance(content, bytes):
            with open(os.path.join(d, nm), "wb") as f:
                f.write(content)
        else:
            with open(os.path.join(d, nm), "w", encoding="utf-8") as f:
                f.write(content)


def stdin_stream(content):
    if isinstance(content, bytes):
        return io.TextIOWrapper(io.BytesIO(content), encoding=STDIN_ENCODING)
    return io.StringIO(content)


def run_inprocess(sc, d):
    """-> dict(usage | end, status, out, err, log)"""
    argv = argv_of(sc, d)
    sink = io.StringIO()
    try:
        with contextlib.redirect_stderr(sink), contextlib.redirect_stdout(sink):
            arguments = real_cli.parse_args(argv)
    except SystemExit as e:
        return {"usage": True, "status": e.code, "out": "", "err": "", "log": [], "arguments": None}
    rec = Recorder()
    res = {"usage": False, "arguments": dict(arguments)}
    try:
        code = real_cli.run(arguments=arguments, stdout=rec.stream("out"), stderr=rec.stream("err"),
                            stdin=stdin_stream(sc.stdin_text))
        res["end"] = ["exit", int(code)]
        res["status"] = int(code)
        res["code_type"] = type(code).__name__
    except Exception as exc:       # noqa: BLE001 - classified
        res["end"] = ["raised", impl.exc_json(exc)]
        res["status"] = 1
        res["exc"] = exc
    res["out"], res["err"], res["log"] = rec.text("out"), rec.text("err"), rec.log
    return res


def run_subprocess(sc, d):
    env = dict(os.environ)
    env["PYTHONPATH"] = impl.REPO
    env["PYTHONIOENCODING"] = "utf-8"
    data = sc.stdin_text if isinstance(sc.stdin_text, bytes) else sc.stdin_text.encode("utf-8")
    p = subprocess.run([PYTHON, "-m", "jsonschema"] + argv_of(sc, d), input=data, env=env,
                       stdout=subprocess.PIPE, stderr=subprocess.PIPE, timeout=60, cwd=d)
    return p.returncode, p.stdout.decode("utf-8"), p.stderr.decode("utf-8")


# ---------------------------------------------------------------------------------------------
# the monitor: the property evaluated on the real CLI against the library

def library_view(sc, d):
    """what the library says about the scenario's files (independent of cli.py):
       ("schema-missing" | "schema-notJson" | "schema-invalid", piece) or ("schema-crash", exc) or
       ("ok", cls, schema, [per-instance (state, pieces, raised)])"""
    mode = sc.mode
    fmt = sc.fmt if sc.fmt is not None else DEFAULT_FORMAT
    spath = os.path.join(d, sc.schema_name)
    if sc.schema_name not in sc.files:
        return ("schema-missing", p_not_found(mode, spath))
    st = state_of(sc.files[sc.schema_name])
    if st[0] == "notJson":
        return ("schema-notJson", p_parse_error(mode, spath, sc.files[sc.schema_name]))
    schema = st[1]
    try:
        cls = impl.DRAFTS[sc.validator] if sc.validator else V.validator_for(schema)
        cls.check_schema(schema)
    except E.SchemaError as e:
        return ("schema-invalid", p_error(mode, fmt, spath, e, "schemaError"))
    except Exception as exc:       # noqa: BLE001  the library itself crashes on this schema (C03/C11's business)
        return ("schema-crash", exc)
    def fresh_validator():
        # every instance is judged on its own: a validator (and resolver) that has seen nothing before
        sch = copy.deepcopy(schema)
        resolver = V.RefResolver(base_uri=base_uri_of(sc, d), referrer=sch) if sc.base_uri is not None else None
        return cls(sch, resolver=resolver)
    per = []
    if sc.instances is None:
        items = [("<stdin>", sc.stdin_text)]
    else:
        items = [(os.path.join(d, nm), sc.files.get(nm)) for nm in sc.instances]
    for path, text in items:
        if text is None:
            per.append(("missing", [p_not_found(mode, path)], None))
            continue
        st = state_of(text, STDIN_ENCODING if path == "<stdin>" else None)
        if st[0] == "notJson":
            per.append(("notJson", [p_parse_error(mode, path, text)], None))
            continue
        pieces, raised = [], None
        try:
            for err in fresh_validator().iter_errors(st[1]):
                pieces.append(p_error(mode, fmt, path, err))
        except Exception as exc:       # noqa: BLE001
            raised = exc
        if raised is None and not pieces:
            per.append(("valid", [p_success(mode, path)], None))
        else:
            per.append(("invalid" if raised is None else "raised", pieces, raised))
        if raised is not None:
            break
    return ("ok", cls, schema, per)


def monitor(ctx, sc, d, got, case):
    res = ctx.res
    # usage rule
    want_usage = sc.mode != "plain" and bool(sc.fmt)
    if got["usage"] != want_usage:
        res.fail("cli:usage", "--error-format %r with --output %s: usage error %s" % (sc.fmt, sc.mode, got["usage"]), case)
        return None
    if got["usage"]:
        if got["status"] != 2:
            res.fail("cli:usage", "usage error exits with %r" % (got["status"],), case)
        return None
    if not want_usage and sc.mode == "plain" and sc.fmt is None and got["arguments"]["error_format"] != DEFAULT_FORMAT:
        res.fail("cli:usage", "plain mode without --error-format did not get the default format", case)
    view = library_view(sc, d)
    out, err, log = got["out"], got["err"], got["log"]
    if got["end"] == ["raised", ["crash", "UnicodeDecodeError"]]:
        # the library never raises this (retrieval failures are wrapped in RefResolutionError): it is `load`
        res.fail("cli:undecodable-file-aborts", "a file that is not valid text aborted the run with UnicodeDecodeError "
                 "(no parse-error diagnostic, the remaining instances are not processed)", case)
        return view
    if view[0] == "schema-crash":
        if got["end"] != ["raised", impl.exc_json(view[1])] or out or err:
            res.fail("cli:exception", "the library raises %s on the schema, run() gave %r" % (type(view[1]).__name__, got["end"]), case)
        return view
    if view[0] != "ok":
        piece = view[1]
        ok = (got["end"] == ["exit", 1] and out == "" and matches([piece], "err", err)
              and len(log) == 1 and log[0][0] == "err")
        if not ok:
            res.fail("cli:schema-failure", "%s: status %r, %d writes, stdout %r" % (view[0], got["end"], len(log), out[:80]), case)
        return view
    per = view[3]
    raised = per[-1][2] if per and per[-1][0] == "raised" else None
    pieces = [p for _, ps, _ in per for p in ps]
    # an exception of the library propagates, nothing else may escape
    if got["end"][0] == "raised":
        if raised is None or impl.exc_json(raised) != got["end"][1]:
            res.fail("cli:exception", "%r escaped run()" % (got["end"][1],), case)
            return view
    elif raised is not None:
        res.fail("cli:exception", "the library raises %s for an instance but run() returned" % type(raised).__name__, case)
        return view
    # status
    if raised is None:
        all_fine = all(stt == "valid" for stt, _, _ in per)
        want = 0 if all_fine else 1
        if got["status"] != want:
            res.fail("cli:status", "exit status %r, expected %d (instance states %s)" % (got["status"], want, [s for s, _, _ in per]), case)
    # stderr = concatenation of the per-instance renderings; stopping early is reported as such
    if not matches(pieces, "err", err) or not matches(pieces, "out", out):
        early = None
        for j in range(len(per)):
            pre = [p for _, ps, _ in per[:j] for p in ps]
            if matches(pre, "err", err) and matches(pre, "out", out):
                early = j
                break
        if early is not None and raised is None:
            res.fail("cli:instance-skipped", "the output ends after %d of %d instances" % (early, len(per)), case)
            return view
        elif not matches(pieces, "err", err):
            res.fail("cli:stderr", "stderr is not the concatenation of the per-instance renderings of the library's errors", case,
                     got=err[:400], want=stream_regex(pieces, "err")[:400])
    # stdout
    if sc.mode == "plain" and out != "":
        res.fail("cli:plain-stdout", "plain mode wrote %r to stdout" % out[:120], case)
    if sc.mode == "pretty":
        want_out = "".join(PRETTY_SUCCESS.format(path=ps[0].path) for stt, ps, _ in per if stt == "valid")
        if out != want_out:
            res.fail("cli:pretty-success", "pretty stdout %r, expected one header per valid instance %r" % (out[:200], want_out[:200]), case)
    # one diagnostic per bad file; order of the writes = order of the list
    nonempty = [(n, s) for n, s in log if s]
    bad = [ps[0] for stt, ps, _ in per if stt in ("missing", "notJson")]
    diag_writes = [s for n, s in nonempty if n == "err" and any(re.fullmatch(p.regex(), s) for p in bad)]
    if len(diag_writes) != len(bad):
        res.fail("cli:bad-file-diagnostics", "%d unreadable/unparsable files, %d diagnostics" % (len(bad), len(diag_writes)), case)
    want_seq = [p for p in pieces if p.text or p.pattern]
    if len(nonempty) == len(want_seq):
        for (n, s), p in zip(nonempty, want_seq):
            if n != p.stream or not re.fullmatch(p.regex(), s):
                res.fail("cli:write-order", "write %r does not belong to %s of %s" % (s[:80], p.kind, p.path), case)
                break
    elif matches(pieces, "err", err) and matches(pieces, "out", out):
        res.fail("cli:write-order", "%d writes for %d events" % (len(nonempty), len(want_seq)), case)
    return view


# ---------------------------------------------------------------------------------------------
# the model side

def payload_of(sc, d):
    fs = []
    for nm, text in sc.files.items():
        st = state_of(text)
        if st[0] == "json" and not in_domain(st[1]):
            return None
        fs.append([os.path.join(d, nm), "notJson" if st[0] == "notJson" else ["json", st[1]]])
    st = state_of(sc.stdin_text, STDIN_ENCODING)
    return {"schemaPath": os.path.join(d, sc.schema_name), "fs": fs,
            "stdin": "notJson" if st[0] == "notJson" else ["json", st[1]],
            "instances": None if sc.instances is None else [os.path.join(d, nm) for nm in sc.instances],
            "output": sc.mode, "errorFormat": sc.fmt, "validator": sc.validator, "baseUri": base_uri_of(sc, d)}


def file_fetch(n, uri):
    """oracle for retrieval: file:// URIs are read from disk by the harness; everything else fails"""
    try:
        parts = urllib.parse.urlsplit(uri)
        if parts.scheme != "file":
            return None
        with open(urllib.request.url2pathname(parts.path), encoding="utf-8") as f:
            return [json.loads(f.read())]
    except Exception:      # noqa: BLE001
        return None


def error_of(cls, e):
    """a real error object from the model's error (message rendered by render.py)"""
    info = e["info"]
    kw = {}
    if info is not None:
        kw = dict(validator=info["kw"], validator_value=info["kwVal"], instance=info["inst"], schema=info["schema"])
    return cls(render.render(e["t"], e["a"]), path=e["path"], schema_path=e["spath"],
               context=[error_of(E.ValidationError, c) for c in e["ctx"]], **kw)


def model_pieces(sc, d, m):
    """render the model's events with the templates above"""
    mode = sc.mode
    fmt = m["errorFormat"] if m["errorFormat"] is not None else DEFAULT_FORMAT
    texts = {os.path.join(d, nm): t for nm, t in sc.files.items()}
    texts["<stdin>"] = sc.stdin_text
    pieces = []
    for stream, evs in (("err", m["stderr"]), ("out", m["stdout"])):
        for ev in evs:
            kind, path = ev[0], ev[1]
            if kind == "notFound":
                p = p_not_found(mode, path)
            elif kind == "parseError":
                p = p_parse_error(mode, path, texts[path])
            elif kind == "validationError":
                p = p_error(mode, fmt, path, error_of(E.ValidationError, ev[2]))
            elif kind == "schemaError":
                p = p_error(mode, fmt, path, error_of(E.SchemaError, ev[2]), "schemaError")
            elif kind == "success":
                p = p_success(mode, path)
            else:
                raise ValueError("unknown event %r" % (kind,))
            p.stream = stream           # the stream is the model's, whatever the kind
            pieces.append(p)
    return pieces


def model_end(m):
    e = m["end"]
    if e[0] == "fuel":
        return ["raised", ["diverge"]]
    return e


def correspond(ctx, sc, d, got, case):
    payload = payload_of(sc, d)
    if payload is None:
        ctx.res.distribution["corr-skipped:out-of-domain"] += 1
        return
    st = state_of(sc.files.get(sc.schema_name, "{"))
    if sc.validator is None and st[0] == "json" and isinstance(st[1], (list, str)):
        ctx.res.distribution["corr-skipped:validator_for-nonmapping"] += 1
        return
    m = ctx.drv.run("CLI", payload, oracle_mod.Oracle(fetch=file_fetch))
    ctx.res.compared += 1
    if m.get("usage") or got["usage"]:
        if bool(m.get("usage")) != got["usage"]:
            ctx.res.disagree("CLI", case, {"usage": bool(m.get("usage"))}, {"usage": got["usage"]}, "usage error")
        return
    try:
        pieces = model_pieces(sc, d, m)
    except Exception as exc:       # noqa: BLE001
        ctx.res.disagree("CLI", case, m, None, "cannot render the model's events: %r" % (exc,))
        return
    ms = {"end": model_end(m), "status": m["status"]}
    gs = {"end": got["end"], "status": got["status"]}
    diffs = []
    dd = corr.diff(ms, gs)
    if dd:
        diffs.append(dd)
    if not matches(pieces, "err", got["err"]):
        diffs.append("stderr: model %r vs impl %r" % (stream_regex(pieces, "err")[:300], got["err"][:300]))
    if not matches(pieces, "out", got["out"]):
        diffs.append("stdout: model %r vs impl %r" % (stream_regex(pieces, "out")[:300], got["out"][:300]))
    if m["stdoutText"] != got["out"]:
        diffs.append("stdoutText: model %r vs impl %r" % (m["stdoutText"][:300], got["out"][:300]))
    if m["errorFormat"] != got["arguments"]["error_format"]:
        diffs.append("error_format: model %r vs impl %r" % (m["errorFormat"], got["arguments"]["error_format"]))
    if diffs:
        ctx.res.disagree("CLI", case, {"end": m["end"], "stderr": [e[:2] for e in m["stderr"]], "stdout": m["stdout"]},
                         {"end": got["end"], "stdout": got["out"][:500], "stderr": got["err"][:500]}, "; ".join(diffs))


# ---------------------------------------------------------------------------------------------

def set_order_blind(text):
    """the two wordings that list the members of a SET (the extra properties) print them in the set's
    iteration order, which depends on the process's string-hash seed: another interpreter process may
    list them in another order. Compared up to the order of the quoted names inside those lists."""
    def canon(m):
        return m.group(1) + ", ".join(sorted(x.strip() for x in m.group(2).split(", "))) + m.group(3)
    text = re.sub(r"(Additional properties are not allowed \()(.*?)( (?:was|were) unexpected\))", canon, text)
    return text


def khash(v):
    try:
        return hash(codec.canon(v))
    except Exception:       # noqa: BLE001
        return hash(repr(v))


def shape_of(sc):
    if sc.instances is None:
        return ["stdin"]
    out = []
    for nm in sc.instances:
        if nm not in sc.files:
            out.append("M")
        else:
            out.append("N" if state_of(sc.files[nm])[0] == "notJson" else "J")
    return out


def campaign(ctx):
    res = ctx.res
    root = tempfile.mkdtemp(prefix="verif-cli-")
    sub_budget = ctx.n(30)
    try:
        scenarios = list(gen_scenarios(ctx))
        sub_every = max(1, len(scenarios) // max(1, sub_budget))
        for idx, sc in enumerate(scenarios):
            d = os.path.join(root, "s%05d" % idx)
            write_files(sc, d)
            case = sc.describe()
            case["dir"] = d
            try:
                got = run_inprocess(sc, d)
                view = monitor(ctx, sc, d, got, case)
                # non-trivial: at least two listed instances in different states
                states = []
                if view is not None and view[0] == "ok":
                    states = [s for s, _, _ in view[3]]
                    for s in states:
                        res.distribution["instance:" + s] += 1
                    res.distribution["schema:ok"] += 1
                elif view is not None:
                    res.distribution["schema:" + view[0]] += 1
                else:
                    res.distribution["usage-error"] += 1
                res.distribution["mode:" + sc.mode] += 1
                res.distribution["file:undecodable"] += sum(1 for c in list(sc.files.values()) + [sc.stdin_text] if undecodable(c))
                if not got["usage"]:
                    res.distribution["end:" + (got["end"][0] if got["end"][0] == "raised" else "exit-%d" % got["end"][1])] += 1
                key = khash([sc.files.get(sc.schema_name), [sc.files.get(nm) for nm in (sc.instances or [])], sc.instances is None,
                             sc.stdin_text, sc.mode, sc.fmt, sc.validator, sc.base_uri, sc.label.split(":")[0]])
                res.note(key, len(set(states)) >= 2, {k: case[k] for k in ("files", "instances", "output", "errorFormat", "validator", "baseUri")})
                correspond(ctx, sc, d, got, case)
                if idx % sub_every == 0 and sub_budget > 0:
                    sub_budget -= 1
                    code, sout, serr = run_subprocess(sc, d)
                    res.distribution["subprocess"] += 1
                    if code != got["status"]:
                        res.fail("cli:subprocess", "python -m jsonschema exits with %r, run() gave %r" % (code, got["status"]), case)
                    elif not got["usage"] and got["end"][0] == "exit" and (sout != got["out"] or HEADER.findall(serr) != HEADER.findall(got["err"])
                                                                          or (sc.mode == "plain" and set_order_blind(serr) != set_order_blind(got["err"]))):
                        res.fail("cli:subprocess", "python -m jsonschema writes something else than run()", case,
                                 sub=[sout[:300], serr[:300]], inproc=[got["out"][:300], got["err"][:300]])
            finally:
                shutil.rmtree(d, ignore_errors=True)
    finally:
        shutil.rmtree(root, ignore_errors=True)
