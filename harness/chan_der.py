"""
C16 — derivation never disturbs originals (channel DER, model JS.Derive / JS.Chan.DER).

A *history* is a random sequence of derivation operations (TypeChecker.redefine / redefine_many /
remove, validators.create / extend with keyword overrides and/or a type checker and/or a version,
Validator(schema, types=…, format_checker=…), FormatChecker(formats=…), checker.checks,
FormatChecker.cls_checks, and the caller updating a dict it passed as `validators=`) over the
objects that exist after `import jsonschema` (the four draft classes, their type checkers and
format checkers, the class-level format registry) and the objects created so far.

The live objects are kept in `Hist.heap`, a list laid out exactly like the model's heap
(JS.Derive.initialHeap; auxiliary objects such as `cls.VALIDATORS` sit just below their owner),
so that an index in this list IS the model's address.

MONITOR.  Every object's answers to a fixed battery of behavioural probes are recorded when the
object is created and must be identical after every later operation.  The documented in-place
updates are the only exceptions: `fc.checks` changes `fc` (and validators using `fc`),
`FormatChecker.cls_checks` changes the class-level registry (and so what FormatChecker objects
created LATER start with), the caller's own dict changes when the caller updates it.
A class from `extend(c)` with no changes must answer every probe as `c` does; a class from
`extend(c, {k: f})` may differ from `c` only on probes that use keyword `k`.

CORRESPONDENCE.  The same operations, and a sample of the same probes, are sent to the model
(`ctx.drv.run("DER", …)`); results and answers must be equal.

Process-global state (`FormatChecker.checkers`, `validators.validators`, `validators.meta_schemas`,
and the `checkers` of the four module-level draft format checkers, which `checks` may update)
is snapshotted before and restored after every history.
"""
import ipaddress
import numbers
import warnings

import codec
import corr
import impl
import oracle as oracle_mod

E, V, F, T = impl.E, impl.V, impl.F, impl.T
from jsonschema import _validators as KV, _legacy_validators as KL      # noqa: E402

DRAFT_TAGS = ["d3", "d4", "d6", "d7"]

# ------------------------------------------------------------------------------------------------
# menus (known to both sides)

KW_NAMES = ["ref", "additionalItems", "additionalProperties", "const", "contains", "exclusiveMinimum",
            "exclusiveMaximum", "minimum", "maximum", "multipleOf", "minItems", "maxItems", "uniqueItems",
            "pattern", "format", "minLength", "maxLength", "dependencies", "enum", "type", "properties",
            "required", "minProperties", "maxProperties", "allOf", "anyOf", "oneOf", "not_", "if_", "items",
            "patternProperties", "propertyNames"]
KL_NAMES = ["dependencies_draft3", "disallow_draft3", "extends_draft3", "items_draft3_draft4",
            "minimum_draft3_draft4", "maximum_draft3_draft4", "properties_draft3", "type_draft3"]


def _mk_fail(tag):
    def fail(validator, value, instance, schema):
        yield E.ValidationError("custom %r" % (tag,))
    fail.__name__ = "fail_" + tag
    return fail


def _never(validator, value, instance, schema):
    return None


KW_FN = {n: getattr(KV, n) for n in KW_NAMES}
KW_FN.update({n: getattr(KL, n) for n in KL_NAMES})
KW_FN.update({"fail:" + t: _mk_fail(t) for t in ("x", "y", "z")})
KW_FN["never"] = _never
KW_NAME = {id(f): n for n, f in KW_FN.items()}


def kw_name(f):
    if f is None:
        return None
    return KW_NAME.get(id(f), "?" + getattr(f, "__qualname__", repr(f)))


TY_FN = {"isArray": T.is_array, "isBool": T.is_bool, "isInteger": T.is_integer, "isNull": T.is_null,
         "isNumber": T.is_number, "isObject": T.is_object, "isString": T.is_string, "isAny": T.is_any,
         "isIntegerOrIntFloat": T.draft6_type_checker._type_checkers["integer"],
         "constTrue": (lambda checker, instance: True), "constFalse": (lambda checker, instance: False)}
PYTYPES = {"NoneType": type(None), "bool": bool, "int": int, "Number": numbers.Number, "float": float,
           "str": str, "list": list, "dict": dict, "object": object}


def ty_fn(spec):
    if isinstance(spec, str):
        return TY_FN[spec]
    return V._generate_legacy_type_checks({"t": pytypes(spec)})["t"]


def pytypes(names):
    ts = tuple(PYTYPES[n] for n in names)
    return ts[0] if len(ts) == 1 else ts


FMT_FN = {"constTrue": (lambda instance: True), "constFalse": (lambda instance: False),
          "email": F.is_email, "ipv4": F.is_ipv4, "ipv6": F.is_ipv6, "date": F.is_date}
RAISES = {"ValueError": ValueError, "AddressValueError": ipaddress.AddressValueError}
ID_FN = {"$id": V._id_of, "id": V._legacy_id_of}

# the class-level registry as the import left it: the format oracle answers from here
ORIG_CLS_FORMATS = dict(F.FormatChecker.checkers)


def fmt_oracle(name, inst):
    fn = ORIG_CLS_FORMATS[name][0]
    try:
        return bool(fn(inst))
    except Exception as e:        # noqa: BLE001
        return [c.__name__ for c in type(e).__mro__]


def no_fetch(n, uri):
    return None


class CachedOracle:
    """the oracle's answers are pure functions of the question (stdlib functions, the import-time
    format registry, no retrievable documents), so they are remembered and handed to the driver up
    front (`pre`), which saves the model a re-run of the history per question"""

    def __init__(self):
        self.inner = oracle_mod.Oracle(fetch=no_fetch, fmt=fmt_oracle)
        self.table = {}

    def __call__(self, q):
        a = self.inner(q)
        if len(self.table) < 400:
            self.table[codec.canon(q)] = [q, a]
        return a

    def pre(self):
        return list(self.table.values())


ORACLE = CachedOracle()


# ------------------------------------------------------------------------------------------------
# probe batteries

TYPE_INSTS = [1, 1.0, True, None, "s", {}]
TYPE_NAMES = ["integer", "number", "string", "any", "custom"]
KW_KEYS = ["type", "$ref", "minimum", "format", "foo", "bar", "properties", "extends"]
FMT_NAMES = ["email", "ipv4", "date", "ip-address", "custom1", "regex"]
FMT_INSTS = ["a@b", "127.0.0.1", "2020-02-30", 5, "("]

ID_SCHEMA = {"id": "file:///der/a", "$id": "file:///der/b",
             "properties": {"b": {"$ref": "file:///der/a#/definitions/s"}},
             "definitions": {"s": {"type": "string"}}}
# (schema, instances) for validator instances and class-level validity probes
SCHEMAS = [
    ({"type": "integer"}, [1, 1.0, "s", True]),
    ({"type": ["string", "custom"], "format": "email"}, ["a@b", "nope", 3]),
    ({"format": "custom1", "minimum": 3}, ["x", 2, 5]),
    ({"format": "ipv4", "foo": 1}, ["127.0.0.1", "999.1.1.1", 7]),
    ({"properties": {"a": {"type": "number", "bar": 2}}, "foo": 0}, [{"a": 1}, {"a": "s"}, []]),
    ({"foo": 1, "bar": 2, "type": "object"}, [{}, 1]),
    (ID_SCHEMA, [{"b": 1}, {"b": "s"}]),
    ({"items": {"type": "integer", "minimum": 2}}, [[1, 2.0, 3], "s"]),
    ({"$ref": "http://json-schema.org/draft-07/schema#"}, [{"type": 3}, {"type": "string"}]),
    ({"$ref": "urn:der:m1"}, [{}, 3]),
    (True, [1]),
]
CLS_SCHEMAS = [4, 6, 8, 9]        # indices into SCHEMAS used for class-level validity probes


def mentions(schema, k):
    if isinstance(schema, dict):
        return k in schema or any(mentions(v, k) for v in schema.values())
    if isinstance(schema, list):
        return any(mentions(v, k) for v in schema)
    return False


def external_ref(schema):
    """does the schema pull in a document whose keywords are not in its own text"""
    return isinstance(schema, dict) and isinstance(schema.get("$ref"), str) and not schema["$ref"].startswith("file:///der/")


def exc_name(e):
    return type(e).__name__


def classify_id_of(cls):
    try:
        r = cls.ID_OF({"id": "I", "$id": "D"})
    except Exception as e:        # noqa: BLE001
        return "?" + exc_name(e)
    return {"I": "id", "D": "$id"}.get(r, "?" + repr(r))


def validity(v, inst, full):
    """mirror of Derive.isValidA / errorKwsA"""
    if not full:
        try:
            return ["bool", v.is_valid(inst)]
        except RecursionError:
            return ["errors", [], ["fuel"]]
        except Exception as e:    # noqa: BLE001
            return ["raised", exc_name(e)]
    errs, stop = impl.consume(v.iter_errors(inst), None)
    return ["errors", [e.validator for e in errs], stop]


def model_answer(a):
    """bring a model answer to the implementation's conventions"""
    if a[0] == "errors":
        return ["errors", a[1], corr.model_stop(a[2])]
    if a[0] in ("keys",):
        return ["keys", sorted(a[1])]
    if a[0] == "registries":
        return ["registries", sorted(a[1]), sorted(a[2])]
    if a[0] == "raised" and a[1] == "re.error":
        return ["raised", "error"]
    return a


class Hist:
    """the live objects of one history, laid out like the model's heap"""

    def __init__(self):
        self.heap = []
        self.kind = []
        self.aux = []          # per object: what a probe needs besides the object itself
        add = self.add
        add(F.FormatChecker.checkers, "fmtdict")
        add(V._TYPE_CHECKER_FOR_DEPRECATED_DEFAULT_TYPES, "tc")
        add(T.draft3_type_checker, "tc")
        add(T.draft4_type_checker, "tc")
        add(T.draft6_type_checker, "tc")
        for tag in DRAFT_TAGS:
            add(impl.DRAFTS[tag].VALIDATORS, "kwdict")
            add(impl.DRAFTS[tag], "cls")
        for tag in DRAFT_TAGS:
            add(impl.DRAFT_FC[tag].checkers, "fmtdict")
            add(impl.DRAFT_FC[tag], "fc")
        self.user_dicts = []   # addresses of the caller's own dicts
        self.passed = set()    # … those that were passed as `validators=` to create / extend
        self.pending = []      # directed follow-up operations

    def add(self, obj, kind, aux=None):
        self.heap.append(obj)
        self.kind.append(kind)
        self.aux.append(aux)
        return len(self.heap) - 1

    def of_kind(self, *kinds):
        return [i for i, k in enumerate(self.kind) if k in kinds]

    def index_of(self, obj):
        for i, o in enumerate(self.heap):
            if o is obj:
                return i
        return -1

    # -------------------------------------------------------------------------------- probes
    def queries(self, i):
        """the battery of object-local queries for object i"""
        k = self.kind[i]
        qs = []
        if k in ("tc", "cls", "validator"):
            qs += [["isType", x, n] for x in TYPE_INSTS for n in TYPE_NAMES]
            qs.append(["typeNames"])
        if k in ("kwdict", "cls", "validator"):
            qs += [["kwLookup", key] for key in KW_KEYS]
            qs.append(["kwKeys"])
        if k in ("cls", "validator"):
            qs += [["idKey"], ["cwdt"]]
        if k in ("fc", "fmtdict"):
            qs += [["conforms", x, n] for x in FMT_INSTS for n in FMT_NAMES]
            qs.append(["fmtKeys"])
        if k == "validator":
            for inst in self.aux[i]["insts"]:
                qs.append(["isValid", inst])
                qs.append(["errorKws", inst])
            if self.heap[i].format_checker is not None:
                qs.append(["fmtKeys"])
        return qs

    def cls_queries(self, i):
        """registry-reading queries of a class: `cls(schema)` builds its resolver from `meta_schemas` NOW"""
        qs = []
        for si in CLS_SCHEMAS:
            schema, insts = SCHEMAS[si]
            qs.append(["clsIsValid", schema, insts[0]])
            qs.append(["clsErrorKws", schema, insts[0]])
        return qs

    def ask(self, i, q):
        """evaluate one query on the real object; mirrors Derive.answerObj / answerReg"""
        o, k, kind = self.heap[i], self.kind[i], q[0]
        try:
            if kind == "isType":
                if k == "tc":
                    tc = o
                elif k == "cls":
                    tc = o.TYPE_CHECKER
                elif k == "validator":
                    return ["bool", o.is_type(q[1], q[2])]
                else:
                    return ["badQuery"]
                return ["bool", tc.is_type(q[1], q[2])]
            if kind == "typeNames":
                tc = o if k == "tc" else o.TYPE_CHECKER if k in ("cls", "validator") else None
                return ["badQuery"] if tc is None else ["keys", sorted(tc._type_checkers)]
            if kind in ("kwLookup", "kwKeys"):
                d = o if k == "kwdict" else o.VALIDATORS if k in ("cls", "validator") else None
                if d is None:
                    return ["badQuery"]
                return ["kw", kw_name(d.get(q[1]))] if kind == "kwLookup" else ["keys", sorted(d)]
            if kind == "idKey":
                return ["str", classify_id_of(o)] if k in ("cls", "validator") else ["badQuery"]
            if kind == "cwdt":
                return ["optBool", o._CREATED_WITH_DEFAULT_TYPES] if k in ("cls", "validator") else ["badQuery"]
            if kind == "metaSchema":
                return ["json", o.META_SCHEMA] if k in ("cls", "validator") else ["badQuery"]
            if kind == "conforms":
                if k == "fc":
                    return ["bool", o.conforms(q[1], q[2])]
                if k == "fmtdict":
                    fc = F.FormatChecker(formats=())
                    fc.checkers = o
                    return ["bool", fc.conforms(q[1], q[2])]
                return ["badQuery"]
            if kind == "fmtKeys":
                if k == "fc":
                    return ["keys", sorted(o.checkers)]
                if k == "fmtdict":
                    return ["keys", sorted(o)]
                if k == "validator" and o.format_checker is not None:
                    return ["keys", sorted(o.format_checker.checkers)]
                return ["badQuery"]
            if kind in ("isValid", "errorKws"):
                return validity(o, q[1], kind == "errorKws") if k == "validator" else ["badQuery"]
            if kind in ("clsIsValid", "clsErrorKws"):
                if k != "cls":
                    return ["badQuery"]
                return validity(o(q[1]), q[2], kind == "clsErrorKws")
            if kind == "clsFmtKeys":
                return ["keys", sorted(F.FormatChecker.checkers)]
            if kind == "registries":
                return ["registries",
                        sorted([k2, self.index_of(c)] for k2, c in V.validators.items()),
                        sorted([k2, self.index_of(c)] for k2, c in V.meta_schemas.store.items())]
        except E.UndefinedTypeCheck:
            return ["raised", "UndefinedTypeCheck"]
        except E.UnknownType:
            return ["raised", "UnknownType"]
        except Exception as e:     # noqa: BLE001
            return ["raised", exc_name(e)]
        raise ValueError(q)

    def battery(self, i):
        return [repr(self.ask(i, q)) for q in self.queries(i)]

    # -------------------------------------------------------------------------------- operations
    def kwarg(self, ka):
        if ka[0] == "lit":
            return {k: KW_FN[f] for k, f in ka[1]}
        self.passed.add(ka[1])
        return self.heap[ka[1]]

    def new_class(self, cls, fresh_tc):
        if fresh_tc:
            self.add(cls.TYPE_CHECKER, "tc")
        self.add(cls.VALIDATORS, "kwdict")
        return self.add(cls, "cls")

    def apply(self, op):
        """perform the operation on the real library; the result in the model's encoding"""
        kind = op[0]
        try:
            if kind == "redefine":
                return ["created", self.add(self.heap[op[1]].redefine(op[2], ty_fn(op[3])), "tc")]
            if kind == "redefineMany":
                return ["created", self.add(self.heap[op[1]].redefine_many({n: ty_fn(f) for n, f in op[2]}), "tc")]
            if kind == "remove":
                return ["created", self.add(self.heap[op[1]].remove(*op[2]), "tc")]
            if kind == "extend":
                kw = {}
                if op[3] is not None:
                    kw["version"] = op[3]
                if op[4] is not None:
                    kw["type_checker"] = self.heap[op[4]]
                cls = V.extend(self.heap[op[1]], self.kwarg(op[2]), **kw)
                return ["created", self.new_class(cls, False)]
            if kind == "create":
                kw = {"meta_schema": op[1], "validators": self.kwarg(op[2]), "id_of": ID_FN[op[6]]}
                if op[3] is not None:
                    kw["version"] = op[3]
                if op[4] is not None:
                    kw["default_types"] = {n: pytypes(ts) for n, ts in op[4]}
                if op[5] is not None:
                    kw["type_checker"] = self.heap[op[5]]
                cls = V.create(**kw)
                return ["created", self.new_class(cls, op[4] is not None)]
            if kind == "newValidator":
                types = {n: pytypes(ts) for n, ts in op[3]}
                fc = None if op[4] is None else self.heap[op[4]]
                v = self.heap[op[1]](op[2], types=types, format_checker=fc)
                if types:
                    self.add(v.TYPE_CHECKER, "tc")
                insts = next((ins for s, ins in SCHEMAS if s is op[2] or s == op[2]), [1])
                return ["created", self.add(v, "validator", {"insts": insts})]
            if kind == "checks":
                self.heap[op[1]].checks(op[2], raises=tuple(RAISES[r] for r in op[4]))(FMT_FN[op[3]])
                return ["done"]
            if kind == "clsChecks":
                F.FormatChecker.cls_checks(op[1], raises=tuple(RAISES[r] for r in op[3]))(FMT_FN[op[2]])
                return ["done"]
            if kind == "newFormatChecker":
                fc = F.FormatChecker() if op[1] is None else F.FormatChecker(formats=op[1])
                self.add(fc.checkers, "fmtdict")
                return ["created", self.add(fc, "fc")]
            if kind == "userDict":
                a = self.add({k: KW_FN[f] for k, f in op[1]}, "kwdict")
                self.user_dicts.append(a)
                return ["created", a]
            if kind == "userSet":
                self.heap[op[1]][op[2]] = KW_FN[op[3]]
                return ["done"]
        except E.UndefinedTypeCheck as e:
            return ["raised", "UndefinedTypeCheck", e.args[0]]
        except KeyError as e:
            return ["raised", "KeyError", e.args[0]]
        except TypeError:
            return ["raised", "TypeError", ""]
        except AttributeError:
            return ["raised", "AttributeError", ""]
        raise ValueError(op)

    def footprint(self, i):
        """the objects a probe of i reads (mirror of Derive.footprint)"""
        o, k = self.heap[i], self.kind[i]
        out = [i]
        if k == "validator" and o.format_checker is not None:
            f = self.index_of(o.format_checker)
            out += [f, self.index_of(o.format_checker.checkers)]
        if k == "fc":
            out.append(self.index_of(o.checkers))
        if k == "fmtdict":
            out += [j for j in self.of_kind("fc") if self.heap[j].checkers is o]
        return out


# ------------------------------------------------------------------------------------------------
# generation of operations

LEGACY_CHOICES = [["int"], ["str"], ["int", "str"], ["Number"], ["bool"], ["object"], ["list", "dict"], ["float", "NoneType"]]
CUSTOM_METAS = [{}, {"$id": "urn:der:m1", "type": "object"}, {"id": "urn:der:m2"},
                {"$id": "urn:der:m3", "id": "urn:der:m4", "minimum": 0}]
VERSIONS = ["der-v1", "der-v2", "draft7"]


def gen_ty(r):
    if r.random() < 0.25:
        return r.choice(LEGACY_CHOICES)
    return r.choice(list(TY_FN))


NATURAL_KEY = {"type": "type", "minimum": "minimum", "format": "format", "items": "items",
               "properties": "properties", "type_draft3": "type"}


def gen_kws(r, h):
    """keyword overrides: a menu function under any probe key, or a built-in keyword function under
    its usual key or under the foreign keys `foo`/`bar` (whose values in the probe schemas are numbers)"""
    out = []
    for _ in range(r.choice([1, 1, 2, 3])):
        if r.random() < 0.6:
            out.append([r.choice(KW_KEYS), r.choice(["fail:x", "fail:y", "fail:z", "never"])])
        else:
            f = r.choice(sorted(NATURAL_KEY))
            out.append([r.choice([NATURAL_KEY[f], "foo", "bar"]), f])
    return out


def gen_legacy(r):
    return [[r.choice(["integer", "string", "custom", "number", "any"]), r.choice(LEGACY_CHOICES)]
            for _ in range(r.choice([1, 1, 2]))]


def gen_kwarg(r, h, allow_empty):
    if h.user_dicts and r.random() < 0.4:
        d = r.choice(h.user_dicts)
        if r.random() < 0.6:
            # directed: the caller updates the dict it has just passed (a missing copy shows here)
            h.pending.append(["userSet", d, r.choice(KW_KEYS), r.choice(["fail:x", "fail:y", "fail:z", "never"])])
        return ["ref", d]
    if allow_empty and r.random() < 0.35:
        return ["lit", []]
    return ["lit", gen_kws(r, h)]


def gen_op(r, h):
    if h.pending and r.random() < 0.5:
        return h.pending.pop(0)
    if not h.user_dicts and r.random() < 0.08:
        return ["userDict", gen_kws(r, h)]
    k = r.randrange(100)
    tcs, clss, fcs = h.of_kind("tc"), h.of_kind("cls"), h.of_kind("fc")
    if k < 8:
        return ["redefine", r.choice(tcs), r.choice(TYPE_NAMES), gen_ty(r)]
    if k < 13:
        return ["redefineMany", r.choice(tcs), [[r.choice(TYPE_NAMES), gen_ty(r)] for _ in range(r.choice([0, 1, 2, 3]))]]
    if k < 20:
        tc = r.choice(tcs)
        known = sorted(h.heap[tc]._type_checkers)
        names = [r.choice(known) if known and r.random() < 0.8 else r.choice(TYPE_NAMES) for _ in range(r.choice([1, 1, 2]))]
        return ["remove", tc, names]
    if k < 40:
        version = r.choice(VERSIONS + ["der-x"]) if r.random() < 0.2 else None
        tc = r.choice(tcs) if r.random() < 0.3 else None
        return ["extend", r.choice(clss), gen_kwarg(r, h, True), version, tc]
    if k < 50:
        version = r.choice(VERSIONS) if r.random() < 0.35 else None
        meta = r.choice(CUSTOM_METAS) if r.random() < 0.85 else impl.DRAFTS[r.choice(DRAFT_TAGS)].META_SCHEMA
        dt = gen_legacy(r) if r.random() < 0.3 else None
        tc = r.choice(tcs) if r.random() < (0.15 if dt else 0.5) else None
        return ["create", meta, gen_kwarg(r, h, False), version, dt, tc, r.choice(["$id", "id"])]
    if k < 64:
        schema = r.choice(SCHEMAS)[0]
        types = gen_legacy(r) if r.random() < 0.4 else []
        fc = r.choice(fcs) if r.random() < 0.6 else None
        return ["newValidator", r.choice(clss), schema, types, fc]
    if k < 74:
        fn = r.choice(list(FMT_FN))
        raises = r.choice([[], [], ["ValueError"], ["AddressValueError"]])
        return ["checks", r.choice(fcs), r.choice(FMT_NAMES), fn, raises]
    if k < 79:
        fn = r.choice(list(FMT_FN))
        return ["clsChecks", r.choice(FMT_NAMES[:6]), fn, r.choice([[], ["ValueError"]])]
    if k < 86:
        if r.random() < 0.5:
            return ["newFormatChecker", None]
        known = sorted(F.FormatChecker.checkers)
        names = [r.choice(known) if r.random() < 0.9 else r.choice(["nope", "custom2"]) for _ in range(r.choice([0, 1, 2, 3]))]
        return ["newFormatChecker", names]
    if not h.user_dicts or r.random() < 0.5:
        return ["userDict", gen_kws(r, h)]
    passed = [d for d in h.user_dicts if d in h.passed]
    d = r.choice(passed) if passed and r.random() < 0.7 else r.choice(h.user_dicts)
    return ["userSet", d, r.choice(KW_KEYS), r.choice(["fail:x", "fail:y", "fail:z", "never"])]


OP_LABEL = {"redefine": "redefine", "redefineMany": "redefine_many", "remove": "remove", "extend": "extend",
            "create": "create", "newValidator": "validator", "checks": "checks", "clsChecks": "cls_checks",
            "newFormatChecker": "formatchecker", "userDict": "user-dict", "userSet": "user-set"}
KIND_LABEL = {"tc": "typechecker", "cls": "class", "fc": "formatchecker", "validator": "validator",
              "kwdict": "keyword-table", "fmtdict": "format-table"}


def first_diff(qs, a, b):
    for q, x, y in zip(qs, a, b):
        if x != y:
            return q, x, y
    return None, None, None


def change_sig(h, i, op):
    """the signature of 'object i changed under op'"""
    label = OP_LABEL[op[0]]
    if op[0] == "newValidator" and op[3]:
        label = "types-arg"
    kind = h.kind[i]
    if op[0] in ("checks", "clsChecks", "newFormatChecker") and kind in ("fc", "fmtdict", "validator"):
        return "derive:checker-shared"
    if op[0] == "extend" and (i == op[1] or (h.kind[op[1]] == "cls" and h.heap[i] is h.heap[op[1]].VALIDATORS)):
        return "derive:parent-changed:extend"
    return "derive:%s-changed:%s" % (KIND_LABEL[kind], label)


def one_history(ctx, length):
    res, r = ctx.res, ctx.r
    h = Hist()
    recorded = {}             # address -> (queries, answers at creation / after the last licensed update)
    cls_recorded = {}         # class address -> registry-reading answers (valid while meta_schemas is unchanged)
    items, impl_answers = [], []
    case = {"items": items}

    def record(i):
        recorded[i] = (h.queries(i), h.battery(i))

    def record_cls(i):
        qs = h.cls_queries(i)
        cls_recorded[i] = (qs, [repr(h.ask(i, q)) for q in qs])

    def send_probe(i, q):
        items.append(["probe", i] + q)
        impl_answers.append(h.ask(i, q))

    for i in range(len(h.heap)):
        record(i)
    for i in h.of_kind("cls"):
        record_cls(i)
    if r.random() < 0.2:
        # directed: a validator object whose schema refers to an id nobody has registered yet, then a
        # class created with a version whose metaschema carries that id (the object's resolver was
        # fixed when the object was built: registrations made later do not reach it)
        meta = r.choice([m for m in CUSTOM_METAS if "$id" in m or "id" in m])
        idk = r.choice([k for k in ("$id", "id") if k in meta])
        refd = [sc for sc, _ in SCHEMAS if isinstance(sc, dict) and sc.get("$ref") == meta[idk]]
        if refd:
            h.pending += [["newValidator", r.choice(h.of_kind("cls")), refd[0], [], None],
                          ["create", meta, gen_kwarg(r, h, False), r.choice(VERSIONS), None, None, idk]]
    # a first round of probes of the initial objects on both sides
    for i in range(len(h.heap)):
        for q in r.sample(recorded[i][0], min(3, len(recorded[i][0]))):
            send_probe(i, q)
    send_probe(0, ["registries"])
    send_probe(0, ["clsFmtKeys"])

    ops_done = []
    for _ in range(length):
        op = gen_op(r, h)
        before = len(h.heap)
        metas_before = dict(V.meta_schemas.store)
        result = h.apply(op)
        items.append(op)
        impl_answers.append(result)
        ops_done.append(op[0])
        res.distribution["op:" + OP_LABEL[op[0]]] += 1
        if result[0] == "raised":
            res.distribution["raised:" + result[1]] += 1
            if len(h.heap) != before:
                del h.heap[before:], h.kind[before:], h.aux[before:]
        # which existing objects may legitimately answer differently now
        licensed = set()
        if result[0] == "done":
            if op[0] == "checks":
                target = h.index_of(h.heap[op[1]].checkers)
                licensed = set(j for j in range(before) if target in h.footprint(j) or op[1] in h.footprint(j))
            elif op[0] == "clsChecks":
                licensed = {0}
            elif op[0] == "userSet":
                licensed = {op[1]}
        # MONITOR: every object that existed before the operation answers as recorded
        for i in range(before):
            qs, want = recorded[i]
            got = h.battery(i)
            if got != want:
                if i in licensed:
                    recorded[i] = (qs, got)
                    continue
                q, x, y = first_diff(qs, want, got)
                res.fail(change_sig(h, i, op),
                         "%s #%d answers %r differently after %s: %s, was %s" % (KIND_LABEL[h.kind[i]], i, q, op[0], y, x), case,
                         op=op, obj=i)
                recorded[i] = (qs, got)
        metas_same = dict(V.meta_schemas.store) == metas_before and \
            all(V.meta_schemas.store[k2] is metas_before[k2] for k2 in metas_before)
        for i in list(cls_recorded):
            qs, want = cls_recorded[i]
            got = [repr(h.ask(i, q)) for q in qs]
            if got != want:
                q, x, y = first_diff(qs, want, got)
                if metas_same:
                    res.fail(change_sig(h, i, op),
                             "class #%d validates %r differently after %s: %s, was %s" % (i, q, op[0], y, x), case, op=op, obj=i)
                else:
                    # `cls(schema)` seeds its resolver from `meta_schemas`, which this operation re-pointed
                    res.distribution["registry-visible-through-class:" + OP_LABEL[op[0]]] += 1
                cls_recorded[i] = (qs, got)
        # new objects
        for i in range(before, len(h.heap)):
            record(i)
            if h.kind[i] == "cls":
                record_cls(i)
        if result[0] == "created":
            new = result[1]
            # MONITOR: the relation between a derived class and its parent
            if op[0] == "extend" and h.kind[new] == "cls":
                parent = op[1]
                ov = dict((k2, f) for k2, f in (op[2][1] if op[2][0] == "lit" else
                                               [(k3, kw_name(f3)) for k3, f3 in h.heap[op[2][1]].items()]))
                qs = h.queries(parent) + h.cls_queries(parent)
                pa = [repr(h.ask(parent, q)) for q in qs]
                ch = [repr(h.ask(new, q)) for q in qs]
                tc_given = op[4] is not None
                for q, x, y in zip(qs, pa, ch):
                    if x == y:
                        continue
                    if q[0] == "cwdt":
                        continue                     # classification of the type checker, not behaviour
                    if tc_given and q[0] in ("isType", "typeNames", "clsIsValid", "clsErrorKws"):
                        continue                     # a type checker was given
                    if q[0] == "kwKeys" and ov:
                        continue
                    if q[0] == "kwLookup" and q[1] in ov:
                        continue
                    if q[0] in ("clsIsValid", "clsErrorKws") and ov and \
                            (external_ref(q[1]) or any(mentions(q[1], k2) for k2 in ov)):
                        continue
                    if not ov and op[4] is None:
                        res.fail("derive:extend-nochange-differs:" + q[0],
                                 "extend(#%d) with no changes answers %r with %s, the parent with %s" % (parent, q, y, x), case, op=op)
                    else:
                        res.fail("derive:override-leaks:" + q[0],
                                 "extend(#%d, %r) differs from its parent on %r which does not use the overridden keywords: %s vs %s"
                                 % (parent, sorted(ov), q, y, x), case, op=op)
                for k2, f in ov.items():
                    got = h.ask(new, ["kwLookup", k2])
                    if got != ["kw", f]:
                        res.fail("derive:override-missing", "extend(#%d, {%r: %s}) has %r there" % (parent, k2, f, got), case, op=op)
            if op[0] == "newFormatChecker" and op[1] is None:
                if sorted(h.heap[new].checkers) != sorted(F.FormatChecker.checkers):
                    res.fail("derive:new-checker-misses-class-format",
                             "FormatChecker() created after cls_checks does not know the class-level formats", case, op=op)
        # CORRESPONDENCE probes: the new objects in full, every other object on a sample
        for i in range(len(h.heap)):
            qs = recorded[i][0]
            if i >= before:
                chosen = qs if len(qs) <= 24 else r.sample(qs, 24)
            else:
                chosen = r.sample(qs, min(1, len(qs)))
            for q in chosen:
                send_probe(i, q)
        for i in r.sample(h.of_kind("cls"), min(2, len(h.of_kind("cls")))):
            qs = cls_recorded[i][0]
            send_probe(i, r.choice(qs))
        if op[0] in ("extend", "create"):
            send_probe(0, ["registries"])
        if op[0] in ("clsChecks", "newFormatChecker"):
            send_probe(0, ["clsFmtKeys"])
    nontrivial = len(set(ops_done)) >= 2
    res.note(hash(codec.canon([it if it[0] != "probe" else 0 for it in items])), nontrivial,
             {"ops": [it for it in items if it[0] != "probe"][:6]})
    res.distribution["len:%d" % (length // 5 * 5)] += 1
    # CORRESPONDENCE
    m = ctx.drv.run("DER", dict(case, pre=ORACLE.pre()), ORACLE)
    res.compared += 1
    if not isinstance(m, list) or len(m) != len(impl_answers):
        res.disagree("DER", case, m, impl_answers, "answer list of length %r vs %d" % (len(m) if isinstance(m, list) else m, len(impl_answers)))
        return
    for idx, (a, b) in enumerate(zip(m, impl_answers)):
        d = corr.diff(model_answer(a), b)
        if d:
            res.disagree("DER", {"items": items[:idx + 1]}, a, b, "item %d %r: %s" % (idx, items[idx][:4], d))
            break


def campaign(ctx):
    n_hist = ctx.n(300) if ctx.tier == "quick" else ctx.n(100)     # thorough: 2000 histories of up to 40 operations
    max_len = 12 if ctx.tier == "quick" else 40
    for _ in range(n_hist):
        length = ctx.r.randrange(2, max_len + 1)
        snap = [(d, dict(d)) for d in
                [F.FormatChecker.checkers, V.validators, V.meta_schemas.store] +
                [impl.DRAFT_FC[tag].checkers for tag in DRAFT_TAGS]]
        try:
            with warnings.catch_warnings():
                warnings.simplefilter("ignore")
                one_history(ctx, length)
        finally:
            for d, content in snap:
                d.clear()
                d.update(content)


PLAN = dict(
    assumptions=[
        "A-json: instances and schemas are finite trees of JSON values with Unicode-scalar strings and finite numbers; dict order = insertion order",
        "correspondence is sampled: agreement of model and implementation on the generated histories is assumed to extend to the others",
        "harness: codec, monitors, chan_der.py's mirror of the model's heap layout (JS.Derive.initialHeap)",
        "A-menu: keyword functions, type predicates and format functions are drawn from a fixed menu (built-in functions, constants, "
        "one-error / no-error keywords, legacy isinstance checks); user functions are assumed not to mutate the objects they are given",
        "A-identity: draft7_type_checker is draft6_type_checker; the draft classes' id functions read 'id' (3, 4) and '$id' (6, 7)",
        "A-attrs: attr.evolve / pyrsistent.pmap are persistent (outside the repository)",
    ],
    rule="histories of 2-12 (thorough: 2-40) operations (redefine, redefine_many, remove, extend with keyword overrides / type checker / "
         "version, create with and without version / default_types / type_checker, Validator(schema, types=, format_checker=), "
         "FormatChecker(formats=), checks, cls_checks, caller-side dict updates) over the four base drafts and everything created so far; "
         "after every operation EVERY live object answers its full probe battery (is_type x 30, keyword-table lookups, id key, conforms x 30, "
         "registry keys, is_valid / error keywords on probe schemas exercising types, formats, ids, $ref into meta_schemas and the overridden "
         "keywords) and is compared with the answers recorded at its creation; model compared on all operations and a sample of the probes; "
         "non-trivial = at least two different kinds of operation, distinct by canonical hash of the operation sequence",
)
