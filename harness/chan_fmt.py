"""
C12 (format switch) and C13 (built-in format checkers): campaigns over the FMT and VAL channels.
"""
import collections
import datetime
import re
import warnings

import codec
import corr
import impl
import oracle as oracle_mod

E, V, F = impl.E, impl.V, impl.F
DRAFT_TAGS = ["d3", "d4", "d6", "d7"]


# ------------------------------------------------------------------------------------------
# custom format functions of a scenario (known to both sides by name)

class ListedError(impl.ScenarioError):
    pass


class SubListedError(ListedError):
    pass


class UnlistedError(impl.ScenarioError):
    pass


def mro_names(exc_cls):
    return [c.__name__ for c in exc_cls.__mro__]


# name -> (python function, what the oracle answers for it given the instance)
def _ret(v):
    return (lambda inst: v), (lambda inst: bool(v))


def _raise(cls):
    def f(inst):
        raise cls("scenario")
    return f, (lambda inst: mro_names(cls))


def _ints_only():
    def f(inst):
        return not isinstance(inst, int) or isinstance(inst, bool) or inst % 2 == 0
    return f, (lambda inst: bool(f(inst)))


MENU = {
    "ret-true": _ret(True), "ret-1": _ret(1), "ret-str": _ret("x"), "ret-list": _ret([0]),
    "ret-false": _ret(False), "ret-0": _ret(0), "ret-empty": _ret(""), "ret-none": _ret(None), "ret-emptylist": _ret([]),
    "raise-listed": _raise(ListedError), "raise-sublisted": _raise(SubListedError), "raise-unlisted": _raise(UnlistedError),
    "raise-valueerror": _raise(ValueError), "even-ints": _ints_only(),
    "raise-keyerror": _raise(KeyError), "raise-lookuperror": _raise(LookupError), "raise-indexerror": _raise(IndexError),
    "raise-typeerror": _raise(TypeError),
}


def std_fmt_answer(name, inst):
    """oracle for the built-in formats the model does not carry: computed with the stdlib directly"""
    if not isinstance(inst, str):
        return True
    if name == "regex":
        try:
            re.compile(inst)
            return True
        except re.error as e:
            return mro_names(type(e))
        except (OverflowError, RecursionError) as e:
            return mro_names(type(e))
    if name == "time":
        try:
            datetime.datetime.strptime(inst, "%H:%M:%S")
            return True
        except ValueError as e:
            return mro_names(type(e))
    if name == "idn-hostname":
        import idna
        try:
            idna.encode(inst)
            return True
        except (idna.IDNAError, UnicodeError) as e:
            return mro_names(type(e))
        except Exception as e:       # noqa: BLE001
            return mro_names(type(e))
    raise KeyError(name)


# ------------------------------------------------------------------------------------------
# independent grammars (C13's oracles, written without ipaddress/datetime)

def g_ipv4(s):
    parts = s.split(".")
    if len(parts) != 4:
        return False
    for p in parts:
        if not p or not all(c in "0123456789" for c in p):
            return False
        if len(p) > 1 and p[0] == "0":
            return False
        if int(p) > 255:
            return False
    return True


def g_date(s):
    if len(s) != 10 or s[4] != "-" or s[7] != "-":
        return None
    y, m, d = s[0:4], s[5:7], s[8:10]
    if not all(c in "0123456789" for c in y + m + d):
        return None
    y, m, d = int(y), int(m), int(d)
    if not 1 <= m <= 12:
        return False
    leap = y % 4 == 0 and (y % 100 != 0 or y % 400 == 0)
    dim = [31, 29 if leap else 28, 31, 30, 31, 30, 31, 31, 30, 31, 30, 31][m - 1]
    return 1 <= d <= dim


HEX = "0123456789abcdefABCDEF"


def g_ipv6(s):
    """RFC 4291 2.2 forms 1-3, no zone, no prefix"""
    if "%" in s or "/" in s or not s:
        return False

    def groups_of(part):
        # list of hex groups, the last possibly an IPv4 tail; returns number of 16-bit groups or None
        if part == "":
            return 0
        gs = part.split(":")
        n = 0
        for i, g in enumerate(gs):
            if i == len(gs) - 1 and "." in g:
                if not g_ipv4(g):
                    return None
                n += 2
            else:
                if not (1 <= len(g) <= 4) or not all(c in HEX for c in g):
                    return None
                n += 1
        return n
    if "::" in s:
        if s.count("::") != 1:
            return False
        pre, post = s.split("::")
        if "." in pre:
            return False
        a, b = groups_of(pre), groups_of(post)
        if a is None or b is None:
            return False
        return a + b <= 7
    n = groups_of(s)
    return n == 8


SEEDS = {
    "ipv4": ["127.0.0.1", "0.0.0.0", "255.255.255.255", "1.2.3.4", "256.1.1.1", "01.2.3.4", "1.2.3", "1.2.3.4.5", "1..3.4", "1.2.3.4 ", "١.2.3.4", "1.2.3.４", "+1.2.3.4", "1.2.3.4/8", "0x1.2.3.4", "1.2.3.-4", "999.1.1.1", "1.2.3.00"],
    "ipv6": ["::1", "::", "1::", "1:2:3:4:5:6:7:8", "1:2:3:4:5:6:7::", "::1.2.3.4", "1:2:3:4:5:6:1.2.3.4", "fe80::1%eth0", "::1%", "::1/64", "1:2:3:4:5:6:7:8:9", "12345::", ":::", "1::2::3", "g::1", ":1", "1:", "::ffff:01.2.3.4", "0:0:0:0:0:0:0:0", "ABCD:ef01::", "1:2:3:4:5:6:7", "::1.2.3", "１::"],
    "date": ["2020-01-01", "2020-02-29", "2019-02-29", "2000-02-29", "1900-02-29", "2020-13-01", "2020-00-10", "2020-04-31", "20200101", "2020-W01-1", "2020-1-1", "0000-01-01", "0001-01-01", "9999-12-31", "2020-01-01T00:00:00", " 2020-01-01", "2020-01-01\n", "２０２０-01-01", "2020/01/01", "10000-01-01"],
    "email": ["a@b", "@", "ab", "", "a@b@c", "é@ü", "joe\uff20example.com", "joe\ufe6bexample.com", "\uff20", "a\u0040b", "a%40b", "a&#64;b", "ａ＠ｂ"],
    "regex": ["a", "(", "a{2}", "a{99999999999}", "[", "(?P<x>a)(?P=x)", "\\", "a**", "(" * 400, "[a-", "(?i)a", "\\d+", "a{2,1}",
              "(?<=a*)b", "(?<=a|bc)d", "(?<!\\d+)\\.", "(?<=ab)c", "(?<!a)b", "(?P<n>a)(?P<n>b)", "(?P=missing)", "\\1", "(a)\\2", "a(?#comment", "(?z)", "\\p{L}", "[[:alpha:]]"],
    "time": ["12:00:00", "24:00:00", "1:2:3", "12:00", "12:00:60", "ab", " 12:00:00", "12:00:00Z"],
    "idn-hostname": ["example.com", "ex ample", "日本語.jp", "-a.com", "a" * 70 + ".com", "", ".", "xn--", "a..b", "٠.com"],
}
ALIASES = {"ip-address": "ipv4", "idn-email": "email"}


def mutate(r, s):
    k = r.randrange(6)
    alphabet = "0123456789.:-%/ abcfgzxW@\n\t١２é(){}[]\\*+?T\uff20\ufe6b\uff0e\uff1a\u3002\u2024"
    if not s:
        return r.choice(alphabet)
    i = r.randrange(len(s))
    if k == 0:
        return s[:i] + s[i + 1:]
    if k == 1:
        return s[:i] + r.choice(alphabet) + s[i:]
    if k == 2:
        return s[:i] + r.choice(alphabet) + s[i + 1:]
    if k == 3 and len(s) > 1:
        j = r.randrange(len(s))
        l = list(s)
        l[i], l[j] = l[j], l[i]
        return "".join(l)
    if k == 4:
        return s + r.choice(alphabet)
    return r.choice(alphabet) + s


def check_impl(fc, inst, name):
    """(conforms result, check outcome) on the real checker"""
    try:
        c = fc.conforms(inst, name)
        conf = ["ok", c] if isinstance(c, bool) else ["not-bool", repr(c)]
    except Exception as exc:        # noqa: BLE001
        conf = ["raised", impl.exc_json(exc)]
    try:
        fc.check(inst, name)
        chk = ["ok"]
    except E.FormatError as e:
        chk = ["FormatError", None if e.cause is None else type(e.cause).__name__]
    except Exception as exc:        # noqa: BLE001
        chk = ["raised", impl.exc_json(exc)]
    return conf, chk


def c13(ctx):
    res = ctx.res
    checkers = [("class", None, F.FormatChecker())] + [("draft", t, impl.DRAFT_FC[t]) for t in DRAFT_TAGS]
    orc = oracle_mod.Oracle(fmt=lambda name, inst: std_fmt_answer(ALIASES.get(name, name), inst))
    grammar = {"ipv4": g_ipv4, "ipv6": g_ipv6, "email": lambda s: "@" in s}
    lenient = F.FormatChecker(formats=())
    for nm in sorted(set(F.FormatChecker.checkers) | set(SEEDS) | set(ALIASES)):
        lenient.checks(nm)(lambda x: True)
    for _ in range(ctx.n(4000)):
        spec, tag, fc = ctx.r.choice(checkers)
        name = ctx.r.choice(sorted(fc.checkers))
        base = ALIASES.get(name, name)
        s = ctx.r.choice(SEEDS[base])
        for _k in range(ctx.r.choice([0, 1, 1, 2, 3])):
            s = mutate(ctx.r, s)
        inst = s if ctx.r.random() < 0.93 else ctx.g.value(1)
        case = {"fc": spec, "cls": tag, "name": name, "inst": inst}
        # an application's private, lenient checker for the same format name is used first: the
        # built-in checkers' answers do not depend on it
        lenient.conforms(inst, name)
        conf, chk = check_impl(fc, inst, name)
        res.note(hash((spec, tag, name, codec.canon(inst))), isinstance(inst, str), case)
        res.distribution["%s:%s" % (base, chk[0])] += 1
        # never raises anything but FormatError; conforms returns a bool
        if chk[0] == "raised":
            res.fail("format-raises:%s:%s" % (base, chk[1][-1] if isinstance(chk[1], list) else chk[1]),
                     "check(%r, %r) raised %r" % (inst, name, chk[1]), case)
        if conf[0] != "ok":
            res.fail("conforms-not-bool:%s" % base, "conforms(%r, %r) gave %r" % (inst, name, conf), case)
        # the grammar
        if isinstance(inst, str) and conf[0] == "ok":
            if base in grammar:
                want = grammar[base](inst)
                if conf[1] != want:
                    res.fail("grammar:%s:%s" % (base, "accepts" if conf[1] else "rejects"),
                             "%s: conforms(%r) = %r, the grammar says %r" % (name, inst, conf[1], want), case)
            elif base == "date":
                want = g_date(inst)
                want_b = bool(want)
                if conf[1] != want_b:
                    sig = "grammar:date:year0000" if (want and inst.startswith("0000-")) else "grammar:date:%s" % ("accepts" if conf[1] else "rejects")
                    res.fail(sig, "date: conforms(%r) = %r, RFC 3339 full-date says %r" % (inst, conf[1], want_b), case)
            elif base == "regex":
                try:
                    re.compile(inst)
                    want = True
                except Exception:       # noqa: BLE001
                    want = False
                if conf[1] != want:
                    res.fail("grammar:regex", "regex: conforms(%r) = %r, re.compile says %r" % (inst, conf[1], want), case)
        elif not isinstance(inst, str) and conf != ["ok", True]:
            res.fail("nonstring-rejected:%s" % base, "%s rejects the non-string %r" % (name, inst), case)
        # correspondence
        m = ctx.drv.run("FMT", case, orc)
        res.compared += 1
        d = corr.diff(m, chk)
        if d:
            res.disagree("FMT", case, m, chk, d)


def c13_deep_then_shallow(ctx):
    """a checker object first asked from a stack so deep that compiling the pattern runs into the
    recursion limit (whatever it answers there), then asked the same question from the top of the
    stack: THAT answer is the grammar's, whatever happened before. Patterns are fresh each time
    (nothing, the `re` module's own cache included, has seen them before)."""
    res = ctx.res
    import sys

    def frames():
        f, n = sys._getframe(), 0
        while f is not None:
            f, n = f.f_back, n + 1
        return n
    limit = sys.getrecursionlimit()
    k = ctx.seed * 1000
    for spec, tag, fc in [("class", None, F.FormatChecker())] + [("draft", t, impl.DRAFT_FC[t]) for t in DRAFT_TAGS]:
        if "regex" not in fc.checkers:
            continue
        for margin in list(range(3, 60, 2)) + [70, 90, 120]:
            k += 1
            s = ctx.r.choice(["^(?:(?:[a-f]|q%d)*x){%d}$", "((((a%d))))b{%d}", "[a-z]+(\\d{2})?z%d{%d}", "(?P<n>k%d)+(?P=n){%d}", "(unclosed%d{%d}", "a%d{3,%d}{"]) % (k, margin)

            def dive(n):
                if n <= 0:
                    try:
                        return fc.conforms(s, "regex")
                    except BaseException:      # noqa: BLE001  (a RecursionError this deep is the interpreter's business)
                        return None
                return dive(n - 1)
            re.purge()
            try:
                dive(limit - frames() - margin)
            except RecursionError:
                pass
            got = fc.conforms(s, "regex")
            try:
                re.compile(s)
                want = True
            except Exception:       # noqa: BLE001
                want = False
            res.note(hash(("c13deep", spec, tag, s)), True, None)
            if got != want:
                res.fail("format:history-dependent:regex",
                         "regex: after the same question was asked with about %d frames left, conforms(%r) = %r; re.compile says %r" % (margin, s, got, want),
                         {"fc": spec, "cls": tag, "name": "regex", "inst": s, "frames_left": margin})
                break
    res.distribution["deep-then-shallow questions"] += 1


def c13_all(ctx):
    c13_deep_then_shallow(ctx)
    c13(ctx)


def c12(ctx):
    res = ctx.res
    for _ in range(ctx.n(2500)):
        tag = ctx.r.choice(DRAFT_TAGS)
        cls = impl.DRAFTS[tag]
        inst = ctx.g.value(1) if ctx.r.random() < 0.6 else ctx.r.choice(sum(SEEDS.values(), []))
        mode = ctx.r.choice(["none", "class", "draft", "subset", "custom", "custom"])
        custom = None
        if mode == "none":
            spec = None
        elif mode in ("class", "draft"):
            spec = mode
        elif mode == "subset":
            names = ctx.r.sample(sorted(F.FormatChecker.checkers), ctx.r.randrange(0, 4))
            spec = [[n, {"is_email": "email", "is_ipv4": "ipv4", "is_ipv6": "ipv6", "is_date": "date"}.get(F.FormatChecker.checkers[n][0].__name__, "oracle"),
                     impl_raises(F.FormatChecker.checkers[n][1])] for n in names]
            custom = {n: F.FormatChecker.checkers[n] for n in names}
        else:
            spec, custom = [], {}
            for k in range(ctx.r.randrange(1, 4)):
                fname = ctx.r.choice(["myfmt", "email", "other", "", "ipv4"])
                key = ctx.r.choice(sorted(MENU))
                raises = ctx.r.choice([(), ListedError, (ListedError, KeyError), ValueError, KeyError, LookupError, (ValueError, TypeError)])
                if fname in custom:
                    continue
                custom[fname] = (MENU[key][0], raises)
                spec.append([fname, "oracle:" + key, impl_raises(raises)])
        known = [] if spec is None else (sorted(impl.make_fc(spec, tag, custom).checkers) if spec is not None else [])
        name = (ctx.r.choice(known + ["unknown-format", "", "myfmt", "email"]) if ctx.r.random() < 0.7
                else ctx.r.choice(["nope", "date", "regex", "ip-address", "host-name", "hostname", "ipv4", "ipv6", "color", "date-time", "time", "uri", "IPV4", "ipv4 "]))
        schema = {"format": name}
        if ctx.r.random() < 0.3:
            schema["type"] = ctx.r.choice(["string", "integer", "object"])
        case = {"cls": tag, "schema": schema, "inst": inst, "budget": None, "fc": spec}
        fco = impl.make_fc(spec, tag, custom)
        res.note(hash(codec.canon([tag, schema, inst, spec])), spec is not None, case)
        res.distribution["mode:" + mode] += 1

        def answer(nm, x, _custom=custom, _spec=spec):
            if _spec not in (None, "class", "draft"):
                for row in _spec:
                    if row[0] == nm and row[1].startswith("oracle:"):
                        return MENU[row[1][7:]][1](x)
            return std_fmt_answer(ALIASES.get(nm, nm), x)
        # ---- implementation
        v = cls(schema, format_checker=fco)
        errs, stop = impl.consume(v.iter_errors(inst), None)
        fmt_errs = [e for e in errs if e.validator == "format"]
        # monitor 1: off without a checker
        if fco is None:
            if fmt_errs or stop[0] != "done":
                res.fail("format-active-without-checker", "format %r had an effect without a checker" % name, case)
        else:
            try:
                conf = ["ok", fco.conforms(inst, name)]
            except Exception as exc:        # noqa: BLE001
                conf = ["raised", exc]
            if conf[0] == "ok":
                if stop[0] != "done":
                    res.fail("format-raises-though-conforms-returns", "iter_errors raised %r" % (stop,), case)
                elif bool(fmt_errs) != (conf[1] is False):
                    res.fail("format-vs-conforms", "conforms=%r but %d format errors" % (conf[1], len(fmt_errs)), case)
                if name not in fco.checkers and (conf[1] is not True or fmt_errs):
                    res.fail("unknown-format-fails", "unknown format %r does not pass" % name, case)
                if fmt_errs and name in fco.checkers:
                    func, raises = fco.checkers[name]
                    try:
                        func(inst)
                        raised = None
                    except Exception as exc:        # noqa: BLE001
                        raised = exc
                    cause = fmt_errs[0].cause
                    if raised is not None and (cause is None or type(cause) is not type(raised)):
                        res.fail("listed-exception-not-cause", "the listed exception is not the error's cause", case)
                    if raised is None and cause is not None:
                        res.fail("spurious-cause", "a cause although the function returned", case)
            else:
                exc = conf[1]
                # an unlisted exception reaches the caller unchanged
                if stop[0] != "raised" or stop[1] != impl.exc_json(exc):
                    res.fail("unlisted-exception-swallowed", "conforms raises %s but iter_errors gave %r" % (type(exc).__name__, stop), case)
        # monitor 3: against the registered function itself
        if fco is not None and name in fco.checkers:
            func, raises = fco.checkers[name]
            try:
                r0 = func(inst)
                raised0 = None
            except Exception as exc:        # noqa: BLE001
                raised0 = exc
            if raised0 is None:
                if stop[0] != "done" or bool(fmt_errs) != (not r0):
                    res.fail("format-vs-function:result", "the function returned %r but iter_errors gave %d format errors, stop %r" % (r0, len(fmt_errs), stop), case)
            elif raises and isinstance(raised0, raises):
                if stop[0] != "done" or not fmt_errs or type(fmt_errs[0].cause) is not type(raised0):
                    res.fail("format-vs-function:listed-exception", "the function raised the listed %s but the error/cause is missing" % type(raised0).__name__, case)
            else:
                if stop[0] != "raised" or stop[1] != impl.exc_json(raised0):
                    res.fail("format-vs-function:unlisted-exception", "the function raised the unlisted %s but iter_errors gave %r" % (type(raised0).__name__, stop), case)
        # ---- correspondence (messages, causes, stop)
        m = corr.model_val(ctx.drv.run("VAL", model_case(case), oracle_mod.Oracle(fmt=answer)))
        i = {"errs": [impl.err_json(e) for e in errs], "stop": stop}
        res.compared += 1
        d = corr.diff({"errs": m.get("errs"), "stop": m.get("stop")}, i)
        if d:
            res.disagree("VAL", case, m, i, d)


def _typed(pred):
    return pred, (lambda inst: bool(pred(inst)))


# functions that tell apart what Python's hash and `==` identify (1 / True / 1.0, 0 / False / 0.0)
TYPED_MENU = {
    "ints-not-bools": _typed(lambda x: type(x) is int),
    "true-only": _typed(lambda x: x is True),
    "floats-only": _typed(lambda x: type(x) is float),
    "not-false": _typed(lambda x: x is not False),
    "strings-only": _typed(lambda x: isinstance(x, str)),
}
WRAPPERS = [
    ("plain", lambda s: s, lambda i: i),
    ("ref", lambda s: {"$ref": "#/definitions/f", "definitions": {"f": s}}, lambda i: i),
    ("ref-chain", lambda s: {"$ref": "#/definitions/g", "definitions": {"g": {"$ref": "#/definitions/f"}, "f": s}}, lambda i: i),
    ("properties", lambda s: {"properties": {"a": s}}, lambda i: {"a": i}),
    ("items", lambda s: {"items": s}, lambda i: [i]),
    ("ref-in-items", lambda s: {"items": {"$ref": "#/definitions/f"}, "definitions": {"f": s}}, lambda i: [i, i]),
    ("additionalProperties", lambda s: {"additionalProperties": s}, lambda i: {"zz": i}),
]
WRAPPERS_SINCE4 = [
    ("allOf", lambda s: {"allOf": [s]}, lambda i: i),
    ("anyOf", lambda s: {"anyOf": [s, s]}, lambda i: i),
    ("not", lambda s: {"not": s}, lambda i: i),
    ("oneOf-ref", lambda s: {"oneOf": [{"$ref": "#/definitions/f"}], "definitions": {"f": s}}, lambda i: i),
]
TWINS = [1, True, 1.0, 0, False, 0.0, "1", None, 2, 2.0, [1], [True], {"a": 1}, {"a": True}]


def c12_histories(ctx):
    """(a) ONE checker object and ONE validator asked about instances that Python's hash and `==`
    identify, in random order, and a format re-registered on a checker already in use: every answer
    follows the function registered NOW; (b) the format keyword behind `$ref` and under every
    applicator: an exception the function raises without listing it reaches the caller unchanged —
    same class — from iter_errors, is_valid and validate."""
    res = ctx.res
    r = ctx.r
    # (a)
    for _ in range(ctx.n(120)):
        tag = r.choice(DRAFT_TAGS)
        cls = impl.DRAFTS[tag]
        k1, k2 = r.sample(sorted(TYPED_MENU), 2)
        fc = F.FormatChecker(formats=())
        fc.checks("typed")(TYPED_MENU[k1][0])
        v = cls({"format": "typed"}, format_checker=fc)
        seq = [r.choice(TWINS) for _k in range(r.randrange(4, 10))]
        case = {"cls": tag, "functions": [k1, k2], "seq": seq}
        res.note(hash(codec.canon(["c12hist", tag, k1, k2, seq])), True, case)
        cur = k1
        for n, x in enumerate(seq):
            if n == len(seq) // 2:
                fc.checks("typed")(TYPED_MENU[k2][0])       # re-registered on the used checker
                cur = k2
            want = bool(TYPED_MENU[cur][0](x))
            how = r.choice(["conforms", "is_valid", "iter_errors", "check"])
            if how == "conforms":
                got = fc.conforms(x, "typed")
            elif how == "check":
                try:
                    fc.check(x, "typed")
                    got = True
                except E.FormatError:
                    got = False
            elif how == "is_valid":
                got = v.is_valid(x)
            else:
                got = not list(v.iter_errors(x))
            if got != want:
                res.fail("format-vs-function:history:" + how,
                         "%s(%r) after %r says %r, the registered function (%s) says %r" % (how, x, seq[:n], got, cur, want), dict(case, at=n))
                break
    # (b)
    kinds = {"TypeError": TypeError, "AttributeError": AttributeError, "KeyError": KeyError, "ValueError": ValueError,
             "ZeroDivisionError": ZeroDivisionError, "RuntimeError": RuntimeError, "LookupError": LookupError, "UnlistedError": UnlistedError}
    for _ in range(ctx.n(300)):
        tag = r.choice(DRAFT_TAGS)
        cls = impl.DRAFTS[tag]
        wname, wrap, winst = r.choice(WRAPPERS + (WRAPPERS_SINCE4 if tag != "d3" else []))
        kind = r.choice(sorted(kinds))
        listed = r.choice([(), ListedError, (ListedError, IndexError)])
        exc_cls = kinds[kind]

        def func(x, _c=exc_cls):
            raise _c("scenario")
        fc = F.FormatChecker(formats=())
        fc.checks("boom", raises=listed)(func)
        inst0 = r.choice(["s", 12, None, [1], {"k": 1}])
        schema, inst = wrap({"format": "boom"}), winst(inst0)
        case = {"cls": tag, "wrapper": wname, "raises": kind, "listed": impl_raises(listed), "schema": schema, "inst": inst}
        res.note(hash(codec.canon(["c12wrap", tag, wname, kind, inst])), True, case)
        for how in ("iter_errors", "is_valid", "validate"):
            v = cls(schema, format_checker=fc)
            try:
                if how == "iter_errors":
                    list(v.iter_errors(inst))
                elif how == "is_valid":
                    v.is_valid(inst)
                else:
                    v.validate(inst)
                got = "returned"
            except Exception as exc:        # noqa: BLE001
                got = type(exc).__name__
            if got != exc_cls.__name__:
                res.fail("unlisted-exception-swallowed:%s" % wname,
                         "the function raises the unlisted %s; %s under %s gave %s" % (exc_cls.__name__, how, wname, got), dict(case, how=how))
                break


def c12_module_validate(ctx):
    """(c) the module-level `validate()` called several times on the SAME schema object, with and
    without a format checker, in both orders: formats are checked in exactly the calls that pass a
    checker. (d) a format function that raises a LISTED exception chained to another one
    (`raise Listed(...) from inner`, an implicit `__context__`, `from None`): the error's cause is the
    exception the function raised — that object — never what it was chained to."""
    res, r = ctx.res, ctx.r
    V = impl.V
    for _ in range(ctx.n(40)):
        tag = r.choice(DRAFT_TAGS)
        cls = impl.DRAFTS[tag]
        fc = F.FormatChecker(formats=())
        fc.checks("even")(lambda x: not isinstance(x, int) or isinstance(x, bool) or x % 2 == 0)
        schema = r.choice([{"format": "even"}, {"properties": {"a": {"format": "even"}}}, {"items": {"format": "even"}}])
        wrap = (lambda x: x) if "format" in schema else (lambda x: {"a": x}) if "properties" in schema else (lambda x: [x])
        calls = [(r.choice([3, 4, 5, "s"]), r.random() < 0.5) for _k in range(r.randrange(2, 7))]
        case = {"cls": tag, "schema": schema, "calls": [[x, w] for x, w in calls]}
        res.note(hash(codec.canon(["c12module", case])), True, None)
        explicit = r.random() < 0.5
        for n, (x, with_fc) in enumerate(calls):
            kw = {"format_checker": fc} if with_fc else {}
            if explicit:
                kw["cls"] = cls
            try:
                with warnings.catch_warnings():
                    warnings.simplefilter("ignore")
                    V.validate(wrap(x), schema, **kw)
                got = True
            except E.ValidationError:
                got = False
            want = (not with_fc) or not (isinstance(x, int) and x % 2 == 1)
            if got != want:
                res.fail("format-switch:module-validate-history",
                         "call %d, validate(%r, schema%s): %s; calls before it on the same schema object: %r"
                         % (n, wrap(x), ", format_checker=fc" if with_fc else "", "accepted" if got else "rejected", calls[:n]), dict(case, at=n))
                break
    # (d)
    for _ in range(ctx.n(40)):
        tag = r.choice(DRAFT_TAGS)
        cls = impl.DRAFTS[tag]
        style = r.choice(["from-inner", "from-unlisted", "context", "from-none", "plain"])
        raised = []

        def func(x, _style=style):
            inner = KeyError("inner") if _style != "from-unlisted" else UnlistedError("inner")
            exc = ListedError("outer")
            raised.append(exc)
            if _style in ("from-inner", "from-unlisted"):
                raise exc from inner
            if _style == "context":
                try:
                    raise inner
                except KeyError:
                    raise exc
            if _style == "from-none":
                raise exc from None
            raise exc
        fc = F.FormatChecker(formats=())
        fc.checks("chained", raises=(ListedError, KeyError))(func)
        case = {"cls": tag, "style": style}
        res.note(hash(("c12chain", tag, style, _)), True, None)
        try:
            fc.check("x", "chained")
            res.fail("listed-exception:not-reported", "the function raised a listed exception; check() returned", case)
            continue
        except E.FormatError as fe:
            if fe.cause is not raised[-1]:
                res.fail("listed-exception:cause-is-not-what-was-raised",
                         "the function raised %r (%s); FormatError.cause is %r" % (raised[-1], style, fe.cause), case)
                continue
        errs = list(cls({"format": "chained"}, format_checker=fc).iter_errors("x"))
        if len(errs) != 1 or errs[0].cause is not raised[-1]:
            res.fail("listed-exception:cause-is-not-what-was-raised",
                     "the function raised %r (%s); the ValidationError's cause is %r" % (raised[-1], style, errs and errs[0].cause), case)


def c12_all(ctx):
    c12_histories(ctx)
    c12_module_validate(ctx)
    c12(ctx)


def impl_raises(raises):
    if isinstance(raises, tuple):
        return [c.__name__ for c in raises]
    return [raises.__name__]


def model_case(case):
    c = dict(case)
    if isinstance(c.get("fc"), list):
        c["fc"] = [[n, (f if not f.startswith("oracle:") else "oracle"), r] for n, f, r in c["fc"]]
    return c


A = ["A-json: instances are finite trees of JSON values with Unicode-scalar strings",
     "A-stdlib: the Lean models of ipaddress.IPv4Address/IPv6Address and date.fromisoformat are for CPython 3.12 and are tied to this installation by the FMT correspondence; re.compile, strptime and idna.encode are oracles",
     "correspondence is sampled", "harness: codec, render.py, monitors, the three independent Python grammars in chan_fmt.py"]
PLAN12 = dict(assumptions=A, rule="format names (known to the checker, unknown, empty) x instances of every JSON type and near-miss strings x {no checker, FormatChecker(), draft checker, FormatChecker(formats=subset), checkers with custom functions returning truthy/falsy values or raising listed / subclass-of-listed / unlisted exceptions} x four drafts, through real {format: name} schemas; non-trivial = a checker is attached")
PLAN13 = dict(assumptions=A, rule="for every format registered in FormatChecker.checkers and in the four draft checkers: seeds (valid and invalid) with 0-3 single-character insertions, deletions, substitutions, swaps incl. non-ASCII digits, whitespace, ISO-8601 variants, counts off by one, absurd repetition counts; 7% non-string instances; non-trivial = string instance")
