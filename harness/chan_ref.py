"""
C02 — `$ref` transparency: campaign with multi-document bundles, nested base URIs and an
independent *inliner* (lexically scoped reference semantics written from RFC 3986 / RFC 6901,
using urllib.parse.urljoin only as the RFC 3986 resolver), used as a metamorphic oracle:
validating against a schema with references must give the same verdict and errors at the same
instance locations as validating against the schema with every reference written out.
"""
import copy
import json
from urllib.parse import urldefrag, urljoin, unquote

import codec
import corr
import gen
import impl
import oracle as oracle_mod

E = impl.E
DRAFT_TAGS = ["d3", "d4", "d6", "d7"]


class Cyclic(Exception):
    pass


class Unresolvable(Exception):
    pass


def ptr_get(doc, frag):
    """RFC 6901 evaluation of a URI fragment, written independently of the library"""
    frag = unquote(frag)
    if frag == "":
        return doc
    if not frag.startswith("/"):
        raise Unresolvable(frag)
    cur = doc
    for tok in frag[1:].split("/"):
        tok = tok.replace("~1", "/").replace("~0", "~")
        if isinstance(cur, dict):
            if tok not in cur:
                raise Unresolvable(frag)
            cur = cur[tok]
        elif isinstance(cur, list):
            if not (tok == "0" or (tok and tok[0] in "123456789" and all(c in "0123456789" for c in tok))) or int(tok) >= len(cur):
                raise Unresolvable(frag)
            cur = cur[int(tok)]
        else:
            raise Unresolvable(frag)
    return cur


def inline(tag, root, docs, base, max_depth=12):
    """the schema with every reference replaced by the schema it designates (siblings dropped);
    raises Cyclic for recursive references and Unresolvable when a target does not exist"""
    idk = "id" if tag in ("d3", "d4") else "$id"
    all_docs = dict(docs)
    all_docs[urldefrag(base)[0]] = root

    def go(s, b, depth, stack):
        if depth > max_depth:
            raise Cyclic()
        if isinstance(s, dict):
            ref = s.get("$ref")
            sid = s.get(idk)
            if isinstance(sid, str) and sid and not isinstance(ref, str):
                b = urljoin(b, sid)          # keywords next to a reference (the id included) are ignored
            if isinstance(ref, str):
                target_uri = urljoin(b, ref)
                u, frag = urldefrag(target_uri)
                key = (u, frag)
                if key in stack:
                    raise Cyclic()
                if u not in all_docs:
                    raise Unresolvable(target_uri)
                target = ptr_get(all_docs[u], frag)
                if not isinstance(target, (dict, bool)):
                    raise Unresolvable("non-schema target")
                # the code enters the target with the resolved URL as its scope
                return go(target, target_uri, depth + 1, stack | {key})
            out = {}
            for k, v in s.items():
                if k == idk:
                    continue            # the base has been applied; inlined text carries no ids
                out[k] = go_kw(k, v, b, depth, stack)
            return out
        return s

    def go_kw(k, v, b, depth, stack):
        # recurse exactly at subschema positions
        if k in ("properties", "patternProperties", "definitions") and isinstance(v, dict):
            return {n: go(x, b, depth, stack) for n, x in v.items()}
        if k == "dependencies" and isinstance(v, dict):
            return {n: (go(x, b, depth, stack) if isinstance(x, (dict, bool)) and not isinstance(x, list) else x) for n, x in v.items()}
        if k in ("additionalProperties", "additionalItems", "contains", "propertyNames", "not", "if", "then", "else"):
            return go(v, b, depth, stack) if isinstance(v, dict) else v
        if k in ("items", "extends"):
            if isinstance(v, dict):
                return go(v, b, depth, stack)
            if isinstance(v, list):
                return [go(x, b, depth, stack) if isinstance(x, dict) else x for x in v]
            return v
        if k in ("allOf", "anyOf", "oneOf") and isinstance(v, list):
            return [go(x, b, depth, stack) if isinstance(x, dict) else x for x in v]
        if k in ("type", "disallow") and isinstance(v, list) and tag == "d3":
            return [go(x, b, depth, stack) if isinstance(x, dict) else x for x in v]
        return v
    return go(root, base, 0, frozenset())


def d3_no_required(tag, s):
    """Draft 3 `required` in a property subschema is read lexically by the parent and is excluded from
    extraction (the property says so): a reference target standing at a property position must not carry it"""
    if tag == "d3" and isinstance(s, dict):
        s.pop("required", None)
    return s


def strip_definitions(s):
    if isinstance(s, dict):
        return {k: strip_definitions(v) for k, v in s.items() if k != "definitions"}
    if isinstance(s, list):
        return [strip_definitions(x) for x in s]
    return s


def bundle(ctx, tag):
    """root schema + external documents with their own internal references, nested relative ids,
    the same fragment strings designating different things in different documents"""
    g, r = ctx.g, ctx.r
    idk = "id" if tag in ("d3", "d4") else "$id"
    root, store, world, info = g.ref_schema(tag, r.choice([1, 2, 2]))
    base = root.get(idk, "") if isinstance(root.get(idk), str) else ""
    docs = {}
    docs.update(store)
    docs.update(world)
    # internal references inside the external documents: "#/defs/…" means *that* document
    for url, doc in docs.items():
        if not isinstance(doc, dict) or not isinstance(doc.get("defs"), dict):
            continue
        if r.random() < 0.7:
            name = r.choice(gen.HOSTILE)
            doc["defs"][name + "-inner"] = d3_no_required(tag, g.schema(tag, 1))
            victim = r.choice(list(doc["defs"]))
            if isinstance(doc["defs"][victim], dict) and "$ref" not in doc["defs"][victim] and victim != name + "-inner":
                sl = gen.all_slots(doc["defs"][victim], tag)
                if sl:
                    c, k, _ = r.choice(sl)
                    if not (tag == "d3" and isinstance(c[k], dict) and "required" in c[k]):
                        c[k] = {"$ref": "#" + g.frag_for(["defs", name + "-inner"])}
        # the same string as a root-local definition, designating something else
        if isinstance(root.get("definitions"), dict) and r.random() < 0.4:
            for n in list(root["definitions"])[:1]:
                doc.setdefault("definitions", {})[n] = d3_no_required(tag, g.schema(tag, 1))
    # the SAME reference string ("#/definitions/x") used by the root and by an external document, where it
    # designates something else (each document's own definitions): a cache keyed by the string alone confuses them
    local = []

    def collect(x):
        if isinstance(x, dict):
            rs = x.get("$ref")
            if isinstance(rs, str) and rs.startswith("#/"):
                toks = [t.replace("~1", "/").replace("~0", "~") for t in unquote(rs[1:]).split("/")[1:]]
                if len(toks) == 2 and toks[0] == "definitions":
                    local.append((rs, toks[1]))
            for v in x.values():
                collect(v)
        elif isinstance(x, list):
            for v in x:
                collect(v)
    collect(root)
    if local and r.random() < 0.6 and isinstance(root, dict):
        rs, name = r.choice(local)
        url = r.choice(list(docs)) if docs and r.random() < 0.7 else "http://ex.org/samestring.json"
        target = world if url in world else store
        doc = target.setdefault(url, {"defs": {}})
        if isinstance(doc, dict):
            doc.setdefault("defs", {})
            doc.setdefault("definitions", {})
            if isinstance(doc["defs"], dict) and isinstance(doc["definitions"], dict):
                doc["definitions"][name] = d3_no_required(tag, g.schema(tag, 1))
                doc["defs"]["usesSame"] = {"properties": {"p": {"$ref": rs}}}
                if not isinstance(root.get("properties"), dict):
                    root["properties"] = {}
                # order matters for such a cache: sometimes the external use comes first, sometimes last
                items = list(root["properties"].items())
                items.insert(r.randrange(len(items) + 1), ("viaext", {"$ref": url + "#/defs/usesSame"}))
                root["properties"] = dict(items)
                info["kinds"].append("same-string-two-documents")
    # nested relative ids on the evaluation path (two levels) with a relative reference below them
    if base.startswith("http") and r.random() < 0.5 and isinstance(root, dict):
        sub_url = urljoin(urljoin(base, "a/"), "b/") + "leaf.json"
        decoy_url = urljoin(base, "b/") + "leaf.json"
        docs_target = store if r.random() < 0.5 else world
        docs_target[sub_url] = d3_no_required(tag, g.schema(tag, 1))
        docs_target[decoy_url] = d3_no_required(tag, g.schema(tag, 1))
        root.setdefault("properties", {})
        if isinstance(root["properties"], dict):
            root["properties"]["nest"] = {idk: "a/", "properties": {"deep": {idk: "b/", "properties": {"leaf": {"$ref": "leaf.json"}}}}}
        info["kinds"].append("nested-relative-ids")
    # the SAME relative reference string under two different bases, both resolvable, designating different
    # things: a cache keyed by the string alone (or by the first base) confuses them, in either order
    if base.startswith("http") and r.random() < 0.4 and isinstance(root, dict):
        ua, ub = urljoin(base, "ta/") + "item.json", urljoin(base, "tb/") + "item.json"
        ka, kb = r.sample(gen.SIMPLE_TYPES, 2)
        docs_target = store if r.random() < 0.6 else world
        docs_target[ua] = {"type": ka}
        docs_target[ub] = {"type": kb}
        root.setdefault("properties", {})
        if isinstance(root["properties"], dict):
            two = [("twoA", {idk: "ta/", "items": {"$ref": "item.json"}}), ("twoB", {idk: "tb/", "items": {"$ref": "item.json"}})]
            r.shuffle(two)
            items = list(root["properties"].items())
            for kv in two:
                items.insert(r.randrange(len(items) + 1), kv)
            root["properties"] = dict(items)
            info["kinds"].append("same-relative-ref-two-bases")
    return root, store, world, info, base


def locs(errs):
    """verdict and error locations: the multiset of (absolute instance path, keyword) at top level"""
    return sorted(codec.canon([list(e.absolute_path), e.validator]) for e in errs)


def campaign(ctx):
    res = ctx.res
    for _ in range(ctx.n(1200)):
        tag = ctx.r.choice(DRAFT_TAGS)
        cls = impl.DRAFTS[tag]
        root, store, world, info, base = bundle(ctx, tag)
        try:
            if not all_accepted(cls, root, store, world):
                res.distribution["bundle-rejected"] += 1
                continue
        except Exception:       # noqa: BLE001
            continue
        rspec = {"store": [[k, v] for k, v in store.items()]}
        for k in info["kinds"]:
            res.distribution["ref:" + k] += 1
        docs = dict(store)
        docs.update(world)
        try:
            flat = inline(tag, root, docs, base)
            res.distribution["inlined"] += 1
        except Cyclic:
            flat = None
            res.distribution["recursive"] += 1
        except Unresolvable:
            flat = None
            res.distribution["unresolvable"] += 1
        for _k in range(3):
            inst = ctx.g.instance_for(tag, flat if flat is not None else root)
            if isinstance(inst, dict) and ctx.r.random() < 0.5:
                inst.setdefault("nest", {"deep": {"leaf": ctx.g.value(1)}})
            if isinstance(inst, dict) and "same-string-two-documents" in info["kinds"] and ctx.r.random() < 0.8:
                inst.setdefault("viaext", {"p": ctx.g.value(1)})
            case = {"cls": tag, "schema": root, "inst": inst, "budget": None, "resolver": rspec, "world": world}
            wi = impl.World(world)
            # one case in three on copies in which equal containers are ONE Python object (the same
            # reference object under two bases, shared subschemas): invisible to JSON, hence to the answer
            root_i, inst_i = impl.maybe_alias(case, root, inst)
            rv = impl.make_resolver(cls, root_i, rspec, wi)
            errs, stop = impl.consume(cls(root_i, resolver=rv).iter_errors(inst_i), None)
            res.note(hash(codec.canon([tag, root, inst])), True, {"cls": tag, "schema": root, "inst": inst, "store": store, "world": world})
            # ---- monitor: the inlined schema
            if flat is not None:
                if stop[0] == "raised":
                    res.fail("ref:raises-but-inlinable:" + str(stop[1][0]),
                             "every reference has a designated schema, yet validation raised %r" % (stop[1],), case, inlined=flat)
                else:
                    ferrs, fstop = impl.consume(cls(strip_definitions(flat)).iter_errors(inst), None)
                    if fstop[0] == "done" and locs(errs) != locs(ferrs):
                        res.fail("ref:differs-from-inlined:" + ",".join(sorted(set(info["kinds"])))[:80],
                                 "verdict or error locations differ from the schema with references written out: %r vs %r"
                                 % (locs(errs)[:3], locs(ferrs)[:3]), case, inlined=flat)
            # ---- correspondence (full error records, scopes, store keys, fetch log)
            wm = impl.World(world)
            m = corr.model_val(ctx.drv.run("VAL", {"cls": tag, "schema": root, "inst": inst, "budget": None, "resolver": rspec},
                                           oracle_mod.Oracle(fetch=wm.answer)))
            i = {"errs": [impl.err_json(e) for e in errs], "stop": stop, "st": impl.state_json(rv, wi)}
            res.compared += 1
            d = corr.diff(m, i)
            if d:
                res.disagree("VAL", case, None, None, d)


def all_accepted(cls, root, store, world):
    cls.check_schema(root)
    return True


PLAN = dict(
    assumptions=["A-json", "A-url: urllib.parse.urljoin/urldefrag are the RFC 3986 resolver (oracles in the model; used directly by the independent inliner)",
                 "A-handlers", "correspondence is sampled", "harness: codec, render.py, the inliner in chan_ref.py"],
    rule="root schemas with references placed at random subschema positions (local definitions under hostile names, chains, store and handler documents, relative references, "
         "missing targets, recursion) plus external documents carrying their own internal '#…' references, the same reference strings designating different things in different documents, "
         "and two levels of nested relative ids above a relative reference (with a decoy document at the wrongly joined URI); x 3 instances; the inlined schema (independent lexical-scope "
         "inliner) is the metamorphic oracle for verdict and error locations; every case non-trivial")
