"""
C18 — independence of validator objects under interleaving: the SYS channel's campaign.

A *family* is 2-3 validator objects whose schemas are built to collide on every key a shared cache
could use: the same `id`/`$id` base URI, the same `$ref` strings (`#/definitions/a`,
`http://ex.org/doc1.json#/defs/x`, `doc2.json#/defs/x` …) designating different definitions, the
same remote URLs served by different per-validator stores / handlers (each validator has its own
`RefResolver`), the same `pattern` / `patternProperties` regular expressions, the same `format`
name bound to different functions in each validator's own `FormatChecker`.

For every family
  * MONITOR  `interleave:errors-differ` — for ALL interleavings of `next()` steps (at most 8 steps in
    total; longer ones sampled) the real iterators are consumed under the schedule, on fresh
    objects, and every iterator's event sequence (errors via `impl.err_json`, then StopIteration or
    the exception) must be a prefix of what the same validator gives when run alone on fresh
    objects;
  * MONITOR  `alone:differs-from-fresh-process` — a validator run alone in this process (where other
    validators have lived before it) must give what it gives in a process in which no other
    validator ever existed (a pristine interpreter forked per request): the degenerate schedule
    "A entirely, then B", which an in-process reference cannot judge when the shared state persists;
  * CORRESPONDENCE — the same family and schedules through the model (`SYS` channel of the driver,
    lean/JS/Chan/SYS.lean → JS/System.lean `runSched`), event by event;
  * EXPLORATION (not proof, labelled as such in the evidence) `threads:errors-differ` — whole
    validations in 2-8 threads with `sys.setswitchinterval(1e-6)`, each compared with its result
    alone.

The model side is what the theorems of lean/JS/Props/C18.lean are about.
"""
import copy
import itertools
import json
import os
import subprocess
import sys
import threading

HERE = os.path.dirname(os.path.abspath(__file__))
if HERE not in sys.path:
    sys.path.insert(0, HERE)

import codec                     # noqa: E402
import corr                      # noqa: E402
import impl                      # noqa: E402
import oracle as oracle_mod      # noqa: E402

PLAN = dict(
    assumptions=[
        "A-json: instances and schemas are finite trees of JSON values with Unicode-scalar strings and finite numbers; dict order = insertion order",
        "correspondence is sampled: agreement of model and implementation on the generated families and schedules is assumed to extend to the others",
        "harness: codec, message templates (render.py), monitors, regen.py translator",
        "A-gc: CPython finalises an abandoned generator immediately",
        "A-handlers: a handler returns one fixed document per URI whenever it succeeds",
        "A-regex / A-url: re.search and the urllib.parse functions as shared pure oracles",
        "A-own: what a validator owns (resolver with its store, handlers and caches; format checker with its functions) is not shared with another validator by the caller; "
        "re-entering a validator while one of its own iterators is suspended is not claimed (the model answers `busy`)",
        "A-threads: preemptive thread schedules are outside the model; the threaded runs are exploration, not proof",
    ],
    rule="families of 2-3 validators (same class or mixed drafts) colliding on base URI, $ref strings, remote URLs (own stores/handlers), "
         "regular expressions and format names (own checkers), instances re-drawn until every validator yields >= 2 errors; "
         "ALL interleavings of next() steps with at most 8 steps in total (per-validator step counts = errors + 1, trimmed to fit; "
         "a family whose interleavings number more than 140 - three validators - is subsampled to 140 and counted in the distribution), "
         "plus sampled full-length interleavings beyond 8; every schedule on fresh objects; each iterator's events compared with the "
         "validator alone (in-process and in a pristine forked interpreter) and with the model's runSched; non-trivial = at least two "
         "validators reported an error and the schedule switches validators at least twice; "
         "threaded whole validations (2-8 threads, switch interval 1e-6) are supporting exploration only",
    explanation="Theorems (JS/Props/C18.lean): a scheduled next() writes one validator's slot and nothing else (step_frame, "
                "globals_readonly, step_is_next); hence by induction on the schedule each validator's events in any interleaving are "
                "those of the validator driven alone (interleaving_independent, interleaving_gives_alone), which are the first n errors "
                "of its exhaustive run followed by its termination (alone_is_exhaustive_prefix, from the budget-prefix law). "
                "The model's state is a product by construction; the SYS correspondence is what ties that shape to the code: it fails as "
                "soon as the implementation shares a cache, a store or a scope stack between validator objects.",
)

BASE = "http://ex.org/root.json"
DOC1 = "http://ex.org/doc1.json"
DOC3 = "http://ex.org/whole.json"
DOC2 = "http://ex.org/doc2.json"             # referred to as "doc2.json#…", relative to BASE
PATS = ["^a+$", "^n", "b", "^[0-9]+$"]
FMT_NAME = "code"
MAX_EXHAUSTIVE = 8


# --------------------------------------------------------------------------------------------
# format functions: one name, different functions (referred to by key so that a case is JSON)

class CodeError(impl.ScenarioError):
    pass


def _f_at(x):
    return not isinstance(x, str) or "@" in x


def _f_digits(x):
    return not isinstance(x, str) or x.isdigit()


def _f_short(x):
    return not isinstance(x, str) or len(x) < 3


def _f_int(x):
    if isinstance(x, str):
        int(x)
    return True


def _f_boom(x):
    if isinstance(x, str) and x.startswith("b"):
        raise CodeError(x)
    return True


FMT_FUNCS = {
    "at": (_f_at, ()),
    "digits": (_f_digits, ()),
    "short": (_f_short, ()),
    "int": (_f_int, (ValueError,)),          # listed exception: a format error with a cause
    "boom": (_f_boom, ()),                   # unlisted exception: escapes from the validation
}


def fmt_answer(key, inst):
    """what the model's oracle is told about format function `key` on `inst`"""
    func = FMT_FUNCS[key][0]
    try:
        return bool(func(inst))
    except Exception as exc:            # noqa: BLE001
        return [c.__name__ for c in type(exc).__mro__]


# --------------------------------------------------------------------------------------------
# families

def _leaf(r, tag, allow_format=True):
    k = r.randrange(13 if allow_format else 12)
    if k == 0:
        return {"type": r.choice(["string", "integer", "array", "object", "boolean", "null", "number"])}
    if k == 1:
        return {"minimum": r.choice([0, 2, 5, 10])}
    if k == 2:
        return {"maximum": r.choice([-1, 0, 3])}
    if k == 3:
        return {"minLength": r.choice([2, 4])}
    if k == 4:
        return {"maxLength": r.choice([0, 1, 2])}
    if k == 5:
        return {"enum": r.choice([[1, 2], ["a", "aa"], [None], [[], {}]])}
    if k == 6:
        return {"pattern": r.choice(PATS)}
    if k == 7:
        return {"minItems": r.choice([1, 3])}
    if k == 8:
        return {"items": {"type": r.choice(["string", "integer"])}}
    if k == 9:
        return {"type": r.choice(["string", "integer"]), "minimum": 4, "maxLength": 1}
    if k == 10:
        return {"type": "integer", "enum": ["a", 7]}
    if k == 11:
        return {"uniqueItems": True, "maxItems": 1}
    return {"format": FMT_NAME}


def _doc(r, tag):
    """an external document: `defs.x` may refer to `defs.y` relative to the document itself"""
    all_of = "extends" if tag == "d3" else "allOf"
    y = _leaf(r, tag)
    k = r.randrange(6)
    if k == 0:
        x = _leaf(r, tag)
    elif k == 1:
        x = {"$ref": "#/defs/y"}
    elif k == 2:
        x = {all_of: [_leaf(r, tag), {"$ref": "#/defs/y"}, _leaf(r, tag)]}
    elif k == 3:
        x = {"items": {"$ref": "#/defs/y"}, "type": "array"}
    elif k == 4:
        x = {all_of: [{"$ref": "#/defs/y"}, {"$ref": BASE + "#/definitions/a"}]}
    else:
        x = {"type": r.choice(["string", "integer"]), "minimum": 6, "minLength": 3}
    d = {"defs": {"x": x, "y": y}}
    if r.random() < 0.12:
        del d["defs"]["y" if r.random() < 0.5 else "x"]       # an unresolvable pointer in this validator only
    return d


def _validator_case(r, tag):
    idk = "id" if tag in ("d3", "d4") else "$id"
    all_of = "extends" if tag == "d3" else "allOf"
    defs = {"a": _leaf(r, tag), "b": _leaf(r, tag), "c": {"$ref": "#/definitions/a"}}
    if r.random() < 0.3:
        defs["b"] = {all_of: [_leaf(r, tag), {"$ref": "#/definitions/a"}]}
    schema = {
        idk: BASE,
        "definitions": defs,
        "properties": {
            "p": {"$ref": "#/definitions/a"},
            "q": {"$ref": DOC1 + "#/defs/x"},
            "r": {"$ref": "#/definitions/b"},
            "s": {"$ref": "doc2.json#/defs/x"},
            "t": {"pattern": PATS[0], "format": FMT_NAME},
            "u": {"$ref": "#/definitions/c"},
            # fragment-less absolute URLs: a whole document served differently to each validator, and the
            # schema naming itself by its (shared) id
            "w": {"$ref": DOC3},
            "v": {"$ref": BASE},
        },
        "patternProperties": {PATS[1]: _leaf(r, tag)},
    }
    store, world = {}, {}
    where = r.randrange(10)
    whole = _leaf(r, tag)
    if where < 5:
        store[DOC3] = whole
    elif where < 9:
        world[DOC3] = whole
    for url in (DOC1, DOC2):
        where = r.randrange(10)
        if where < 5:
            store[url] = _doc(r, tag)
        elif where < 9:
            world[url] = _doc(r, tag)
        # else: nowhere — retrieval fails for this validator only
    fmt_key = r.choice(sorted(FMT_FUNCS))
    raises = [c.__name__ for c in FMT_FUNCS[fmt_key][1]]
    return {
        "cls": tag,
        "schema": schema,
        "resolver": {"store": [[k, v] for k, v in store.items()], "cacheRemote": r.random() < 0.7},
        "world": world,
        "fc": [[FMT_NAME, "oracle", raises]],
        "fmt": {FMT_NAME: fmt_key},
    }


VALUES = [1, 7, -3, 2.5, "s", "a", "aaa", "b2", "12", "x@y", None, True, [], [1, 1], ["a", 3], {}, {"k": 1}, 12345]


def _instance(r):
    keys = ["p", "q", "r", "s", "t", "u", "w", "n1", "n2", "zz"]
    inst = dict((k, r.choice(VALUES)) for k in keys if r.random() < 0.9)
    if r.random() < 0.5:
        inst["v"] = dict((k, r.choice(VALUES)) for k in ("p", "t", "w") if r.random() < 0.8)    # the root schema again, one level down
    return inst


def make_family(r):
    n = r.choice([2, 2, 2, 3])
    tag = r.choice(["d3", "d4", "d6", "d7"])
    if r.random() < 0.8:
        tags = [tag] * n
    else:
        same_id = ["d3", "d4"] if tag in ("d3", "d4") else ["d6", "d7"]
        tags = [r.choice(same_id) for _ in range(n)]
    vals = [_validator_case(r, t) for t in tags]
    if r.random() < 0.15:
        vals[-1] = copy.deepcopy(vals[0])           # two equal validators: also fine
    return {"vals": vals}


# --------------------------------------------------------------------------------------------
# the implementation side

def make_validator(vcase):
    """a fresh validator object (own resolver, own world of handlers, own format checker) from the
    JSON description; nothing is shared with any other object built from the same description"""
    vcase = copy.deepcopy(vcase)
    cls = impl.DRAFTS[vcase["cls"]]
    world = impl.World(vcase["world"])
    res = impl.make_resolver(cls, vcase["schema"], vcase["resolver"], world)
    custom = dict((name, FMT_FUNCS[key]) for name, key in vcase["fmt"].items())
    fc = impl.make_fc(vcase["fc"], vcase["cls"], custom)
    return cls(vcase["schema"], resolver=res, format_checker=fc)


def _next_event(it):
    try:
        return ["error", impl.err_json(next(it))]
    except StopIteration:
        return ["done"]
    except Exception as exc:           # noqa: BLE001 - every escaping exception is an observation
        return ["raised", impl.exc_json(exc)]


def run_schedule(fam, insts, sched):
    """consume the real iterators of fresh validator objects under `sched` (a list of validator
    indices); returns one event per step"""
    objs = [make_validator(v) for v in fam["vals"]]
    its = [o.iter_errors(copy.deepcopy(i)) for o, i in zip(objs, insts)]
    try:
        return [_next_event(its[a]) for a in sched]
    finally:
        for it in its:
            it.close()


def run_alone(vcase, inst, steps):
    """the same validator, fresh, with nothing else alive: `steps` calls of next()"""
    it = make_validator(vcase).iter_errors(copy.deepcopy(inst))
    try:
        return [_next_event(it) for _ in range(steps)]
    finally:
        it.close()


def full_run(v, inst):
    """a whole validation: errors until the iterator ends, and how it ends"""
    it = v.iter_errors(inst)
    out = []
    try:
        while True:
            ev = _next_event(it)
            out.append(ev)
            if ev[0] != "error" or len(out) > 200:
                return out
    finally:
        it.close()


def count_errors(events):
    return sum(1 for e in events if e[0] == "error")


# --------------------------------------------------------------------------------------------
# a pristine interpreter: `python chan_sys.py --serve` answers "run this validator alone" requests,
# each in a forked child, so that no request ever sees state left by another

class Pristine:
    def __init__(self):
        env = dict(os.environ)
        env["JS_REPO"] = impl.REPO
        self.p = subprocess.Popen([sys.executable, os.path.abspath(__file__), "--serve"], stdin=subprocess.PIPE,
                                  stdout=subprocess.PIPE, text=True, bufsize=1, env=env)

    def alone(self, vcase, inst, steps):
        self.p.stdin.write(json.dumps({"v": vcase, "inst": inst, "steps": steps}) + "\n")
        self.p.stdin.flush()
        line = self.p.stdout.readline()
        if not line:
            raise RuntimeError("pristine server died")
        return json.loads(line)

    def close(self):
        try:
            self.p.stdin.close()
            self.p.wait(timeout=5)
        except Exception:              # noqa: BLE001
            self.p.kill()


def _serve():
    for line in sys.stdin:
        line = line.strip()
        if not line:
            continue
        rd, wr = os.pipe()
        pid = os.fork()
        if pid == 0:
            code = 0
            try:
                os.close(rd)
                req = json.loads(line)
                out = json.dumps(run_alone(req["v"], req["inst"], req["steps"]))
                with os.fdopen(wr, "w") as f:
                    f.write(out)
            except BaseException as exc:    # noqa: BLE001
                code = 1
                try:
                    sys.stderr.write("pristine child failed: %r\n" % (exc,))
                except Exception:           # noqa: BLE001
                    pass
            os._exit(code)
        os.close(wr)
        with os.fdopen(rd) as f:
            data = f.read()
        os.waitpid(pid, 0)
        sys.stdout.write((data or "null") + "\n")
        sys.stdout.flush()


# --------------------------------------------------------------------------------------------
# the model side

def model_payload(fam, insts, scheds):
    return {
        "vals": [{"cls": v["cls"], "fc": v["fc"], "schema": v["schema"], "resolver": v["resolver"], "insts": [i]}
                 for v, i in zip(fam["vals"], insts)],
        "scheds": [[[a, 0] for a in s] for s in scheds],
    }


def _split_tag(name):
    head, _, rest = name.partition(":")
    return int(head[1:]), rest


def family_oracle(fam):
    worlds = [impl.World(v["world"]) for v in fam["vals"]]

    def fetch(n, uri):
        i, u = _split_tag(uri)
        return worlds[i].answer(n, u)

    def fmt(name, inst):
        i, nm = _split_tag(name)
        return fmt_answer(fam["vals"][i]["fmt"][nm], inst)
    return oracle_mod.Oracle(fetch=fetch, fmt=fmt)


def model_event(ev):
    k = ev[0]
    if k == "error":
        return ["error", corr.model_err(ev[1])]
    if k == "fuel":
        return ["raised", ["diverge"]]
    if k == "raised":
        return corr.model_stop(ev)
    return ev


class Recording:
    """an oracle that remembers its answers, so that they can be handed to the driver up front
    (`pre`): every ASK makes the driver re-run the whole batch of schedules"""

    def __init__(self, orc):
        self.orc = orc
        self.pairs = []

    def __call__(self, q):
        a = self.orc(q)
        self.pairs.append([q, a])
        return a


def model_runs(ctx, fam, insts, scheds):
    out = []
    orc = Recording(family_oracle(fam))
    # warm-up: each validator alone, one after the other, asks (nearly) every question there is
    n = len(fam["vals"])
    warm = [[i for i in range(n) for _ in range(41)]]
    ctx.drv.run("SYS", model_payload(fam, insts, warm), orc)
    for lo in range(0, len(scheds), 200):
        payload = model_payload(fam, insts, scheds[lo:lo + 200])
        payload["pre"] = list(orc.pairs)
        r = ctx.drv.run("SYS", payload, orc)
        if not isinstance(r, dict) or "runs" not in r:
            if r == ["unknown-channel"]:
                raise RuntimeError("the model driver does not serve the SYS channel (dispatcher line missing in JS/Channels.lean)")
            out.extend([r] * len(scheds[lo:lo + 200]))
            continue
        out.extend([[model_event(e) for e in run] for run in r["runs"]])
    return out


# --------------------------------------------------------------------------------------------
# schedules

def interleavings(counts):
    """all sequences over validator indices in which validator i occurs counts[i] times"""
    total = sum(counts)
    cur = []
    cs = list(counts)

    def rec():
        if len(cur) == total:
            yield list(cur)
            return
        for i in range(len(cs)):
            if cs[i]:
                cs[i] -= 1
                cur.append(i)
                for s in rec():
                    yield s
                cur.pop()
                cs[i] += 1
    return rec()


def fit(counts, limit):
    cs = list(counts)
    while sum(cs) > limit:
        cs[cs.index(max(cs))] -= 1
    return cs


def random_interleaving(r, counts):
    s = [i for i, c in enumerate(counts) for _ in range(c)]
    r.shuffle(s)
    return s


def switches(s):
    return sum(1 for a, b in zip(s, s[1:]) if a != b)


def per_validator(sched, events, n):
    out = [[] for _ in range(n)]
    for a, e in zip(sched, events):
        out[a].append(e)
    return out


# --------------------------------------------------------------------------------------------

def _bump(res, field, k=1):
    if hasattr(res, field):
        setattr(res, field, getattr(res, field) + k)


def _dist(res, key, k=1):
    d = getattr(res, "distribution", None)
    if d is not None:
        d[key] += k


def campaign(ctx):
    res, r = ctx.res, ctx.r
    quick = getattr(ctx, "tier", "quick") == "quick"
    pristine = None
    try:
        pristine = Pristine()
    except Exception:                  # noqa: BLE001 - no fork / no subprocess: the in-process reference remains
        _dist(res, "pristine:unavailable")
    families = []
    try:
        for _ in range(ctx.n(30)):
            fam = make_family(r)
            n = len(fam["vals"])
            # instances: re-drawn until every validator reports at least two errors
            insts = alone = None
            for _try in range(30):
                shared = _instance(r)
                cand = [shared if r.random() < 0.7 else _instance(r) for _ in range(n)]
                al = [run_alone(v, i, 40) for v, i in zip(fam["vals"], cand)]
                if insts is None or all(count_errors(a) >= 2 for a in al):
                    insts, alone = cand, al
                if all(count_errors(a) >= 2 for a in alone):
                    break
            case = {"vals": fam["vals"], "insts": insts}
            ckey = hash(codec.canon(case))
            families.append((fam, insts, alone))
            for a in alone:
                _dist(res, "errors-per-iterator:%d" % min(count_errors(a), 9))
                _dist(res, "end:" + next((e[0] if e[0] != "raised" else "raised:" + str(e[1][0]) for e in a if e[0] != "error"), "?"))
            # degenerate schedule "the others first, then me" against a process where nobody else ever lived
            if pristine is not None:
                for i, v in enumerate(fam["vals"]):
                    want = pristine.alone(v, insts[i], len(alone[i]))
                    if want is None:
                        raise RuntimeError("pristine reference run failed")
                    d = corr.diff(want, alone[i])
                    if d:
                        res.fail("alone:differs-from-fresh-process",
                                 "validator %d run alone in this process differs from the same validator in a fresh process: %s" % (i, d),
                                 dict(case, validator=i))
            # schedules: all interleavings within 8 steps, sampled beyond
            steps = [min(count_errors(a) + 1, 40) for a in alone]
            scheds = list(interleavings(fit(steps, MAX_EXHAUSTIVE)))
            if len(scheds) > 140:                   # only three validators with 8 steps exceed this (up to 560)
                scheds = r.sample(scheds, 140)
                _dist(res, "schedules:subsampled-family")
            if sum(steps) > MAX_EXHAUSTIVE:
                extra = [random_interleaving(r, [s + 1 for s in steps]) for _ in range(12 if quick else 24)]
                scheds += extra
                _dist(res, "schedules:sampled-beyond-8", len(extra))
            _dist(res, "schedules:total", len(scheds))
            _dist(res, "validators:%d" % n)
            # the implementation under every schedule, each iterator against the validator alone
            impl_runs = []
            for s in scheds:
                ev = run_schedule(fam, insts, s)
                impl_runs.append(ev)
                seen = per_validator(s, ev, n)
                for i in range(n):
                    want = alone[i][:len(seen[i])]
                    d = corr.diff(want, seen[i])
                    if d:
                        res.fail("interleave:errors-differ",
                                 "iterator of validator %d under schedule %r differs from the validator alone: %s" % (i, s, d),
                                 dict(case, sched=s, validator=i))
                nontrivial = sum(1 for x in seen if count_errors(x) >= 1) >= 2 and switches(s) >= 2
                res.note(hash((ckey, tuple(s))), nontrivial,
                         {"vals": [{"cls": v["cls"], "schema": v["schema"]} for v in fam["vals"]], "insts": insts, "sched": s})
            # the model under the same schedules
            mruns = model_runs(ctx, fam, insts, scheds)
            for s, m, i in zip(scheds, mruns, impl_runs):
                _bump(res, "compared")
                d = corr.diff(m, i) if isinstance(m, list) else "model: %r" % (m,)
                if d:
                    res.disagree("SYS", dict(case, sched=s), m, i, d)
        threads_exploration(ctx, families)
        handlers_independent(ctx)
        deep_twins(ctx)
    finally:
        if pristine is not None:
            pristine.close()


def handlers_independent(ctx):
    """validators that share no resolver do not see each other's retrieval handlers, nor each other's
    retrieval failures: handlers given at construction, handlers added to a resolver afterwards,
    a scheme nobody handles (urllib refuses it: an OSError) — in several orders. The reference for each
    validator is independent of handlers altogether: the same schema with the document it is entitled
    to placed in its resolver's store."""
    res, r = ctx.res, ctx.r
    V, E = impl.V, impl.E
    kinds = ["integer", "string", "boolean", "array", "object", "null"]
    vals = {"integer": 1, "string": "s", "boolean": True, "array": [], "object": {}, "null": None}

    def outcome(v, inst):
        try:
            return sorted((list(e.path), e.validator, e.message) for e in v.iter_errors(inst))
        except E.RefResolutionError:
            return "RefResolutionError"
        except Exception as exc:        # noqa: BLE001
            return "raised:" + type(exc).__name__

    for n in range(ctx.n(12)):
        tag = r.choice(["d3", "d4", "d6", "d7"])
        cls = impl.DRAFTS[tag]
        scheme = r.choice(["vault", "app", "x-priv"])
        url = "%s://k/doc%d.json" % (scheme, r.randrange(3))
        ka, kb = r.sample(kinds, 2)
        doc_a, doc_b = {"defs": {"x": {"type": ka}}}, {"defs": {"x": {"type": kb}}}
        schema = {"properties": {"a": {"$ref": url + "#/defs/x"}, "b": {"type": "string"}}}
        inst = {"a": vals[r.choice([ka, kb, r.choice(kinds)])], "b": r.choice([1, "s"])}
        case = {"cls": tag, "schema": schema, "inst": inst, "doc_a": doc_a, "doc_b": doc_b}

        def entitled(doc):
            return outcome(cls(schema, resolver=V.RefResolver("", schema, store={url: copy.deepcopy(doc)})), inst)
        want_a, want_b = entitled(doc_a), entitled(doc_b)
        res.note(hash(codec.canon(["c18handlers", case])), True, None)
        _bump(res, "evaluations", 6)
        # (1) handlers added after construction to each validator's own resolver
        v1, v2, v3 = cls(schema), cls(schema), cls(schema)
        v1.resolver.handlers[scheme] = lambda u: copy.deepcopy(doc_a)
        v2.resolver.handlers[scheme] = lambda u: copy.deepcopy(doc_b)
        order = [("v1", v1, want_a), ("v2", v2, want_b), ("v3", v3, "RefResolutionError")]
        r.shuffle(order)
        for name, v, want in order + order[:1]:
            got = outcome(v, inst)
            if got != want:
                res.fail("handlers:shared-between-resolvers",
                         "%s (its own resolver, %s) gave %r, entitled to %r" % (name, "no handler for the scheme" if name == "v3" else "its own handler", got, want),
                         dict(case, order=[o[0] for o in order], who=name))
                break
        # (2) nobody handles the scheme for A (urllib refuses: OSError); B brings its own handler at construction
        a = cls(schema)
        b = cls(schema, resolver=V.RefResolver.from_schema(schema, id_of=cls.ID_OF, handlers={scheme: lambda u: copy.deepcopy(doc_b)}))
        first = outcome(a, inst)
        got = outcome(b, inst)
        again = outcome(b, inst)
        if first != "RefResolutionError":
            res.fail("handlers:unhandled-scheme", "a scheme nobody handles gave %r" % (first,), case)
        elif got != want_b or again != want_b:
            res.fail("handlers:failure-remembered-across-resolvers",
                     "after another validator failed to retrieve %s, a validator with its own handler gave %r / %r, entitled to %r" % (url, got, again, want_b), case)



def deep_twins(ctx):
    """two unrelated validators deep inside recursive references AT THE SAME TIME: one iterator is
    parked at an error more than a hundred reference levels down (its frames are gone, whatever it
    counts is not), the other then runs to the end (and the other way round, and with both parked).
    Each must report what it reports alone. Depths are chosen so that each run alone stays well
    below the interpreter's recursion limit."""
    res, r = ctx.res, ctx.r
    V, E = impl.V, impl.E

    def nest(depth, leaf, shape):
        x = leaf
        for _ in range(depth):
            x = {"n": x} if shape == "object" else [x]
        return x

    def run(it):
        out = []
        try:
            for e in it:
                out.append((len(e.absolute_path), e.validator, e.message[:60]))
        except E.RefResolutionError as exc:
            out.append("RefResolutionError:" + str(exc)[:60])
        except RecursionError:
            out.append("RecursionError")
        except Exception as exc:        # noqa: BLE001
            out.append("raised:" + type(exc).__name__)
        return out

    for n in range(max(2, ctx.n(3))):
        tag = r.choice(["d4", "d6", "d7"])
        cls = impl.DRAFTS[tag]
        shape_a, shape_b = r.choice(["object", "array"]), r.choice(["object", "array"])

        def schema_for(shape):
            if shape == "object":
                return {"type": ["object", "integer"], "properties": {"n": {"$ref": "#"}}}
            return {"type": ["array", "integer"], "items": {"$ref": "#"}}
        da, db = r.randrange(126, 134), r.randrange(126, 134)
        sa, sb = schema_for(shape_a), schema_for(shape_b)
        ia, ib = nest(da, "leaf", shape_a), nest(db, None, shape_b)
        case = {"cls": tag, "schemas": [sa, sb], "depths": [da, db], "shapes": [shape_a, shape_b]}
        res.note(hash(codec.canon(["c18deep", case, n])), True, None)
        _bump(res, "evaluations", 4)
        alone_a, alone_b = run(cls(sa).iter_errors(ia)), run(cls(sb).iter_errors(ib))
        if "RecursionError" in alone_a or "RecursionError" in alone_b or not alone_a or not alone_b:
            continue            # this interpreter cannot go that deep even alone: nothing to compare
        va, vb = cls(copy.deepcopy(sa)), cls(copy.deepcopy(sb))
        ita = va.iter_errors(ia)
        first = run(itertools.islice(ita, 1))          # parked at the deep end
        got_b = run(vb.iter_errors(ib))
        rest_a = run(ita)
        if got_b != alone_b:
            res.fail("deep-twins:other-validator-parked",
                     "with another validator's iterator parked %d reference levels deep, a validator %d levels deep gave %r; alone it gives %r"
                     % (da, db, got_b[:2], alone_b[:2]), case)
        elif first + rest_a != alone_a:
            res.fail("deep-twins:resumed-differs", "the parked iterator, resumed, gave %r; alone %r" % ((first + rest_a)[:2], alone_a[:2]), case)
        # both parked, then both resumed
        va, vb = cls(copy.deepcopy(sa)), cls(copy.deepcopy(sb))
        ita, itb = va.iter_errors(ia), vb.iter_errors(ib)
        fa = run(itertools.islice(ita, 1))
        fb = run(itertools.islice(itb, 1))
        if fa + run(ita) != alone_a or fb + run(itb) != alone_b:
            res.fail("deep-twins:both-parked", "two iterators parked deep inside references at once do not report what each reports alone", case)
        _dist(res, "directed:deep-twins", 1)

def threads_exploration(ctx, families):
    """EXPLORATION, not proof: whole validations in 2-8 threads, switch interval 1e-6 s; every
    thread owns its validator object; each result is compared with the validator alone"""
    res, r = ctx.res, ctx.r
    if not families:
        return
    old = sys.getswitchinterval()
    try:
        sys.setswitchinterval(1e-6)
        for _ in range(ctx.n(60)):
            fam, insts, alone = r.choice(families)
            nthreads = r.randrange(2, 9)
            rounds = r.choice([1, 2, 4])
            who = [t % len(fam["vals"]) for t in range(nthreads)]
            objs = [make_validator(fam["vals"][w]) for w in who]
            my_insts = [copy.deepcopy(insts[w]) for w in who]
            results = [None] * nthreads
            barrier = threading.Barrier(nthreads)

            def work(t):
                out = []
                try:
                    barrier.wait(timeout=30)
                    for _k in range(rounds):
                        out.append(full_run(objs[t], my_insts[t]))
                except BaseException as exc:        # noqa: BLE001
                    out.append([["raised", impl.exc_json(exc)]])
                results[t] = out
            ts = [threading.Thread(target=work, args=(t,)) for t in range(nthreads)]
            for t in ts:
                t.start()
            for t in ts:
                t.join(120)
            for t in range(nthreads):
                end = next((k for k, e in enumerate(alone[who[t]]) if e[0] != "error"), len(alone[who[t]]) - 1)
                want = alone[who[t]][:end + 1]
                for k, got in enumerate(results[t] or [None]):
                    d = corr.diff(want, got) if got is not None else "thread did not finish"
                    if d:
                        res.fail("threads:errors-differ",
                                 "thread %d of %d (validator %d, round %d) differs from the validator alone: %s" % (t, nthreads, who[t], k, d),
                                 {"vals": fam["vals"], "insts": insts, "threads": nthreads, "rounds": rounds, "validator": who[t]})
            res.note(hash(("threads", hash(codec.canon({"vals": fam["vals"], "insts": insts})), nthreads, rounds)), False)
            _dist(res, "exploration:threaded-runs", nthreads * rounds)
    finally:
        sys.setswitchinterval(old)


if __name__ == "__main__" and "--serve" in sys.argv:
    _serve()
