#!/usr/bin/env python3
"""
check.py <property> [quick|thorough]   — decide one property on /repo's current working tree.

  1. regenerate lean/JS/Generated from the source; build the driver and the property's theorems;
     audit (forbidden constructs, `#print axioms`).
  2. correspondence (model vs implementation) and monitors (the property statement evaluated on
     the implementation) on the property's campaign.
  3. verdict (DESIGN §5): exit 0 held / 1 VIOLATION / 2 infrastructure error.
  4. evidence/<id>.json.
"""
import fcntl
import hashlib
import json
import os
import re
import subprocess
import sys
import time
import traceback

HERE = os.path.dirname(os.path.abspath(__file__))
ROOT = os.path.dirname(HERE)
LEAN = os.path.join(ROOT, "lean")
sys.path.insert(0, HERE)

ALLOWED_AXIOMS = {"propext", "Classical.choice", "Quot.sound"}
FORBIDDEN = re.compile(r"\b(sorry|admit|native_decide|bv_decide|implemented_by|unsafe)\b|^\s*axiom\s|maxHeartbeats\s+0\b", re.M)


class Infra(Exception):
    pass


def sh(cmd, cwd=None, timeout=3600):
    p = subprocess.run(cmd, cwd=cwd, shell=isinstance(cmd, str), stdout=subprocess.PIPE,
                       stderr=subprocess.STDOUT, text=True, timeout=timeout)
    return p.returncode, p.stdout


class BuildLock:
    def __enter__(self):
        os.makedirs(os.path.join(LEAN, ".lake"), exist_ok=True)
        self.f = open(os.path.join(LEAN, ".lake", "verif-build.lock"), "w")
        fcntl.flock(self.f, fcntl.LOCK_EX)
        return self

    def __exit__(self, *a):
        fcntl.flock(self.f, fcntl.LOCK_UN)
        self.f.close()


def strip_comments(src):
    src = re.sub(r"/-.*?-/", "", src, flags=re.S)
    return re.sub(r"--.*", "", src)


def lean_files_of(prop):
    """the Props file of the property and every project file it transitively imports"""
    seen, todo = set(), ["JS.Props.%s" % prop]
    while todo:
        m = todo.pop()
        if m in seen:
            continue
        path = os.path.join(LEAN, *m.split(".")) + ".lean"
        if not os.path.exists(path):
            continue
        seen.add(m)
        for imp in re.findall(r"^import\s+(JS\.[\w.]+)", open(path).read(), flags=re.M):
            todo.append(imp)
    return sorted(seen)


TIE_FILE = os.path.join(LEAN, "JS", "Proofs", "TieFingerprints.json")


def tie_status():
    """which translated keyword functions differ from the source terms the tie theorems were proved for
    (JS/Proofs/TieFingerprints.json, committed next to the proofs): {fn: model definition} of the changed ones"""
    import translate
    try:
        table = json.load(open(TIE_FILE))
    except OSError:
        return {}, {}
    import translate_types
    repo = os.environ.get("JS_REPO", "/repo")
    two = dict(translate.translate_all2(repo))
    now = {n: hashlib.sha1((t + "|" + two.get(n, "")).encode()).hexdigest() for n, t in translate.translate_all(repo)}
    now.update({"_types." + n: hashlib.sha1(t.encode()).hexdigest() for n, t in translate_types.translate_all(repo)})
    import translate_methods
    now.update({"_methods." + n: hashlib.sha1(t.encode()).hexdigest() for n, t in translate_methods.translate_all(repo)})
    changed = {fn: row["model"] for fn, row in table.items() if now.get(fn) != row["sha1"]}
    # literals that appear in the changed source but not in the source the proofs were made for: where a
    # search for a failing input should look first (handed to the generators as hints)
    terms = {n: t + "|" + two.get(n, "") for n, t in translate.translate_all(repo)}
    terms.update({"_types." + n: t for n, t in translate_types.translate_all(repo)})
    terms.update({"_methods." + n: t for n, t in translate_methods.translate_all(repo)})
    lits = {}
    for fn in changed:
        ints, strs = set(), set()
        new_t, old_t = terms.get(fn, ""), table[fn].get("term", "")
        for m in re.findall(r"\.int \((-?\d+)\)", new_t):
            if ".int (%s)" % m not in old_t and len(m) < 40:
                ints.add(int(m))
        for m in re.findall(r'\.str "((?:[^"\\]|\\.)*)"', new_t):
            if '.str "%s"' % m not in old_t and len(m) < 200:
                strs.add(m.encode().decode("unicode_escape") if "\\" in m else m)
        lits[fn] = (ints, strs)
    TIE_LITERALS.clear()
    TIE_LITERALS.update(lits)
    return table, changed


TIE_LITERALS = {}


def table_hints():
    """keyword names in the REGENERATED keyword tables that no draft's vocabulary (as the generators know it) has:
    a keyword somebody added to a table — the first thing to try when a table theorem no longer checks"""
    import gen
    known = set(k for d in gen.VOCAB for k in gen.VOCAB[d]) | {"$ref", "any"} | set(gen.SIMPLE_TYPES)
    try:
        src = open(os.path.join(LEAN, "JS", "Generated", "Tables.lean")).read()
    except OSError:
        return set()
    names = set()
    for m in re.finditer(r"def d\dKeywords.*?\n\n", src, flags=re.S):
        names |= set(re.findall(r'\("((?:[^"\\]|\\.)*)"\.toList, \.', m.group(0)))
    return set(n for n in names if n not in known and len(n) < 80)


def set_hints(functions):
    """hand the literals of the changed functions THIS property depends on to the generators"""
    ints, strs = set(), set(table_hints())
    for fn in functions:
        i, s = TIE_LITERALS.get(fn, (set(), set()))
        ints |= i
        strs |= s
    if ints or strs:
        os.environ["VERIF_HINTS"] = json.dumps({"ints": sorted(ints), "strs": sorted(strs)})


def proof_step(prop, log):
    """returns dict(theorems=[…], broken=[…], built=bool, axioms=set, model_defs=[…])"""
    out = {"theorems": [], "broken": [], "built": False, "axioms": set(), "uses": set(), "notes": []}
    with BuildLock():
        rc, txt = sh([sys.executable, os.path.join(HERE, "regen.py")])
        log.append(txt.strip())
        if rc != 0:
            raise Infra("regen.py failed:\n" + txt)
        rc, txt = sh(["lake", "build", "jsdriver"], cwd=LEAN)
        if rc != 0:
            raise Infra("model driver does not build:\n" + txt[-3000:])
        mod = "JS.Props.%s" % prop
        if not os.path.exists(os.path.join(LEAN, "JS", "Props", prop + ".lean")):
            out["notes"].append("no theorem file for %s" % prop)
            return out
        rc, txt = sh(["lake", "build", mod, "JS.AuditCmd"], cwd=LEAN)
        if rc != 0:
            errs = re.findall(r"error: (.*)", txt)
            out["broken"].append({"module": mod, "errors": errs[:10], "log_tail": txt[-2500:]})
            set_hints([])        # a table theorem may be what broke: unknown keywords in the regenerated tables
            return out
        out["built"] = True
        # forbidden constructs in every project file the theorems depend on
        for m in lean_files_of(prop):
            src = strip_comments(open(os.path.join(LEAN, *m.split(".")) + ".lean").read())
            hit = FORBIDDEN.search(src)
            if hit:
                out["broken"].append({"module": m, "errors": ["forbidden construct: %s" % hit.group(0).strip()]})
        audit = os.path.join(LEAN, ".lake", "audit_%s.lean" % prop)
        with open(audit, "w") as f:
            f.write("import JS.AuditCmd\nimport %s\n#audit %s\n" % (mod, mod))
        rc, txt = sh(["lake", "env", "lean", audit], cwd=LEAN)
        if rc != 0:
            raise Infra("audit failed:\n" + txt[-2000:])
    if os.environ.get("VERIF_TIER_EFFECTIVE") == "thorough":
        # independent re-check of the compiled theorem module by the toolchain's own re-checker
        with BuildLock():
            rc2, txt2 = sh(["lake", "env", "leanchecker", mod], cwd=LEAN, timeout=3000)
        out["leanchecker"] = {"exit": rc2, "tail": txt2[-300:]}
        if rc2 != 0:
            out["broken"].append({"module": mod, "errors": ["leanchecker rejected the module: " + txt2[-300:]]})
    for line in txt.splitlines():
        i = line.find("AUDIT {")
        if i < 0:
            continue
        row = json.loads(line[i + 6:])
        bad = [a for a in row["axioms"] if a not in ALLOWED_AXIOMS]
        out["theorems"].append(row["theorem"])
        out["axioms"].update(row["axioms"])
        out["uses"].update(u for u in row["uses"] if not re.search(r"match_|casesOn|brecOn|below|ctorIdx|instRepr|\.rec", u))
        if bad:
            out["broken"].append({"module": row["theorem"], "errors": ["non-standard axioms: %s" % bad]})
    if not out["theorems"]:
        out["notes"].append("no theorems found in %s" % mod)
    # source tie: the keyword functions this property's theorems are about must BE the regenerated
    # source (JS/Props/Tie.lean). Only functions whose translated term changed can break it.
    table, changed = tie_status()
    relevant = sorted(fn for fn, row in table.items() if row["model"] in out["uses"])      # predicates: model "JS.TyFn.apply"
    out["tie"] = {"functions_with_tie_theorem": len(table), "relevant_to_this_property": relevant, "changed": sorted(changed)}
    set_hints([fn for fn in relevant if fn in changed])
    if relevant and changed and not any(fn in changed for fn in relevant):
        # only functions this property's theorems do not depend on changed: their tie theorems (which
        # share a module with the others) may no longer build, the relevant ones are about unchanged terms
        out["tie"]["build"] = "not rebuilt: only functions irrelevant to this property changed (%s)" % ", ".join(sorted(changed))
    elif relevant:
        with BuildLock():
            rc, txt = sh(["lake", "build", "JS.Props.Tie", "JS.Props.TieTypes", "JS.Props.TieMethods"], cwd=LEAN)
        if rc != 0:
            hit = [fn for fn in relevant if fn in changed]
            out["tie"]["build"] = "failed"
            if hit:
                out["broken"].append({"module": "JS.Props.Tie", "functions": hit,
                                      "errors": (["tie of %s: the regenerated source of `%s` is no longer proved equal to the model's %s" % (fn, fn, changed[fn]) for fn in hit]
                                                 + re.findall(r"error: (.*)", txt)[:6]),
                                      "log_tail": txt[-1500:]})
            elif not changed:
                # no translated function changed, yet the tie no longer checks: the regenerated TABLES it
                # rests on did (which key is bound to which function: NoCrash.table_ok) — a broken obligation
                out["broken"].append({"module": "JS.Props.Tie", "functions": [],
                                      "errors": ["the source tie no longer checks although no translated function changed "
                                                 "(regenerated keyword/type tables?)"] + re.findall(r"error: (.*)", txt)[:6],
                                      "log_tail": txt[-1500:]})
        else:
            out["tie"]["build"] = "ok"
            audit = os.path.join(LEAN, ".lake", "audit_Tie.lean")
            with open(audit, "w") as f:
                f.write("import JS.AuditCmd\nimport JS.Props.Tie\nimport JS.Props.TieTypes\nimport JS.Props.TieMethods\n#audit JS.Props.Tie\n")
            with BuildLock():
                rc, txt = sh(["lake", "env", "lean", audit], cwd=LEAN)
            if rc != 0:
                raise Infra("audit of JS.Props.Tie failed:\n" + txt[-2000:])
            want = {"JS.Props.Tie.%s_%s" % (table[fn].get("thm", "tie"), fn) for fn in relevant if not fn.startswith("_")}
            want |= {"JS.Props.Tie.tie_%s" % fn.split(".", 1)[1] for fn in relevant if fn.startswith("_methods.")}
            if any(fn.startswith("_types.") for fn in relevant):
                want |= {"JS.Props.Tie.tyfn_is_source", "JS.Props.Tie.draft_types_have_source", "JS.Props.Tie.isType_is_source"}
            # … and their composition: the evaluator over the interpreted source IS the evaluator over the
            # model functions on every shaped schema (guarded with references, outright without)
            want |= {"JS.Props.Tie.evalStepSrc_eq_evalStep", "JS.Props.Tie.evalSrcG_eq_evalG", "JS.Props.Tie.evalSrc_eq_eval_reffree",
                     "JS.Props.Tie.evalSrc_eq_eval"}
            for line in txt.splitlines():
                i = line.find("AUDIT {")
                if i < 0:
                    continue
                row = json.loads(line[i + 6:])
                if row["theorem"] not in want:
                    continue
                out["theorems"].append(row["theorem"])
                out["axioms"].update(row["axioms"])
                bad = [a for a in row["axioms"] if a not in ALLOWED_AXIOMS]
                if bad:
                    out["broken"].append({"module": row["theorem"], "errors": ["non-standard axioms: %s" % bad]})
            missing = want - set(out["theorems"])
            if missing:
                out["broken"].append({"module": "JS.Props.Tie", "errors": ["tie theorems missing: %s" % sorted(missing)]})
            for m in ("JS.Props.Tie", "JS.Proofs.TieBase", "JS.Proofs.TieA", "JS.Proofs.TieB", "JS.Proofs.TieC", "JS.Proofs.TieCompose", "JS.Proofs.TieD", "JS.Proofs.Tie2J", "JS.Proofs.Tie2K", "JS.Proofs.Tie2M", "JS.Proofs.TieTypes", "JS.Py.IR2", "JS.Py.Interp2", "JS.Py.IR3", "JS.Py.Interp3", "JS.Proofs.TieMethods", "JS.Props.TieMethods", "JS.Props.TieTypes", "JS.Py.Pred",
                      "JS.Py.IR", "JS.Py.Interp", "JS.Py.EvalSrc"):
                srcf = os.path.join(LEAN, *m.split(".")) + ".lean"
                hit = FORBIDDEN.search(strip_comments(open(srcf).read()))
                if hit:
                    out["broken"].append({"module": m, "errors": ["forbidden construct: %s" % hit.group(0).strip()]})
    return out


def load_known(prop):
    known, fixed = [], []
    path = os.path.join(ROOT, "KNOWN_FINDINGS")
    if os.path.exists(path):
        for line in open(path):
            m = re.match(r"(known|fixed): property=(\w+) (?:(\w+) )?sig=(\S+) :: (.*)", line.strip())
            if m and m.group(2) == prop:
                (known if m.group(1) == "known" else fixed).append({"sig": m.group(4), "what": m.group(5)})
    return known, fixed


def write_replay(prop, kind, payload):
    d = os.path.join(ROOT, "replays")
    os.makedirs(d, exist_ok=True)
    body = json.dumps(payload, indent=1, sort_keys=True, default=repr)
    h = hashlib.sha1(body.encode()).hexdigest()[:10]
    path = os.path.join(d, "%s-%s-%s.json" % (prop, kind, h))
    with open(path, "w") as f:
        f.write(body)
    return path


def main():
    if len(sys.argv) < 2:
        print(__doc__)
        return 2
    prop = sys.argv[1]
    if prop == "replay":
        import campaigns
        return campaigns.replay(sys.argv[2])
    tier = os.environ.get("VERIF_TIER") or (sys.argv[2] if len(sys.argv) > 2 else "quick")
    os.environ["VERIF_TIER_EFFECTIVE"] = tier
    seed = int(os.environ.get("VERIF_SEED", "0"))
    t0 = time.time()
    log = []
    try:
        import campaigns
        plan = campaigns.PLANS[prop]
        proof = proof_step(prop, log)
        res = campaigns.run(prop, tier, seed, proof)
        known, fixed = load_known(prop)
        listed = {k["sig"]: k for k in known}
        violations, known_hits = [], []
        for f in res.failures:
            if f["sig"] in listed:
                known_hits.append(f)
            else:
                violations.append(f)
        for sig in sorted(set(f["sig"] for f in known_hits)):
            print("KNOWN-FINDING: property=%s %s :: %s" % (prop, sig, listed[sig]["what"]))
        status = 0
        lines = []
        if violations:
            seen = set()
            for f in violations:
                if f["sig"] in seen:
                    continue
                seen.add(f["sig"])
                path = write_replay(prop, "violation", f)
                lines.append("VIOLATION property=%s replay=%s" % (prop, path))
            status = 1
        elif proof["broken"] or res.disagreements:
            # the proof or the correspondence no longer checks; the campaign above already searched the
            # implementation with the monitors; search harder before giving up on an input
            found = campaigns.search(prop, tier, seed, proof, res)
            found = [f for f in found if f["sig"] not in listed]
            if found:
                path = write_replay(prop, "violation", found[0])
                lines.append("VIOLATION property=%s replay=%s" % (prop, path))
            else:
                path = write_replay(prop, "unproved", {
                    "property": prop,
                    "broken_theorems_or_modules": proof["broken"],
                    "correspondence_disagreements": res.disagreements[:5],
                    "note": "the proof obligations or the model/implementation correspondence no longer check; "
                            "no failing input was found by the search"})
                lines.append("VIOLATION property=%s replay=%s no-failing-input-found" % (prop, path))
            status = 1
        for ln in lines:
            print(ln)
        ev = {
            "property_id": prop, "tier": tier, "seed": seed, "level": "proof",
            "coverage": {
                "obligations": max(1, len(proof["theorems"]) + len(proof["broken"])),
                "discharged": len(proof["theorems"]) if not proof["broken"] else max(0, len(proof["theorems"]) - len(proof["broken"])),
                "checker_cmd": "cd lean && lake build JS.Props.%s && lake env lean .lake/audit_%s.lean   (#print-axioms audit; thorough: leanchecker)" % (prop, prop),
                "trusted_base": sorted(proof["axioms"]) + plan.get("assumptions", []),
                "theorems": proof["theorems"],
                "model_definitions_used": sorted(proof["uses"])[:400],
                "broken": proof["broken"],
                "source_tie": proof.get("tie"),
                "leanchecker": proof.get("leanchecker"),
                "evaluations": res.evaluations,
                "distinct_nontrivial": res.distinct_nontrivial,
                "traces_validated_against_impl": res.compared,
                "disagreements_checked": len(res.disagreements),
                "rule": plan.get("rule", ""),
                "samples": res.samples[:5],
                "distribution": res.distribution,
                "known_findings_seen": sorted(set(f["sig"] for f in known_hits)),
                "fixed_findings_rechecked": [f["sig"] for f in fixed],
                "explanation": plan.get("explanation", ""),
            },
            "assumptions": plan.get("assumptions", []),
            "wall_s": round(time.time() - t0, 2),
            "violations": len(violations) + (1 if status == 1 and not violations else 0),
        }
        os.makedirs(os.path.join(ROOT, "evidence"), exist_ok=True)
        with open(os.path.join(ROOT, "evidence", prop + ".json"), "w") as f:
            json.dump(ev, f, indent=1, default=repr)
        print("%s %s: %d theorems checked, %d cases (%d compared with the model, %d distinct non-trivial), %d disagreements, %d known findings, %.1fs -> %s"
              % (prop, tier, len(proof["theorems"]), res.evaluations, res.compared, res.distinct_nontrivial,
                 len(res.disagreements), len(known_hits), time.time() - t0, "HELD" if status == 0 else "VIOLATION"))
        return status
    except Infra as e:
        print("INFRASTRUCTURE ERROR: %s" % e)
        return 2
    except Exception:       # noqa: BLE001
        traceback.print_exc()
        print("INFRASTRUCTURE ERROR (unexpected exception in the harness)")
        return 2


if __name__ == "__main__":
    sys.exit(main())
