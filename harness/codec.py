"""Token codec of the line protocol (mirror of lean/JS/Codec.lean)."""
import math


def _enc_str(s, out):
    out.append("S")
    out.append(str(len(s)))
    for ch in s:
        out.append(str(ord(ch)))


def enc(v, out):
    if v is None:
        out.append("N")
    elif v is True:
        out.append("T")
    elif v is False:
        out.append("F")
    elif isinstance(v, int):
        out.append("I")
        out.append(str(v))
    elif isinstance(v, float):
        if v != v or v in (float("inf"), float("-inf")):
            raise ValueError("non-finite float")
        n, d = v.as_integer_ratio()
        out.append("D")
        out.append("1" if math.copysign(1.0, v) < 0 else "0")
        out.append(str(abs(n)))
        out.append(str(-(d.bit_length() - 1)))
    elif isinstance(v, str):
        _enc_str(v, out)
    elif isinstance(v, (list, tuple)):
        out.append("A")
        out.append(str(len(v)))
        for x in v:
            enc(x, out)
    elif isinstance(v, dict):
        out.append("O")
        out.append(str(len(v)))
        for k, x in v.items():
            if not isinstance(k, str):
                raise TypeError("non-string key")
            _enc_str(k, out)
            enc(x, out)
    else:
        raise TypeError("cannot encode %r" % (type(v),))


def encode(v):
    out = []
    enc(v, out)
    return " ".join(out)


class _P:
    __slots__ = ("t", "i")

    def __init__(self, toks):
        self.t = toks
        self.i = 0

    def next(self):
        x = self.t[self.i]
        self.i += 1
        return x


def _dec_str(p):
    n = int(p.next())
    return "".join(chr(int(p.next())) for _ in range(n))


def _dec(p):
    t = p.next()
    if t == "N":
        return None
    if t == "T":
        return True
    if t == "F":
        return False
    if t == "I":
        return int(p.next())
    if t == "D":
        neg = p.next() == "1"
        m = int(p.next())
        e = int(p.next())
        if m == 0:
            x = 0.0
        elif e >= 0:
            x = float(m * (1 << e))
        else:
            x = math.ldexp(float(m), e) if m.bit_length() <= 1000 else float(m) * (2.0 ** e)
        return -x if neg else x
    if t == "S":
        return _dec_str(p)
    if t == "A":
        n = int(p.next())
        return [_dec(p) for _ in range(n)]
    if t == "O":
        n = int(p.next())
        d = {}
        for _ in range(n):
            assert p.next() == "S"
            k = _dec_str(p)
            d[k] = _dec(p)
        return d
    raise ValueError("bad token %r" % t)


def decode(s):
    toks = s.split(" ") if isinstance(s, str) else s
    p = _P(toks)
    v = _dec(p)
    if p.i != len(toks):
        raise ValueError("trailing tokens")
    return v


def canon(v):
    """type-strict canonical text of a JSON value (1, 1.0, True are distinct; dict order kept)"""
    return encode(v)


def canon_unordered(v):
    """canonical text ignoring dict key order"""
    if isinstance(v, dict):
        return "O{" + ",".join(sorted(canon(k) + ":" + canon_unordered(x) for k, x in v.items())) + "}"
    if isinstance(v, list):
        return "A[" + ",".join(canon_unordered(x) for x in v) + "]"
    return canon(v)
