"""Correspondence: run model and implementation on the same case and diff canonical outputs."""
import codec
import render


def model_err(e):
    return {
        "msg": render.render(e["t"], e["a"]),
        "info": e["info"],
        "path": e["path"],
        "spath": e["spath"],
        "ctx": [model_err(c) for c in e["ctx"]],
        "cause": e["cause"],
    }


def model_stop(s):
    if s[0] == "fuel":
        return ["raised", ["diverge"]]
    if s[0] == "raised" and s[1][0] == "crash" and s[1][1] == "re.error":
        return ["raised", ["crash", "error"]]
    return s


def model_val(r):
    if "ctor" in r:
        return r
    st = r["st"]
    return {"errs": [model_err(e) for e in r["errs"]], "stop": model_stop(r["stop"]),
            "st": {"scopes": st["scopes"], "storeKeys": st["storeKeys"], "fetchLog": st["fetchLog"]}}


def same(a, b):
    return codec.canon(a) == codec.canon(b)


def diff(a, b, path="$"):
    """first difference between two JSON-ish values, type-strict"""
    if type(a) is not type(b):
        return "%s: %r vs %r" % (path, a, b)
    if isinstance(a, dict):
        if list(a) != list(b):
            return "%s: keys %r vs %r" % (path, list(a), list(b))
        for k in a:
            d = diff(a[k], b[k], path + "." + k)
            if d:
                return d
        return None
    if isinstance(a, list):
        # an undocumented exception is a crash on both sides whatever its class: outside the domain
        # of accepted schemas the model does not try to predict which Python exception it is
        if a and b and isinstance(a[0], str) and isinstance(b[0], str) and a[0] == "crash" and b[0] == "crash":
            return None
        # an exception raised by a user-supplied format function: the model calls it `custom`, the
        # implementation side cannot know where a built-in exception class came from
        if (len(a) == 2 and len(b) == 2 and isinstance(a[0], str) and isinstance(b[0], str)
                and {a[0], b[0]} == {"custom", "crash"} and a[1] == b[1]):
            return None
        if len(a) != len(b):
            return "%s: len %d vs %d: %r vs %r" % (path, len(a), len(b), a, b)
        for i, (x, y) in enumerate(zip(a, b)):
            d = diff(x, y, "%s[%d]" % (path, i))
            if d:
                return d
        return None
    if isinstance(a, float):
        if codec.canon(a) != codec.canon(b):
            return "%s: %r vs %r" % (path, a, b)
        return None
    if a != b:
        return "%s: %r vs %r" % (path, a, b)
    return None


def model_opresult(r):
    k = r[0]
    if k == "errors":
        return ["errors", [model_err(e) for e in r[1]], model_stop(r[2])]
    if k == "invalid":
        return ["invalid", model_err(r[1])]
    if k == "other":
        return ["raised", model_stop(r[1])[1]] if model_stop(r[1])[0] == "raised" else r
    return r


def model_hist(rs):
    if isinstance(rs, dict):
        return rs
    return [{"r": model_opresult(x["r"]),
             "st": {"scopes": x["st"]["scopes"], "storeKeys": x["st"]["storeKeys"], "fetchLog": x["st"]["fetchLog"]}}
            for x in rs]
