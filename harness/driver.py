"""Wrapper around the native model driver `jsdriver` (line protocol with ASK/ANS)."""
import os
import subprocess

import codec

HERE = os.path.dirname(os.path.abspath(__file__))
EXE = os.environ.get("JS_DRIVER") or os.path.join(HERE, "..", "lean", ".lake", "build", "bin", "jsdriver")


class DriverError(Exception):
    pass


class Driver:
    def __init__(self, exe=EXE):
        self.p = subprocess.Popen([exe], stdin=subprocess.PIPE, stdout=subprocess.PIPE,
                                  text=True, bufsize=1)
        self.asks = 0
        self.cases = 0
        self.src_runs = 0
        self.src_diffs = []      # VAL cases on which the interpreted source and the hand model differ

    def close(self):
        try:
            self.p.stdin.close()
            self.p.wait(timeout=10)
        except Exception:
            self.p.kill()

    def run(self, channel, payload, oracle):
        """send one case; answer the model's questions with `oracle(query) -> answer`"""
        self.cases += 1
        self.p.stdin.write(channel + " " + codec.encode(payload) + "\n")
        self.p.stdin.flush()
        while True:
            line = self.p.stdout.readline()
            if not line:
                raise DriverError("driver died on %s" % channel)
            line = line.rstrip("\n")
            if line.startswith("OK "):
                r = codec.decode(line[3:])
                if channel == "VAL" and isinstance(r, dict) and "srcDiff" in r:
                    sd = r.pop("srcDiff")
                    self.src_runs += 1
                    if sd is not None and len(self.src_diffs) < 20:
                        self.src_diffs.append({"case": payload, "model": r, "source": sd})
                return r
            if line.startswith("ASK "):
                self.asks += 1
                q = codec.decode(line[4:])
                a = oracle(q)
                self.p.stdin.write("ANS " + codec.encode(a) + "\n")
                self.p.stdin.flush()
                continue
            raise DriverError("driver said %r for %s" % (line[:200], channel))
