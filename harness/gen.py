"""
Seeded structured generators (DESIGN §4.2): schemas drawn from each draft's vocabulary and
value shapes, instances drawn *from the schema*, reference placement, malformed mutations.
Every random choice comes from one `random.Random(seed)`.
"""
import copy
import random

VOCAB = {
    "d3": ["type", "properties", "patternProperties", "additionalProperties", "items", "additionalItems",
           "dependencies", "minimum", "maximum", "minItems", "maxItems", "uniqueItems", "pattern",
           "minLength", "maxLength", "enum", "format", "divisibleBy", "disallow", "extends"],
    "d4": ["type", "properties", "patternProperties", "additionalProperties", "items", "additionalItems",
           "dependencies", "minimum", "maximum", "minItems", "maxItems", "uniqueItems", "pattern",
           "minLength", "maxLength", "enum", "format", "multipleOf", "required", "minProperties",
           "maxProperties", "allOf", "anyOf", "oneOf", "not"],
}
VOCAB["d6"] = VOCAB["d4"] + ["const", "contains", "exclusiveMinimum", "exclusiveMaximum", "propertyNames"]
VOCAB["d7"] = VOCAB["d6"] + ["if"]

SIMPLE_TYPES = ["array", "boolean", "integer", "null", "number", "object", "string"]
NAMES = ["a", "b", "c", "ab", "", "a b", "~x", "a/b", "0", "1", "é", "x~1y", "%25", "\U0001F600",
         # names that are keywords elsewhere: as member names of properties/dependencies maps and of instances they are just names
         "if", "$ref", "id"]
# (pattern, strings that match, strings that do not)
PATTERNS = [
    ("^a", ["a", "ab", "a b", "a/b"], ["b", "", "ba"]),
    ("b$", ["b", "ab"], ["a", "ba", ""]),
    ("^[0-9]+$", ["0", "1", "42"], ["a", "", "1a"]),
    ("a|c", ["a", "c", "ab"], ["b", "", "0"]),
    ("", ["", "a", "zz"], []),
    ("x.y", ["x~y", "x1y", "x~1y"], ["xy", "a"]),
    ("^.{2}$", ["ab", "é0"], ["a", "abc", ""]),
    ("[~/%]", ["~x", "a/b", "%25"], ["a", "0"]),
    # legitimate Python regular expressions that cannot be glued together with "|":
    ("(?i)^data-", ["DATA-a", "data-x"], ["x-b", "dat"]),
    ("(?P<n>a)b", ["ab", "xab"], ["b", "a"]),
    ("(?P<n>c)d", ["cd"], ["c", "d"]),
    ("(a)\\1", ["aa", "xaa"], ["a", "ab"]),
    ("(b)\\1", ["bb"], ["b", "ab"]),
    ("^x-", ["x-b", "x-"], ["ax-", "x"]),
]
FORMATS = ["email", "ipv4", "ipv6", "date", "regex", "ip-address", "time", "idn-email", "unknown-format", "", "hostname"]
ANNOTATIONS = ["title", "description", "default", "examples", "$comment", "definitions", "readOnly"]
# keywords of later specifications (2019-09, 2020-12): unknown to every draft modelled here
LATER = ["minContains", "maxContains", "unevaluatedItems", "unevaluatedProperties", "dependentRequired", "dependentSchemas",
         "prefixItems", "$anchor", "$recursiveRef", "$recursiveAnchor", "$dynamicRef", "$dynamicAnchor", "$defs", "$vocabulary",
         "contentSchema", "deprecated", "writeOnly"]
# the keyword a later one modifies in its own specification (where a shortcut would consult it), and telling values
LATER_PARTNER = {
    "minContains": ("contains", [0, 0.0, False, 1, 2, 3]), "maxContains": ("contains", [0, 1, 2, False]),
    "unevaluatedItems": ("items", [False, {"not": {}}, True]), "unevaluatedProperties": ("properties", [False, {"not": {}}, True]),
    "dependentRequired": ("dependencies", [{"a": ["zz"]}, {"b": ["a", "zz"]}]), "dependentSchemas": ("dependencies", [{"a": False}, {"b": {"not": {}}}]),
    "prefixItems": ("items", [[False], [{"not": {}}, False], []]), "$recursiveRef": ("$ref", ["#"]), "$dynamicRef": ("$ref", ["#", "#a"]),
    "$defs": ("definitions", [{"a": False}]), "deprecated": ("type", [True]), "writeOnly": ("type", [True]),
    # keywords of OTHER dialects (OpenAPI 3.0, Draft 2, popular extensions) next to the keyword they modify at home
    "nullable": ("type", [True, True, False]), "x-nullable": ("type", [True]), "optional": ("type", [True]),
    "maxDecimal": ("type", [0, 1]), "coerce": ("type", [True, "number"]), "unique": ("items", [True]),
    "discriminator": ("oneOf", [{"propertyName": "a"}, "a"]), "strict": ("properties", [True]),
    "requires": ("type", ["zz", {"not": {}}]), "instanceof": ("type", ["Date", "Number"]),
}
FOREIGN = {
    "d3": ["allOf", "anyOf", "oneOf", "not", "const", "contains", "propertyNames", "if", "then", "else",
           "multipleOf", "required", "minProperties", "maxProperties", "exclusiveMinimum", "$id", "unevaluatedProperties", "prefixItems"],
    "d4": ["const", "contains", "propertyNames", "if", "then", "else", "extends", "disallow", "divisibleBy",
           "$id", "unevaluatedProperties", "prefixItems", "dependentRequired", "minContains"],
    "d6": ["if", "then", "else", "extends", "disallow", "divisibleBy", "id", "unevaluatedItems", "prefixItems",
           "dependentSchemas", "$anchor"],
    "d7": ["extends", "disallow", "divisibleBy", "id", "unevaluatedItems", "prefixItems", "dependentSchemas",
           "$anchor", "$recursiveRef", "$defs"],
}


# literals found in a CHANGED keyword function or type predicate (check.py, source tie): values, lengths and
# names the search for a failing input tries first
HINTS = {"ints": [], "strs": []}


def set_hints(h):
    HINTS["ints"] = [i for i in h.get("ints", []) if isinstance(i, int)]
    HINTS["strs"] = [x for x in h.get("strs", []) if isinstance(x, str)]
    for x in HINTS["strs"]:
        if x not in NAMES and "%" not in x:
            NAMES.append(x)


def hinted(r):
    """a value suggested by the hints: the number itself or a neighbour, a string / array / object of that size, the string"""
    if not (HINTS["ints"] or HINTS["strs"]):
        return None
    if HINTS["strs"] and (not HINTS["ints"] or r.random() < 0.4):
        x = r.choice(HINTS["strs"])
        return r.choice([x, {x: 1}, [x]])
    n = r.choice(HINTS["ints"])
    k = r.randrange(8)
    if k < 3:
        return n + r.choice([0, 0, 1, -1])
    if k == 3:
        return float(n)
    m = n + r.choice([0, 0, 0, 1, -1])
    if 0 <= m <= 20000:
        if k in (4, 5) or m > 600:
            return "x" * m              # strings may be long; collections stay small enough for every campaign
        if k == 6:
            return [0] * m
        return dict(("k%d" % i, 0) for i in range(m))
    return n


def finite(v):
    """replace non-finite floats (products of the boundary arithmetic) by finite ones"""
    if isinstance(v, float) and (v != v or v in (float("inf"), float("-inf"))):
        return 1.7976931348623157e308 if v > 0 else -1.7976931348623157e308 if v < 0 else 0.0
    if isinstance(v, list):
        return [finite(x) for x in v]
    if isinstance(v, dict):
        return {k: finite(x) for k, x in v.items()}
    return v


class G:
    def __init__(self, seed):
        self.r = random.Random(seed)

    # ------------------------------------------------------------------ values
    def number(self):
        r = self.r
        if HINTS["ints"] and r.random() < 0.15:
            return r.choice(HINTS["ints"]) + r.choice([0, 0, 1, -1])
        k = r.randrange(12)
        if k == 0:
            return r.choice([0, 1, -1, 2, 3, 5, 10])
        if k == 1:
            return r.choice([0.0, 1.0, -0.0, 0.5, 1.5, 2.0, 2.5, -1.5, 0.1, 0.3, 3.0])
        if k == 2:
            return r.randrange(-20, 20)
        if k == 3:
            return r.choice([2 ** 53, 2 ** 53 + 1, 2 ** 53 - 1, 2 ** 64, 10 ** 30, -(10 ** 30), 10 ** 400, 2 ** 1024])
        if k == 4:
            return float(r.choice([2 ** 53, 2 ** 53 + 2, 2 ** 60, 10 ** 22]))
        if k == 5:
            return r.choice([5e-324, 2.2250738585072014e-308, 1.7976931348623157e308, -1.7976931348623157e308, 1e300, 1e-300])
        if k == 6:
            return r.randrange(-10 ** 6, 10 ** 6) / r.choice([1, 2, 4, 8, 10, 3])
        if k == 7:
            return float(r.randrange(-50, 50))
        return r.randrange(-5, 12)

    def string(self):
        r = self.r
        k = r.randrange(8)
        if k == 0:
            return r.choice(NAMES)
        if k == 1:
            p = r.choice(PATTERNS)
            return r.choice(p[1] + p[2])
        if k == 2:
            return r.choice(["127.0.0.1", "2020-01-01", "a@b", "::1", "256.1.1.1", "not a date", "(", "a{2}"])
        n = r.randrange(0, 5)
        return "".join(r.choice("ab01 ~/é\U0001F600") for _ in range(n))

    def value(self, depth=2):
        r = self.r
        k = r.randrange(10 if depth > 0 else 7)
        if k == 0:
            return None
        if k == 1:
            return r.choice([True, False])
        if k in (2, 3):
            return self.number()
        if k == 4:
            return r.choice([0, 1, 0.0, 1.0, True, False])
        if k in (5, 6):
            return self.string()
        if k in (7, 8):
            return [self.value(depth - 1) for _ in range(r.randrange(0, 4))]
        return {self.r.choice(NAMES): self.value(depth - 1) for _ in range(r.randrange(0, 4))}

    def retype(self, v):
        """v with one scalar leaf replaced by a value of the same Python class family but another JSON
        type or integrality (3.0 <-> 3.5, 1 <-> True <-> 1.0, 0 <-> False <-> 0.0): what a cache keyed
        by class, hash or `==` confuses"""
        r = self.r
        v = copy.deepcopy(v)

        def leafs(x, path, acc):
            if isinstance(x, dict):
                for k in x:
                    leafs(x[k], path + [k], acc)
            elif isinstance(x, list):
                for n, y in enumerate(x):
                    leafs(y, path + [n], acc)
            elif isinstance(x, (bool, int, float)):
                acc.append(path)
            return acc

        def alt(x):
            if isinstance(x, bool):
                return r.choice([int(x), float(x)])
            if isinstance(x, float):
                if x != x or x in (float("inf"), float("-inf")) or abs(x) > 1e15:
                    return 0.5
                return r.choice([x + 0.5, int(x) if x == int(x) else float(round(x)), bool(x) if x in (0.0, 1.0) else x + 0.5])
            if abs(x) > 2 ** 52:
                return x + 1
            return r.choice([float(x), x + 0.5, bool(x) if x in (0, 1) else float(x)])
        ps = leafs(v, [], [])
        if not ps:
            return r.choice([1.5, 1.0, True, 0, 0.0, False])
        path = r.choice(ps)
        if not path:
            return alt(v)
        cur = v
        for k in path[:-1]:
            cur = cur[k]
        cur[path[-1]] = alt(cur[path[-1]])
        return v

    def twist(self, v):
        """a value that differs from v in exactly one JSON-equality-relevant way (or not at all)"""
        r = self.r
        v = copy.deepcopy(v)
        paths = []

        def walk(x, p):
            paths.append(p)
            if isinstance(x, list):
                for i, y in enumerate(x):
                    walk(y, p + [i])
            elif isinstance(x, dict):
                for k, y in x.items():
                    walk(y, p + [k])
        walk(v, [])
        p = r.choice(paths)

        def tw(x):
            k = r.randrange(8)
            if x is True:
                return r.choice([1, 1.0])
            if x is False:
                return r.choice([0, 0.0, -0.0])
            if isinstance(x, int):
                if x in (0, 1) and k < 4:
                    return bool(x)
                if k < 6 and abs(x) < 2 ** 1000:
                    f = float(x)
                    return f
                return x + 1
            if isinstance(x, float):
                if x != x or x in (float("inf"), float("-inf")):
                    return 0.0
                if x in (0.0, 1.0) and k < 3:
                    return bool(x)
                if x == int(x) and k < 6:
                    return int(x)
                return x + 1.0
            if isinstance(x, str):
                return x + "a" if k < 4 else x
            if isinstance(x, list):
                if len(x) >= 2 and k < 5:
                    y = list(x)
                    i = r.randrange(len(y) - 1)
                    y[i], y[i + 1] = y[i + 1], y[i]
                    return y
                return x + [None] if k < 7 else x
            if isinstance(x, dict):
                if len(x) >= 2 and k < 6:
                    items = list(x.items())
                    r.shuffle(items)
                    return dict(items)
                return x
            return x
        if not p:
            return tw(v)
        cur = v
        for step in p[:-1]:
            cur = cur[step]
        cur[p[-1]] = tw(cur[p[-1]])
        return v

    # ------------------------------------------------------------------ schemas
    def subschema(self, d, depth):
        r = self.r
        if d in ("d6", "d7") and r.random() < 0.08:
            return r.choice([True, False])
        return self.schema(d, depth - 1)

    def named(self, s):
        """a schema of a Draft 3 type union, sometimes with a `name` (what the error message calls it)"""
        if isinstance(s, dict) and self.r.random() < 0.4:
            s = dict(s, name=self.r.choice(["integer", "string", "Label", "a b"]))
        return s

    def type_value(self, d, depth):
        r = self.r
        if d == "d3":
            pool = SIMPLE_TYPES + ["any"]
            if r.random() < 0.5:
                return r.choice(pool)
            out = []
            if depth > 0 and r.random() < 0.35:
                # a name before schemas: the positions of the schema alternatives differ from their rank
                return [r.choice(pool)] + [self.named(self.schema(d, depth - 1)) for _ in range(r.randrange(1, 3))] + ([r.choice(pool)] if r.random() < 0.3 else [])
            for _ in range(r.randrange(1, 4)):
                if depth > 0 and r.random() < 0.3:
                    out.append(self.named(self.schema(d, depth - 1)))
                else:
                    t = r.choice(pool)
                    if t not in out:
                        out.append(t)
            return out
        if r.random() < 0.6:
            return r.choice(SIMPLE_TYPES)
        return r.sample(SIMPLE_TYPES, r.randrange(1, 4))

    def kw_value(self, d, k, depth, sch):
        r = self.r
        if k == "type":
            return self.type_value(d, depth)
        if k == "disallow":
            return self.type_value("d3", depth)
        if k == "enum":
            return [self.value(1) for _ in range(r.randrange(1, 5))]
        if k == "const":
            return self.value(2)
        if k in ("minimum", "maximum"):
            if d in ("d3", "d4") and r.random() < 0.5:
                sch["exclusive" + k[:1].upper() + k[1:]] = r.choice([True, False])
            return self.number()
        if k in ("exclusiveMinimum", "exclusiveMaximum"):
            return self.number()
        if k in ("multipleOf", "divisibleBy"):
            return r.choice([1, 2, 3, 7, 0.5, 0.25, 1.5, 2.0, 0.1, 0.01, 10 ** 20, 2 ** 70, 1e-5, 3.0, 4, 5e-324, 1e308])
        if k in ("minLength", "maxLength", "minItems", "maxItems", "minProperties", "maxProperties"):
            n = r.randrange(0, 4)
            if d in ("d6", "d7") and r.random() < 0.15:
                return float(n)
            return n
        if k == "pattern":
            return r.choice(PATTERNS)[0]
        if k == "format":
            return r.choice(FORMATS)
        if k == "uniqueItems":
            return r.random() < 0.8
        if k == "items":
            c = r.random()
            if c < 0.5 or depth <= 0:
                return self.subschema(d, depth)
            return [self.subschema(d, depth) for _ in range(r.randrange(0 if d != "d4" else 1, 4))]
        if k == "additionalItems":
            if "items" not in sch and r.random() < 0.8:
                sch["items"] = [self.subschema(d, depth) for _ in range(r.randrange(1, 3))]
            return r.choice([True, False, False]) if r.random() < 0.6 else self.subschema(d, depth)
        if k in ("contains", "not", "propertyNames", "if"):
            if k == "if":
                if r.random() < 0.8:
                    sch["then"] = self.subschema(d, depth)
                if r.random() < 0.6:
                    sch["else"] = self.subschema(d, depth)
            if k == "propertyNames" and r.random() < 0.7:
                return r.choice([{"maxLength": 1}, {"pattern": "^a"}, {"minLength": 1}, {"enum": ["a", "b"]}, {"type": "string", "maxLength": 2}])
            return self.subschema(d, depth)
        if k == "properties":
            out = {}
            for _ in range(r.randrange(0, 4)):
                s = self.subschema(d, depth)
                if d == "d3" and isinstance(s, dict) and r.random() < 0.4:
                    s["required"] = r.choice([True, True, False])
                out[r.choice(NAMES)] = s
            return out
        if k == "patternProperties":
            return {r.choice(PATTERNS)[0]: self.subschema(d, depth) for _ in range(r.randrange(0, 3))}
        if k == "additionalProperties":
            if r.random() < 0.7:
                if "properties" not in sch and r.random() < 0.5:
                    sch["properties"] = self.kw_value(d, "properties", depth, sch)
                if "patternProperties" not in sch and r.random() < 0.4:
                    sch["patternProperties"] = self.kw_value(d, "patternProperties", depth, sch)
            return r.choice([True, False, False]) if r.random() < 0.6 else self.subschema(d, depth)
        if k == "required":
            n = r.randrange(1, 4)
            return r.sample(NAMES, n)
        if k == "dependencies":
            out = {}
            for _ in range(r.randrange(0, 3)):
                c = r.random()
                if c < 0.5:
                    lo = 1 if d == "d4" else 0
                    v = r.sample(NAMES, r.randrange(lo, 3))
                elif c < 0.65 and d == "d3":
                    v = r.choice(NAMES)
                else:
                    v = self.subschema(d, depth)
                out[r.choice(NAMES)] = v
            return out
        if k in ("allOf", "anyOf", "oneOf"):
            return [self.subschema(d, depth) for _ in range(r.randrange(1, 4))]
        if k == "extends":
            if r.random() < 0.4:
                return self.schema(d, depth - 1)
            return [self.schema(d, depth - 1) for _ in range(r.randrange(0, 4))]
        raise KeyError(k)

    def schema(self, d, depth=2, foreign=0.05, ids=0.0):
        """a reference-free schema object of draft d, valid under the metaschema by construction"""
        r = self.r
        sch = {}
        if depth <= 0:
            nkw = r.choice([0, 1, 1, 1, 2])
            pool = [k for k in VOCAB[d] if k not in ("properties", "patternProperties", "items", "additionalItems",
                    "additionalProperties", "dependencies", "allOf", "anyOf", "oneOf", "not", "contains", "if",
                    "propertyNames", "extends")]
        else:
            nkw = r.choice([1, 1, 2, 2, 3, 4])
            pool = VOCAB[d]
        for _ in range(nkw):
            k = r.choice(pool)
            if k in sch:
                continue
            v = self.kw_value(d, k, depth, sch)
            sch[k] = v
        if r.random() < foreign:
            sch[r.choice(ANNOTATIONS + FOREIGN[d])] = self.value(1)
        if ids and r.random() < ids:
            sch["id" if d in ("d3", "d4") else "$id"] = r.choice(["http://ex.org/root.json", "sub/", "other.json", "http://ex.org/a/b/", "x"])
        if r.random() < 0.5:
            items = list(sch.items())
            r.shuffle(items)
            sch = dict(items)
        return sch

    def interplay(self, d):
        """object keywords that consult each other, at the root AND inside an applicator working on
        the same instance, in every key order: `patternProperties` / `additionalProperties` / `properties`
        with different pattern sets outside and inside `allOf`/`anyOf`/`oneOf`/`not`/`extends`/`dependencies`"""
        r = self.r
        simple = [p for p in PATTERNS if p[0] in ("^a", "b$", "^[0-9]+$", "a|c", "x.y", "^.{2}$", "[~/%]")]
        p_out, p_in = r.sample(simple, 2)
        leaf = lambda: r.choice([{}, {"type": "string"}, {"type": "integer"}, {"maxLength": 1}, {"minimum": 1}])   # noqa: E731
        inner = {"patternProperties": {p_in[0]: leaf()}}
        if r.random() < 0.6:
            inner["additionalProperties"] = r.choice([False, leaf()])
        if r.random() < 0.3:
            inner["properties"] = {r.choice(NAMES): leaf()}
        if d == "d3":
            app, val = r.choice([("extends", inner), ("extends", [inner]), ("dependencies", {r.choice(p_out[1] + ["a"]): inner})])
        else:
            app, val = r.choice([("allOf", [inner]), ("anyOf", [inner, {"type": "integer"}]), ("oneOf", [inner]), ("not", inner),
                                 ("dependencies", {r.choice(p_out[1] + ["a"]): inner})])
        parts = [("patternProperties", {p_out[0]: leaf()}), (app, val), ("additionalProperties", r.choice([False, False, leaf()]))]
        if r.random() < 0.4:
            parts.append(("properties", {r.choice(NAMES): leaf()}))
        r.shuffle(parts)
        return dict(parts)

    # ------------------------------------------------------------------ instances
    def instance_for(self, d, s, depth=3):
        return finite(self._instance_for(d, s, depth))

    def _instance_for(self, d, s, depth=3):
        """an instance aimed at the decision boundaries of schema s"""
        r = self.r
        if (HINTS["ints"] or HINTS["strs"]) and r.random() < 0.12:
            h = hinted(r)
            if h is not None:
                return h
        if not isinstance(s, dict) or depth <= 0 or r.random() < 0.07:
            return self.value(1)
        cands = []
        t = s.get("type")
        types = [t] if isinstance(t, str) else [x for x in (t if isinstance(t, list) else []) if isinstance(x, str)]
        if "enum" in s and isinstance(s["enum"], list) and s["enum"]:
            e = r.choice(s["enum"])
            cands += [e, self.twist(e)]
        if "const" in s:
            cands += [s["const"], self.twist(s["const"])]
        numkw = [k for k in ("minimum", "maximum", "exclusiveMinimum", "exclusiveMaximum", "multipleOf", "divisibleBy") if isinstance(s.get(k), (int, float)) and not isinstance(s.get(k), bool)]
        if numkw or "number" in types or "integer" in types:
            for k in numkw:
                b = s[k]
                if k in ("multipleOf", "divisibleBy"):
                    try:
                        cands += [b * r.randrange(-3, 6), b * r.randrange(0, 4) + (b / 2 if isinstance(b, float) else 1)]
                    except OverflowError:
                        cands += [b]
                else:
                    try:
                        cands += [b, b + 1, b - 1, b + 0.5 if abs(b) < 1e15 else b, float(b) if abs(b) < 1e300 else b]
                    except OverflowError:
                        cands += [b, b + 1, b - 1]
            cands += [self.number(), self.number()]
        strkw = [k for k in ("minLength", "maxLength", "pattern", "format") if k in s]
        if strkw or "string" in types:
            n = None
            for k in ("minLength", "maxLength"):
                if isinstance(s.get(k), (int, float)) and not isinstance(s.get(k), bool) and abs(s[k]) < 8:
                    n = int(s[k]) + r.choice([-1, 0, 0, 1])
            if isinstance(s.get("pattern"), str):
                for p in PATTERNS:
                    if p[0] == s["pattern"]:
                        cands += [r.choice(p[1])] + ([r.choice(p[2])] if p[2] else [])
            if n is not None and n >= 0:
                cands.append("".join(r.choice("ab\U0001F600é") for _ in range(n)))
            cands += [self.string()]
        arrkw = [k for k in ("items", "additionalItems", "minItems", "maxItems", "uniqueItems", "contains") if k in s]
        if arrkw or "array" in types:
            n = r.randrange(0, 4)
            for k in ("minItems", "maxItems"):
                if isinstance(s.get(k), (int, float)) and not isinstance(s.get(k), bool) and abs(s[k]) < 8:
                    n = max(0, int(s[k]) + r.choice([-1, 0, 0, 1]))
            items = s.get("items")
            arr = []
            if isinstance(items, list):
                n = max(0, min(len(items), 6) + r.choice([-1, 0, 1, 2]))
            for i in range(n):
                if isinstance(items, list):
                    sub = items[i] if i < len(items) else s.get("additionalItems", {})
                else:
                    sub = items if items is not None else s.get("contains", {})
                arr.append(self._instance_for(d, sub, depth - 1))
            if s.get("uniqueItems") and arr and r.random() < 0.5:
                x = r.choice(arr)
                arr.insert(r.randrange(len(arr) + 1), self.twist(x) if r.random() < 0.6 else copy.deepcopy(x))
            if "contains" in s and r.random() < 0.5:
                arr.append(self._instance_for(d, s["contains"], depth - 1))
            cands.append(arr)
        objkw = [k for k in ("properties", "patternProperties", "additionalProperties", "required", "dependencies",
                             "minProperties", "maxProperties", "propertyNames") if k in s]
        if objkw or "object" in types:
            obj = {}
            props = s.get("properties") if isinstance(s.get("properties"), dict) else {}
            for k, sub in props.items():
                if r.random() < 0.7:
                    obj[k] = self._instance_for(d, sub, depth - 1)
            if isinstance(s.get("required"), list):
                for k in s["required"]:
                    if isinstance(k, str) and r.random() < 0.7:
                        obj.setdefault(k, self.value(1))
            pp = s.get("patternProperties") if isinstance(s.get("patternProperties"), dict) else {}
            for pat, sub in pp.items():
                for p in PATTERNS:
                    if p[0] == pat and r.random() < 0.7:
                        obj[r.choice(p[1])] = self._instance_for(d, sub, depth - 1)
            deps = s.get("dependencies") if isinstance(s.get("dependencies"), dict) else {}
            for k, dep in deps.items():
                if r.random() < 0.7:
                    obj.setdefault(k, self.value(1))
                    if isinstance(dep, list):
                        for x in dep:
                            if isinstance(x, str) and r.random() < 0.6:
                                obj.setdefault(x, self.value(0))
                    elif isinstance(dep, str) and r.random() < 0.6:
                        obj.setdefault(dep, self.value(0))
            for _ in range(r.choice([0, 0, 1, 2])):
                ap = s.get("additionalProperties")
                obj.setdefault(r.choice(NAMES), self._instance_for(d, ap, depth - 1) if isinstance(ap, dict) else self.value(1))
            for k in ("minProperties", "maxProperties"):
                if isinstance(s.get(k), (int, float)) and not isinstance(s.get(k), bool) and abs(s[k]) < 8:
                    want = max(0, int(s[k]) + r.choice([-1, 0, 1]))
                    while len(obj) > want:
                        obj.pop(r.choice(list(obj)))
                    while len(obj) < want and len(obj) < len(NAMES):
                        obj.setdefault(r.choice(NAMES), self.value(0))
            items = list(obj.items())
            r.shuffle(items)
            cands.append(dict(items))
        for k in ("allOf", "anyOf", "oneOf", "extends"):
            subs = s.get(k)
            if isinstance(subs, dict):
                subs = [subs]
            if isinstance(subs, list) and subs:
                cands.append(self._instance_for(d, r.choice(subs), depth - 1))
        for k in ("not", "if", "then", "else"):
            if isinstance(s.get(k), dict):
                cands.append(self._instance_for(d, s[k], depth - 1))
        if isinstance(t, list):
            for x in t:
                if isinstance(x, dict):
                    cands.append(self._instance_for(d, x, depth - 1))
        for ty in types:
            cands.append({"array": [], "boolean": r.choice([True, False]), "integer": r.choice([0, 1, 7, 1.0, 2 ** 60, 1.5, 2.0, -0.5, 3.0, 2.5, True]),
                          "null": None, "number": self.number(), "object": {}, "string": self.string(),
                          "any": self.value(1)}.get(ty, None))
        if not cands or r.random() < 0.15:
            cands.append(self.value(2))
        return copy.deepcopy(r.choice(cands))

    # ------------------------------------------------------------------ malformed
    def near_miss(self, old):
        """a value just outside (or at the edge of) the shape of `old`"""
        r = self.r
        if isinstance(old, bool):
            return r.choice([0, 1, "true", None, []])
        if isinstance(old, (int, float)):
            return r.choice([0, 0.0, -0.0, -1, -0.5, 1e-400, True, "1", None, old * -1 if old == old else 0, 0.5, [old]])
        if isinstance(old, str):
            return r.choice([1, "", None, [old], {old: {}}, True])
        if isinstance(old, list):
            return r.choice([{}, "x", [], [1], [[]], None, old + old, True])
        if isinstance(old, dict):
            return r.choice([[], True, "x", {}, None, [old], 0])
        return r.choice([0, "", [], {}])

    def malform(self, s, n=1):
        """replace n keyword values, anywhere in the schema, by random JSON values or near misses"""
        s = copy.deepcopy(s)
        r = self.r
        for _ in range(n):
            spots = []

            def walk(x):
                if isinstance(x, dict):
                    for k in x:
                        spots.append((x, k))
                        walk(x[k])
                elif isinstance(x, list):
                    for i, y in enumerate(x):
                        spots.append((x, i))
                        walk(y)
            walk(s)
            if not spots:
                return self.value(1)
            c, k = r.choice(spots)
            c[k] = self.near_miss(c[k]) if r.random() < 0.6 else self.value(1)
        return s


# ---------------------------------------------------------------------- references
from urllib.parse import quote as _quote

HOSTILE = ["a", "a/b", "~x", "~01", "m~n", "a b", "", "%25", "100%", "é", "\U0001F600", "0", "01", "x#y", "q?r", "\"q\"", "back\\slash", "~1", "/", "~"]


def slots(s, d):
    """(container, key) pairs such that container[key] is a subschema of s (one level)"""
    out = []
    if not isinstance(s, dict):
        return out
    for k in ("properties", "patternProperties", "dependencies", "definitions"):
        v = s.get(k)
        if isinstance(v, dict):
            for n, sub in v.items():
                if isinstance(sub, (dict, bool)) and not (k == "dependencies" and not isinstance(sub, dict)):
                    out.append((v, n))
    for k in ("additionalProperties", "additionalItems", "contains", "propertyNames", "not", "if", "then", "else", "items", "extends"):
        v = s.get(k)
        if isinstance(v, dict) or (isinstance(v, bool) and d in ("d6", "d7") and k not in ("extends",)):
            if k in ("contains", "propertyNames", "if", "then", "else") and d not in ("d6", "d7"):
                continue
            if k in ("if", "then", "else") and d != "d7":
                continue
            if k == "not" and d == "d3":
                continue
            if k == "extends" and d != "d3":
                continue
            if isinstance(v, bool) and k in ("additionalProperties", "additionalItems"):
                continue
            out.append((s, k))
    for k in ("allOf", "anyOf", "oneOf", "items", "extends", "type", "disallow"):
        v = s.get(k)
        if isinstance(v, list):
            if k in ("allOf", "anyOf", "oneOf") and d == "d3":
                continue
            if k in ("extends", "disallow") and d != "d3":
                continue
            if k == "type" and d != "d3":
                continue
            for i, sub in enumerate(v):
                if isinstance(sub, dict) or (isinstance(sub, bool) and d in ("d6", "d7") and k not in ("type", "disallow")):
                    out.append((v, i))
    return out


def all_slots(s, d, depth=0, acc=None):
    acc = [] if acc is None else acc
    for c, k in slots(s, d):
        acc.append((c, k, depth))
        all_slots(c[k], d, depth + 1, acc)
    return acc


def ptr_escape(name):
    return name.replace("~", "~0").replace("/", "~1")


class RefG(G):
    """schemas with references: returns (root, store, world_docs, info)"""

    def frag_for(self, tokens):
        r = self.r
        p = "".join("/" + ptr_escape(t) for t in tokens)
        mode = r.randrange(4)
        if mode == 3:
            # everything percent-encoded, the separators too (RFC 3986 decoding comes first, then RFC 6901)
            return _quote(p, safe="") if r.random() < 0.6 else _quote(p, safe="~").replace("%2F", r.choice(["%2f", "%2F"]))
        if mode == 0:
            return _quote(p, safe="/~!$&'()*+,;=:@")
        if mode == 1:
            return p.replace("%", "%25")
        return _quote(p, safe="")  .replace("%2F", "/") if r.random() < 0.5 else _quote(p, safe="/~")

    def ref_schema(self, d, depth=2):
        r = self.r
        idk = "id" if d in ("d3", "d4") else "$id"
        root = self.schema(d, depth)
        if not isinstance(root, dict):
            root = {}
        store, world = {}, {}
        info = {"kinds": []}
        base = ""
        if r.random() < 0.5:
            base = r.choice(["http://ex.org/root.json", "http://ex.org/dir/root.json", "urn:x:root"])
            root[idk] = base
        ext_urls = ["http://ex.org/doc1.json", "http://ex.org/dir/doc2.json", "http://other.org/d.json"]
        sl = [t for t in all_slots(root, d) if not (d == "d3" and isinstance(t[0][t[1]], dict) and "required" in t[0][t[1]])]
        r.shuffle(sl)
        n = r.choice([1, 1, 2, 3])
        defs = {}
        for c, k, _ in sl[:n]:
            sub = c[k]
            if isinstance(sub, dict) and "$ref" in sub:
                continue
            kind = r.choice(["local", "local", "store", "fetch", "relative", "missing-local", "missing-remote", "recursive", "chain", "empty-ref"])
            info["kinds"].append(kind)
            name = r.choice(HOSTILE)
            if kind == "local":
                defs[name] = sub
                c[k] = {"$ref": "#" + self.frag_for(["definitions", name])}
            elif kind == "chain":
                name2 = name + "2"
                defs[name] = sub
                defs[name2] = {"$ref": "#" + self.frag_for(["definitions", name])}
                c[k] = {"$ref": "#" + self.frag_for(["definitions", name2])}
            elif kind in ("store", "fetch"):
                url = r.choice(ext_urls)
                target = store if kind == "store" else world
                other = world if kind == "store" else store
                if url in other:
                    target = other
                doc = target.setdefault(url, {"defs": {}})
                if "defs" not in doc:
                    doc["defs"] = {}
                doc["defs"][name] = sub
                c[k] = {"$ref": url + r.choice(["#", "#"]) + self.frag_for(["defs", name])}
            elif kind == "relative":
                if not base.startswith("http"):
                    base = "http://ex.org/dir/root.json"
                    root[idk] = base
                url = "http://ex.org/dir/rel.json"
                doc = store.setdefault(url, {"defs": {}})
                doc["defs"][name] = sub
                c[k] = {"$ref": "rel.json#" + self.frag_for(["defs", name])}
            elif kind == "missing-local":
                c[k] = {"$ref": "#/definitions/" + r.choice(["nope", "a/b", "0"])}
            elif kind == "missing-remote":
                c[k] = {"$ref": r.choice(["http://nowhere.org/x.json", "http://ex.org/doc1.json#/nope", "other-missing.json"])}
            elif kind == "recursive":
                # a guarded cycle: the reference sits below an instance-descending applicator
                descending = (c is root.get("properties") or c is root.get("patternProperties")
                              or (c is root and k in ("items", "additionalProperties", "additionalItems")))
                if descending:
                    c[k] = {"$ref": "#"}
            elif kind == "empty-ref":
                # the empty reference designates the current document; only below an instance-descending applicator
                descending = (c is root.get("properties") or c is root.get("patternProperties")
                              or (c is root and k in ("items", "additionalProperties", "additionalItems")))
                if descending:
                    c[k] = {"$ref": ""}
        if defs:
            if not isinstance(root.get("definitions"), dict):
                root["definitions"] = {}
            root["definitions"].update(defs)
        # the OTHER drafts' spelling of the id keyword is not a keyword here: it must not move the base
        other_idk = "$id" if d in ("d3", "d4") else "id"
        if r.random() < 0.15 and other_idk not in root:
            root[other_idk] = r.choice(["http://decoy.example/base/", "http://ex.org/decoy/x.json", "decoy/"])
        # sibling keywords next to $ref must be ignored
        if r.random() < 0.4:
            for c, k, _ in all_slots(root, d):
                if isinstance(c[k], dict) and "$ref" in c[k] and r.random() < 0.7:
                    c[k]["type"] = r.choice(SIMPLE_TYPES)
                    if r.random() < 0.6:
                        c[k]["minimum"] = 10 ** 9
        # an id on the path that changes the base for relative references below it
        if r.random() < 0.3 and isinstance(root.get("properties"), dict) and root["properties"]:
            pk = r.choice(list(root["properties"]))
            if isinstance(root["properties"][pk], dict) and "$ref" not in root["properties"][pk]:
                root["properties"][pk][idk] = r.choice(["sub/", "http://ex.org/other/", "#frag", "#", "#/definitions/a"])
        return root, store, world, info

    def hist_ops(self, d, root, n):
        r = self.r
        ops = []
        for _ in range(n):
            i = self.instance_for(d, root)
            k = r.randrange(10)
            if k < 2:
                ops.append(["isValid", i])
            elif k < 4:
                ops.append(["exhaust", i])
            elif k < 5:
                ops.append(["validate", i])
            elif k < 8:
                ops.append(["take", r.choice([1, 1, 2, 3]), i])
            else:
                ops.append(["resolve", r.choice(["#", "#/definitions/a", "http://ex.org/doc1.json", "http://ex.org/doc1.json#/defs/a",
                                                  "rel.json", "#/nope", "http://nowhere.org/x.json", "http://ex.org/dir/doc2.json#"])])
        return ops
