"""
The implementation side of the correspondence: runs the real `jsonschema` from the
working tree of the repository in-process and canonicalises what it observes.
"""
import copy
import os
import sys
import warnings

REPO = os.environ.get("JS_REPO", "/repo")
if REPO not in sys.path:
    sys.path.insert(0, REPO)

import jsonschema                                    # noqa: E402
from jsonschema import validators as V, exceptions as E, _format as F, _types as T  # noqa: E402

assert os.path.realpath(jsonschema.__file__).startswith(os.path.realpath(REPO) + os.sep), jsonschema.__file__
warnings.simplefilter("ignore", DeprecationWarning)

DRAFTS = {"d3": V.Draft3Validator, "d4": V.Draft4Validator, "d6": V.Draft6Validator, "d7": V.Draft7Validator}
DRAFT_FC = {"d3": F.draft3_format_checker, "d4": F.draft4_format_checker,
            "d6": F.draft6_format_checker, "d7": F.draft7_format_checker}


def exc_json(e):
    if isinstance(e, E.RefResolutionError):
        return ["RefResolutionError"]
    if isinstance(e, E.UnknownType):
        return ["UnknownType", e.type]
    if isinstance(e, RecursionError):
        return ["diverge"]
    if isinstance(e, ScenarioError):
        return ["custom", type(e).__name__]
    return ["crash", type(e).__name__]


class ScenarioError(Exception):
    """base of the exceptions custom format functions of a scenario raise"""


def path_json(p):
    return [x for x in p]


_unset = E._unset


def err_json(e):
    """same shape as Codec.encErr, with the message rendered"""
    unset = (e.validator is _unset and e.validator_value is _unset and e.instance is _unset and e.schema is _unset)
    # the four fields are set together (`_set`); a field left unset while others are set is shown as such
    # (never on the unchanged code), so that an unset field and a JSON null are told apart
    miss = {"$unset": True}
    info = None if unset else {
        "kw": miss if e.validator is _unset else e.validator,
        "kwVal": miss if e.validator_value is _unset else e.validator_value,
        "inst": miss if e.instance is _unset else e.instance,
        "schema": miss if e.schema is _unset else e.schema,
    }
    return {
        "msg": e.message,
        "info": info,
        "path": path_json(e.relative_path),
        "spath": path_json(e.relative_schema_path),
        "ctx": [err_json(c) for c in e.context],
        "cause": None if e.cause is None else type(e.cause).__name__,
    }


def consume(it, budget):
    """pull `budget` errors (None = all) and close the iterator, as the modelled consumers do"""
    errs = []
    stop = ["done"]
    try:
        if budget is None:
            for e in it:
                errs.append(e)
        else:
            k = 0
            while k < budget:
                try:
                    errs.append(next(it))
                except StopIteration:
                    break
                k += 1
            else:
                stop = ["budget"]
    except Exception as exc:       # noqa: BLE001 - we classify every escaping exception
        stop = ["raised", exc_json(exc)]
    finally:
        it.close()
    return errs, stop


class World:
    """documents retrievable through handlers; `fail` lists attempt numbers that raise"""

    def __init__(self, docs=None, fail_at=(), fail_all=False):
        self.docs = dict(docs or {})
        self.fail_at = set(fail_at)
        self.fail_all = fail_all
        self.n = 0
        self.log = []

    def fetch(self, uri):
        n = self.n
        self.n += 1
        ok = (not self.fail_all) and (n not in self.fail_at) and uri in self.docs
        self.log.append([uri, ok])
        if not ok:
            raise ScenarioError("cannot fetch %s" % uri)
        return copy.deepcopy(self.docs[uri])      # a fresh object per retrieval, as json.loads of a response is

    def answer(self, n, uri):
        """oracle answer for attempt number n (pure)"""
        ok = (not self.fail_all) and (n not in self.fail_at) and uri in self.docs
        return [self.docs[uri]] if ok else None


class _AnyScheme(dict):
    """handlers mapping that answers every scheme with the world's fetch"""

    def __init__(self, f):
        super().__init__()
        self.f = f

    def __contains__(self, k):
        return True

    def __getitem__(self, k):
        return self.f


def make_fc(spec, tag, custom=None):
    if spec is None:
        return None
    if spec == "draft":
        return DRAFT_FC[tag]
    if spec == "class":
        return F.FormatChecker()
    fc = F.FormatChecker(formats=())
    for name, fn, raises in spec:
        func, r = custom[name]
        fc.checks(name, raises=r)(func)
    return fc


def make_resolver(cls, schema, spec, world):
    if spec is None:
        spec = {}
    base = spec.get("base")
    if base is None:
        try:
            base = cls.ID_OF(schema)
        except Exception:          # noqa: BLE001
            raise
    kw = {}
    cap = spec.get("memoCap", 1024)
    import zlib
    if spec.get("base") is None and zlib.crc32(repr(schema).encode("utf-8", "replace")) % 3 == 0:
        # the way a validator builds its own resolver (`RefResolver.from_schema(schema, id_of=cls.ID_OF, …)`): by
        # definition the resolver below with base_uri = id_of(schema)
        res = V.RefResolver.from_schema(
            schema, id_of=cls.ID_OF,
            store=dict((k, v) for k, v in spec.get("store", [])),
            cache_remote=spec.get("cacheRemote", True))
    else:
        res = V.RefResolver(
            base_uri=base, referrer=schema,
            store=dict((k, v) for k, v in spec.get("store", [])),
            cache_remote=spec.get("cacheRemote", True),
            **kw)
    if world is not None:
        res.handlers = _AnyScheme(world.fetch)
    if cap != 1024:
        from functools import lru_cache
        if cap is None:
            res._remote_cache = lru_cache(None)(res.resolve_from_url)
        elif cap == 0:
            res._remote_cache = res.resolve_from_url
        else:
            res._remote_cache = lru_cache(cap)(res.resolve_from_url)
    return res


def state_json(res, world):
    return {
        "scopes": list(reversed(res._scopes_stack)),
        "storeKeys": list(res.store),
        "fetchLog": list(world.log) if world is not None else [],
    }


def alias(x, r, pool, p=0.6):
    """`x` rebuilt so that equal containers are, with probability p, ONE Python object (in the schema,
    in the instance, across the two). JSON values are trees: sharing is invisible to JSON, so nothing
    may depend on it — but `id()`-keyed memos and in-place bookkeeping do."""
    if isinstance(x, dict):
        nx = {k: alias(v, r, pool, p) for k, v in x.items()}
    elif isinstance(x, list):
        nx = [alias(v, r, pool, p) for v in x]
    else:
        return x
    key = repr(nx)
    if key in pool and r.random() < p:
        return pool[key]
    pool[key] = nx
    return nx


def maybe_alias(case, *values):
    """one case in three is run on aliased copies (deterministic in the case; `alias: False` opts out)"""
    if case.get("alias") is False:
        return values
    import random
    import zlib
    seed = zlib.crc32(repr([case.get("schema"), case.get("inst"), case.get("ops")]).encode("utf-8", "replace"))
    if seed % 3:
        return values
    r, pool = random.Random(seed), {}
    try:
        return tuple(alias(v, r, pool) for v in values)
    except RecursionError:
        return values


def run_val(case, world=None, custom_fc=None):
    """mirror of Channels.runVAL"""
    tag = case["cls"]
    cls = DRAFTS[tag] if isinstance(tag, str) else tag
    schema, inst = maybe_alias(case, case["schema"], case["inst"])
    try:
        res = make_resolver(cls, schema, case.get("resolver"), world)
        v = cls(schema, resolver=res, format_checker=make_fc(case.get("fc"), tag, custom_fc))
    except Exception as exc:       # noqa: BLE001
        return {"ctor": exc_json(exc)}
    before = repr((schema, inst))
    errs, stop = consume(v.iter_errors(inst), case.get("budget"))
    out = {"errs": [err_json(e) for e in errs], "stop": stop, "st": state_json(res, world)}
    if repr((schema, inst)) != before and len(MODIFIED) < 20:
        MODIFIED.append({"case": {k: case.get(k) for k in ("cls", "schema", "inst", "budget")}, "after": repr((schema, inst))[:600]})
    return out


# validations that changed the schema or the instance they were given (collected by campaigns.run)
MODIFIED = []


def run_hist(case, world=None, custom_fc=None, observe=None):
    """mirror of Channels.runHIST: a sequence of operations on ONE validator object"""
    tag = case["cls"]
    cls = DRAFTS[tag] if isinstance(tag, str) else tag
    schema, ops = maybe_alias(case, case["schema"], case["ops"])
    try:
        res = make_resolver(cls, schema, case.get("resolver"), world)
        v = cls(schema, resolver=res, format_checker=make_fc(case.get("fc"), tag, custom_fc))
    except Exception as exc:       # noqa: BLE001
        return {"ctor": exc_json(exc)}
    out = []
    # callers keep what they are given: in half of the histories every ValidationError raised by
    # validate() stays referenced (with its traceback) until the history is over
    import zlib
    kept = [] if zlib.crc32(repr(case.get("ops")).encode("utf-8", "replace")) % 2 else None
    before = repr((schema, ops))
    for op in ops:
        r = do_op(v, op, kept)
        st = state_json(res, world)
        out.append({"r": r, "st": st})
        if observe is not None:
            observe(v, op, r, st)
    if repr((schema, ops)) != before and len(MODIFIED) < 20:
        MODIFIED.append({"case": {k: case.get(k) for k in ("cls", "schema", "ops")}, "after": repr((schema, ops))[:600]})
    return out


def do_op(v, op, kept=None):
    kind = op[0]
    try:
        if kind == "isValid":
            return ["verdict", v.is_valid(op[1])]
        if kind == "exhaust":
            errs, stop = consume(v.iter_errors(op[1]), None)
            return ["errors", [err_json(e) for e in errs], stop]
        if kind == "validate":
            try:
                v.validate(op[1])
            except E.ValidationError as e:
                r = ["invalid", err_json(e)]
                if kept is not None:
                    kept.append(e)
                del e
                return r
            return ["valid"]
        if kind == "take":
            if op[1] == 0:
                it = v.iter_errors(op[2])
                it.close()
                return ["errors", [], ["budget"]]
            errs, stop = consume(v.iter_errors(op[2]), op[1])
            return ["errors", [err_json(e) for e in errs], stop]
        if kind == "drop":
            it = v.iter_errors(op[2])
            errs = []
            stop = ["budget"]
            try:
                for _ in range(op[1]):
                    errs.append(next(it))
            except StopIteration:
                stop = ["done"]
            except Exception as exc:   # noqa: BLE001
                stop = ["raised", exc_json(exc)]
            del it                      # abandoned, not closed: CPython finalises it now (A-gc)
            return ["errors", [err_json(e) for e in errs], stop]
        if kind == "resolve":
            url, doc = v.resolver.resolve(op[1])
            return ["resolved", url, doc]
    except Exception as exc:           # noqa: BLE001
        return ["raised", exc_json(exc)]
    raise ValueError(op)
