#!/usr/bin/env python3
"""Writes MANIFEST.json from the table below (kept next to the checks so they stay in step)."""
import json
import os

ROOT = os.path.dirname(os.path.dirname(os.path.abspath(__file__)))
ids = [json.loads(l)["id"] for l in open(os.path.join(ROOT, "properties.jsonl"))]

TB = ("Trusted base: Lean 4.33 kernel with axioms propext, Classical.choice, Quot.sound only (audited per theorem on every run; "
      "leanchecker in the thorough tier); the specification files lean/JS/Spec; the translator harness/regen.py; the correspondence "
      "harness (codec, message templates, monitors). The Python code is modelled (lean/JS/*.lean), not verified: the model is tied to "
      "/repo's working tree by regenerated tables and by differential runs of the native model driver against the real code on "
      "generated cases; agreement on unsampled inputs is assumed. ")

CLAIMS = {
    "C01": dict(
        text="Lean theorems: for each of the four drafts (REGENERATED tables), every reference-free schema of the shape the draft's metaschema prescribes and every instance, is_valid / no first error / an empty iter_errors hold exactly when the specification Spec.valid says valid, the run ends normally or is closed at the first error, and nothing is raised (verdict_agrees, errors_empty_iff_valid, isValid_agrees) - one lemma per keyword function against the specification's clause, composed through nesting by induction on the schema; valid_fuel_stable; additional_props_spec (re.search per pattern, properties keys); type_gating. The specification is validated on every run against the official JSON-Schema-Test-Suite (all reference-free groups of the four drafts + bignum). Tie: VAL channel; SPEC channel (Spec.valid, shape, domain predicates) as oracle for the implementation's verdict on generated schemas (keyword interactions, nested applicators, type gating) x schema-directed instances; bridge 'check_schema accepts => Spec.shaped' checked on every generated schema.",
        note=TB + "Domain as the property states it: no $ref, no format checker, regular expressions from the subset on which Python re and ECMA 262 agree (re.search is an oracle), multipleOf/divisibleBy operands in C09's exact sub-domain (integer divisors up to 2^53: Spec.numSafe), Draft 3 type names known (others raise the documented UnknownType), distinct object keys. The bridge from check_schema to Spec.shaped is sampled (C11), not proved.",
        ref="6 C01", tech="Lean 4 proof (per-keyword equivalence with an independent specification, induction over nesting) + specification validated on the official suite + differential correspondence"),
    "C03": dict(
        text="Lean theorems: on every schema of the shape the draft's metaschema prescribes (Spec.shapedR, references allowed) the evaluator with the REGENERATED draft tables ends only normally, closed early, out of fuel, or with the documented exceptions (RefResolutionError; UnknownType in Draft 3 only; a user format function's own exception when a checker is attached) — never with an undocumented exception — unless a reference met on the way designates a non-schema (guarded_no_crash, guard_simulation, no_crash); for reference-free shaped schemas unconditionally (no_crash_reffree) and it terminates within fuel 2*size+2 (terminates_reffree); is_valid/validate inherit this (entry_points_benign). Tie: VAL/SPEC channels: for every schema check_schema accepts, Spec.shapedR must hold (bridge to the theorems' hypothesis, checked on every generated candidate); monitor: exception class escaping the four entry points, with and without a format checker, on accepted (incl. malformed-but-accepted) schemas x instances incl. huge numbers.",
        note=TB + "The bridge 'check_schema accepts => shapedR' is sampled (it is C11's subject), not proved. Unguarded reference cycles ({\"$ref\": \"#\"}: undefined by the drafts) and references to non-schemas are outside the domain and recognised by the model (fuel / the guard's marker). A-regex: every regular expression compiles.",
        ref="6 C03", tech="Lean 4 proof (per-keyword no-crash under a shape predicate; guarded-evaluator simulation) + differential correspondence + crash monitor"),
    "C04": dict(
        text="Lean theorems: budget-prefix law for the whole evaluator (lawful_eval: a consumer taking k errors sees the first k of the exhaustive run), hence is_valid/validate()/iter_errors agree (isValid_spec, validate_spec, take_prefix, entry_points_agree, exhaustive_never_budget); best_match returns a context-free member or descendant (bestMatch_mem, bestMatch_flat). Tie: VAL channel on budgets none/1/2 and MOD channel (jsonschema.validate, validator_for, check_schema, best_match) against the real code; monitor evaluates the relations between the four entry points on the implementation.",
        note=TB + "A-gc: CPython finalises an abandoned generator immediately. The repeat-call clause is monitored, and proved only through C07's state theorems.",
        ref="6 C04", tech="Lean 4 proof (invariant closed under generator combinators) + differential correspondence + relational monitor"),
    "C06": dict(
        text="Lean theorems for the four drafts (regenerated tables): every error at top level or in a context locates itself truthfully in the instance — following its relative path from the validated instance reaches the recorded instance, contexts relative to the recorded instance — with the two documented exceptions spelled out (inst_located_drafts; for arbitrary user classes under the explicit hypothesis that propertyNames is bound under its own name, with a machine-checked counterexample otherwise); for reference-free schemas the keyword is the last element of the schema path, the recorded subschema holds the recorded value and the absolute schema path reaches it (schema_located_reffree); absolute paths compose (closure_paths, closure_head); nothing is left unset (info_set). Tie: VAL channel comparing full error records (paths, keyword, value, instance, schema, contexts); monitor navigates instance and schema (hopping through $ref with a resolver) for every error in the closure on the implementation, incl. json_path.",
        note=TB + "Schema-path navigation through $ref hops is monitored, not proved (the theorem covers reference-free schemas). json_path rendering is checked by the monitor only.",
        ref="6 C06", tech="Lean 4 proof (locatedness preserved by every applicator's path elements) + differential correspondence + navigation monitor"),
    "C07": dict(
        text="Lean theorem scope_restore: for every schema, instance, fuel, budget (early close/drop) and stop reason the resolver's scope stack after an evaluation equals the one before; resolve never touches it. Tie: HIST channel (histories of is_valid/exhaust/validate/take+close/take+drop/resolve on one validator, failing handlers) compared op by op incl. scope stack, store keys and fetch log. Non-modification of instance/schema/store and history independence (vs a fresh validator) are decided by the monitor on the implementation.",
        note=TB + "A-gc; A-handlers (one fixed document per URI). Partial: in-place mutation and the timing of generator finalisation cannot be exhibited by a functional model and are monitored, not proved; history independence is monitored (its proof needs C15's memo transparency, in progress).",
        ref="6 C07", tech="Lean 4 proof (scope invariant over the whole evaluator) + history correspondence + purity monitor"),
    "C08": dict(
        text="Lean theorems at full strength (after the repair of bug 686): equal = JSON data-model equality at every depth for well-formed values (equal_is_jsonEq), const/enum/uniqueItems specifications (const_spec, enum_spec, uniq_spec on both code paths, uniqueItems_spec), the three keywords agree (three_agree), jsonEq is reflexive and symmetric. Tie: EQ channel on twisted pairs and arrays; monitor uses Spec.jsonEq from the driver as oracle through real single-keyword schemas in four drafts.",
        note=TB + "Well-formedness (distinct object keys) is a hypothesis, satisfied by json.loads output.",
        ref="6 C08", tech="Lean 4 proof (mutual induction on JSON values) + differential correspondence + specification oracle"),
    "C09": dict(
        text="Lean theorems: Num.lt/le/eq decide the order of exact rational values (lt_exact, le_exact, eq_exact), so minimum/maximum/exclusive* in both encodings are exact for any mixture of big integers and floats (bounds_exact_d67, bounds_exact_d34, bounds_ignore_non_numbers); multipleOf is exact divisibility for integers of any size (multipleOf_int), never raises for a non-zero divisor (multipleOf_never_raises, kwMultipleOf_total), the Fraction fallback is exact (exactMultiple_spec), exactDouble? recognises exactly the binary64 values (exactDouble_spec), and on the exact sub-domain the float paths decide exact divisibility incl. overflowing quotients (multipleOf_float_divisor_exact, multipleOf_int_divisor_exact). Tie: NUM channel on number pairs (4000-digit integers, whole float exponent range, 2^53 neighbourhood, subnormals) through real single-keyword schemas in four drafts; exact rational oracle from the driver cross-checked with fractions.Fraction.",
        note=TB + "A-float: IEEE-754 binary64 with round-half-even for / and int->float; the rounding branch (roundInexact) is validated by correspondence only, the theorems use the exactly-representable branch.",
        ref="6 C09", tech="Lean 4 proof (exact dyadic arithmetic against Rat) + differential correspondence + rational oracle"),
    "C10": dict(
        text="Lean theorems: each draft's REGENERATED keyword table is exactly its vocabulary with the prescribed functions (table_exact), type tables and id keys likewise (types_exact, id_key), other drafts' and later specifications' keywords are unknown to each draft (other_draft_keywords_unknown, other_id_spelling_unknown); inserting an unknown key anywhere among a schema object's keys leaves errors (up to the recorded enclosing schema), stop reason and resolver state unchanged for every validator class (unknown_inert); keys next to $ref are ignored in the four drafts (ref_siblings_inert_drafts; for arbitrary user classes a counterexample shows the claim needs the $ref function not to read siblings). Tie: keyword/type tables regenerated from the source on every run; VAL channel on schemas with foreign keywords; metamorphic monitor inserts 1-3 foreign keywords at random subschema positions and compares erased error multisets on the implementation.",
        note=TB + "Insertion at nested positions follows from unknown_inert by congruence of the evaluator in its recursive call; that lifting is checked by the monitor, not stated as a separate theorem. Draft 3 'required' inside property subschemas is consulted by the parent and excluded, as the property says.",
        ref="6 C10", tech="Lean 4 proof (kernel-evaluated regenerated tables; simulation relation over the evaluator) + metamorphic monitor"),
    "C12": dict(
        text="Lean theorems over the model of FormatChecker.check / the format keyword, for ARBITRARY format functions (any function of the instance that returns a value of some truthiness or raises an exception with some MRO): format_off (no checker: no effect, every name and instance), format_follows_conforms, unknown_name_passes, result_truthiness, listed_exception_is_cause (incl. subclasses of listed classes; the cause reaches the ValidationError), unlisted_exception_propagates, format_pure; with C13's builtin_ignores_nonstrings for the built-in functions. Tie: VAL channel through real {format: name} schemas with no checker / FormatChecker() / draft checkers / subsets / custom functions from a menu (truthy, falsy, listed, sub-listed, unlisted exceptions); the regenerated registries; monitors evaluate each clause on the implementation.",
        note=TB + "Custom functions are drawn from a fixed menu known to both sides; format functions not modelled in Lean (regex, time, idn-hostname) are oracles answered with the stdlib.",
        ref="6 C12", tech="Lean 4 proof (case analysis of check/conforms for arbitrary format functions) + differential correspondence + monitors"),
    "C13": dict(
        text="Lean models of CPython 3.12's IPv4Address/IPv6Address parsers and of the repaired is_date, with theorems against independent generative grammars: ipv4_iff_grammar, ipv6_iff_grammar (RFC 4291 forms 1-3 with :: and IPv4 tail, no zone/prefix; full), date_iff_grammar_partial (year >= 1; date_counterexample_year0 proves the known finding), email_iff_at, builtin_ignores_nonstrings, builtin_raises_only_listed, check_raises_only_FormatError over the REGENERATED registries, *_total. Tie: FMT channel on near-miss strings for every registered format of the class-level and the four draft checkers (the model was also validated on 100k vectors when written); monitors: three independent Python grammars, conforms returns a bool, check raises only FormatError.",
        note=TB + "A-stdlib: ipaddress and datetime are external and modelled for CPython 3.12 (the correspondence ties the model to this installation); regex, Draft 3 time and idn-hostname are opaque oracles, so for them 'never raises' rests on exploration of the real functions (partial). Known finding: year 0000 rejected.",
        ref="6 C13", tech="Lean 4 proof (parser = generative grammar) + differential correspondence + independent grammar oracles"),
    "C14": dict(
        text="Lean theorem resolve_eq_spec: for every document, token list and percent-encoder, resolve_fragment of the encoded pointer equals RFC 6901 evaluation (value or failure), with corollaries positive/negative/empty_fragment/array_token_spec/scalar_token_spec and the round trips unescape_escape, unquote_pctEncode (UTF-8 via Lean core). Tie: PTR channel on every path of generated documents under five encoders, mutated tokens, arbitrary fragment strings; independent Python oracle walks the document.",
        note=TB + "The replacing UTF-8 decoder (errors='replace') is modelled and tied by correspondence only; theorems use the strict branch.",
        ref="6 C14", tech="Lean 4 proof (decode/encode round trips, pointer evaluation) + differential correspondence"),
    "C15": dict(
        text="Lean theorems over every evaluation and every history of operations: store unchanged with cache_remote off, store only grows, retrieval log only grows, FetchInv invariant hence each document successfully fetched at most once per resolver with caching on (fetch_at_most_once), documents in the store are served without retrieval (served_locally), handler failures are RefResolutionError and are not cached/memoised. Tie: HIST channel with counting handlers under six cache configurations and failing handlers; monitors: fetch counts, store keys, identical results across configurations, bundled metaschemas resolved with urlopen patched to refuse.",
        note=TB + "A-handlers; A-url (urllib.parse functions as oracles). Cache transparency of results (cache_transparent) is monitored, not yet proved.",
        ref="6 C15", tech="Lean 4 proof (state-relation invariants closed under the evaluator) + history correspondence + fetch-count monitor"),
    "C16": dict(
        text="Lean theorems over a heap model of checkers, keyword tables, classes, format checkers and validator instances (objects with identity; 'copy' and 'alias' are different model terms): wf_initial/wf_preserved (old objects never point at new cells), derive_frame (an operation changes no existing cell except the one dict it is documented to mutate), derive_preserves_probes and derive_preserves_checkers_and_classes, checks_affects_that_checker_only, clsChecks_affects_later_only / clsChecks_seen_by_later, extend_nochange_same (incl. the id key), override_one_keyword(_probes,_layer), types_arg_is_per_instance; with machine-checked counterexamples where the blanket wording is false (fc.checks mutates its own dict; create(version=...) with a colliding metaschema id is visible through the global registries). Tie: DER channel on random sequences of derivation operations interleaved with probes of every object created so far; monitor compares every object's probe answers with those recorded at its creation.",
        note=TB + "Keyword overrides, type predicates and format functions are drawn from a fixed menu known to both sides. Registering a class whose metaschema id collides with a registered one re-points the global registry (documented behaviour of validates(); DESIGN section 7, F-11): queries that read the registries are excluded exactly as the theorems state.",
        ref="6 C16", tech="Lean 4 proof (frame and reachability invariant over a heap) + differential correspondence + probe-replay monitor"),
    "C17": dict(
        text="Lean theorems about ErrorTree for every error list in every arrival order: walk_finds, node_errors, walk_isSome_iff, contains_spec, keys_spec, total_errors_spec (= distinct (path, keyword) pairs), node_inst, getitem_errorfree, getitem_child, order_independent. Tie: TREE channel on error lists of real validations in all permutations (<= 4 errors) with lookups; the statements are also evaluated on the implementation's tree.",
        note=TB + "The model's build is total by construction; that the constructor never raises is decided by the correspondence/monitor (repaired defect). Known finding: a propertyNames error filed last at a node makes indexing error-free elements raise.",
        ref="6 C17", tech="Lean 4 proof (representation invariant of the tree under insertion) + differential correspondence"),
    "C18": dict(
        text="Lean theorems over a system of validator objects (each owning its resolver state, handlers and format functions) and schedules of next() steps: step_frame / globals_readonly (a step of validator a leaves every other validator and the globals unchanged), interleaving_independent (a's events under any schedule = under the schedule restricted to a), alone_is_exhaustive_prefix (via the budget-prefix law), any_interleaving_gives_alone_errors. Tie: SYS channel on families of 2-3 validators built to collide on base URI, $ref strings, remote URLs, regexes and format names, ALL interleavings up to 8 steps; monitors: each iterator vs the same validator alone on fresh objects, and alone in a pristine interpreter; threaded runs as supporting exploration.",
        note=TB + "A-threads: preemptive thread schedules cannot be exhibited by the model; the threaded runs (sys.setswitchinterval(1e-6)) are exploration, not proof (partial). Re-entering a validator while one of its own iterators is suspended is excluded by the property.",
        ref="6 C18", tech="Lean 4 proof (non-interference by construction of a product state + induction on the schedule) + differential correspondence + interleaving monitor"),
    "C19": dict(
        text="Lean theorems over the model of cli.run / parse_args: exit_zero_iff, status_zero_or_one, status_is_or, status_order_independent, every_instance_processed / output_up_to_escape, per_instance_follows_library, plain_stdout_empty, pretty_one_header_per_valid, one_diagnostic_per_bad_file / diagnostics_are_the_bad_files, schema_failure_stops / schema_failure_touches_no_instance, error_format_plain_only. Tie: CLI channel on schema-file states x instance lists (all orders up to length 3) x plain/pretty x --error-format x --validator x --base-uri, in-process through cli.run and (sampled) as python -m jsonschema subprocesses; the monitor evaluates the statement on the real CLI's exit status, stdout and stderr.",
        note=TB + "A-files: a file is missing, unparsable (not JSON or, after the repair, not UTF-8) or a JSON value; other OSErrors (a directory, EACCES) are outside the quantifier's file states. Text rendering (tracebacks, pretty frames) is done by the harness from the model's events.",
        ref="6 C19", tech="Lean 4 proof (fold over the instance list) + differential correspondence + monitor on real exit status and streams"),
    "C20": dict(
        text="Lean theorems over the model of validator_for / validates / jsonschema.validate: a registered id (after URI normalisation) selects its class without warning (select_registered), no $schema or a boolean schema selects the caller's default (select_default), an unknown URI selects the latest draft with a warning (select_unknown), validate() without a class equals validate() with the selected class (validate_as_selected), an explicit class wins independently of the registries (explicit_class_wins), registering a new id makes it selectable and disturbs no registration (register_new_id_preserves); the REGENERATED registries map the four draft ids to the four drafts and latest = draft 7 (initial_registry, metaschema_ids). Tie: MOD channel on $schema spellings x bodies/instances on which drafts disagree; monitor compares validate() with the selected class on the implementation.",
        note=TB + "A-url: urlsplit(u).geturl() is an oracle (dropping an empty fragment/query is a tested URI fact). Sequences of additional registrations are proved on the model (register_new_id_preserves) but not yet exercised against the implementation; the CLI's selection is covered by C19 when claimed.",
        ref="6 C20", tech="Lean 4 proof (registry lookups, regenerated tables) + differential correspondence + monitor"),
}

checks = []
for pid in ids:
    if pid in CLAIMS:
        c = CLAIMS[pid]
        checks.append({
            "property_id": pid,
            "quick_cmd": "./check %s quick" % pid,
            "thorough_cmd": "./check %s thorough" % pid,
            "evidence_file": "evidence/%s.json" % pid,
            "replay_cmd_template": "./check replay {path}",
            "engine": "lean-model-correspondence",
            "level_claimed": {"category": "proof", "text": c["text"], "design_ref": "DESIGN.md section " + c["ref"]},
            "level_note": c["note"],
            "technique": c["tech"],
        })

manifest = {
    "version": 1,
    "setup_cmd": "cd lean && /venv/bin/python ../harness/regen.py && lake build JS jsdriver JS.AuditCmd JS.Props.All",
    "hooks": {"guard": "JSONSCHEMA_VERIF",
              "enable": "no hooks in /repo are needed: the harness imports the working tree and wraps objects from outside",
              "baseline_off_cmd": "cd /repo && /venv/bin/python -m pytest -ra -q -p no:cacheprovider --timeout=900 --continue-on-collection-errors",
              "source_commits": [], "add_only": True},
    "engines": [{"name": "lean-model-correspondence", "path": "lean/ + harness/",
                 "serves_properties": sorted(CLAIMS),
                 "kind_free_text": "Lean 4 model + theorems (lake), native model driver, Python differential harness and monitors"}],
    "checks": checks,
    "notes": "See DESIGN.md. Fix commits in /repo and known findings are listed in KNOWN_FINDINGS.",
    "not_applicable": [{"property_id": i, "reason": "not yet claimed: theorems/check under construction (DESIGN.md section 6); no technique other than Lean proof is substituted"}
                       for i in ids if i not in CLAIMS],
}
json.dump(manifest, open(os.path.join(ROOT, "MANIFEST.json"), "w"), indent=1)
print("MANIFEST.json: %d checks, %d not claimed" % (len(checks), len(manifest["not_applicable"])))
