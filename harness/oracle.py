"""
Answers to the model's questions, computed with the real standard library
*independently of what the implementation under test calls* (DESIGN §4.1).
"""
import re
from urllib.parse import urldefrag, urljoin, urlsplit

_true = object()
_false = object()


def _unbool(x):
    if x is True:
        return _true
    if x is False:
        return _false
    return x


class _Lt:
    """wrapper so that `sorted` applies the elements' own `<` and we get the permutation"""
    __slots__ = ("i", "v")

    def __init__(self, i, v):
        self.i = i
        self.v = v

    def __lt__(self, other):
        return self.v < other.v


class Oracle:
    def __init__(self, fetch=None, fmt=None):
        self.fetch = fetch          # (n, uri) -> [doc] | None
        self.fmt = fmt              # (name, instance) -> bool | [mro names]
        self.log = []

    def __call__(self, q):
        kind = q[0]
        if kind == "re":
            try:
                return re.search(q[1], q[2]) is not None
            except (re.error, RecursionError, OverflowError):
                return None
        # urllib raises ValueError for strings it cannot parse (e.g. "http://["); the model has no such
        # notion (URIs are outside it), so it gets a harmless answer and the case is judged by the monitors
        if kind == "urljoin":
            try:
                return urljoin(q[1], q[2])
            except ValueError:
                return q[2]
        if kind == "urldefrag":
            try:
                u, f = urldefrag(q[1])
            except ValueError:
                u, f = q[1], ""
            return [u, f]
        if kind == "urinorm":
            try:
                return urlsplit(q[1]).geturl()
            except ValueError:
                return q[1]
        if kind == "scheme":
            return urlsplit(q[1]).scheme
        if kind == "sort":
            try:
                s = sorted(_Lt(i, _unbool(v)) for i, v in enumerate(q[1]))
            except (TypeError, NotImplementedError):
                return None
            return [w.i for w in s]
        if kind == "setorder":
            return list(set(x for x in q[1]))
        if kind == "fetch":
            if self.fetch is None:
                return None
            return self.fetch(q[1], q[2])
        if kind == "fmt":
            if self.fmt is None:
                raise KeyError("no format oracle for %r" % (q,))
            return self.fmt(q[1], q[2])
        raise KeyError("unknown query %r" % (q,))
