#!/usr/bin/env python3
"""
regen.py — the translator half of the tie to the source (DESIGN §2.4).

Imports the working tree's `jsonschema` (from /repo, or $JS_REPO) and writes
lean/JS/Generated/Tables.lean: per-draft keyword tables, type-checker tables, id keys,
format-checker registries, the bundled metaschemas and the global registries, as Lean terms.
Files are rewritten only when their content changes (so `lake build` stays a no-op).
"""
import json
import os
import sys

REPO = os.environ.get("JS_REPO", "/repo")
HERE = os.path.dirname(os.path.abspath(__file__))
OUT = os.path.join(HERE, "..", "lean", "JS", "Generated")


def lean_str(s):
    """a Lean `Str` (List Char) literal"""
    out = []
    for ch in s:
        o = ord(ch)
        if ch == '"':
            out.append('\\"')
        elif ch == "\\":
            out.append("\\\\")
        elif 32 <= o < 127:
            out.append(ch)
        else:
            out.append("\\u{%x}" % o)
    return '"%s".toList' % "".join(out)


def lean_string(s):
    return lean_str(s)[: -len(".toList")]


def lean_num(x):
    if isinstance(x, int):
        return "(.int %s)" % (("(%d)" % x) if x < 0 else str(x))
    n, d = x.as_integer_ratio()
    e = -(d.bit_length() - 1)
    neg = (str(x)[0] == "-")
    return "(.flt %s %d (%d))" % ("true" if neg else "false", abs(n), e)


def lean_json(v, indent=0):
    if v is None:
        return "Json.null"
    if v is True:
        return "(Json.bool true)"
    if v is False:
        return "(Json.bool false)"
    if isinstance(v, (int, float)):
        return "(Json.num %s)" % lean_num(v)
    if isinstance(v, str):
        return "(Json.str %s)" % lean_str(v)
    if isinstance(v, list):
        return "(Json.arr [%s])" % ", ".join(lean_json(x, indent + 1) for x in v)
    if isinstance(v, dict):
        pad = "\n" + "  " * (indent + 1)
        return "(Json.obj [%s])" % ("," + pad).join(
            "(%s, %s)" % (lean_str(k), lean_json(x, indent + 1)) for k, x in v.items())
    raise TypeError(v)


KW_FN = {
    "jsonschema._validators.ref": ".ref",
    "jsonschema._validators.additionalItems": ".additionalItems",
    "jsonschema._validators.additionalProperties": ".additionalProperties",
    "jsonschema._validators.const": ".const",
    "jsonschema._validators.contains": ".contains",
    "jsonschema._validators.exclusiveMinimum": ".exclusiveMinimum",
    "jsonschema._validators.exclusiveMaximum": ".exclusiveMaximum",
    "jsonschema._validators.minimum": ".minimum",
    "jsonschema._validators.maximum": ".maximum",
    "jsonschema._validators.multipleOf": ".multipleOf",
    "jsonschema._validators.minItems": ".minItems",
    "jsonschema._validators.maxItems": ".maxItems",
    "jsonschema._validators.uniqueItems": ".uniqueItems",
    "jsonschema._validators.pattern": ".pattern",
    "jsonschema._validators.format": ".format",
    "jsonschema._validators.minLength": ".minLength",
    "jsonschema._validators.maxLength": ".maxLength",
    "jsonschema._validators.dependencies": ".dependencies",
    "jsonschema._validators.enum": ".enum",
    "jsonschema._validators.type": ".type",
    "jsonschema._validators.properties": ".properties",
    "jsonschema._validators.required": ".required",
    "jsonschema._validators.minProperties": ".minProperties",
    "jsonschema._validators.maxProperties": ".maxProperties",
    "jsonschema._validators.allOf": ".allOf",
    "jsonschema._validators.anyOf": ".anyOf",
    "jsonschema._validators.oneOf": ".oneOf",
    "jsonschema._validators.not_": ".not_",
    "jsonschema._validators.if_": ".if_",
    "jsonschema._validators.items": ".items",
    "jsonschema._validators.patternProperties": ".patternProperties",
    "jsonschema._validators.propertyNames": ".propertyNames",
    "jsonschema._legacy_validators.dependencies_draft3": ".dependencies_draft3",
    "jsonschema._legacy_validators.disallow_draft3": ".disallow_draft3",
    "jsonschema._legacy_validators.extends_draft3": ".extends_draft3",
    "jsonschema._legacy_validators.items_draft3_draft4": ".items_draft3_draft4",
    "jsonschema._legacy_validators.minimum_draft3_draft4": ".minimum_draft3_draft4",
    "jsonschema._legacy_validators.maximum_draft3_draft4": ".maximum_draft3_draft4",
    "jsonschema._legacy_validators.properties_draft3": ".properties_draft3",
    "jsonschema._legacy_validators.type_draft3": ".type_draft3",
}

TY_FN = {
    "jsonschema._types.is_array": ".isArray",
    "jsonschema._types.is_bool": ".isBool",
    "jsonschema._types.is_integer": ".isInteger",
    "jsonschema._types.is_null": ".isNull",
    "jsonschema._types.is_number": ".isNumber",
    "jsonschema._types.is_object": ".isObject",
    "jsonschema._types.is_string": ".isString",
    "jsonschema._types.is_any": ".isAny",
}

FMT_FN = {
    "jsonschema._format.is_email": ".email",
    "jsonschema._format.is_ipv4": ".ipv4",
    "jsonschema._format.is_ipv6": ".ipv6",
    "jsonschema._format.is_date": ".date",
}

PROBES = [1, 1.0, 1.5, True, "1", None, [], {}]


def qual(f):
    return "%s.%s" % (getattr(f, "__module__", "?"), getattr(f, "__qualname__", repr(f)))


def classify_type_fn(checker, f):
    q = qual(f)
    if q in TY_FN:
        return TY_FN[q]
    # the draft-6/7 `integer` lambda has no qualified name: classify by probing
    try:
        got = [bool(f(checker, p)) for p in PROBES]
    except Exception:
        got = None
    if got == [True, True, False, False, False, False, False, False]:
        return ".isIntegerOrIntFloat"
    return '(.foreign %s)' % lean_string(q)


def classify_id_of(cls):
    f = cls.ID_OF
    try:
        a = f({"id": "A", "$id": "B"})
        e = f({})
    except Exception:
        return None
    if e != "":
        return None
    return {"A": "id", "B": "$id"}.get(a)


def exc_names(raises):
    if isinstance(raises, tuple):
        return [c.__name__ for c in raises]
    return [raises.__name__]


def fmt_registry(checkers):
    rows = []
    for name in sorted(checkers):
        func, raises = checkers[name]
        rows.append("⟨%s, %s, [%s]⟩" % (
            lean_str(name), FMT_FN.get(qual(func), ".oracle"),
            ", ".join(lean_string(n) for n in exc_names(raises))))
    return "[" + ",\n   ".join(rows) + "]"


def generate():
    sys.path.insert(0, REPO)
    import jsonschema
    from jsonschema import validators as V, _format as F, exceptions as E
    assert os.path.realpath(jsonschema.__file__).startswith(os.path.realpath(REPO)), jsonschema.__file__

    drafts = [("d3", V.Draft3Validator, F.draft3_format_checker),
              ("d4", V.Draft4Validator, F.draft4_format_checker),
              ("d6", V.Draft6Validator, F.draft6_format_checker),
              ("d7", V.Draft7Validator, F.draft7_format_checker)]
    L = []
    L.append("-- AUTOGENERATED by harness/regen.py from the working tree of the repository. Do not edit.")
    L.append("import JS.Keywords")
    L.append("set_option maxRecDepth 100000")
    L.append("namespace JS.Generated")
    L.append("")
    for tag, cls, fc in drafts:
        rows = []
        for k, f in cls.VALIDATORS.items():
            rows.append("(%s, %s)" % (lean_str(k), KW_FN.get(qual(f), "(.foreign %s)" % lean_string(qual(f)))))
        L.append("def %sKeywords : List (Str × KwFn) :=\n  [%s]" % (tag, ",\n   ".join(rows)))
        tc = cls.TYPE_CHECKER
        rows = []
        for name in sorted(tc._type_checkers):
            rows.append("(%s, %s)" % (lean_str(name), classify_type_fn(tc, tc._type_checkers[name])))
        L.append("def %sTypes : List (Str × TyFn) :=\n  [%s]" % (tag, ", ".join(rows)))
        idk = classify_id_of(cls)
        L.append("def %sIdKey : Str := %s" % (tag, lean_str(idk if idk else "?unclassified")))
        L.append("def %sFormats : FormatChecker :=\n  ⟨%s⟩" % (tag, fmt_registry(fc.checkers)))
        L.append("def %sMeta : Json :=\n  %s" % (tag, lean_json(cls.META_SCHEMA)))
        L.append("def %sClassName : String := %s" % (tag, lean_string(cls.__name__)))
        L.append("")
    L.append("def classFormats : FormatChecker :=\n  ⟨%s⟩" % fmt_registry(F.FormatChecker.checkers))
    # global registries: which class object each key designates, named by draft tag when it is one
    by_id = {id(cls): tag for tag, cls, _ in drafts}
    rows = []
    for name, cls in V.validators.items():
        rows.append("(%s, %s)" % (lean_str(name), lean_string(by_id.get(id(cls), "?" + cls.__name__))))
    L.append("def registryValidators : List (Str × String) :=\n  [%s]" % ", ".join(rows))
    rows = []
    for uri, cls in V.meta_schemas.items():
        rows.append("(%s, %s)" % (lean_str(uri), lean_string(by_id.get(id(cls), "?" + cls.__name__))))
    L.append("def registryMetaSchemas : List (Str × String) :=\n  [%s]" % ", ".join(rows))
    L.append("def latestVersion : String := %s" % lean_string(by_id.get(id(V._LATEST_VERSION), "?")))
    L.append("def weakMatches : List Str := [%s]" % ", ".join(lean_str(s) for s in sorted(E.WEAK_MATCHES)))
    L.append("def strongMatches : List Str := [%s]" % ", ".join(lean_str(s) for s in sorted(E.STRONG_MATCHES)))
    L.append("")
    L.append("end JS.Generated")
    return "\n".join(L) + "\n"


def all_refs(v, acc):
    if isinstance(v, dict):
        if isinstance(v.get("$ref"), str):
            acc.add(v["$ref"])
        for x in v.values():
            all_refs(x, acc)
    elif isinstance(v, list):
        for x in v:
            all_refs(x, acc)
    return acc


def generate_meta_urls():
    """For each draft: the answers of urllib.parse on the finitely many URI questions that arise
    while a draft's metaschema validates a candidate with a resolver built by check_schema
    (base = the metaschema's id; references are the `$ref` strings of the metaschema), as an `Env`
    (`Generated.metaEnv d`). C11's closed computations (the metaschema accepts itself; every
    reference of the metaschema designates a schema) are evaluated against this table."""
    sys.path.insert(0, REPO)
    from urllib.parse import urldefrag, urljoin, urlsplit
    from jsonschema import validators as V
    drafts = [("d3", V.Draft3Validator), ("d4", V.Draft4Validator), ("d6", V.Draft6Validator), ("d7", V.Draft7Validator)]
    L = ["-- AUTOGENERATED by harness/regen.py from the working tree of the repository and this installation's urllib. Do not edit.",
         "import JS.Basic", "namespace JS.Generated", ""]
    all_ids = [cls.ID_OF(cls.META_SCHEMA) for _, cls in drafts]
    for tag, cls in drafts:
        base = cls.ID_OF(cls.META_SCHEMA)
        refs = sorted(all_refs(cls.META_SCHEMA, set()))
        tops = {base}
        for _ in range(4):
            tops |= {urljoin(t, r) for t in list(tops) for r in refs}
        tops = sorted(tops)
        # second arguments: the reference strings, the base, and every full URL (push_scope(url) joins
        # the URL returned by resolve() onto the current scope)
        joins = [(t, r, urljoin(t, r)) for t in tops for r in sorted(set(refs + [base] + tops))]
        urls = sorted(set(j[2] for j in joins) | set(tops))
        defr = [(u,) + tuple(urldefrag(u)) for u in urls]
        norms = sorted(set(d[1] for d in defr) | set(all_ids) | {base})
        L.append("def %sUrljoin : List ((Str × Str) × Str) :=\n  [%s]" % (tag, ",\n   ".join(
            "((%s, %s), %s)" % (lean_str(a), lean_str(b), lean_str(c)) for a, b, c in joins)))
        L.append("def %sUrldefrag : List (Str × (Str × Str)) :=\n  [%s]" % (tag, ",\n   ".join(
            "(%s, (%s, %s))" % (lean_str(u), lean_str(a), lean_str(f)) for u, a, f in defr)))
        L.append("def %sUrinorm : List (Str × Str) :=\n  [%s]" % (tag, ",\n   ".join(
            "(%s, %s)" % (lean_str(u), lean_str(urlsplit(u).geturl())) for u in norms)))
        L.append("")
    L.append("end JS.Generated")
    return "\n".join(L) + "\n"


def write_if_changed(path, content):
    try:
        if open(path).read() == content:
            return False
    except OSError:
        pass
    os.makedirs(os.path.dirname(path), exist_ok=True)
    with open(path, "w") as f:
        f.write(content)
    return True


def main():
    changed = write_if_changed(os.path.join(OUT, "Tables.lean"), generate())
    print("regen: Tables.lean %s" % ("rewritten" if changed else "unchanged"))
    changed = write_if_changed(os.path.join(OUT, "MetaUrls.lean"), generate_meta_urls())
    print("regen: MetaUrls.lean %s" % ("rewritten" if changed else "unchanged"))
    # the keyword functions' SOURCE, translated to terms of JS.Py.Fn (harness/translate.py)
    import translate
    fns = translate.translate_all(os.environ.get("JS_REPO", "/repo"))
    fns2 = translate.translate_all2(os.environ.get("JS_REPO", "/repo"))
    changed = write_if_changed(os.path.join(OUT, "Source.lean"), translate.render(fns, fns2))
    import translate_methods
    meths = translate_methods.translate_all(os.environ.get("JS_REPO", "/repo"))
    changed_m = write_if_changed(os.path.join(OUT, "MethodSource.lean"), translate_methods.render(meths))
    print("regen: MethodSource.lean %s (%s)" % ("rewritten" if changed_m else "unchanged",
                                                ", ".join("%s%s" % (n, " UNSUPPORTED" if t.startswith(".unsupported") else "") for n, t in meths)))
    import translate_types
    preds = translate_types.translate_all(os.environ.get("JS_REPO", "/repo"))
    changed_t = write_if_changed(os.path.join(OUT, "TypeSource.lean"), translate_types.render(preds))
    print("regen: TypeSource.lean %s (%d type predicates)" % ("rewritten" if changed_t else "unchanged", len(preds)))
    print("regen: Source.lean %s (%d functions, %d outside the translated subset)"
          % ("rewritten" if changed else "unchanged", len(fns),
             sum(1 for (_, t), (_, t2) in zip(fns, fns2) if t.startswith(".unsupported") and t2.startswith(".unsupported"))))


if __name__ == "__main__":
    main()
