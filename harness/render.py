"""
Message templates: the model reports (template, args); the wording is rendered here with
the real Python `%r` so that `repr` of floats/strings never has to be modelled in Lean.
Part of the trusted harness (DESIGN §8).
"""
import itertools


def _types_msg(instance, types):
    reprs = []
    for t in types:
        try:
            reprs.append(repr(t["name"]))
        except Exception:
            reprs.append(repr(t))
    return "%r is not of type %s" % (instance, ", ".join(reprs))


def _extras_msg(extras):
    verb = "was" if len(extras) == 1 else "were"
    return ", ".join(repr(e) for e in extras), verb


def _add_props_patterns(extras, patterns):
    verb = "does" if len(extras) == 1 else "do"
    return "%s %s not match any of the regexes: %s" % (
        ", ".join(map(repr, sorted(extras))), verb, ", ".join(map(repr, sorted(patterns))))


TEMPLATES = {
    "false": lambda a: "False schema does not allow %r" % (a[0],),
    "addPropsPatterns": lambda a: _add_props_patterns(a[0], a[1]),
    "addProps": lambda a: "Additional properties are not allowed (%s %s unexpected)" % _extras_msg(a[0]),
    "addItems": lambda a: "Additional items are not allowed (%s %s unexpected)" % _extras_msg(a[0]),
    "const": lambda a: "%r was expected" % (a[0],),
    "contains": lambda a: "None of %r are valid under the given schema" % (a[0],),
    "exclusiveMinimum": lambda a: "%r is less than or equal to the minimum of %r" % (a[0], a[1]),
    "exclusiveMaximum": lambda a: "%r is greater than or equal to the maximum of %r" % (a[0], a[1]),
    "minimum": lambda a: "%r is less than the minimum of %r" % (a[0], a[1]),
    "maximum": lambda a: "%r is greater than the maximum of %r" % (a[0], a[1]),
    "multipleOf": lambda a: "%r is not a multiple of %r" % (a[0], a[1]),
    "tooShort": lambda a: "%r is too short" % (a[0],),
    "tooLong": lambda a: "%r is too long" % (a[0],),
    "uniqueItems": lambda a: "%r has non-unique elements" % (a[0],),
    "pattern": lambda a: "%r does not match %r" % (a[0], a[1]),
    "format": lambda a: "%r is not a %r" % (a[0], a[1]),
    "dependency": lambda a: "%r is a dependency of %r" % (a[0], a[1]),
    "enum": lambda a: "%r is not one of %r" % (a[0], a[1]),
    "type": lambda a: _types_msg(a[0], a[1]),
    "required": lambda a: "%r is a required property" % a[0],
    "minProperties": lambda a: "%r does not have enough properties" % (a[0],),
    "maxProperties": lambda a: "%r has too many properties" % (a[0],),
    "anyOf": lambda a: "%r is not valid under any of the given schemas" % (a[0],),
    "oneOfMore": lambda a: "%r is valid under each of %s" % (a[0], ", ".join(repr(s) for s in a[1])),
    "not": lambda a: "%r is not allowed for %r" % (a[0], a[1]),
    "disallow": lambda a: "%r is disallowed for %r" % (a[0], a[1]),
    "custom": lambda a: "custom %s" % (a[0],),
}


def render(t, a):
    f = TEMPLATES.get(t)
    if f is None:
        return "<unknown template %s %r>" % (t, a)
    try:
        return f(a)
    except Exception as e:      # e.g. "%r is a required property" % tuple
        return "<render error %s: %s>" % (t, type(e).__name__)
