import sys, json, time, collections
import impl, driver, oracle, corr, gen
seed=int(sys.argv[1]) if len(sys.argv)>1 else 1
N=int(sys.argv[2]) if len(sys.argv)>2 else 500
g=gen.RefG(seed)
d=driver.Driver()
t0=time.time(); bad=0; stats=collections.Counter()
for n in range(N):
    dr=g.r.choice(["d3","d4","d6","d7"])
    root,store,wdocs,info=g.ref_schema(dr, depth=g.r.choice([1,2]))
    for k in info["kinds"]: stats[k]+=1
    fail_at=set(x for x in range(6) if g.r.random()<0.2)
    ops=g.hist_ops(dr, root, g.r.randrange(1,6))
    spec={"store":[[k,v] for k,v in store.items()],"cacheRemote":g.r.random()<0.7}
    c={"cls":dr,"schema":root,"resolver":spec,"ops":ops}
    wi=impl.World(wdocs, fail_at=fail_at); wm=impl.World(wdocs, fail_at=fail_at)
    orc=oracle.Oracle(fetch=wm.answer)
    try:
        m=corr.model_hist(d.run("HIST",c,orc))
    except Exception as e:
        print("DRIVER FAIL", type(e), e, json.dumps(c)[:800]); raise
    im=impl.run_hist(c, wi)
    if isinstance(im,list):
        for x in im: stats[x["r"][0] + (":"+str(x["r"][1][0]) if x["r"][0]=="raised" else "")]+=1
    df=corr.diff(m,im)
    if df:
        bad+=1
        if bad<=6: print("DIFF", df, "\n   ", json.dumps(c)[:900], fail_at)
print("cases",N,"bad",bad,"time %.1f"%(time.time()-t0),"asks",d.asks)
print(dict(stats))
