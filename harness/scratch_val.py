import sys, json, time, collections
import impl, driver, oracle, corr, gen
seed=int(sys.argv[1]) if len(sys.argv)>1 else 1
N=int(sys.argv[2]) if len(sys.argv)>2 else 2000
g=gen.G(seed)
d=driver.Driver(); orc=oracle.Oracle()
t0=time.time(); bad=0; stats=collections.Counter()
for n in range(N):
    dr=g.r.choice(["d3","d4","d6","d7"])
    s=g.schema(dr, depth=g.r.choice([1,2,2,3]))
    try: impl.DRAFTS[dr].check_schema(s); okschema=True
    except impl.E.SchemaError: okschema=False
    except Exception as e: okschema=False; stats['chk-crash:'+type(e).__name__]+=1
    stats['accepted' if okschema else 'rejected']+=1
    for _ in range(3):
        i=g.instance_for(dr, s)
        b=g.r.choice([None,None,1,2])
        c={"cls":dr,"schema":s,"inst":i,"budget":b}
        try:
            m=corr.model_val(d.run("VAL",c,orc))
        except Exception as e:
            print("DRIVER FAIL", type(e), e, json.dumps(c)[:500]); raise
        im=impl.run_val(c)
        if 'errs' in im:
            stats['valid' if not im['errs'] and im['stop']==['done'] else 'invalid' if im['errs'] else 'raised:'+str(im['stop'])]+=1
        df=corr.diff(m,im)
        if df and okschema:
            bad+=1
            if bad<=8: print("DIFF", df, "\n   ", json.dumps(c)[:600])
print("cases",N*3,"bad",bad,"time %.1f"%(time.time()-t0),"asks",d.asks)
print(dict(stats))
