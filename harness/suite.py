"""The official JSON-Schema-Test-Suite bundled with the repository, as (draft, schema, instance, valid) cases."""
import glob
import json
import os

import impl

SUITE = os.path.join(impl.REPO, "json", "tests")
DIRS = {"d3": "draft3", "d4": "draft4", "d6": "draft6", "d7": "draft7"}


def has_key(v, name):
    if isinstance(v, dict):
        return name in v or any(has_key(x, name) for x in v.values())
    if isinstance(v, list):
        return any(has_key(x, name) for x in v)
    return False


def cases(ref_free=True):
    for tag, d in DIRS.items():
        files = sorted(glob.glob(os.path.join(SUITE, d, "*.json"))) + [os.path.join(SUITE, d, "optional", "bignum.json")]
        for f in files:
            if not os.path.exists(f):
                continue
            name = os.path.basename(f)
            for group in json.load(open(f)):
                schema = group["schema"]
                if ref_free and (has_key(schema, "$ref") or has_key(schema, "format")):
                    continue
                for t in group["tests"]:
                    yield tag, name, group["description"], t["description"], schema, t["data"], t["valid"]
