#!/usr/bin/env python3
"""
translate.py — Python source of the keyword functions → terms of the Lean datatype `JS.Py.Fn`.

Reads `jsonschema/_validators.py` and `jsonschema/_legacy_validators.py` of the WORKING TREE with the
`ast` module and writes `lean/JS/Generated/Source.lean` (only if the content changed).  It is a plain
serialiser: it recognises the syntactic forms listed in `lean/JS/Py/IR.lean` and nothing else; every
semantic decision is taken by the Lean interpreter `JS.Py.Interp`.  A function that uses any other
construct becomes `Fn.unsupported "<reason>"` (its tie theorem, if it has one, then fails to check).

Normalisations (so that renamings do not disturb the tie):
  * the four parameters are called validator, value, instance, schema (by position);
  * every other local name is called x1, x2, … in the order of its first binding;
  * a name bound exactly once, to a string constant — or assigned a string constant earlier in the same
    block with nothing but `yield`s in between — and used as the left operand of `%` is replaced by the
    constant (`message = "…"; yield ValidationError(message % (…))`).
Part of the trusted base (DESIGN section 8).
"""
import ast
import os
import sys

HERE = os.path.dirname(os.path.abspath(__file__))
REPO = os.environ.get("JS_REPO", "/repo")
OUT = os.path.join(os.path.dirname(HERE), "lean", "JS", "Generated", "Source.lean")

FILES = ["_validators.py", "_legacy_validators.py"]
PARAMS = ["validator", "value", "instance", "schema"]


class Unsupported(Exception):
    pass


def lstr(s):
    out = ['"']
    for ch in s:
        if ch == '"':
            out.append('\\"')
        elif ch == "\\":
            out.append("\\\\")
        elif ch == "\n":
            out.append("\\n")
        elif ch == "\t":
            out.append("\\t")
        elif ch == "\r":
            out.append("\\r")
        elif ord(ch) < 32:
            out.append("\\x%02x" % ord(ch))
        else:
            out.append(ch)
    out.append('"')
    return "".join(out)


def llist(items):
    return "[" + ", ".join(items) + "]"


class FnTranslator:
    def __init__(self, fn):
        self.fn = fn
        args = fn.args
        if (len(args.args) != 4 or args.vararg or args.kwarg or args.kwonlyargs or args.defaults
                or getattr(args, "posonlyargs", [])):
            raise Unsupported("signature")
        self.names = {a.arg: PARAMS[i] for i, a in enumerate(args.args)}
        self.validator = args.args[0].arg
        self.nlocals = 0
        # names bound exactly once to a string constant
        counts, consts = {}, {}
        for node in ast.walk(fn):
            targets = []
            if isinstance(node, ast.Assign):
                for t in node.targets:
                    targets += [n for n in ast.walk(t) if isinstance(n, ast.Name)]
                if (len(node.targets) == 1 and isinstance(node.targets[0], ast.Name)
                        and isinstance(node.value, ast.Constant) and isinstance(node.value.value, str)):
                    consts[node.targets[0].id] = node.value.value
            elif isinstance(node, (ast.For, ast.comprehension)):
                targets += [n for n in ast.walk(node.target) if isinstance(n, ast.Name)]
            elif isinstance(node, (ast.AugAssign, ast.AnnAssign, ast.NamedExpr)):
                targets += [n for n in ast.walk(node.target) if isinstance(n, ast.Name)]
            for n in targets:
                counts[n.id] = counts.get(n.id, 0) + 1
        self.fmt_consts = {k: v for k, v in consts.items() if counts.get(k) == 1 and k not in self.names}
        self.fmt_used = set()

    # ---- names
    def bind(self, name):
        if name in self.names and self.names[name] in PARAMS:
            # a parameter is rebound: keep its canonical name (Python semantics: same variable)
            return self.names[name]
        if name not in self.names:
            self.nlocals += 1
            self.names[name] = "x%d" % self.nlocals
        return self.names[name]

    def use(self, name):
        if name not in self.names:
            raise Unsupported("free name %s" % name)
        return self.names[name]

    def is_validator(self, node):
        return isinstance(node, ast.Name) and node.id == self.validator

    def vcall(self, node, meth):
        """node is `validator.<meth>(…)`"""
        return (isinstance(node, ast.Call) and isinstance(node.func, ast.Attribute)
                and node.func.attr == meth and self.is_validator(node.func.value))

    @staticmethod
    def helper(node, name):
        """node is `name(…)` or `<module>.name(…)`"""
        if not isinstance(node, ast.Call):
            return False
        f = node.func
        if isinstance(f, ast.Name):
            return f.id == name
        return (isinstance(f, ast.Attribute) and f.attr == name and isinstance(f.value, ast.Name)
                and f.value.id in ("_utils", "re"))

    @staticmethod
    def plain(call, n=None, lo=None, hi=None):
        if call.keywords:
            raise Unsupported("keyword arguments")
        for a in call.args:
            if isinstance(a, ast.Starred):
                raise Unsupported("starred")
        k = len(call.args)
        if n is not None and k != n:
            raise Unsupported("arity")
        if lo is not None and not (lo <= k <= hi):
            raise Unsupported("arity")
        return call.args

    # ---- expressions
    def ex(self, e):
        if isinstance(e, ast.Name):
            if e.id in ("True", "False", "None"):
                raise Unsupported("py2 constant")
            return ".var %s" % lstr(self.use(e.id))
        if isinstance(e, ast.Constant):
            v = e.value
            if isinstance(v, bool):
                return ".bool %s" % ("true" if v else "false")
            if v is None:
                return ".none_"
            if isinstance(v, str):
                return ".str %s" % lstr(v)
            if isinstance(v, int):
                return ".int (%d)" % v
            raise Unsupported("constant %r" % (v,))
        if isinstance(e, ast.Dict):
            if not e.keys:
                return ".emptyDict"
            if (len(e.keys) == 1 and isinstance(e.keys[0], ast.Constant) and isinstance(e.keys[0].value, str)):
                return ".dict1 %s (%s)" % (lstr(e.keys[0].value), self.ex(e.values[0]))
            raise Unsupported("dict literal")
        if isinstance(e, ast.List):
            if not e.elts:
                return ".emptyList"
            if len(e.elts) == 1 and not isinstance(e.elts[0], ast.Starred):
                return ".list1 (%s)" % self.ex(e.elts[0])
            raise Unsupported("list literal")
        if isinstance(e, ast.UnaryOp) and isinstance(e.op, ast.Not):
            return ".not_ (%s)" % self.ex(e.operand)
        if isinstance(e, ast.BoolOp):
            parts = [self.ex(v) for v in e.values]
            op = ".and_" if isinstance(e.op, ast.And) else ".or_"
            acc = parts[-1]
            for p in reversed(parts[:-1]):
                acc = "%s (%s) (%s)" % (op, p, acc)
            return acc
        if isinstance(e, ast.Compare):
            if len(e.ops) != 1:
                raise Unsupported("chained comparison")
            a, b, op = self.ex(e.left), self.ex(e.comparators[0]), e.ops[0]
            table = {ast.Lt: ".lt", ast.LtE: ".le", ast.Gt: ".gt", ast.GtE: ".ge", ast.Eq: ".eq", ast.NotEq: ".ne"}
            if type(op) in table:
                return ".cmp %s (%s) (%s)" % (table[type(op)], a, b)
            if isinstance(op, ast.In):
                return ".contains false (%s) (%s)" % (a, b)
            if isinstance(op, ast.NotIn):
                return ".contains true (%s) (%s)" % (a, b)
            raise Unsupported("comparison %s" % type(op).__name__)
        if isinstance(e, ast.Subscript):
            if isinstance(e.slice, ast.Slice):
                sl = e.slice
                if sl.lower is not None and sl.upper is None and sl.step is None:
                    return ".sliceFrom (%s) (%s)" % (self.ex(e.value), self.ex(sl.lower))
                raise Unsupported("slice")
            if isinstance(e.slice, ast.Tuple):
                raise Unsupported("slice")
            return ".index (%s) (%s)" % (self.ex(e.value), self.ex(e.slice))
        if isinstance(e, ast.Call):
            if self.vcall(e, "is_type"):
                a = self.plain(e, 2)
                return ".isType (%s) (%s)" % (self.ex(a[0]), self.ex(a[1]))
            if self.vcall(e, "is_valid"):
                raise Unsupported("is_valid inside an expression")
            if self.helper(e, "len") and isinstance(e.func, ast.Name):
                return ".len (%s)" % self.ex(self.plain(e, 1)[0])
            if self.helper(e, "equal"):
                a = self.plain(e, 2)
                return ".equal (%s) (%s)" % (self.ex(a[0]), self.ex(a[1]))
            if self.helper(e, "uniq"):
                return ".uniq (%s)" % self.ex(self.plain(e, 1)[0])
            if self.helper(e, "ensure_list"):
                return ".ensureList (%s)" % self.ex(self.plain(e, 1)[0])
            if (isinstance(e.func, ast.Attribute) and e.func.attr == "search"
                    and isinstance(e.func.value, ast.Name) and e.func.value.id == "re"):
                a = self.plain(e, 2)
                return ".reSearch (%s) (%s)" % (self.ex(a[0]), self.ex(a[1]))
            if isinstance(e.func, ast.Attribute) and e.func.attr == "get" and not self.is_validator(e.func.value):
                a = self.plain(e, lo=1, hi=2)
                d = self.ex(a[1]) if len(a) == 2 else ".none_"
                return ".get (%s) (%s) (%s)" % (self.ex(e.func.value), self.ex(a[0]), d)
            if isinstance(e.func, ast.Name) and e.func.id in ("all", "any"):
                a = self.plain(e, 1)
                g = a[0]
                if isinstance(g, (ast.GeneratorExp, ast.ListComp)) and len(g.generators) == 1:
                    c = g.generators[0]
                    if c.ifs or c.is_async or not isinstance(c.target, ast.Name):
                        raise Unsupported("comprehension")
                    it = self.ex(c.iter)
                    x = self.bind(c.target.id)
                    return ".%s_ %s (%s) (%s)" % (e.func.id, lstr(x), it, self.ex(g.elt))
                raise Unsupported("all/any of a non-comprehension")
            raise Unsupported("call %s" % ast.dump(e.func)[:60])
        raise Unsupported("expression %s" % type(e).__name__)

    # ---- conditions
    def has_valid(self, e):
        return any(self.vcall(n, "is_valid") for n in ast.walk(e))

    def cond(self, e):
        if not self.has_valid(e):
            return ".ex (%s)" % self.ex(e)
        if self.vcall(e, "is_valid"):
            a = self.plain(e, 2)
            return ".isValid (%s) (%s)" % (self.ex(a[0]), self.ex(a[1]))
        if isinstance(e, ast.UnaryOp) and isinstance(e.op, ast.Not):
            return ".notC (%s)" % self.cond(e.operand)
        if (isinstance(e, ast.Call) and isinstance(e.func, ast.Name) and e.func.id == "any"
                and len(e.args) == 1 and not e.keywords and isinstance(e.args[0], ast.GeneratorExp)
                and len(e.args[0].generators) == 1):
            g = e.args[0]
            c = g.generators[0]
            if c.ifs or c.is_async or not isinstance(c.target, ast.Name) or not self.vcall(g.elt, "is_valid"):
                raise Unsupported("any(...) with is_valid")
            it = self.ex(c.iter)
            x = self.bind(c.target.id)
            a = self.plain(g.elt, 2)
            return ".anyValid %s (%s) (%s) (%s)" % (lstr(x), it, self.ex(a[0]), self.ex(a[1]))
        raise Unsupported("is_valid in a compound condition")

    # ---- loops
    def iter_(self, it, target):
        """returns (iter term, pattern term); binds the targets"""
        def names(t, n):
            if n == 1:
                if not isinstance(t, ast.Name):
                    raise Unsupported("loop target")
                return [t.id]
            if not isinstance(t, ast.Tuple) or len(t.elts) != n or not all(isinstance(x, ast.Name) for x in t.elts):
                raise Unsupported("loop target")
            return [x.id for x in t.elts]

        if (isinstance(it, ast.Call) and isinstance(it.func, ast.Name) and it.func.id == "enumerate" and len(it.args) == 1
                and len(it.keywords) == 1 and it.keywords[0].arg == "start"):
            term = ".enumerateFrom (%s) (%s)" % (self.ex(it.args[0]), self.ex(it.keywords[0].value))
            a, b = names(target, 2)
            return term, ".two %s %s" % (lstr(self.bind(a)), lstr(self.bind(b)))
        if isinstance(it, ast.Call) and not it.keywords:
            f = it.func
            if isinstance(f, ast.Attribute) and f.attr == "items" and not it.args:
                term = ".items (%s)" % self.ex(f.value)
                a, b = names(target, 2)
                return term, ".two %s %s" % (lstr(self.bind(a)), lstr(self.bind(b)))
            if isinstance(f, ast.Name) and f.id == "iteritems" and len(it.args) == 1:
                term = ".items (%s)" % self.ex(it.args[0])
                a, b = names(target, 2)
                return term, ".two %s %s" % (lstr(self.bind(a)), lstr(self.bind(b)))
            if isinstance(f, ast.Name) and f.id == "enumerate" and len(it.args) == 2:
                term = ".enumerateFrom (%s) (%s)" % (self.ex(it.args[0]), self.ex(it.args[1]))
                a, b = names(target, 2)
                return term, ".two %s %s" % (lstr(self.bind(a)), lstr(self.bind(b)))
            if isinstance(f, ast.Name) and f.id == "enumerate" and len(it.args) == 1:
                term = ".enumerate (%s)" % self.ex(it.args[0])
                a, b = names(target, 2)
                return term, ".two %s %s" % (lstr(self.bind(a)), lstr(self.bind(b)))
            if (isinstance(f, ast.Name) and f.id == "zip" and len(it.args) == 2
                    and isinstance(it.args[0], ast.Call) and isinstance(it.args[0].func, ast.Name)
                    and it.args[0].func.id == "enumerate" and len(it.args[0].args) == 1
                    and not it.args[0].keywords):
                term = ".zipEnum (%s) (%s)" % (self.ex(it.args[0].args[0]), self.ex(it.args[1]))
                if not (isinstance(target, ast.Tuple) and len(target.elts) == 2):
                    raise Unsupported("loop target")
                a, b = names(target.elts[0], 2)
                (c,) = names(target.elts[1], 1)
                return term, ".three %s %s %s" % (lstr(self.bind(a)), lstr(self.bind(b)), lstr(self.bind(c)))
            if isinstance(f, ast.Name) and f.id in ("enumerate", "zip", "iteritems", "sorted", "reversed", "range"):
                raise Unsupported("iterator %s" % f.id)
        term = ".elems (%s)" % self.ex(it)
        (a,) = names(target, 1)
        return term, ".one %s" % lstr(self.bind(a))

    # ---- statements
    def opt(self, e):
        return "none" if e is None else "(some (%s))" % self.ex(e)

    def descend(self, call):
        pos = list(call.args)
        kw = {}
        for k in call.keywords:
            if k.arg is None:
                raise Unsupported("**kwargs")
            kw[k.arg] = k.value
        order = ["instance", "schema", "path", "schema_path"]
        if len(pos) > 4:
            raise Unsupported("descend arity")
        got = dict(zip(order, pos))
        for k, v in kw.items():
            if k not in order or k in got:
                raise Unsupported("descend arguments")
            got[k] = v
        if "instance" not in got or "schema" not in got:
            raise Unsupported("descend arguments")
        return ".descend (%s) (%s) %s %s" % (self.ex(got["instance"]), self.ex(got["schema"]),
                                              self.opt(got.get("path")), self.opt(got.get("schema_path")))

    def yield_error(self, call):
        if not (isinstance(call, ast.Call) and isinstance(call.func, ast.Name) and call.func.id == "ValidationError"):
            raise Unsupported("yield of something else than ValidationError(...)")
        if call.keywords or len(call.args) != 1:
            raise Unsupported("ValidationError arguments")
        m = call.args[0]

        def fmt_of(node):
            if isinstance(node, ast.Constant) and isinstance(node.value, str):
                return node.value
            if isinstance(node, ast.Name) and node.id in self.fmt_consts:
                self.fmt_used.add(node.id)
                return self.fmt_consts[node.id]
            if isinstance(node, ast.Name) and node.id in getattr(self, "block_consts", {}):
                return self.block_consts[node.id]
            raise Unsupported("message is not a constant format")

        if self.helper(m, "types_msg"):
            a = self.plain(m, 2)
            return ".yieldMsg \"types_msg\" \"\" %s" % llist([self.ex(x) for x in a])
        if isinstance(m, ast.BinOp) and isinstance(m.op, ast.Mod) and self.helper(m.right, "extras_msg"):
            a = self.plain(m.right, 1)
            return ".yieldMsg \"extras_msg\" %s %s" % (lstr(fmt_of(m.left)), llist([self.ex(a[0])]))
        if isinstance(m, ast.BinOp) and isinstance(m.op, ast.Mod):
            fmt = fmt_of(m.left)
            args = list(m.right.elts) if isinstance(m.right, ast.Tuple) else [m.right]
            return ".yieldErr %s %s" % (lstr(fmt), llist([self.ex(a) for a in args]))
        return ".yieldErr %s []" % lstr(fmt_of(m))

    def stmts(self, body):
        out = []
        saved = getattr(self, "block_consts", {})
        self.block_consts = {}      # names holding a string constant assigned earlier in THIS block (straight-line)
        for s in body:
            if isinstance(s, ast.Expr) and isinstance(s.value, ast.Constant) and isinstance(s.value.value, str):
                continue            # docstring
            if isinstance(s, ast.Pass):
                continue
            out.append(self.stmt(s))
            if (isinstance(s, ast.Assign) and len(s.targets) == 1 and isinstance(s.targets[0], ast.Name)
                    and isinstance(s.value, ast.Constant) and isinstance(s.value.value, str)):
                self.block_consts[s.targets[0].id] = s.value.value
            elif not (isinstance(s, ast.Expr) and isinstance(s.value, ast.Yield)):
                self.block_consts = {}      # anything else may rebind: forget
        self.block_consts = saved
        return llist(out)

    def stmt(self, s):
        if isinstance(s, ast.Return):
            if s.value is not None:
                raise Unsupported("return with a value")
            return ".ret"
        if isinstance(s, ast.Continue):
            return ".cont"
        if isinstance(s, ast.Assign):
            if len(s.targets) != 1 or not isinstance(s.targets[0], ast.Name):
                raise Unsupported("assignment target")
            e = self.ex(s.value)
            return ".assign %s (%s)" % (lstr(self.bind(s.targets[0].id)), e)
        if isinstance(s, ast.If):
            c = self.cond(s.test)
            return ".ifS (%s) %s %s" % (c, self.stmts(s.body), self.stmts(s.orelse))
        if isinstance(s, ast.For):
            if s.orelse:
                raise Unsupported("for/else")
            if (self.vcall(s.iter, "descend") and isinstance(s.target, ast.Name) and len(s.body) == 1
                    and isinstance(s.body[0], ast.Expr) and isinstance(s.body[0].value, ast.Yield)
                    and isinstance(s.body[0].value.value, ast.Name) and s.body[0].value.value.id == s.target.id):
                return self.descend(s.iter)
            it, pat = self.iter_(s.iter, s.target)
            return ".forS (%s) (%s) %s" % (pat, it, self.stmts(s.body))
        if isinstance(s, ast.Expr) and isinstance(s.value, ast.Yield):
            return self.yield_error(s.value.value)
        if isinstance(s, ast.Expr) and isinstance(s.value, ast.YieldFrom) and self.vcall(s.value.value, "descend"):
            return self.descend(s.value.value)
        raise Unsupported("statement %s" % type(s).__name__)

    def translate(self):
        return ".body " + self.stmts(self.fn.body)


class Fn2Translator(FnTranslator):
    """the richer subset (lean/JS/Py/IR2.lean): locals holding lists of errors, iterators, error objects"""

    def __init__(self, fn):
        super().__init__(fn)
        self.iter_vars = set()

    def is_local(self, node):
        return isinstance(node, ast.Name) and node.id in self.names and self.names[node.id] not in PARAMS

    def cond2(self, e):
        if isinstance(e, ast.Name) and self.is_local(e):
            return ".truthyVar %s" % lstr(self.use(e.id))
        if isinstance(e, ast.UnaryOp) and isinstance(e.op, ast.Not) and isinstance(e.operand, ast.Name) and self.is_local(e.operand):
            return ".notC (.truthyVar %s)" % lstr(self.use(e.operand.id))
        return ".c1 (%s)" % self.cond(e)

    def iter2(self, it, target):
        if isinstance(it, ast.Name) and it.id in self.iter_vars:
            if not (isinstance(target, ast.Tuple) and len(target.elts) == 2 and all(isinstance(x, ast.Name) for x in target.elts)):
                raise Unsupported("loop target over a stored iterator")
            x = self.use(it.id)
            a, b = target.elts
            return ".var %s" % lstr(x), ".two %s %s" % (lstr(self.bind(a.id)), lstr(self.bind(b.id)))
        term, pat = self.iter_(it, target)
        return ".it1 (%s)" % term, pat

    def descend_args(self, call):
        t = self.descend(call)          # ".descend (i) (s) p sp"
        assert t.startswith(".descend ")
        return t[len(".descend "):]

    def stmts_plain(self, body):
        out = []
        saved = getattr(self, "block_consts", {})
        self.block_consts = {}
        for s in body:
            if isinstance(s, ast.Expr) and isinstance(s.value, ast.Constant) and isinstance(s.value.value, str):
                continue
            if isinstance(s, ast.Pass):
                continue
            out.append(self.stmt(s))
            if (isinstance(s, ast.Assign) and len(s.targets) == 1 and isinstance(s.targets[0], ast.Name)
                    and isinstance(s.value, ast.Constant) and isinstance(s.value.value, str)):
                self.block_consts[s.targets[0].id] = s.value.value
            elif not (isinstance(s, ast.Expr) and isinstance(s.value, ast.Yield)):
                self.block_consts = {}
        self.block_consts = saved
        return llist(out)

    def fmt_and_args(self, m):
        """(format, [args]) of `fmt % args` / a bare constant"""
        def fmt_of(node):
            if isinstance(node, ast.Constant) and isinstance(node.value, str):
                return node.value
            if isinstance(node, ast.Name) and node.id in self.fmt_consts:
                return self.fmt_consts[node.id]
            if isinstance(node, ast.Name) and node.id in getattr(self, "block_consts", {}):
                return self.block_consts[node.id]
            raise Unsupported("message is not a constant format")
        if isinstance(m, ast.BinOp) and isinstance(m.op, ast.Mod):
            args = list(m.right.elts) if isinstance(m.right, ast.Tuple) else [m.right]
            return fmt_of(m.left), [self.ex(a) for a in args]
        return fmt_of(m), []

    def is_resolver(self, node):
        return (isinstance(node, ast.Attribute) and node.attr == "resolver" and self.is_validator(node.value))

    def rcall(self, node, meth):
        """node is `validator.resolver.<meth>(…)`"""
        return (isinstance(node, ast.Call) and isinstance(node.func, ast.Attribute) and node.func.attr == meth
                and self.is_resolver(node.func.value))

    def only_yields(self, body):
        for s in body:
            for n in ast.walk(s):
                if isinstance(n, (ast.Return, ast.Break, ast.Continue, ast.Assign, ast.AugAssign, ast.Try)):
                    return False
        return True

    def stmts(self, body):
        # `resolve = getattr(validator.resolver, "resolve", None)` followed by `if resolve is None: … else: …`
        body = list(body)
        for i in range(len(body) - 1):
            a, b = body[i], body[i + 1]
            if (isinstance(a, ast.Assign) and len(a.targets) == 1 and isinstance(a.targets[0], ast.Name)
                    and isinstance(a.value, ast.Call) and isinstance(a.value.func, ast.Name) and a.value.func.id == "getattr"
                    and len(a.value.args) == 3 and self.is_resolver(a.value.args[0])
                    and isinstance(a.value.args[1], ast.Constant) and a.value.args[1].value == "resolve"
                    and isinstance(a.value.args[2], ast.Constant) and a.value.args[2].value is None
                    and isinstance(b, ast.If) and isinstance(b.test, ast.Compare) and len(b.test.ops) == 1
                    and isinstance(b.test.ops[0], ast.Is) and isinstance(b.test.left, ast.Name)
                    and b.test.left.id == a.targets[0].id and isinstance(b.test.comparators[0], ast.Constant)
                    and b.test.comparators[0].value is None):
                name = a.targets[0].id
                used_later = any(isinstance(n, ast.Name) and n.id == name for s2 in (b.body + b.orelse + body[i + 2:]) for n in ast.walk(s2))
                if used_later:
                    raise Unsupported("the bound method is used")
                marker = ast.If(test=ast.Name(id="__resolver_lacks_resolve__", ctx=ast.Load()), body=b.body, orelse=b.orelse)
                body[i:i + 2] = [marker]
                break
        return self.stmts_plain(body)

    def stmt(self, s):
        if isinstance(s, ast.If) and isinstance(s.test, ast.Name) and s.test.id == "__resolver_lacks_resolve__":
            return ".ifS (.resolverLacksResolve) %s %s" % (self.stmts(s.body), self.stmts(s.orelse))
        if isinstance(s, ast.With):
            return ".unsupportedSt \"with\""
        # x, y = validator.resolver.resolve(e)
        if (isinstance(s, ast.Assign) and len(s.targets) == 1 and isinstance(s.targets[0], ast.Tuple) and len(s.targets[0].elts) == 2
                and all(isinstance(t, ast.Name) for t in s.targets[0].elts) and self.rcall(s.value, "resolve")):
            e = self.ex(self.plain(s.value, 1)[0])
            x, y = (self.bind(t.id) for t in s.targets[0].elts)
            return ".resolveRef %s %s (%s)" % (lstr(x), lstr(y), e)
        if isinstance(s, ast.Expr) and self.rcall(s.value, "push_scope"):
            return ".pushScope (%s)" % self.ex(self.plain(s.value, 1)[0])
        if (isinstance(s, ast.Try) and not s.handlers and not s.orelse and len(s.finalbody) == 1
                and isinstance(s.finalbody[0], ast.Expr) and self.rcall(s.finalbody[0].value, "pop_scope")
                and not s.finalbody[0].value.args and not s.finalbody[0].value.keywords):
            if not self.only_yields(s.body):
                raise Unsupported("try body with control flow or assignments")
            return ".tryFinallyPop %s" % self.stmts(s.body)
        if isinstance(s, ast.Break):
            return ".brk"
        if isinstance(s, ast.Return):
            if s.value is not None:
                raise Unsupported("return with a value")
            return ".ret"
        if isinstance(s, ast.Continue):
            return ".cont"
        if isinstance(s, ast.Assign):
            if len(s.targets) != 1 or not isinstance(s.targets[0], ast.Name):
                raise Unsupported("assignment target")
            v, name = s.value, s.targets[0].id
            # x = list(validator.descend(…))
            if (isinstance(v, ast.Call) and isinstance(v.func, ast.Name) and v.func.id == "list" and len(v.args) == 1
                    and not v.keywords and self.vcall(v.args[0], "descend")):
                a = self.descend_args(v.args[0])
                return ".assignDescendList %s %s" % (lstr(self.bind(name)), a)
            # x = enumerate(e)
            if (isinstance(v, ast.Call) and isinstance(v.func, ast.Name) and v.func.id == "enumerate" and len(v.args) == 1 and not v.keywords):
                e = self.ex(v.args[0])
                self.iter_vars.add(name)
                return ".assignEnumerate %s (%s)" % (lstr(self.bind(name)), e)
            # x = [elt for p in it if validator.is_valid(a, b)]
            if (isinstance(v, ast.ListComp) and len(v.generators) == 1 and len(v.generators[0].ifs) == 1
                    and self.vcall(v.generators[0].ifs[0], "is_valid") and not v.generators[0].is_async):
                g = v.generators[0]
                it, pat = self.iter2(g.iter, g.target)
                a = self.plain(g.ifs[0], 2)
                i_, s_ = self.ex(a[0]), self.ex(a[1])
                elt = self.ex(v.elt)
                return ".assignValidComp %s (%s) (%s) (%s) (%s) (%s)" % (lstr(self.bind(name)), pat, it, i_, s_, elt)
            # x = ", ".join(repr(v) for v in y)
            if (isinstance(v, ast.Call) and isinstance(v.func, ast.Attribute) and v.func.attr == "join"
                    and isinstance(v.func.value, ast.Constant) and v.func.value.value == ", " and len(v.args) == 1
                    and isinstance(v.args[0], ast.GeneratorExp) and len(v.args[0].generators) == 1):
                g = v.args[0]
                c = g.generators[0]
                if (not c.ifs and isinstance(c.target, ast.Name) and isinstance(c.iter, ast.Name) and isinstance(g.elt, ast.Call)
                        and isinstance(g.elt.func, ast.Name) and g.elt.func.id == "repr" and len(g.elt.args) == 1
                        and isinstance(g.elt.args[0], ast.Name) and g.elt.args[0].id == c.target.id):
                    y = self.use(c.iter.id)
                    return ".assignJoinReprs %s %s" % (lstr(self.bind(name)), lstr(y))
                raise Unsupported("join")
            # x = ValidationError(fmt % args)
            if (isinstance(v, ast.Call) and isinstance(v.func, ast.Name) and v.func.id == "ValidationError"
                    and len(v.args) == 1 and not v.keywords):
                fmt, args = self.fmt_and_args(v.args[0])
                return ".newErr %s %s %s" % (lstr(self.bind(name)), lstr(fmt), llist(args))
            e = self.ex(v)
            return ".assign %s (%s)" % (lstr(self.bind(name)), e)
        if isinstance(s, ast.If):
            c = self.cond2(s.test)
            return ".ifS (%s) %s %s" % (c, self.stmts(s.body), self.stmts(s.orelse))
        if isinstance(s, ast.For):
            if (not s.orelse and self.vcall(s.iter, "descend") and isinstance(s.target, ast.Name) and len(s.body) == 1
                    and isinstance(s.body[0], ast.Expr) and isinstance(s.body[0].value, ast.Yield)
                    and isinstance(s.body[0].value.value, ast.Name) and s.body[0].value.value.id == s.target.id):
                return ".descend " + self.descend_args(s.iter)
            it, pat = self.iter2(s.iter, s.target)
            return ".forS (%s) (%s) %s %s" % (pat, it, self.stmts(s.body), self.stmts(s.orelse))
        if isinstance(s, ast.Expr) and isinstance(s.value, ast.Yield):
            y = s.value.value
            if isinstance(y, ast.Name) and self.is_local(y):
                return ".yieldVar %s" % lstr(self.use(y.id))
            if (isinstance(y, ast.Call) and isinstance(y.func, ast.Name) and y.func.id == "ValidationError" and len(y.args) == 1
                    and len(y.keywords) == 1 and y.keywords[0].arg == "context" and isinstance(y.keywords[0].value, ast.Name)):
                ctx = self.use(y.keywords[0].value.id)
                m = y.args[0]
                if self.helper(m, "types_msg"):
                    a = self.plain(m, 2)
                    return ".yieldMsgCtx \"types_msg\" \"\" %s %s" % (llist([self.ex(x) for x in a]), lstr(ctx))
                fmt, args = self.fmt_and_args(m)
                return ".yieldErrCtx %s %s %s" % (lstr(fmt), llist(args), lstr(ctx))
            return self.yield_error(y)
        if isinstance(s, ast.Expr) and isinstance(s.value, ast.Call) and isinstance(s.value.func, ast.Attribute):
            c, f = s.value, s.value.func
            # x.extend(y) / x.append(e)
            if isinstance(f.value, ast.Name) and self.is_local(f.value) and not c.keywords and len(c.args) == 1:
                if f.attr == "extend" and isinstance(c.args[0], ast.Name) and self.is_local(c.args[0]):
                    return ".extend %s %s" % (lstr(self.use(f.value.id)), lstr(self.use(c.args[0].id)))
                if f.attr == "append":
                    return ".append %s (%s)" % (lstr(self.use(f.value.id)), self.ex(c.args[0]))
            # x._set(validator=…, validator_value=…, instance=…, schema=…)
            if f.attr == "_set" and isinstance(f.value, ast.Name) and self.is_local(f.value) and not c.args:
                kw = {k.arg: k.value for k in c.keywords}
                if sorted(kw) == ["instance", "schema", "validator", "validator_value"]:
                    return ".errSet %s (%s) (%s) (%s) (%s)" % (lstr(self.use(f.value.id)), self.ex(kw["validator"]),
                                                                 self.ex(kw["validator_value"]), self.ex(kw["instance"]), self.ex(kw["schema"]))
            # x.path.appendleft(e) / x.schema_path.extend([…])
            if (isinstance(f.value, ast.Attribute) and isinstance(f.value.value, ast.Name) and self.is_local(f.value.value)
                    and not c.keywords and len(c.args) == 1):
                x = self.use(f.value.value.id)
                if f.value.attr == "path" and f.attr == "appendleft":
                    return ".errPathAppendLeft %s (%s)" % (lstr(x), self.ex(c.args[0]))
                if f.value.attr == "schema_path" and f.attr == "extend" and isinstance(c.args[0], ast.List):
                    return ".errSchemaPathExtend %s %s" % (lstr(x), llist([self.ex(e) for e in c.args[0].elts]))
        if isinstance(s, ast.Expr) and isinstance(s.value, ast.YieldFrom) and self.vcall(s.value.value, "descend"):
            return ".descend " + self.descend_args(s.value.value)
        raise Unsupported("statement %s" % type(s).__name__)


def translate_all2(repo=REPO):
    """the functions outside the first subset, in the richer one (JS.Py.Fn2)"""
    out = []
    for fname in FILES:
        path = os.path.join(repo, "jsonschema", fname)
        tree = ast.parse(open(path, encoding="utf-8").read(), filename=path)
        for node in tree.body:
            if isinstance(node, ast.FunctionDef):
                try:
                    FnTranslator(node).translate()
                    term = '.unsupported "translated in the first subset"'
                except Exception:        # noqa: BLE001  (Unsupported, RecursionError, or the serialiser tripping)
                    try:
                        term = Fn2Translator(node).translate()
                    except Unsupported as u:
                        term = ".unsupported %s" % lstr(str(u))
                    except RecursionError:
                        term = '.unsupported "too deep"'
                    except Exception as exc:        # noqa: BLE001
                        term = ".unsupported %s" % lstr("translator: %s" % type(exc).__name__)
                out.append((node.name, term))
    return out


def translate_all(repo=REPO):
    fns = []
    for fname in FILES:
        path = os.path.join(repo, "jsonschema", fname)
        tree = ast.parse(open(path, encoding="utf-8").read(), filename=path)
        for node in tree.body:
            if isinstance(node, ast.FunctionDef):
                try:
                    term = FnTranslator(node).translate()
                except Unsupported as u:
                    term = ".unsupported %s" % lstr(str(u))
                except RecursionError:
                    term = '.unsupported "too deep"'
                except Exception as exc:        # noqa: BLE001  a source the serialiser trips over is outside the subset
                    term = ".unsupported %s" % lstr("translator: %s" % type(exc).__name__)
                fns.append((node.name, term))
    return fns


# the functions the model driver refers to by name (JS/Py/EvalSrc.lean): always emitted, `unsupported` when the
# working tree no longer has them (so that the driver still builds and the tie, not the build, reports it)
EXPECTED = ["patternProperties", "propertyNames", "additionalProperties", "items", "additionalItems", "const", "contains",
            "exclusiveMinimum", "exclusiveMaximum", "minimum", "maximum", "multipleOf", "minItems", "maxItems", "uniqueItems",
            "pattern", "format", "minLength", "maxLength", "dependencies", "enum", "ref", "type", "properties", "required",
            "minProperties", "maxProperties", "allOf", "anyOf", "oneOf", "not_", "if_", "dependencies_draft3", "disallow_draft3",
            "extends_draft3", "items_draft3_draft4", "minimum_draft3_draft4", "maximum_draft3_draft4", "properties_draft3",
            "type_draft3"]


def render(fns, fns2=None):
    have = {n for n, _ in fns}
    fns = list(fns) + [(n, '.unsupported "function not found in the source"') for n in EXPECTED if n not in have]
    if fns2 is not None:
        have2 = {n for n, _ in fns2}
        fns2 = list(fns2) + [(n, '.unsupported "function not found in the source"') for n in EXPECTED if n not in have2]
    lines = ["/- GENERATED by harness/translate.py from the working tree's jsonschema/_validators.py and",
             "   _legacy_validators.py — do not edit. -/",
             "import JS.Py.IR2",
             "namespace JS.Generated.Source",
             "open JS.Py",
             ""]
    seen = set()
    for name, term in fns:
        if name in seen:
            continue
        seen.add(name)
        lines.append("def src_%s : Fn :=\n  %s\n" % (name, term))
    if fns2 is not None:
        seen2 = set()
        for name, term in fns2:
            if name in seen2:
                continue
            seen2.add(name)
            lines.append("def src2_%s : Fn2 :=\n  %s\n" % (name, term))
    lines.append("/-- every keyword function found in the two files, by name -/")
    lines.append("def table : List (String × Fn) :=\n  [" + ",\n   ".join('(%s, src_%s)' % (lstr(n), n) for n in seen_order(fns)) + "]")
    lines.append("")
    lines.append("end JS.Generated.Source")
    return "\n".join(lines) + "\n"


def seen_order(fns):
    out = []
    for n, _ in fns:
        if n not in out:
            out.append(n)
    return out


def main():
    text = render(translate_all(), translate_all2())
    old = open(OUT, encoding="utf-8").read() if os.path.exists(OUT) else None
    if old != text:
        os.makedirs(os.path.dirname(OUT), exist_ok=True)
        with open(OUT, "w", encoding="utf-8") as f:
            f.write(text)
    if "-v" in sys.argv:
        two = dict(translate_all2())
        for n, t in translate_all():
            t2 = two.get(n, "")
            print(n, "ok" if not t.startswith(".unsupported") else ("ok (second subset)" if not t2.startswith(".unsupported") else "UNSUPPORTED " + t + " / " + t2))
    return 0


if __name__ == "__main__":
    sys.exit(main())
