#!/usr/bin/env python3
"""
translate_methods.py — the generator methods `iter_errors` and `descend` of the validator class (written inside
`jsonschema.validators.create`) → terms of `JS.Py.Method` (lean/JS/Py/IR3.lean), into
`lean/JS/Generated/MethodSource.lean`. A serialiser of the `ast`: the forms of IR3 and nothing else; anything else
makes the method `Method.unsupported`. Parameters (after `self`) are named p1, p2, … by position, other locals
x1, x2, … by first binding. Part of the trusted base.
"""
import ast
import os

from translate import Unsupported, lstr, llist

HERE = os.path.dirname(os.path.abspath(__file__))
OUT = os.path.join(os.path.dirname(HERE), "lean", "JS", "Generated", "MethodSource.lean")


def jconst(v):
    if v is None:
        return ".null"
    if v is True:
        return "(.bool true)"
    if v is False:
        return "(.bool false)"
    raise Unsupported("constant")


class MethodTranslator:
    def __init__(self, fn, id_of_name="id_of"):
        a = fn.args
        if a.vararg or a.kwarg or a.kwonlyargs or not a.args or a.args[0].arg != "self":
            raise Unsupported("signature")
        self.fn = fn
        self.self_name = "self"
        self.names = {}
        self.params = []
        for i, p in enumerate(a.args[1:]):
            self.names[p.arg] = "p%d" % (i + 1)
            self.params.append("p%d" % (i + 1))
        for d in a.defaults:
            if not (isinstance(d, ast.Constant) and d.value is None):
                raise Unsupported("default")
        self.n = 0
        self.kw_vars, self.pair_vars, self.gen_vars = set(), set(), {}
        self.id_of_name = id_of_name

    def bind(self, name):
        if name not in self.names:
            self.n += 1
            self.names[name] = "x%d" % self.n
        return self.names[name]

    def use(self, name):
        if name not in self.names:
            raise Unsupported("free name %s" % name)
        return self.names[name]

    def is_self(self, n):
        return isinstance(n, ast.Name) and n.id == self.self_name

    # plain expressions of JS.Py.IR over JSON locals
    def ex(self, e):
        if isinstance(e, ast.Name):
            if e.id in self.kw_vars or e.id in self.pair_vars:
                raise Unsupported("non-JSON local in an expression")
            return ".var %s" % lstr(self.use(e.id))
        if isinstance(e, ast.Constant):
            v = e.value
            if isinstance(v, bool):
                return ".bool %s" % ("true" if v else "false")
            if v is None:
                return ".none_"
            if isinstance(v, str):
                return ".str %s" % lstr(v)
            if isinstance(v, int):
                return ".int (%d)" % v
        if (isinstance(e, ast.Call) and isinstance(e.func, ast.Attribute) and e.func.attr == "get" and not e.keywords
                and 1 <= len(e.args) <= 2 and not self.is_self(e.func.value)):
            d = self.ex(e.args[1]) if len(e.args) == 2 else ".none_"
            return ".get (%s) (%s) (%s)" % (self.ex(e.func.value), self.ex(e.args[0]), d)
        raise Unsupported("expression %s" % ast.dump(e)[:60])

    def mex(self, e):
        if (isinstance(e, ast.Compare) and len(e.ops) == 1 and isinstance(e.ops[0], (ast.Is, ast.IsNot))
                and isinstance(e.comparators[0], ast.Constant) and e.comparators[0].value in (None, True, False)
                and isinstance(e.comparators[0].value, (bool, type(None)))):
            neg = "true" if isinstance(e.ops[0], ast.IsNot) else "false"
            return ".isConst %s (%s) %s" % (neg, self.ex(e.left), jconst(e.comparators[0].value))
        if (isinstance(e, ast.Compare) and len(e.ops) == 1 and isinstance(e.ops[0], (ast.In, ast.NotIn))
                and isinstance(e.comparators[0], ast.Set)
                and all(isinstance(x, ast.Constant) and isinstance(x.value, str) for x in e.comparators[0].elts)):
            neg = "true" if isinstance(e.ops[0], ast.NotIn) else "false"
            return ".inStrs %s (%s) %s" % (neg, self.ex(e.left), llist([lstr(x.value) for x in e.comparators[0].elts]))
        if isinstance(e, ast.Attribute) and self.is_self(e.value) and e.attr == "schema":
            return ".selfSchema"
        if (isinstance(e, ast.Call) and isinstance(e.func, ast.Name) and e.func.id == self.id_of_name
                and len(e.args) == 1 and not e.keywords):
            return ".idOf (%s)" % self.ex(e.args[0])
        return ".e (%s)" % self.ex(e)

    def err_body(self, body, err):
        """statements changing the loop's error; the last one must be `yield error`"""
        if not (body and isinstance(body[-1], ast.Expr) and isinstance(body[-1].value, ast.Yield)
                and isinstance(body[-1].value.value, ast.Name) and body[-1].value.value.id == err):
            raise Unsupported("loop over errors does not end with `yield error`")
        return llist([self.err_stmt(s, err) for s in body[:-1]])

    def err_stmt(self, s, err):
        if isinstance(s, ast.If) and not s.orelse:
            return ".ifE (%s) %s" % (self.mex(s.test), llist([self.err_stmt(t, err) for t in s.body]))
        if isinstance(s, ast.Expr) and isinstance(s.value, ast.Call) and isinstance(s.value.func, ast.Attribute):
            c, f = s.value, s.value.func
            if f.attr == "_set" and isinstance(f.value, ast.Name) and f.value.id == err and not c.args:
                kw = {k.arg: k.value for k in c.keywords}
                if sorted(kw) == ["instance", "schema", "validator", "validator_value"]:
                    return ".errSet (%s) (%s) (%s) (%s)" % (self.mex(kw["validator"]), self.mex(kw["validator_value"]),
                                                            self.mex(kw["instance"]), self.mex(kw["schema"]))
            if (isinstance(f.value, ast.Attribute) and isinstance(f.value.value, ast.Name) and f.value.value.id == err
                    and f.attr == "appendleft" and len(c.args) == 1 and not c.keywords):
                if f.value.attr == "path":
                    return ".pathAppendLeft (%s)" % self.mex(c.args[0])
                if f.value.attr == "schema_path":
                    return ".schemaPathAppendLeft (%s)" % self.mex(c.args[0])
        raise Unsupported("statement in a loop over errors: %s" % type(s).__name__)

    def resolver_call(self, node, meth):
        return (isinstance(node, ast.Call) and isinstance(node.func, ast.Attribute) and node.func.attr == meth
                and isinstance(node.func.value, ast.Attribute) and node.func.value.attr == "resolver"
                and self.is_self(node.func.value.value))

    def stmts(self, body):
        body = [s for s in body if not (isinstance(s, ast.Expr) and isinstance(s.value, ast.Constant))]
        out, i = [], 0
        while i < len(body):
            s = body[i]
            # errors = f(self, v, inst, schema) or ()   followed by   for error in errors: …
            if (isinstance(s, ast.Assign) and len(s.targets) == 1 and isinstance(s.targets[0], ast.Name)
                    and isinstance(s.value, ast.BoolOp) and isinstance(s.value.op, ast.Or) and len(s.value.values) == 2
                    and isinstance(s.value.values[1], ast.Tuple) and not s.value.values[1].elts
                    and isinstance(s.value.values[0], ast.Call) and isinstance(s.value.values[0].func, ast.Name)
                    and s.value.values[0].func.id in self.kw_vars and i + 1 < len(body)
                    and isinstance(body[i + 1], ast.For) and isinstance(body[i + 1].iter, ast.Name)
                    and body[i + 1].iter.id == s.targets[0].id and isinstance(body[i + 1].target, ast.Name)
                    and not body[i + 1].orelse):
                call = s.value.values[0]
                if call.keywords or len(call.args) != 4 or not self.is_self(call.args[0]):
                    raise Unsupported("keyword function call")
                used_later = any(isinstance(n, ast.Name) and n.id == s.targets[0].id for t in body[i + 2:] for n in ast.walk(t))
                if used_later:
                    raise Unsupported("the errors are used again")
                loop = body[i + 1]
                out.append(".forErrorsOfKw %s (%s) (%s) (%s) %s" % (
                    lstr(self.use(call.func.id)), self.mex(call.args[1]), self.mex(call.args[2]), self.mex(call.args[3]),
                    self.err_body(loop.body, loop.target.id)))
                i += 2
                continue
            out.append(self.stmt(s))
            i += 1
        return llist(out)

    def stmt(self, s):
        if isinstance(s, ast.Return) and s.value is None:
            return ".ret"
        if isinstance(s, ast.Continue):
            return ".cont"
        if isinstance(s, ast.If):
            if (isinstance(s.test, ast.Compare) and len(s.test.ops) == 1 and isinstance(s.test.ops[0], ast.Is)
                    and isinstance(s.test.left, ast.Name) and s.test.left.id in self.kw_vars
                    and isinstance(s.test.comparators[0], ast.Constant) and s.test.comparators[0].value is None):
                return ".ifKwNone %s %s %s" % (lstr(self.use(s.test.left.id)), self.stmts(s.body), self.stmts(s.orelse))
            return ".ifS (%s) %s %s" % (self.mex(s.test), self.stmts(s.body), self.stmts(s.orelse))
        if isinstance(s, ast.Assign) and len(s.targets) == 1 and isinstance(s.targets[0], ast.Name):
            name, v = s.targets[0].id, s.value
            # x = [(k, v)]
            if (isinstance(v, ast.List) and len(v.elts) == 1 and isinstance(v.elts[0], ast.Tuple) and len(v.elts[0].elts) == 2):
                t = ".assignPairs %s (.single (%s) (%s))" % (lstr(self.bind(name)), self.mex(v.elts[0].elts[0]), self.mex(v.elts[0].elts[1]))
                self.pair_vars.add(name)
                return t
            # x = s.items() / iteritems(s)
            if (isinstance(v, ast.Call) and not v.keywords and
                    ((isinstance(v.func, ast.Attribute) and v.func.attr == "items" and not v.args and not self.is_self(v.func.value))
                     or (isinstance(v.func, ast.Name) and v.func.id == "iteritems" and len(v.args) == 1))):
                src = v.func.value if isinstance(v.func, ast.Attribute) else v.args[0]
                t = ".assignPairs %s (.items (%s))" % (lstr(self.bind(name)), self.mex(src))
                self.pair_vars.add(name)
                return t
            # x = self.VALIDATORS.get(k)
            if (isinstance(v, ast.Call) and isinstance(v.func, ast.Attribute) and v.func.attr == "get" and len(v.args) == 1
                    and not v.keywords and isinstance(v.func.value, ast.Attribute) and v.func.value.attr == "VALIDATORS"
                    and self.is_self(v.func.value.value)):
                t = ".assignKw %s (%s)" % (lstr(self.bind(name)), self.mex(v.args[0]))
                self.kw_vars.add(name)
                return t
            e = self.mex(v)
            if name in self.kw_vars or name in self.pair_vars:
                raise Unsupported("rebinding a non-JSON local")
            return ".assign %s (%s)" % (lstr(self.bind(name)), e)
        if isinstance(s, ast.For) and not s.orelse:
            # for k, v in pairs
            if (isinstance(s.iter, ast.Name) and s.iter.id in self.pair_vars and isinstance(s.target, ast.Tuple)
                    and len(s.target.elts) == 2 and all(isinstance(x, ast.Name) for x in s.target.elts)):
                pv = self.use(s.iter.id)
                k, v = (self.bind(x.id) for x in s.target.elts)
                return ".forPairs %s %s %s %s" % (lstr(k), lstr(v), lstr(pv), self.stmts(s.body))
            # for error in self.iter_errors(i, s): …; yield error
            if (isinstance(s.iter, ast.Call) and isinstance(s.iter.func, ast.Attribute) and s.iter.func.attr == "iter_errors"
                    and self.is_self(s.iter.func.value) and len(s.iter.args) == 2 and not s.iter.keywords
                    and isinstance(s.target, ast.Name)):
                return ".forErrorsOfIter (%s) (%s) %s" % (self.mex(s.iter.args[0]), self.mex(s.iter.args[1]),
                                                          self.err_body(s.body, s.target.id))
        if isinstance(s, ast.Expr) and isinstance(s.value, ast.Yield):
            y = s.value.value
            # yield [exceptions.]ValidationError(fmt % args, validator=…, validator_value=…, instance=…, schema=…)
            if (isinstance(y, ast.Call) and ((isinstance(y.func, ast.Attribute) and y.func.attr == "ValidationError")
                                             or (isinstance(y.func, ast.Name) and y.func.id == "ValidationError")) and len(y.args) == 1):
                kw = {k.arg: k.value for k in y.keywords}
                m = y.args[0]
                if (sorted(kw) == ["instance", "schema", "validator", "validator_value"] and isinstance(m, ast.BinOp)
                        and isinstance(m.op, ast.Mod) and isinstance(m.left, ast.Constant) and isinstance(m.left.value, str)):
                    args = list(m.right.elts) if isinstance(m.right, ast.Tuple) else [m.right]
                    return ".yieldErrorWith %s %s (%s) (%s) (%s) (%s)" % (
                        lstr(m.left.value), llist([self.mex(a) for a in args]), self.mex(kw["validator"]),
                        self.mex(kw["validator_value"]), self.mex(kw["instance"]), self.mex(kw["schema"]))
        if isinstance(s, ast.Expr) and self.resolver_call(s.value, "push_scope") and len(s.value.args) == 1 and not s.value.keywords:
            return ".pushScope (%s)" % self.mex(s.value.args[0])
        if (isinstance(s, ast.Try) and not s.handlers and not s.orelse and len(s.finalbody) == 1
                and isinstance(s.finalbody[0], ast.If) and not s.finalbody[0].orelse and len(s.finalbody[0].body) == 1
                and isinstance(s.finalbody[0].body[0], ast.Expr) and self.resolver_call(s.finalbody[0].body[0].value, "pop_scope")
                and not s.finalbody[0].body[0].value.args):
            for n in ast.walk(ast.Module(body=s.body, type_ignores=[])):
                if isinstance(n, (ast.Return, ast.Break)):
                    raise Unsupported("return/break inside try")
            return ".tryFinallyPopIf (%s) %s" % (self.mex(s.finalbody[0].test), self.stmts(s.body))
        raise Unsupported("statement %s" % type(s).__name__)

    def translate(self):
        return ".body %s %s" % (llist([lstr(p) for p in self.params]), self.stmts(self.fn.body))


def find_methods(repo):
    path = os.path.join(repo, "jsonschema", "validators.py")
    tree = ast.parse(open(path, encoding="utf-8").read(), filename=path)
    for node in tree.body:
        if isinstance(node, ast.FunctionDef) and node.name == "create":
            for c in ast.walk(node):
                if isinstance(c, ast.ClassDef) and c.name == "Validator":
                    return {m.name: m for m in c.body if isinstance(m, ast.FunctionDef)}
    return {}


def translate_all(repo):
    ms = find_methods(repo)
    out = []
    for name in ("iter_errors", "descend"):
        if name not in ms:
            out.append((name, '.unsupported "method not found"'))
            continue
        try:
            out.append((name, MethodTranslator(ms[name]).translate()))
        except Unsupported as u:
            out.append((name, ".unsupported %s" % lstr(str(u))))
        except Exception as exc:        # noqa: BLE001
            out.append((name, ".unsupported %s" % lstr("translator: %s" % type(exc).__name__)))
    return out


def render(ms):
    lines = ["/- GENERATED by harness/translate_methods.py from the working tree's jsonschema/validators.py — do not edit. -/",
             "import JS.Py.IR3", "namespace JS.Generated.MethodSource", "open JS.Py", ""]
    for name, term in ms:
        lines.append("def src_%s : Method :=\n  %s\n" % (name, term))
    lines.append("end JS.Generated.MethodSource")
    return "\n".join(lines) + "\n"


if __name__ == "__main__":
    import sys
    ms = translate_all(os.environ.get("JS_REPO", "/repo"))
    text = render(ms)
    old = open(OUT).read() if os.path.exists(OUT) else None
    if old != text:
        with open(OUT, "w") as f:
            f.write(text)
    if "-v" in sys.argv:
        for n, t in ms:
            print(n, t)
