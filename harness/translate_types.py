#!/usr/bin/env python3
"""
translate_types.py — the type predicates of `jsonschema/_types.py` → terms of `JS.Py.PFn`.

Reads the WORKING TREE's `_types.py` with `ast` and writes `lean/JS/Generated/TypeSource.lean`: one term per
module-level `def name(checker, instance)` and one per lambda passed to `<checker>.redefine("<type>", lambda …)`
at module level (named `<assigned name>.<type>`, e.g. `draft6_type_checker.integer`). A serialiser: the forms
of `lean/JS/Py/Pred.lean` and nothing else; anything else becomes `PFn.unsupported`. Part of the trusted base.
"""
import ast
import os

from translate import Unsupported, lstr

HERE = os.path.dirname(os.path.abspath(__file__))
OUT = os.path.join(os.path.dirname(HERE), "lean", "JS", "Generated", "TypeSource.lean")

# Python classes as `JS.pyIsInstance` names them
CLASSES = {"list": "list", "bool": "bool", "int": "int", "float": "float", "dict": "dict", "str": "str",
           "str_types": "str", "int_types": "int"}


class PredTranslator:
    def __init__(self, args, body_or_expr, known):
        if len(args.args) != 2 or args.vararg or args.kwarg or args.kwonlyargs or args.defaults:
            raise Unsupported("signature")
        self.checker, self.instance = args.args[0].arg, args.args[1].arg
        self.known = known

    def is_inst(self, n):
        return isinstance(n, ast.Name) and n.id == self.instance

    def cls(self, n):
        if isinstance(n, ast.Name) and n.id in CLASSES:
            return CLASSES[n.id]
        if isinstance(n, ast.Attribute) and isinstance(n.value, ast.Name) and n.value.id == "numbers" and n.attr == "Number":
            return "Number"
        raise Unsupported("class %s" % ast.dump(n)[:50])

    def ex(self, e):
        if isinstance(e, ast.Constant) and isinstance(e.value, bool):
            return ".const %s" % ("true" if e.value else "false")
        if isinstance(e, ast.UnaryOp) and isinstance(e.op, ast.Not):
            return ".not_ (%s)" % self.ex(e.operand)
        if isinstance(e, ast.BoolOp):
            parts = [self.ex(v) for v in e.values]
            op = ".and_" if isinstance(e.op, ast.And) else ".or_"
            acc = parts[-1]
            for p in reversed(parts[:-1]):
                acc = "%s (%s) (%s)" % (op, p, acc)
            return acc
        if (isinstance(e, ast.Compare) and len(e.ops) == 1 and isinstance(e.ops[0], ast.Is) and self.is_inst(e.left)
                and isinstance(e.comparators[0], ast.Constant) and e.comparators[0].value is None):
            return ".isNone"
        if isinstance(e, ast.Call) and not e.keywords:
            f = e.func
            if isinstance(f, ast.Name) and f.id == "isinstance" and len(e.args) == 2 and self.is_inst(e.args[0]):
                return ".isinstance %s" % lstr(self.cls(e.args[1]))
            if (isinstance(f, ast.Name) and f.id in self.known and len(e.args) == 2
                    and isinstance(e.args[0], ast.Name) and e.args[0].id == self.checker and self.is_inst(e.args[1])):
                return ".call %s" % lstr(f.id)
            if isinstance(f, ast.Attribute) and f.attr == "is_integer" and self.is_inst(f.value) and not e.args:
                return ".floatIsInteger"
        raise Unsupported("expression %s" % ast.dump(e)[:60])

    def stmts(self, body):
        out = []
        for s in body:
            if isinstance(s, ast.Expr) and isinstance(s.value, ast.Constant) and isinstance(s.value.value, str):
                continue
            if isinstance(s, ast.Return) and s.value is not None:
                out.append(".ret (%s)" % self.ex(s.value))
            elif (isinstance(s, ast.If) and not s.orelse and len(s.body) == 1 and isinstance(s.body[0], ast.Return)
                  and s.body[0].value is not None):
                out.append(".ifRet (%s) (%s)" % (self.ex(s.test), self.ex(s.body[0].value)))
            else:
                raise Unsupported("statement %s" % type(s).__name__)
        return "[" + ", ".join(out) + "]"


def translate_all(repo):
    path = os.path.join(repo, "jsonschema", "_types.py")
    tree = ast.parse(open(path, encoding="utf-8").read(), filename=path)
    known = {n.name for n in tree.body if isinstance(n, ast.FunctionDef)}
    out = []
    for node in tree.body:
        if isinstance(node, ast.FunctionDef):
            try:
                t = PredTranslator(node.args, node.body, known)
                term = ".body " + t.stmts(node.body)
            except Unsupported as u:
                term = ".unsupported %s" % lstr(str(u))
            except Exception as exc:        # noqa: BLE001
                term = ".unsupported %s" % lstr("translator: %s" % type(exc).__name__)
            out.append((node.name, term))
        elif (isinstance(node, ast.Assign) and len(node.targets) == 1 and isinstance(node.targets[0], ast.Name)
              and isinstance(node.value, ast.Call) and isinstance(node.value.func, ast.Attribute)
              and node.value.func.attr == "redefine" and len(node.value.args) == 2
              and isinstance(node.value.args[0], ast.Constant) and isinstance(node.value.args[1], ast.Lambda)):
            lam = node.value.args[1]
            name = "%s.%s" % (node.targets[0].id, node.value.args[0].value)
            try:
                t = PredTranslator(lam.args, None, known)
                term = ".body [.ret (%s)]" % t.ex(lam.body)
            except Unsupported as u:
                term = ".unsupported %s" % lstr(str(u))
            except Exception as exc:        # noqa: BLE001
                term = ".unsupported %s" % lstr("translator: %s" % type(exc).__name__)
            out.append((name, term))
    return out


def render(fns):
    lines = ["/- GENERATED by harness/translate_types.py from the working tree's jsonschema/_types.py — do not edit. -/",
             "import JS.Py.Pred", "namespace JS.Generated.TypeSource", "open JS.Py", ""]
    for name, term in fns:
        lines.append("def src_%s : PFn :=\n  %s\n" % (name.replace(".", "_"), term))
    lines.append("/-- the predicates by the name other predicates call them by -/")
    lines.append("def fns (name : String) : Option PFn :=\n  match name with\n" +
                 "".join("  | %s => some src_%s\n" % (lstr(n), n) for n, _ in fns if "." not in n) + "  | _ => none\n")
    lines.append("end JS.Generated.TypeSource")
    return "\n".join(lines) + "\n"


if __name__ == "__main__":
    import sys
    fns = translate_all(os.environ.get("JS_REPO", "/repo"))
    text = render(fns)
    old = open(OUT).read() if os.path.exists(OUT) else None
    if old != text:
        with open(OUT, "w") as f:
            f.write(text)
    if "-v" in sys.argv:
        for n, t in fns:
            print(n, t)
