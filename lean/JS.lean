import JS.Basic
import JS.Num
import JS.PyOps
import JS.Gen
import JS.Pointer
import JS.Resolver
import JS.Keywords
import JS.Eval
