-- This module serves as the root of the `JS` library.
-- Import modules here that should be built as part of the library.
import JS.Basic
