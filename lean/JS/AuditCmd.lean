/-
  `#audit NS` — prints, for every theorem whose name starts with `NS`, the axioms it depends
  on and the project definitions its statement and proof mention (one JSON object per line).
-/
import Lean
open Lean Elab Command

namespace JS.Audit

partial def usedConsts (env : Environment) (root : Name) : NameSet := Id.run do
  let mut seen : NameSet := {}
  let mut todo : Array Name := #[root]
  while !todo.isEmpty do
    let n := todo.back!
    todo := todo.pop
    if seen.contains n then continue
    seen := seen.insert n
    match env.find? n with
    | none => pure ()
    | some ci =>
      let deps := ci.type.getUsedConstants ++
        (match ci.value? (allowOpaque := true) with | some v => v.getUsedConstants | none => #[])
      for d in deps do
        if (`JS).isPrefixOf d && !seen.contains d then todo := todo.push d
  return seen

elab "#audit " ns:ident : command => do
  let env ← getEnv
  let pre := ns.getId
  let mut rows : Array Name := #[]
  for (n, ci) in env.constants.toList do
    if pre.isPrefixOf n && !n.isInternal then
      match ci with
      | .thmInfo _ => rows := rows.push n
      | _ => pure ()
  let sorted := rows.qsort (fun a b => a.toString < b.toString)
  for n in sorted do
    let axs ← Lean.collectAxioms n
    let used := usedConsts env n
    let model := used.toList.filter fun d =>
      !(`JS.Props).isPrefixOf d && !(`JS.Proofs).isPrefixOf d && !d.isInternal
        && (match env.find? d with | some (.defnInfo _) => true | _ => false)
    let q (s : String) := "\"" ++ s ++ "\""
    let axl := ", ".intercalate (axs.toList.map fun a => q a.toString)
    let ml := ", ".intercalate ((model.map (·.toString)).toArray.qsort (· < ·) |>.toList.map q)
    logInfo m!"AUDIT \{\"theorem\": {q n.toString}, \"axioms\": [{axl}], \"uses\": [{ml}]}"

end JS.Audit
