def hello := "world"
