/-
  JS.Basic — core data types of the model (no Mathlib).

  JSON values as Python sees them after `json.loads`:
  * strings are sequences of Unicode scalar values (`List Char`),
  * numbers are either Python `int` (unbounded) or a finite binary64 float,
    represented exactly as a signed dyadic `± m · 2^e`,
  * objects are association lists in insertion order (Python dict order).
-/
namespace JS

abbrev Str := List Char

/-- A JSON number as Python holds it: an `int` or a finite `float`
    (`flt neg m e` is `(-1)^neg · m · 2^e`; `-0.0` is `flt true 0 0`). -/
inductive Num where
  | int (v : Int)
  | flt (neg : Bool) (m : Nat) (e : Int)
deriving Repr, DecidableEq, Inhabited

inductive Json where
  | null
  | bool (b : Bool)
  | num (n : Num)
  | str (s : Str)
  | arr (xs : List Json)
  | obj (kvs : List (Str × Json))
deriving Repr, Inhabited

namespace Json

mutual
/-- structural (Lean) equality, decidable: hand-written because `deriving DecidableEq` does not
    handle the nested occurrence -/
def decEqJson : (a b : Json) → Decidable (a = b)
  | .null, .null => isTrue rfl
  | .bool a, .bool b => if h : a = b then isTrue (by rw [h]) else isFalse (by intro h'; cases h'; exact h rfl)
  | .num a, .num b => if h : a = b then isTrue (by rw [h]) else isFalse (by intro h'; cases h'; exact h rfl)
  | .str a, .str b => if h : a = b then isTrue (by rw [h]) else isFalse (by intro h'; cases h'; exact h rfl)
  | .arr xs, .arr ys => match decEqList xs ys with
      | isTrue h => isTrue (by rw [h])
      | isFalse h => isFalse (by intro h'; cases h'; exact h rfl)
  | .obj xs, .obj ys => match decEqKvs xs ys with
      | isTrue h => isTrue (by rw [h])
      | isFalse h => isFalse (by intro h'; cases h'; exact h rfl)
  | .null, .bool _ | .null, .num _ | .null, .str _ | .null, .arr _ | .null, .obj _
  | .bool _, .null | .bool _, .num _ | .bool _, .str _ | .bool _, .arr _ | .bool _, .obj _
  | .num _, .null | .num _, .bool _ | .num _, .str _ | .num _, .arr _ | .num _, .obj _
  | .str _, .null | .str _, .bool _ | .str _, .num _ | .str _, .arr _ | .str _, .obj _
  | .arr _, .null | .arr _, .bool _ | .arr _, .num _ | .arr _, .str _ | .arr _, .obj _
  | .obj _, .null | .obj _, .bool _ | .obj _, .num _ | .obj _, .str _ | .obj _, .arr _ =>
      isFalse (by intro h; cases h)
def decEqList : (a b : List Json) → Decidable (a = b)
  | [], [] => isTrue rfl
  | x :: xs, y :: ys => match decEqJson x y, decEqList xs ys with
      | isTrue h1, isTrue h2 => isTrue (by rw [h1, h2])
      | isFalse h1, _ => isFalse (by intro h; cases h; exact h1 rfl)
      | _, isFalse h2 => isFalse (by intro h; cases h; exact h2 rfl)
  | [], _ :: _ | _ :: _, [] => isFalse (by intro h; cases h)
def decEqKvs : (a b : List (Str × Json)) → Decidable (a = b)
  | [], [] => isTrue rfl
  | (k, x) :: xs, (k', y) :: ys =>
      if hk : k = k' then
        match decEqJson x y, decEqKvs xs ys with
        | isTrue h1, isTrue h2 => isTrue (by rw [hk, h1, h2])
        | isFalse h1, _ => isFalse (by intro h; cases h; exact h1 rfl)
        | _, isFalse h2 => isFalse (by intro h; cases h; exact h2 rfl)
      else isFalse (by intro h; cases h; exact hk rfl)
  | [], _ :: _ | _ :: _, [] => isFalse (by intro h; cases h)
end

instance : DecidableEq Json := decEqJson

/-- `dict.get(k)`: first binding (the encoders never produce duplicate keys). -/
def lookup (k : Str) : List (Str × Json) → Option Json
  | [] => none
  | (k', v) :: rest => if k' = k then some v else lookup k rest

def get? (j : Json) (k : Str) : Option Json :=
  match j with
  | .obj kvs => lookup k kvs
  | _ => none

def hasKey (k : Str) (kvs : List (Str × Json)) : Bool := (lookup k kvs).isSome

def isObj : Json → Bool | .obj _ => true | _ => false
def isArr : Json → Bool | .arr _ => true | _ => false
def isStr : Json → Bool | .str _ => true | _ => false
def isNumJ : Json → Bool | .num _ => true | _ => false
def isBoolJ : Json → Bool | .bool _ => true | _ => false

/-- structural size, used for termination/fuel bounds -/
def size : Json → Nat
  | .null => 1
  | .bool _ => 1
  | .num _ => 1
  | .str _ => 1
  | .arr xs => 1 + sizeList xs
  | .obj kvs => 1 + sizeKvs kvs
where
  sizeList : List Json → Nat
    | [] => 0
    | x :: xs => size x + sizeList xs
  sizeKvs : List (Str × Json) → Nat
    | [] => 0
    | (_, v) :: kvs => 1 + size v + sizeKvs kvs

end Json

/-- Instance-path / schema-path element (`deque` entries: `str` or `int`). -/
inductive PathElem where
  | key (k : Str)
  | idx (n : Nat)
deriving Repr, DecidableEq, Inhabited

/-- A message is a template name and its arguments; the harness renders it with
    the real Python `%r`. -/
structure Msg where
  tmpl : String
  args : List Json
deriving Repr, Inhabited

/-- The four fields `_Error._set` fills "only if unset". -/
structure Meta where
  kw     : Option Str      -- `validator`  (`None` for the `False` schema)
  kwVal  : Json            -- `validator_value`
  inst   : Json            -- `instance`
  schema : Json            -- `schema`
deriving Repr, Inhabited

/-- `ValidationError`. `path`/`schemaPath` are the *relative* deques. -/
inductive Err where
  | mk (msg : Msg) (info : Option Meta) (path schemaPath : List PathElem)
       (context : List Err) (cause : Option String)
deriving Repr, Inhabited

namespace Err
def msg : Err → Msg | .mk m _ _ _ _ _ => m
def info : Err → Option Meta | .mk _ i _ _ _ _ => i
def path : Err → List PathElem | .mk _ _ p _ _ _ => p
def schemaPath : Err → List PathElem | .mk _ _ _ sp _ _ => sp
def context : Err → List Err | .mk _ _ _ _ c _ => c
def cause : Err → Option String | .mk _ _ _ _ _ c => c

/-- `ValidationError(message, context=…, cause=…)` as created inside a keyword function -/
def fresh (t : String) (args : List Json) (ctx : List Err := []) (cause : Option String := none) : Err :=
  .mk ⟨t, args⟩ none [] [] ctx cause

def consPath (p : PathElem) : Err → Err
  | .mk m i path sp c ca => .mk m i (p :: path) sp c ca
def consSchemaPath (p : PathElem) : Err → Err
  | .mk m i path sp c ca => .mk m i path (p :: sp) c ca
/-- `_set(validator=…, validator_value=…, instance=…, schema=…)`: fill only if unset -/
def setInfo (mt : Meta) : Err → Err
  | .mk m i path sp c ca => .mk m (i.orElse fun _ => some mt) path sp c ca
end Err

/-- Exceptions that can leave a validation. `crash` stands for every undocumented
    exception, identified by its Python class name. -/
inductive Exc where
  | refResolution
  | unknownType (t : Json)
  | crash (cls : String)
  | custom (cls : String)        -- raised by a user-supplied format function (C12)
deriving Repr, Inhabited

/-- Questions the model asks about things outside the repository. -/
inductive Query where
  | reSearch (p s : Str)
  | urljoin (a b : Str)
  | urldefrag (u : Str)
  | urinorm (u : Str)
  | scheme (u : Str)
  | sortPerm (xs : List Json)
  | setOrder (xs : List Str)
  | fetch (n : Nat) (u : Str)
  | fmt (name : Str) (s : Json)
deriving Repr, Inhabited

inductive Stop where
  | done
  | budget                 -- the consumer stopped pulling (generator closed at a `yield`)
  | raised (e : Exc)
  | fuel                   -- model artefact: recursion bound hit (RecursionError)
  | miss (q : Query)       -- driver artefact: oracle table lacks an answer
deriving Repr, Inhabited

def Stop.isDone : Stop → Bool | .done => true | _ => false

/-- The resolver's mutable state (plus ghost fields). -/
structure RState where
  scopes : List Str                    -- `_scopes_stack`, top first
  store : List (Str × Json)            -- `URIDict` (keys already normalised)
  memo : List (Str × Json)             -- `_remote_cache`, most recently used first
  memoCap : Option Nat                 -- `none` = unbounded, `some 0` = pass-through
  cacheRemote : Bool
  clock : Nat                          -- ghost: number of retrieval attempts so far
  fetchLog : List (Str × Bool)         -- ghost: (uri, succeeded) in order
deriving Repr, Inhabited

structure Out where
  errs : List Err
  stop : Stop
  st : RState
deriving Inhabited

/-- A generator: given how many errors the consumer will pull (`none` = all) and the
    resolver state, the errors it yields, why it stopped, and the state it leaves. -/
abbrev Gen := Option Nat → RState → Out
/-- `iter_errors(instance, schema)` -/
abbrev Rec := Json → Json → Gen

/-- What calling a format function on an instance does: return a value of some
    truthiness, or raise an exception (given by the class names of its MRO, own class first). -/
inductive FmtRes where
  | ret (truthy : Bool)
  | raise (mro : List String)
deriving Repr, Inhabited

/-- result of an oracle query: `none` = the table has no answer (model stops with `miss`) -/
structure Env where
  reSearch  : Str → Str → Option (Option Bool)      -- inner `none`: `re.error`
  urljoin   : Str → Str → Option Str
  urldefrag : Str → Option (Str × Str)
  urinorm   : Str → Option Str
  scheme    : Str → Option Str
  sortPerm  : List Json → Option (Option (List Nat))   -- inner `none`: `TypeError`
  setOrder  : List Str → Option (List Str)
  fetch     : Nat → Str → Option (Option Json)         -- inner `none`: the handler raised
  fmt       : Str → Json → Option FmtRes
deriving Inhabited

end JS
