/-
  JS.Chan.CLI — the `CLI` correspondence channel: decode a scenario (file system, stdin, argv as
  parsed by argparse), run `Cli.main`, encode the exit status and the two event lists.
  `Except.error q` = oracle miss (the driver asks and re-runs).

  payload  { schemaPath : str,
             fs : [[path, state] …]      state = "missing" | "notJson" | ["json", value],
             stdin : state,
             instances : null | [path …],
             output : "plain" | "pretty",
             errorFormat : null | str,
             validator : null | "d3" | "d4" | "d6" | "d7",
             baseUri : null | str,
             fuel : null | nat }
  result   { usage : true }                                   (parse_args refused the arguments)
         | { end : ["exit", n] | ["raised", exc] | ["fuel"],
             status : n, stderr : [event …], stdout : [event …], stdoutText : str,
             errorFormat : null | str }
  event    ["notFound", path] | ["parseError", path] | ["validationError", path, err]
         | ["schemaError", path, err] | ["success", path]
-/
import JS.Channels
import JS.Cli
namespace JS.Chan.CLI
open JS JS.Codec JS.Channels JS.Cli

def decState (j : Json) : FileState :=
  match j with
  | .arr [.str _, v] => .json v
  | .str s => if String.ofList s = "notJson" then .notJson else .missing
  | _ => .missing

def decFS (j : Json) : FS :=
  match j with
  | .arr rows => rows.filterMap fun r => match r with
      | .arr [.str p, s] => some (p, decState s)
      | _ => none
  | _ => []

def decOptStr (j : Json) : Option Str :=
  match j with
  | .str s => some s
  | _ => none

def decArgs (p : Json) : Args :=
  { schema := strOf (fldD p "schemaPath" (.str [])),
    instances := match fld p "instances" with
      | some (.arr xs) => xs.filterMap asStr
      | _ => [],
    output := match fld p "output" with
      | some (.str s) => if String.ofList s = "pretty" then .pretty else .plain
      | _ => .plain,
    errorFormat := decOptStr (fldD p "errorFormat" .null),
    validator := classOfTag (fldD p "validator" .null),
    baseUri := decOptStr (fldD p "baseUri" .null) }

def encEvent : Event → Json
  | .notFound p => .arr [jS "notFound", .str p]
  | .parseError p => .arr [jS "parseError", .str p]
  | .validationError p e => .arr [jS "validationError", .str p, encErr e]
  | .schemaError p e => .arr [jS "schemaError", .str p, encErr e]
  | .success p => .arr [jS "success", .str p]

def encEnding : Ending → Json
  | .exit n => .arr [jS "exit", .num (.int n)]
  | .escaped (.raised e) => .arr [jS "raised", encExc e]
  | .escaped s => encStop s

def run (env : Env) (p : Json) : Except Query Json :=
  let raw := decArgs p
  let fuel := (optNat (fld p "fuel")).getD 200
  match parseArgs raw with
  | .usageError => .ok (.obj [("usage".toList, .bool true)])
  | .ok args =>
    let r := Cli.run env noFmtImpl Globals.initial fuel (decFS (fldD p "fs" (.arr []))) (decState (fldD p "stdin" .null)) args
    match r.ending with
    | .escaped (.miss q) => .error q
    | _ =>
      .ok (.obj [ ("end".toList, encEnding r.ending),
                  ("status".toList, .num (.int r.status)),
                  ("stderr".toList, .arr (r.stderr.map encEvent)),
                  ("stdout".toList, .arr (r.stdout.map encEvent)),
                  ("stdoutText".toList, .str (stdoutText args.output r.stdout)),
                  ("errorFormat".toList, match args.errorFormat with | some f => .str f | none => .null) ])

end JS.Chan.CLI
