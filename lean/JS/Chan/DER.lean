/-
  JS.Chan.DER — correspondence channel for C16 (JS.Derive): a payload is a list of derivation
  operations interleaved with behavioural probes; the result is the list of their answers.

  payload: {"items": [item…], "fuel": n?}
  item (operation):
    ["redefine", tc, name, ty] | ["redefineMany", tc, [[name, ty]…]] | ["remove", tc, [name…]]
    ["extend", cls, kwarg, version|null, tc|null]
    ["create", metaSchema, kwarg, version|null, defaultTypes|null, tc|null, idKey]
    ["newValidator", cls, schema, [[name, [pytype…]]…], fc|null]
    ["checks", fc, name, ffn, [raises…]] | ["clsChecks", name, ffn, [raises…]]
    ["newFormatChecker", null | [name…]]
    ["userDict", [[k, kwfn]…]] | ["userSet", d, k, kwfn]
      kwarg = ["lit", [[k, kwfn]…]] | ["ref", d];  ty as `Channels.decTyFn`;  kwfn as `Channels.decKwFn`;
      ffn = "constTrue" | "constFalse" | "email" | "ipv4" | "ipv6" | "date" | "oracle"
  item (probe): ["probe", addr, kind, args…]
-/
import JS.Channels
import JS.Derive
namespace JS.Chan.DER
open JS JS.Codec JS.Channels JS.Derive

def encKwFn : KwFn → String
  | .ref => "ref" | .additionalItems => "additionalItems" | .additionalProperties => "additionalProperties"
  | .const => "const" | .contains => "contains" | .exclusiveMinimum => "exclusiveMinimum"
  | .exclusiveMaximum => "exclusiveMaximum" | .minimum => "minimum" | .maximum => "maximum"
  | .multipleOf => "multipleOf" | .minItems => "minItems" | .maxItems => "maxItems"
  | .uniqueItems => "uniqueItems" | .pattern => "pattern" | .format => "format"
  | .minLength => "minLength" | .maxLength => "maxLength" | .dependencies => "dependencies"
  | .enum => "enum" | .type => "type" | .properties => "properties" | .required => "required"
  | .minProperties => "minProperties" | .maxProperties => "maxProperties" | .allOf => "allOf"
  | .anyOf => "anyOf" | .oneOf => "oneOf" | .not_ => "not_" | .if_ => "if_" | .items => "items"
  | .patternProperties => "patternProperties" | .propertyNames => "propertyNames"
  | .dependencies_draft3 => "dependencies_draft3" | .disallow_draft3 => "disallow_draft3"
  | .extends_draft3 => "extends_draft3" | .items_draft3_draft4 => "items_draft3_draft4"
  | .minimum_draft3_draft4 => "minimum_draft3_draft4" | .maximum_draft3_draft4 => "maximum_draft3_draft4"
  | .properties_draft3 => "properties_draft3" | .type_draft3 => "type_draft3"
  | .alwaysFail tag => "fail:" ++ tag
  | .never => "never"
  | .foreign s => s

def optAddr (j : Json) : Option Addr := asNatJ j
def optStr (j : Json) : Option Str := asStr j

def decKws (j : Json) : List (Str × KwFn) :=
  match j with
  | .arr rows => rows.filterMap fun r => match r with
      | .arr [.str k, f] => some (k, decKwFn (stringOf f)) | _ => none
  | _ => []

def decKwArg (j : Json) : Option KwArg :=
  match j with
  | .arr [.str t, x] =>
    match String.ofList t with
    | "lit" => some (.lit (decKws x))
    | "ref" => (asNatJ x).map .ref
    | _ => none
  | _ => none

def decTys (j : Json) : List (Str × TyFn) :=
  match j with
  | .arr rows => rows.filterMap fun r => match r with
      | .arr [.str k, f] => some (k, decTyFn f) | _ => none
  | _ => []

def decLegacy (j : Json) : List (Str × List String) :=
  match j with
  | .arr rows => rows.filterMap fun r => match r with
      | .arr [.str k, .arr tys] => some (k, tys.map stringOf) | _ => none
  | _ => []

def decFFn (j : Json) : FFn :=
  match stringOf j with
  | "constTrue" => .const true | "constFalse" => .const false
  | "email" => .builtin .email | "ipv4" => .builtin .ipv4 | "ipv6" => .builtin .ipv6
  | "date" => .builtin .date | _ => .builtin .oracle

def strs (j : Json) : List Str := match j with | .arr xs => xs.filterMap asStr | _ => []
def strings (j : Json) : List String := (strs j).map String.ofList

def decDOp (j : Json) : Option DOp :=
  match j with
  | .arr (.str k :: args) =>
    match String.ofList k, args with
    | "redefine", [tc, .str name, f] => (asNatJ tc).map fun t => .redefine t name (decTyFn f)
    | "redefineMany", [tc, defs] => (asNatJ tc).map fun t => .redefineMany t (decTys defs)
    | "remove", [tc, names] => (asNatJ tc).map fun t => .remove t (strs names)
    | "extend", [c, ka, version, tc] =>
      match asNatJ c, decKwArg ka with
      | some c, some ka => some (.extend c ka (optStr version) (optAddr tc))
      | _, _ => none
    | "create", [ms, ka, version, dt, tc, .str idKey] =>
      (decKwArg ka).map fun ka =>
        .create ms ka (optStr version) (match dt with | .null => none | d => some (decLegacy d)) (optAddr tc) idKey
    | "newValidator", [c, schema, types, fc] =>
      (asNatJ c).map fun c => .newValidator c schema (decLegacy types) (optAddr fc)
    | "checks", [fc, .str name, fn, raises] =>
      (asNatJ fc).map fun f => .checks f name (decFFn fn) (strings raises)
    | "clsChecks", [.str name, fn, raises] => some (.clsChecks name (decFFn fn) (strings raises))
    | "newFormatChecker", [.null] => some (.newFormatChecker none)
    | "newFormatChecker", [names] => some (.newFormatChecker (some (strs names)))
    | "userDict", [kvs] => some (.userDict (decKws kvs))
    | "userSet", [d, .str k, f] => (asNatJ d).map fun d => .userSet d k (decKwFn (stringOf f))
    | _, _ => none
  | _ => none

def decQuery (kind : String) (args : List Json) : Option Derive.Query :=
  match kind, args with
  | "isType", [inst, .str name] => some (.isType inst name)
  | "typeNames", [] => some .typeNames
  | "kwLookup", [.str k] => some (.kwLookup k)
  | "kwKeys", [] => some .kwKeys
  | "idKey", [] => some .idKey
  | "metaSchema", [] => some .metaSchema
  | "cwdt", [] => some .createdWithDefaultTypes
  | "conforms", [inst, .str name] => some (.conforms inst name)
  | "fmtKeys", [] => some .fmtKeys
  | "isValid", [inst] => some (.isValid inst)
  | "errorKws", [inst] => some (.errorKws inst)
  | "clsIsValid", [schema, inst] => some (.clsIsValid schema inst)
  | "clsErrorKws", [schema, inst] => some (.clsErrorKws schema inst)
  | "clsFmtKeys", [] => some .clsFmtKeys
  | "registries", [] => some .registries
  | _, _ => none

def encPairs (ps : List (Str × Addr)) : Json := .arr (ps.map fun p => .arr [.str p.1, .num (.int p.2)])

def encAnswer : Answer → Json
  | .bool b => .arr [jS "bool", .bool b]
  | .raised c => .arr [jS "raised", jS c]
  | .kw none => .arr [jS "kw", .null]
  | .kw (some f) => .arr [jS "kw", jS (encKwFn f)]
  | .str s => .arr [jS "str", .str s]
  | .keys ks => .arr [jS "keys", .arr (ks.map .str)]
  | .json j => .arr [jS "json", j]
  | .optBool none => .arr [jS "optBool", .null]
  | .optBool (some b) => .arr [jS "optBool", .bool b]
  | .errors kws s => .arr [jS "errors", .arr (kws.map fun k => match k with | some k => .str k | none => .null), encStop s]
  | .registries vs ms => .arr [jS "registries", encPairs vs, encPairs ms]
  | .badQuery => .arr [jS "badQuery"]
  | .miss q => .arr [jS "miss", encQuery q]

def encResult : DResult → Json
  | .created a => .arr [jS "created", .num (.int a)]
  | .done => .arr [jS "done"]
  | .raised c arg => .arr [jS "raised", jS c, .str arg]
  | .badAddr => .arr [jS "badAddr"]
  | .miss q => .arr [jS "miss", encQuery q]

/-- fold the items over the world, collecting answers; an oracle miss aborts the case -/
def go (env : Env) (fuel : Nat) : World → List Json → List Json → Except JS.Query (List Json)
  | _, [], acc => .ok acc.reverse
  | w, item :: rest, acc =>
    match item with
    | .arr (.str k :: a :: .str kind :: args) =>
      if String.ofList k = "probe" then
        match asNatJ a, decQuery (String.ofList kind) args with
        | some a, some q =>
          match probe env builtinImpl fuel w a q with
          | .miss mq => .error mq
          | ans => go env fuel w rest (encAnswer ans :: acc)
        | _, _ => go env fuel w rest (.arr [jS "bad-item"] :: acc)
      else
        match decDOp item with
        | none => go env fuel w rest (.arr [jS "bad-item"] :: acc)
        | some op =>
          match step env w op with
          | (_, .miss mq) => .error mq
          | (w', r) => go env fuel w' rest (encResult r :: acc)
    | _ =>
      match decDOp item with
      | none => go env fuel w rest (.arr [jS "bad-item"] :: acc)
      | some op =>
        match step env w op with
        | (_, .miss mq) => .error mq
        | (w', r) => go env fuel w' rest (encResult r :: acc)

def run (env : Env) (p : Json) : Except JS.Query Json :=
  let items := match fld p "items" with | some (.arr xs) => xs | _ => []
  let fuel := (optNat (fld p "fuel")).getD 60
  match go env fuel Derive.initial items [] with
  | .ok answers => .ok (.arr answers)
  | .error q => .error q

end JS.Chan.DER
