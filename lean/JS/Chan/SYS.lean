/-
  JS.Chan.SYS — the `SYS` correspondence channel (C18): several validator objects alive at once,
  their `iter_errors` generators advanced by `next()` in the order a schedule gives.
  `Except.error q` = oracle miss (the driver asks and re-runs).

  payload  { vals  : [ { cls, fc, schema, resolver, insts : [instance …], fuel : null | nat } … ],
             sched : [ [validator index, generator index] … ] }
         | { vals : …, scheds : [ sched … ] }        (a batch: every schedule from the same initial system)
           `cls`/`fc`/`resolver` exactly as in the VAL and HIST channels (`Channels.decCfg`,
           `Channels.setupResolver`); generator `j` of a validator is `v.iter_errors(insts[j])`.
  result   { ctor : [i, exc] }                       (building validator `i` raised)
         | { events : [event …] }                    one per schedule step
         | { runs : [ [event …] … ] }                for a batch, one event list per schedule
  event    ["error", err] | ["done"] | ["raised", exc] | ["fuel"] | ["busy"] | ["noIter"]

  Every validator has its own world: the driver's oracle table is global, so the retrieval and
  format questions of validator `i` are asked under the names `v<i>:<uri>` and `v<i>:<format>`
  (`tag`); the pure oracles (`re`, `urllib.parse`, `sorted`, set order) are shared.
-/
import JS.Channels
import JS.System
namespace JS.Chan.SYS
open JS JS.Codec JS.Channels

/-- the prefix under which validator `i` asks about its own handlers and format functions -/
def tag (i : Nat) : Str := ("v" ++ toString i ++ ":").toList

/-- a question of validator `i` as the (global) oracle table knows it -/
def retag (i : Nat) : Query → Query
  | .fetch n u => .fetch n (tag i ++ u)
  | .fmt name s => .fmt (tag i ++ name) s
  | q => q

/-- validator `i` of the payload: `Res` as in `setupResolver` -/
def decVal (env : Env) (i : Nat) (p : Json) : Res VState :=
  let (cfg, _) := decCfg (fldD p "cls" .null) (fldD p "fc" .null)
  let schema := fldD p "schema" .null
  let insts := match fld p "insts" with | some (.arr xs) => xs | _ => []
  match setupResolver env cfg schema p with
  | .ok st =>
    .ok { cfg := cfg, schema := schema, fuel := (optNat (fld p "fuel")).getD 200,
          handlers := fun n u => env.fetch n (tag i ++ u),
          formats := fun name s => env.fmt (tag i ++ name) s,
          rstate := st, iters := insts.map Iter.fresh }
  | .raise e => .raise e
  | .miss q => .miss q

def decSched (j : Option Json) : Schedule :=
  match j with
  | some (.arr rows) => rows.filterMap fun r => match r with
      | .arr [a, b] => match asNatJ a, asNatJ b with
          | some a, some b => some (a, b)
          | _, _ => none
      | _ => none
  | _ => []

def encEvent : Event → Json
  | .error e => .arr [jS "error", encErr e]
  | .done => .arr [jS "done"]
  | .raised e => .arr [jS "raised", encExc e]
  | .other .fuel => .arr [jS "fuel"]
  | .other s => .arr [jS "other", encStop s]
  | .busy => .arr [jS "busy"]
  | .noIter => .arr [jS "noIter"]

/-- the first oracle miss among the events, as the global table must be asked -/
def firstMiss : Schedule → List Event → Option Query
  | s :: ss, e :: es =>
    match e with
    | .other (.miss q) => some (retag s.1 q)
    | _ => firstMiss ss es
  | _, _ => none

/-- build the validators in order; stop at the first that cannot be built -/
def decVals (env : Env) : Nat → List Json → Except (Nat × Res VState) (List VState)
  | _, [] => .ok []
  | i, p :: ps =>
    match decVal env i p with
    | .ok v =>
      match decVals env (i + 1) ps with
      | .ok vs => .ok (v :: vs)
      | .error x => .error x
    | r => .error (i, r)

def run (env : Env) (p : Json) : Except Query Json :=
  let vals := match fld p "vals" with | some (.arr xs) => xs | _ => []
  match decVals env 0 vals with
  | .error (_, .miss q) => .error q
  | .error (i, .raise e) => .ok (.obj [("ctor".toList, .arr [.num (.int i), encExc e])])
  | .error (_, .ok _) => .ok (.arr [jS "impossible"])
  | .ok vs =>
    let σ : System := ⟨Globals.initial, vs⟩
    match fld p "scheds" with
    | some (.arr ss) =>
      let runs := ss.map fun s => (decSched (some s), (runSched env noFmtImpl σ (decSched (some s))).1)
      match runs.findSome? (fun r => firstMiss r.1 r.2) with
      | some q => .error q
      | none => .ok (.obj [("runs".toList, .arr (runs.map fun r => .arr (r.2.map encEvent)))])
    | _ =>
      let sched := decSched (fld p "sched")
      let evs := (runSched env noFmtImpl σ sched).1
      match firstMiss sched evs with
      | some q => .error q
      | none => .ok (.obj [("events".toList, .arr (evs.map encEvent))])

end JS.Chan.SYS
