/-
  JS.Channels — one entry per correspondence channel: decode the payload, call one model
  entry point, encode the canonical result. `Except.error q` = oracle miss.
-/
import JS.Codec
import JS.Drafts
import JS.History
import JS.Module
import JS.Format
import JS.Spec.Equality
import JS.Spec.Numeric
import JS.Spec.Pointer
import JS.Spec.Valid
import JS.Py.EvalSrc
namespace JS.Channels
open JS JS.Codec

def fld (j : Json) (k : String) : Option Json := j.get? k.toList
def fldD (j : Json) (k : String) (d : Json) : Json := (fld j k).getD d
def strOf (j : Json) : Str := (asStr j).getD []
def stringOf (j : Json) : String := String.ofList (strOf j)
def optNat (j : Option Json) : Option Nat := j.bind asNatJ

def decKwFn (s : String) : KwFn :=
  match s with
  | "ref" => .ref | "additionalItems" => .additionalItems | "additionalProperties" => .additionalProperties
  | "const" => .const | "contains" => .contains | "exclusiveMinimum" => .exclusiveMinimum
  | "exclusiveMaximum" => .exclusiveMaximum | "minimum" => .minimum | "maximum" => .maximum
  | "multipleOf" => .multipleOf | "minItems" => .minItems | "maxItems" => .maxItems
  | "uniqueItems" => .uniqueItems | "pattern" => .pattern | "format" => .format
  | "minLength" => .minLength | "maxLength" => .maxLength | "dependencies" => .dependencies
  | "enum" => .enum | "type" => .type | "properties" => .properties | "required" => .required
  | "minProperties" => .minProperties | "maxProperties" => .maxProperties | "allOf" => .allOf
  | "anyOf" => .anyOf | "oneOf" => .oneOf | "not_" => .not_ | "if_" => .if_ | "items" => .items
  | "patternProperties" => .patternProperties | "propertyNames" => .propertyNames
  | "dependencies_draft3" => .dependencies_draft3 | "disallow_draft3" => .disallow_draft3
  | "extends_draft3" => .extends_draft3 | "items_draft3_draft4" => .items_draft3_draft4
  | "minimum_draft3_draft4" => .minimum_draft3_draft4 | "maximum_draft3_draft4" => .maximum_draft3_draft4
  | "properties_draft3" => .properties_draft3 | "type_draft3" => .type_draft3
  | "never" => .never
  | s => if s.startsWith "fail:" then .alwaysFail (s.drop 5).toString else .foreign s

def decTyFn (j : Json) : TyFn :=
  match j with
  | .str s =>
    match String.ofList s with
    | "isArray" => .isArray | "isBool" => .isBool | "isInteger" => .isInteger | "isNull" => .isNull
    | "isNumber" => .isNumber | "isObject" => .isObject | "isString" => .isString | "isAny" => .isAny
    | "isIntegerOrIntFloat" => .isIntegerOrIntFloat | "constTrue" => .const true | "constFalse" => .const false
    | s => .foreign s
  | .arr tys => .legacy (tys.map stringOf)
  | _ => .foreign "?"

def decFmtFn (s : String) : FmtFn :=
  match s with
  | "email" => .email | "ipv4" => .ipv4 | "ipv6" => .ipv6 | "date" => .date | _ => .oracle

/-- `null` = no checker; `"draft"` = the draft's own checker object; `"class"` = a fresh
    `FormatChecker()`; a list of `[name, fn, [raises…]]` = an explicit registry -/
def decFc (d : Option Draft) (j : Json) : Option FormatChecker :=
  match j with
  | .null => none
  | .str s =>
    match String.ofList s, d with
    | "draft", some d => some d.formats
    | _, _ => some Generated.classFormats
  | .arr rows => some ⟨rows.filterMap fun r => match r with
      | .arr [.str n, f, .arr rs] => some ⟨n, decFmtFn (stringOf f), rs.map stringOf⟩
      | _ => none⟩
  | _ => none

/-- a validator class: a draft tag, or an explicit table (C16) -/
def decCfg (j : Json) (fc : Json) : Cfg × Option Draft :=
  match j with
  | .str s =>
    match Draft.ofTag? (String.ofList s) with
    | some d => (d.cfg (decFc (some d) fc), some d)
    | none => (default, none)
  | cfgJ =>
    let kws := match fld cfgJ "keywords" with
      | some (.arr rows) => rows.filterMap fun r => match r with
          | .arr [.str k, f] => some (k, decKwFn (stringOf f)) | _ => none
      | _ => []
    let tys := match fld cfgJ "types" with
      | some (.arr rows) => rows.filterMap fun r => match r with
          | .arr [.str k, f] => some (k, decTyFn f) | _ => none
      | _ => []
    ({ keywords := kws, types := tys, idKey := strOf (fldD cfgJ "idKey" (.str [])),
       formatChecker := decFc none fc }, none)

def decStore (j : Option Json) : List (Str × Json) :=
  match j with
  | some (.arr rows) => rows.filterMap fun r => match r with
      | .arr [.str k, v] => some (k, v) | _ => none
  | _ => []

/-- the built-in format functions modelled in Lean (JS.Format); the rest go to the oracle -/
def noFmtImpl : FmtImpl := builtinImpl

def resToExcept {α : Type} (r : Res α) (onRaise : Exc → Json) : Except Query (Except Json α) :=
  match r with
  | .ok a => .ok (.ok a)
  | .raise e => .ok (.error (onRaise e))
  | .miss q => .error q

/-- the resolver a case describes (or the default `RefResolver.from_schema(schema)`) -/
def setupResolver (env : Env) (cfg : Cfg) (schema : Json) (p : Json) : Res RState :=
  let r := fldD p "resolver" (.obj [])
  let base := match fld r "base" with
    | some (.str b) => b
    | _ => match schema with
      | .obj kvs =>
        if Json.hasKey (skey "$ref") kvs then [] else
        match Json.lookup cfg.idKey kvs with | some (.str s) => s | _ => []
      | _ => []
  let cacheRemote := match fld r "cacheRemote" with | some (.bool b) => b | _ => true
  let memoCap := match fld r "memoCap" with | some .null => none | some j => asNatJ j | none => some 1024
  mkResolver env registeredMetas base schema (decStore (fld r "store")) cacheRemote memoCap

/-- the guarded evaluator of JS.Props.C03 (same definition; the driver must not import proofs):
    before every recursive evaluation the shape of the schema is checked -/
def guardRecD (d : Draft) (rec : Rec) : Rec :=
  fun i s => if Spec.shapedR d s then rec i s else raiseG (.crash "UNSHAPED-REFERENCE-TARGET")

def evalGD (env : Env) (impl : FmtImpl) (d : Draft) (fc : Option FormatChecker) : Nat → Rec
  | 0 => fun _ _ => stopG .fuel
  | n + 1 => evalStep env impl (d.cfg fc) (guardRecD d (evalGD env impl d fc n))

/-- forget which undocumented exception ended a run (a crash is a crash) -/
def crashBlind (o : Out) : Out :=
  match o.stop with
  | .raised (.crash _) => { o with stop := .raised (.crash "") }
  | _ => o

/-- VAL: one `iter_errors` run consumed per `budget`, from a fresh resolver -/
def runVAL (env : Env) (p : Json) : Except Query Json :=
  let (cfg, _) := decCfg (fldD p "cls" .null) (fldD p "fc" .null)
  let schema := match fld p "metaOf" with
    | some (.str t) => ((Draft.ofTag? (String.ofList t)).map Draft.metaSchema).getD .null
    | _ => fldD p "schema" .null
  let inst := fldD p "inst" .null
  let budget := optNat (fld p "budget")
  let fuel := (optNat (fld p "fuel")).getD 200
  match setupResolver env cfg schema p with
  | .miss q => .error q
  | .raise e => .ok (.obj [("ctor".toList, encExc e)])
  | .ok st =>
    let guarded := match fld p "guard" with | some (.bool true) => true | _ => false
    let o := match guarded, decCfg (fldD p "cls" .null) (fldD p "fc" .null) with
      | true, (c, some d) => evalGD env noFmtImpl d c.formatChecker fuel inst schema budget st
      | _, _ => eval env noFmtImpl cfg fuel inst schema budget st
    match o.stop with
    | .miss q => .error q
    | _ =>
      -- the same case through the evaluator whose keyword functions are the interpreted, regenerated
      -- source (JS.Py.EvalSrc); the harness reports any difference as a disagreement
      if guarded then .ok (encOut o) else
      let os := Py.evalSrc env noFmtImpl cfg fuel inst schema budget st
      match os.stop with
      | .miss q => .error q
      | _ =>
        let same := encOut (crashBlind o) == encOut (crashBlind os)
        -- … and through the evaluator whose layers are the interpreted source of the METHOD iter_errors
        let om := Py.evalMeth env noFmtImpl cfg schema fuel inst schema budget st
        match om.stop with
        | .miss q => .error q
        | _ =>
          -- where Python evaluates `None` as a schema it means the validator's own schema (tie_iter_errors_null);
          -- the model says AttributeError. That only happens when something that is not a schema is evaluated
          -- (a reference designating `null`): outside the domain, recognised by the guarded evaluator
          let sameM := encOut (crashBlind o) == encOut (crashBlind om) ||
            (match decCfg (fldD p "cls" .null) (fldD p "fc" .null) with
             | (c, some d) =>
               (match (evalGD env noFmtImpl d c.formatChecker fuel inst schema budget st).stop with
                | .raised (.crash "UNSHAPED-REFERENCE-TARGET") => true
                | _ => false)
             | _ => false)
          match encOut o with
          | .obj kvs => .ok (.obj (kvs ++ [("srcDiff".toList, if same then (if sameM then .null else encOut om) else encOut os)]))
          | j => .ok j

def decOp (j : Json) : Option Op :=
  match j with
  | .arr [.str k, a] =>
    match String.ofList k with
    | "isValid" => some (.isValid a)
    | "exhaust" => some (.exhaust a)
    | "validate" => some (.validate a)
    | "resolve" => (asStr a).map .resolve
    | _ => none
  | .arr [.str k, n, a] =>
    match String.ofList k, asNatJ n with
    | "take", some n => some (.take n a)
    | _, _ => none
  | _ => none

def encOpResult : OpResult → Json
  | .verdict b => .arr [jS "verdict", .bool b]
  | .errors es s => .arr [jS "errors", .arr (es.map encErr), encStop s]
  | .valid => .arr [jS "valid"]
  | .invalid e => .arr [jS "invalid", encErr e]
  | .resolved u d => .arr [jS "resolved", .str u, d]
  | .raised e => .arr [jS "raised", encExc e]
  | .other s => .arr [jS "other", encStop s]

def missOf : OpResult → Option Query
  | .errors _ (.miss q) => some q
  | .other (.miss q) => some q
  | _ => none

/-- HIST: a sequence of operations on one validator object -/
def runHIST (env : Env) (p : Json) : Except Query Json :=
  let (cfg, _) := decCfg (fldD p "cls" .null) (fldD p "fc" .null)
  let schema := fldD p "schema" .null
  let fuel := (optNat (fld p "fuel")).getD 200
  let ops := match fld p "ops" with | some (.arr os) => os.filterMap decOp | _ => []
  match setupResolver env cfg schema p with
  | .miss q => .error q
  | .raise e => .ok (.obj [("ctor".toList, encExc e)])
  | .ok st =>
    let (rs, _) := runHist env noFmtImpl cfg fuel schema st ops
    match rs.findSome? (fun r => missOf r.1) with
    | some q => .error q
    | none => .ok (.arr (rs.map fun r => .obj [("r".toList, encOpResult r.1), ("st".toList, encState r.2)]))

/-- PTR: `resolve_fragment(document, fragment)` -/
def runPTR (p : Json) : Json :=
  match resolveFragment (fldD p "doc" .null) (strOf (fldD p "frag" (.str []))) with
  | some v => .arr [jS "ok", v]
  | none => .arr [jS "RefResolutionError"]

/-- EQ: the equality helpers on a pair and on an array, next to the specification's answers -/
def runEQ (p : Json) : Json :=
  let a := fldD p "a" .null
  let b := fldD p "b" .null
  let xs := match fld p "arr" with | some (.arr xs) => xs | _ => []
  .obj [ ("equal".toList, .bool (equal a b)), ("pyEq".toList, .bool (pyEq a b)),
         ("jsonEq".toList, .bool (Spec.jsonEq a b)),
         ("uniq".toList, .bool (uniq xs)), ("allDistinct".toList, .bool (Spec.allDistinct xs)),
         ("wf".toList, .bool (Spec.WF a && Spec.WF b && Spec.WFList xs)) ]

def numOf (j : Json) : Num := match j with | .num n => n | _ => .int 0

/-- NUM: comparisons and `multipleOf` on a pair of numbers, next to exact rational answers -/
def runNUM (p : Json) : Json :=
  let i := numOf (fldD p "i" .null)
  let d := numOf (fldD p "d" .null)
  let vi := Spec.val i
  let vd := Spec.val d
  .obj [ ("lt".toList, .bool (Num.lt i d)), ("le".toList, .bool (Num.le i d)), ("eq".toList, .bool (Num.eq i d)),
         ("specLt".toList, .bool (decide (vi < vd))), ("specLe".toList, .bool (decide (vi ≤ vd))),
         ("specEq".toList, .bool (decide (vi = vd))),
         ("mult".toList, match multipleOfFailed i d with
            | .ok b => .bool b
            | .error c => jS c),
         ("specMult".toList, if vd = 0 then .null else .bool (decide ((vi / vd).den ≠ 1))),
         ("iIsDouble".toList, .bool ((i.toDouble.map fun f => Num.eq f i).getD false)),
         ("dIsDouble".toList, .bool ((d.toDouble.map fun f => Num.eq f d).getD false)),
         ("quotient".toList, match i.toDouble, d.toDouble with
            | some fi, some fd => if fd.isZero then jS "zero" else
                (match Num.fdiv fi fd with | .inf => jS "inf" | .fin q => .num q)
            | _, _ => jS "overflow") ]

def decPath (j : Json) : List PathElem :=
  match j with
  | .arr xs => xs.filterMap fun x => match x with
      | .str k => some (.key k)
      | .num (.int n) => some (.idx n.toNat)
      | _ => none
  | _ => []

/-- an error as far as the tree is concerned: path, keyword, instance -/
def decTreeErr (j : Json) : Err :=
  let kw : Option Str := match fld j "kw" with | some (.str k) => some k | _ => none
  let info : Option Meta := match fld j "inst" with
    | some (.arr [x]) => some ⟨kw, .null, x, .null⟩
    | _ => none
  .mk ⟨stringOf (fldD j "id" (.str [])), []⟩ info (decPath (fldD j "path" (.arr []))) [] [] none

partial def encTree (t : Tree) : Json :=
  .obj [ ("errors".toList, .arr (t.errors.map fun (k, e) =>
            .arr [match k with | some k => .str k | none => .null, jS e.msg.tmpl])),
         ("children".toList, .arr (t.children.map fun (p, c) => .arr [encPath [p], encTree c])),
         ("inst".toList, match t.inst with | some i => .arr [i] | none => .null),
         ("total".toList, .num (.int t.totalErrors)) ]

/-- TREE: `ErrorTree(errors)` and a battery of `tree[...]` lookups -/
def runTREE (p : Json) : Json :=
  let es := match fld p "errors" with | some (.arr xs) => xs.map decTreeErr | _ => []
  let t := Tree.build es
  let qs := match fld p "queries" with | some (.arr xs) => xs.map decPath | _ => []
  let answer (q : List PathElem) : Json :=
    let rec go (t : Tree) : List PathElem → Json
      | [] => .arr [jS "ok", .num (.int t.totalErrors), encPath t.keys]
      | x :: rest => match t.getitem x with
          | .ok (c, _) => go c rest
          | .error cls => .arr [jS "raise", jS cls]
    go t q
  .obj [ ("tree".toList, encTree t), ("answers".toList, .arr (qs.map answer)) ]

def encModResult : ModResult → Json
  | .ok => .arr [jS "ok"]
  | .schemaError e => .arr [jS "SchemaError", encErr e]
  | .validationError e => .arr [jS "ValidationError", encErr e]
  | .raise e => .arr [jS "raised", encExc e]
  | .other s => .arr [jS "other", encStop s]

def classOfTag (t : Json) : Option ClassDef :=
  match t with
  | .str s => (Draft.ofTag? (String.ofList s)).map Draft.classDef
  | _ => none

/-- MOD: `jsonschema.validate`, `validator_for`, `check_schema`, `best_match` -/
def runMOD (env : Env) (p : Json) : Except Query Json :=
  let g := Globals.initial
  let schema := fldD p "schema" .null
  let inst := fldD p "inst" .null
  let fuel := (optNat (fld p "fuel")).getD 200
  let cls := classOfTag (fldD p "cls" .null)
  let fcD : Option Draft := match fldD p "cls" .null with | .str s => Draft.ofTag? (String.ofList s) | _ => none
  let fc := decFc fcD (fldD p "fc" .null)
  let vf : Json := match validatorFor env g ((classOfTag (fldD p "default" .null)).getD g.latest) schema with
    | .ok (c, w) => .arr [jS c.name, .bool w]
    | .raise e => .arr [jS "raised", encExc e]
    | .miss _ => .null
  let chk : Json := match cls with
    | some c => (match checkSchema env noFmtImpl g c fuel schema with
        | .ok => .arr [jS "ok"]
        | .schemaError e => .arr [jS "SchemaError", encErr e]
        | .raise e => .arr [jS "raised", encExc e]
        | .other s => .arr [jS "other", encStop s])
    | none => .null
  let (r, warned) := moduleValidate env noFmtImpl g fuel Generated.weakMatches Generated.strongMatches cls fc inst schema
  match r with
  | .other (.miss q) => .error q
  | _ =>
    match validatorFor env g g.latest schema with
    | .miss q => .error q
    | _ => .ok (.obj [ ("validate".toList, encModResult r), ("warned".toList, .bool warned),
                       ("validatorFor".toList, vf), ("checkSchema".toList, chk) ])

/-- every string occurring in a JSON value as an object key or as a string value -/
partial def stringsOf : Json → List Str
  | .str s => [s]
  | .arr xs => xs.flatMap stringsOf
  | .obj kvs => kvs.flatMap fun (k, v) => k :: stringsOf v
  | _ => []

/-- the regular expressions a schema uses: keys of `patternProperties`, values of `pattern` -/
partial def patternsOf : Json → List Str
  | .arr xs => xs.flatMap patternsOf
  | .obj kvs => kvs.flatMap fun (k, v) =>
      (if k == "patternProperties".toList then (match v with | .obj ps => ps.map (·.1) | _ => []) else [])
      ++ (if k == "pattern".toList then (match v with | .str p => [p] | _ => []) else [])
      ++ patternsOf v
  | _ => []

/-- SPEC: the specification's verdict and shape predicate (no implementation side) -/
def runSPEC (env : Env) (p : Json) : Except Query Json :=
  match (asStr (fldD p "d" .null)).bind (fun t => Draft.ofTag? (String.ofList t)) with
  | none => .ok (.arr [jS "bad-draft"])
  | some d =>
    let schema := fldD p "schema" .null
    let inst := fldD p "inst" .null
    let need := (patternsOf schema).eraseDups.flatMap fun pat => (stringsOf inst).eraseDups.map fun s => (pat, s)
    match need.find? (fun ps => (env.reSearch ps.1 ps.2).isNone) with
    | some (pat, s) => .error (.reSearch pat s)
    | none =>
      .ok (.obj [ ("valid".toList, .bool (Spec.valid env d schema inst)),
                  ("shaped".toList, .bool (Spec.shaped d schema)),
                  ("shapedR".toList, .bool (Spec.shapedR d schema)),
                  ("numSafe".toList, .bool (Spec.numSafe schema)),
                  ("typesKnown".toList, .bool (Spec.typesKnown d schema)),
                  ("wf".toList, .bool (Spec.WF schema && Spec.WF inst)) ])

/-- FMT: `FormatChecker.check(instance, format)` on a described checker -/
def runFMT (env : Env) (p : Json) : Except Query Json :=
  let d : Option Draft := match fldD p "cls" .null with | .str s => Draft.ofTag? (String.ofList s) | _ => none
  match decFc d (fldD p "fc" .null) with
  | none => .ok (.arr [jS "no-checker"])
  | some fc =>
    match fmtCheck env builtinImpl fc (fldD p "inst" .null) (strOf (fldD p "name" (.str []))) with
    | .miss q => .error q
    | .raise e => .ok (.arr [jS "raised", encExc e])
    | .ok none => .ok (.arr [jS "ok"])
    | .ok (some cause) => .ok (.arr [jS "FormatError", match cause with | some c => jS c | none => .null])

def run (ch : String) (env : Env) (p : Json) : Except Query Json :=
  match ch with
  | "FMT" => runFMT env p
  | "VAL" => runVAL env p
  | "HIST" => runHIST env p
  | "MOD" => runMOD env p
  | "SPEC" => runSPEC env p
  | "PTR" => .ok (runPTR p)
  | "EQ" => .ok (runEQ p)
  | "NUM" => .ok (runNUM p)
  | "TREE" => .ok (runTREE p)
  | _ => .ok (.arr [jS "unknown-channel"])

end JS.Channels
