/-
  JS.Cli — model of the command line `python -m jsonschema` (jsonschema/cli.py): `parse_args`'s
  two post-parse rules, `_Outputter.load`, `_validate_instance` and `run` (C19).

  Files are a finite map path ↦ {missing, not JSON, JSON value}; what the program writes is a
  list of structured events per stream. The wording of a diagnostic (`repr` of a path, the text of
  a `JSONDecodeError`, a traceback, `str.format` of `--error-format`) is rendered by the harness
  from the events; the one text with no such ingredient — the success line — is modelled
  (`successText`), so that "plain mode writes nothing to stdout" is a statement about the model.

  The loop over the instances is a fold of the named step `stepInstance` over ONE resolver state,
  exactly as the code creates one validator object for all instances.
-/
import JS.Module
namespace JS.Cli
open JS

/-! ### files and arguments -/

/-- what `open(path)` + `json.load` find -/
inductive FileState where
  | missing                 -- `open` raises ENOENT
  | notJson                 -- `json.load` raises `JSONDecodeError`
  | json (v : Json)
deriving Inhabited

/-- a file system: path ↦ state, first binding wins, an absent path is a missing file -/
abbrev FS := List (Str × FileState)

def lookupFile (fs : FS) (p : Str) : FileState :=
  match fs with
  | [] => .missing
  | (k, s) :: rest => if k = p then s else lookupFile rest p

inductive OutputMode where
  | plain | pretty
deriving DecidableEq, Repr, Inhabited

/-- `vars(parser.parse_args(argv))` -/
structure Args where
  schema : Str
  instances : List Str              -- `-i` occurrences in order; `[]` = none given (`None`)
  output : OutputMode
  errorFormat : Option Str          -- only recorded: rendering is the harness's
  validator : Option ClassDef       -- `--validator`, already resolved to a class
  baseUri : Option Str
deriving Inhabited

def defaultErrorFormat : Str := "{error.instance}: {error.message}\n".toList

inductive Parsed where
  | usageError                      -- `parser.error(...)`: SystemExit(2) before anything runs
  | ok (a : Args)
deriving Inhabited

/-- the two rules `parse_args` applies after argparse: `--error-format` (a non-empty one: the test
    is truthiness) is refused unless the output is plain; plain output without a format gets the
    default one -/
def parseArgs (a : Args) : Parsed :=
  match a.output, a.errorFormat with
  | .pretty, none => .ok a
  | .pretty, some f => if f.isEmpty then .ok a else .usageError
  | .plain, none => .ok { a with errorFormat := some defaultErrorFormat }
  | .plain, some _ => .ok a

/-! ### what is written -/

inductive Event where
  | notFound (path : Str)                    -- `filenotfound_error`
  | parseError (path : Str)                  -- `parsing_error`
  | validationError (path : Str) (e : Err)   -- `validation_error` for an error of an instance
  | schemaError (path : Str) (e : Err)       -- `validation_error` for the `SchemaError` of the schema
  | success (path : Str)                     -- `validation_success`
deriving Inhabited

/-- `validation_success` of the two formatters -/
def successText : OutputMode → Str → Str
  | .plain, _ => []
  | .pretty, p => "===[SUCCESS]===(".toList ++ p ++ ")===\n".toList

/-- the text a list of stdout events amounts to (only `success` is ever written to stdout) -/
def stdoutText (mode : OutputMode) (evs : List Event) : Str :=
  evs.flatMap fun ev => match ev with
    | .success p => successText mode p
    | _ => []

/-- how `run` ends: `return code`, or something escapes it (a library exception such as
    `RefResolutionError`; model artefacts: the recursion bound, an unanswered oracle question) -/
inductive Ending where
  | exit (code : Nat)
  | escaped (s : Stop)
deriving Inhabited

structure CliResult where
  ending : Ending
  stderr : List Event
  stdout : List Event
deriving Inhabited

/-- the status of the process: what `run` returns goes to `sys.exit`; an uncaught exception ends
    the interpreter with status 1 -/
def CliResult.status (r : CliResult) : Nat :=
  match r.ending with
  | .exit n => n
  | .escaped _ => 1

/-! ### loading -/

def stdinPath : Str := "<stdin>".toList

/-- `instances` of `run`: the `-i` paths, or the single pseudo-path `<stdin>` -/
def paths (args : Args) : List Str :=
  if args.instances.isEmpty then [stdinPath] else args.instances

/-- the text on standard input is there whatever it is: anything but a JSON value is a parse error -/
def stdinState (stdin : FileState) : FileState :=
  match stdin with
  | .json v => .json v
  | _ => .notJson

/-- what `load(each)` finds: `outputter.load` on the file system, or — when no `-i` was given —
    `json.load(stdin)` whatever the argument -/
def source (fs : FS) (stdin : FileState) (args : Args) : Str → FileState :=
  if args.instances.isEmpty then fun _ => stdinState stdin else lookupFile fs

/-! ### one instance -/

/-- everything the loop body needs and never changes -/
structure Session where
  env : Env
  impl : FmtImpl
  cfg : Cfg
  fuel : Nat
  schema : Json
  source : Str → FileState

/-- what processing one listed instance does -/
structure InstOut where
  path : Str
  loaded : Bool                 -- `load(each)` did not raise `_CannotLoadFile`
  invalid : Bool                -- the value `_validate_instance` returns (would return)
  stderr : List Event
  stdout : List Event
  abort : Option Stop           -- something escaped `iter_errors` (after the errors before it were written)
  st : RState                   -- the validator's resolver afterwards

/-- does this instance turn the exit code to 1 -/
def InstOut.failed (o : InstOut) : Bool := !o.loaded || o.invalid

/-- does this instance leave the run on its way to status 0 -/
def InstOut.clean (o : InstOut) : Bool := !o.failed && o.abort.isNone

/-- `_validate_instance(path, instance, validator, outputter)` given what
    `validator.iter_errors(instance)` yields (`o.errs`), how it ends (`o.stop`) and the resolver
    it leaves: one event per error as it arrives, and the success event iff the iteration ended
    normally without any -/
def validated (p : Str) (o : Out) : InstOut :=
  match o.stop with
  | .done =>
      ⟨p, true, !o.errs.isEmpty, o.errs.map (.validationError p),
       if o.errs.isEmpty then [.success p] else [], none, o.st⟩
  | stop =>
      ⟨p, true, !o.errs.isEmpty, o.errs.map (.validationError p), [], some stop, o.st⟩

/-- the body of the `for each in instances` loop, from resolver state `st`:
    `load`, then `_validate_instance` on the ONE validator object (exhaustive `iter_errors`) -/
def instanceOut (s : Session) (st : RState) (p : Str) : InstOut :=
  match s.source p with
  | .missing => ⟨p, false, false, [.notFound p], [], none, st⟩
  | .notJson => ⟨p, false, false, [.parseError p], [], none, st⟩
  | .json v => validated p (eval s.env s.impl s.cfg s.fuel v s.schema none st)

/-! ### the loop -/

/-- the variables of the loop: the validator's resolver, `exit_code`, the two streams, and whether
    an exception is on its way out -/
structure Loop where
  st : RState
  exitCode : Nat
  stderr : List Event
  stdout : List Event
  abort : Option Stop

def Loop.init (st : RState) : Loop := ⟨st, 0, [], [], none⟩

/-- `except _CannotLoadFile: exit_code = 1` / `else: exit_code |= invalid` -/
def nextExitCode (code : Nat) (o : InstOut) : Nat :=
  if o.loaded then code ||| (if o.invalid then 1 else 0) else 1

def Loop.absorb (acc : Loop) (o : InstOut) : Loop :=
  { st := o.st, exitCode := nextExitCode acc.exitCode o,
    stderr := acc.stderr ++ o.stderr, stdout := acc.stdout ++ o.stdout, abort := o.abort }

/-- one iteration; nothing runs once an exception is propagating -/
def stepInstance (s : Session) (acc : Loop) (p : Str) : Loop :=
  match acc.abort with
  | some _ => acc
  | none => acc.absorb (instanceOut s acc.st p)

def loop (s : Session) (st : RState) (ps : List Str) : Loop :=
  ps.foldl (stepInstance s) (Loop.init st)

def Loop.result (l : Loop) : CliResult :=
  match l.abort with
  | none => ⟨.exit l.exitCode, l.stderr, l.stdout⟩
  | some s => ⟨.escaped s, l.stderr, l.stdout⟩

/-! ### before the loop -/

def stopOfRes {α : Type} : Res α → Option Stop
  | .ok _ => none
  | .raise e => some (.raised e)
  | .miss q => some (.miss q)

/-- `arguments["validator"]`: the `--validator` class, else `validator_for(schema)` -/
def classFor (env : Env) (g : Globals) (args : Args) (schema : Json) : Res ClassDef :=
  match args.validator with
  | some c => .ok c
  | none =>
    match validatorFor env g g.latest schema with
    | .ok (c, _) => .ok c
    | .raise e => .raise e
    | .miss q => .miss q

/-- the resolver of the validator object: `RefResolver(base_uri=…, referrer=schema)` with
    `--base-uri`, otherwise the one `cls(schema)` builds for itself -/
def resolverFor (env : Env) (g : Globals) (args : Args) (c : ClassDef) (schema : Json) : Res RState :=
  match args.baseUri with
  | some b => mkResolver env (g.metaSchemas.map fun p => (p.1, p.2.metaSchema)) b schema [] true (some 1024)
  | none => freshResolver env g c schema

/-- the class as the command line instantiates it: no format checker is ever passed -/
def cliCfg (c : ClassDef) : Cfg := { c.cfg with formatChecker := none }

/-- everything up to the loop: the run is over (`done r`), or the validator object exists -/
inductive Setup where
  | done (r : CliResult)
  | ready (c : ClassDef) (schema : Json) (st : RState)
deriving Inhabited

def escapeNow (s : Stop) : Setup := .done ⟨.escaped s, [], []⟩

def setup (env : Env) (impl : FmtImpl) (g : Globals) (fuel : Nat) (fs : FS) (args : Args) : Setup :=
  match lookupFile fs args.schema with
  | .missing => .done ⟨.exit 1, [.notFound args.schema], []⟩
  | .notJson => .done ⟨.exit 1, [.parseError args.schema], []⟩
  | .json schema =>
    match classFor env g args schema with
    | .raise e => escapeNow (.raised e)
    | .miss q => escapeNow (.miss q)
    | .ok c =>
      match checkSchema env impl g c fuel schema with
      | .schemaError e => .done ⟨.exit 1, [.schemaError args.schema e], []⟩
      | .raise e => escapeNow (.raised e)
      | .other s => escapeNow s
      | .ok =>
        match resolverFor env g args c schema with
        | .raise e => escapeNow (.raised e)
        | .miss q => escapeNow (.miss q)
        | .ok st => .ready c schema st

def session (env : Env) (impl : FmtImpl) (fuel : Nat) (fs : FS) (stdin : FileState) (args : Args)
    (c : ClassDef) (schema : Json) : Session :=
  ⟨env, impl, cliCfg c, fuel, schema, source fs stdin args⟩

/-- `run(arguments, stdout, stderr, stdin)` -/
def run (env : Env) (impl : FmtImpl) (g : Globals) (fuel : Nat) (fs : FS) (stdin : FileState)
    (args : Args) : CliResult :=
  match setup env impl g fuel fs args with
  | .done r => r
  | .ready c schema st =>
    (loop (session env impl fuel fs stdin args c schema) st (paths args)).result

/-- `main`: `run(parse_args(argv))`; `none` = the usage error -/
def main (env : Env) (impl : FmtImpl) (g : Globals) (fuel : Nat) (fs : FS) (stdin : FileState)
    (raw : Args) : Option CliResult :=
  match parseArgs raw with
  | .usageError => none
  | .ok a => some (run env impl g fuel fs stdin a)

/-! ### the per-instance outputs, threaded (what the theorems speak about) -/

/-- the outputs of the listed instances one after the other, each from the state the previous one left -/
def outs (s : Session) : RState → List Str → List InstOut
  | _, [] => []
  | st, p :: ps => instanceOut s st p :: outs s (instanceOut s st p).st ps

/-- the outputs actually produced: up to and including the first one an exception escapes from -/
def reached : List InstOut → List InstOut
  | [] => []
  | o :: os => match o.abort with
    | some _ => [o]
    | none => o :: reached os

/-- every listed instance loads and has no errors (nothing escaping), in the states the loop meets -/
def AllValid (s : Session) : RState → List Str → Prop
  | _, [] => True
  | st, p :: ps =>
    (∃ v, s.source p = .json v
      ∧ (eval s.env s.impl s.cfg s.fuel v s.schema none st).errs = []
      ∧ (eval s.env s.impl s.cfg s.fuel v s.schema none st).stop = .done)
    ∧ AllValid s (eval s.env s.impl s.cfg s.fuel
        (match s.source p with | .json v => v | _ => .null) s.schema none st).st ps

/-- the diagnostics of unreadable / unparsable files among the events -/
def Event.isDiagnostic : Event → Bool
  | .notFound _ => true
  | .parseError _ => true
  | _ => false

/-- the diagnostic a listed path calls for, if any -/
def diagnosticOf (src : Str → FileState) (p : Str) : Option Event :=
  match src p with
  | .missing => some (.notFound p)
  | .notJson => some (.parseError p)
  | .json _ => none

end JS.Cli
