/-
  JS.Codec — the line protocol's value encoding (driver only; nothing is proved about it).
  A JSON value is a sequence of space-separated tokens:
    N | T | F | I <int> | D <neg> <m> <e> | S <n> <cp>*n | A <n> <json>*n | O <n> (S-key json)*n
-/
import JS.Eval
namespace JS

mutual
def Json.beq : Json → Json → Bool
  | .null, .null => true
  | .bool a, .bool b => a == b
  | .num a, .num b => a == b
  | .str a, .str b => a == b
  | .arr xs, .arr ys => Json.beqList xs ys
  | .obj xs, .obj ys => Json.beqKvs xs ys
  | _, _ => false
def Json.beqList : List Json → List Json → Bool
  | [], [] => true
  | x :: xs, y :: ys => Json.beq x y && Json.beqList xs ys
  | _, _ => false
def Json.beqKvs : List (Str × Json) → List (Str × Json) → Bool
  | [], [] => true
  | (k, x) :: xs, (k', y) :: ys => k == k' && Json.beq x y && Json.beqKvs xs ys
  | _, _ => false
end

instance : BEq Json := ⟨Json.beq⟩

namespace Codec

def encStr (s : Str) (acc : Array String) : Array String :=
  s.foldl (fun a c => a.push (toString c.toNat)) (acc.push "S" |>.push (toString s.length))

partial def enc (j : Json) (acc : Array String) : Array String :=
  match j with
  | .null => acc.push "N"
  | .bool true => acc.push "T"
  | .bool false => acc.push "F"
  | .num (.int v) => acc.push "I" |>.push (toString v)
  | .num (.flt neg m e) => acc.push "D" |>.push (if neg then "1" else "0") |>.push (toString m) |>.push (toString e)
  | .str s => encStr s acc
  | .arr xs => xs.foldl (fun a x => enc x a) (acc.push "A" |>.push (toString xs.length))
  | .obj kvs => kvs.foldl (fun a kv => enc kv.2 (encStr kv.1 a)) (acc.push "O" |>.push (toString kvs.length))

def encode (j : Json) : String := " ".intercalate (enc j #[]).toList

structure P where
  toks : Array String
  pos : Nat

def P.next (p : P) : Option (String × P) :=
  if h : p.pos < p.toks.size then some (p.toks[p.pos], { p with pos := p.pos + 1 }) else none

def pNat (p : P) : Option (Nat × P) := do
  let (t, p) ← p.next
  let n ← t.toNat?
  pure (n, p)

def pInt (p : P) : Option (Int × P) := do
  let (t, p) ← p.next
  let n ← t.toInt?
  pure (n, p)

def pStrBody (p : P) : Option (Str × P) := do
  let (n, p) ← pNat p
  let mut p := p
  let mut acc : Array Char := #[]
  for _ in [0:n] do
    let (c, p') ← pNat p
    acc := acc.push (Char.ofNat c)
    p := p'
  pure (acc.toList, p)

partial def pJson (p : P) : Option (Json × P) := do
  let (t, p) ← p.next
  match t with
  | "N" => pure (.null, p)
  | "T" => pure (.bool true, p)
  | "F" => pure (.bool false, p)
  | "I" => do let (v, p) ← pInt p; pure (.num (.int v), p)
  | "D" => do
      let (neg, p) ← pNat p
      let (m, p) ← pNat p
      let (e, p) ← pInt p
      pure (.num (.flt (neg == 1) m e), p)
  | "S" => do let (s, p) ← pStrBody p; pure (.str s, p)
  | "A" => do
      let (n, p) ← pNat p
      let mut p := p
      let mut acc : Array Json := #[]
      for _ in [0:n] do
        let (x, p') ← pJson p
        acc := acc.push x
        p := p'
      pure (.arr acc.toList, p)
  | "O" => do
      let (n, p) ← pNat p
      let mut p := p
      let mut acc : Array (Str × Json) := #[]
      for _ in [0:n] do
        let (t, p1) ← p.next
        if t != "S" then none
        let (k, p2) ← pStrBody p1
        let (x, p3) ← pJson p2
        acc := acc.push (k, x)
        p := p3
      pure (.obj acc.toList, p)
  | _ => none

def decodeToks (toks : Array String) : Option Json := do
  let (j, p) ← pJson ⟨toks, 0⟩
  if p.pos == toks.size then pure j else none

/-! ### encoders of model results -/

def jS (s : String) : Json := .str s.toList

def encPath (p : List PathElem) : Json :=
  .arr (p.map fun | .key k => .str k | .idx n => .num (.int n))

partial def encErr : Err → Json
  | .mk m info path sp ctx cause =>
    .obj [ ("t".toList, jS m.tmpl), ("a".toList, .arr m.args),
           ("info".toList, match info with
              | none => .null
              | some i => .obj [("kw".toList, match i.kw with | some k => .str k | none => .null),
                                ("kwVal".toList, i.kwVal), ("inst".toList, i.inst), ("schema".toList, i.schema)]),
           ("path".toList, encPath path), ("spath".toList, encPath sp),
           ("ctx".toList, .arr (ctx.map encErr)),
           ("cause".toList, match cause with | some c => jS c | none => .null) ]

def encQuery : Query → Json
  | .reSearch p s => .arr [jS "re", .str p, .str s]
  | .urljoin a b => .arr [jS "urljoin", .str a, .str b]
  | .urldefrag u => .arr [jS "urldefrag", .str u]
  | .urinorm u => .arr [jS "urinorm", .str u]
  | .scheme u => .arr [jS "scheme", .str u]
  | .sortPerm xs => .arr [jS "sort", .arr xs]
  | .setOrder xs => .arr [jS "setorder", .arr (xs.map .str)]
  | .fetch n u => .arr [jS "fetch", .num (.int n), .str u]
  | .fmt name s => .arr [jS "fmt", .str name, s]

def encExc : Exc → Json
  | .refResolution => .arr [jS "RefResolutionError"]
  | .unknownType t => .arr [jS "UnknownType", t]
  | .crash c => .arr [jS "crash", jS c]
  | .custom c => .arr [jS "custom", jS c]

def encStop : Stop → Json
  | .done => .arr [jS "done"]
  | .budget => .arr [jS "budget"]
  | .raised e => .arr [jS "raised", encExc e]
  | .fuel => .arr [jS "fuel"]
  | .miss q => .arr [jS "miss", encQuery q]

def encState (st : RState) : Json :=
  .obj [ ("scopes".toList, .arr (st.scopes.map .str)),
         ("storeKeys".toList, .arr (st.store.map (.str ·.1))),
         ("memoKeys".toList, .arr (st.memo.map (.str ·.1))),
         ("fetchLog".toList, .arr (st.fetchLog.map fun (u, ok) => .arr [.str u, .bool ok])),
         ("clock".toList, .num (.int st.clock)) ]

def encOut (o : Out) : Json :=
  .obj [ ("errs".toList, .arr (o.errs.map encErr)), ("stop".toList, encStop o.stop), ("st".toList, encState o.st) ]

/-! ### oracle tables: query (as JSON) ↦ answer (as JSON) -/

abbrev Table := List (Json × Json)

def Table.find (t : Table) (q : Json) : Option Json :=
  match t.find? (fun p => p.1 == q) with
  | some p => some p.2
  | none => none

def asStr : Json → Option Str | .str s => some s | _ => none
def asNatJ : Json → Option Nat | .num (.int v) => if 0 ≤ v then some v.toNat else none | _ => none

/-- the `Env` a table denotes -/
def envOf (t : Table) : Env where
  reSearch p s := match t.find (encQuery (.reSearch p s)) with
    | some (.bool b) => some (some b) | some .null => some none | _ => none
  urljoin a b := (t.find (encQuery (.urljoin a b))).bind asStr
  urldefrag u := match t.find (encQuery (.urldefrag u)) with
    | some (.arr [.str a, .str b]) => some (a, b) | _ => none
  urinorm u := (t.find (encQuery (.urinorm u))).bind asStr
  scheme u := (t.find (encQuery (.scheme u))).bind asStr
  sortPerm xs := match t.find (encQuery (.sortPerm xs)) with
    | some .null => some none
    | some (.arr ps) => some (some (ps.filterMap asNatJ))
    | _ => none
  setOrder xs := match t.find (encQuery (.setOrder xs)) with
    | some (.arr ys) => some (ys.filterMap asStr) | _ => none
  fetch n u := match t.find (encQuery (.fetch n u)) with
    | some (.arr [d]) => some (some d) | some .null => some none | _ => none
  fmt name s := match t.find (encQuery (.fmt name s)) with
    | some (.bool b) => some (.ret b)
    | some (.arr cs) => some (.raise (cs.filterMap fun c => (asStr c).map String.ofList))
    | _ => none

end Codec
end JS
