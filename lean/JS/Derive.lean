/-
  JS.Derive — C16: objects with identity.  An executable heap model of the *derivation* operations
  of `jsonschema` (`TypeChecker.redefine/redefine_many/remove`, `validators.create/extend/validates`,
  `Validator(schema, types=…)`, `FormatChecker(formats=…)/checks/cls_checks`) and of the behavioural
  probes that observe the objects they produce.

  The heap is a `List Cell` addressed by position.  Every Python `dict` that the code copies or could
  alias is a cell of its own, so "copy" (`dict(x)`, `.copy()`: a NEW dict cell) and "alias" (the same
  address) are different model terms; the model says *copy* exactly where the code copies:

    create:   `VALIDATORS = dict(validators)`            → new `kwDict` cell
    extend:   `all_validators = dict(validator.VALIDATORS)`, then `create` copies again
              (the intermediate dict is garbage: only the final copy is allocated)
    extend:   `type_checker = validator.TYPE_CHECKER`     → ALIAS of the (immutable) checker cell
    __init__: `self.TYPE_CHECKER = self.TYPE_CHECKER.redefine_many(…)` → new checker cell referenced by
              the INSTANCE (`typeCheckerOverride`), the class cell is not touched
    FormatChecker(): `self.checkers = self.checkers.copy()` → new `fmtDict` cell
    FormatChecker(formats): `dict((k, self.checkers[k]) for k in formats)` → new `fmtDict` cell
    checks:   `self.checkers[format] = …`                → IN-PLACE update of the instance's own cell
    cls_checks: the same on the class-level cell (address `clsRegistry`)

  The only in-place updates are therefore: `checks` (the instance's dict), `cls_checks` (the class-level
  dict) and — so that a missing copy in `create`/`extend` is observable — the caller updating a dict of
  its own that it passed (or will pass) as the `validators` argument (`userSet`).

  Dict cells carry a ghost `owner` (the object whose attribute they are); it is never read by a probe.
-/
import JS.Module
import JS.Format
namespace JS.Derive
open JS

abbrev Addr := Nat

/-- a format function, as far as the model knows: a menu constant (`lambda x: b`), or one of the
    built-in functions (`FmtFn.oracle`: answered by `env.fmt <entry name>`) -/
inductive FFn where
  | const (b : Bool)
  | builtin (f : FmtFn)
deriving Repr, DecidableEq, Inhabited

/-- `checkers[name] = (func, raises)` -/
structure FEntry where
  name : Str
  fn : FFn
  raises : List String
deriving Repr, DecidableEq, Inhabited

inductive Cell where
  /-- `TypeChecker` (frozen; its pmap is persistent): never updated -/
  | typeChecker (m : List (Str × TyFn))
  /-- a `dict` keyword ↦ function: `owner = some c`: `c.VALIDATORS`; `none`: a dict of the caller -/
  | kwDict (owner : Option Addr) (kvs : List (Str × KwFn))
  /-- a `dict` format ↦ (func, raises): `owner = some f`: `f.checkers` of the instance `f`;
      `none`: the class attribute `FormatChecker.checkers` -/
  | fmtDict (owner : Option Addr) (es : List FEntry)
  /-- a validator class -/
  | cls (validators : Addr) (typeChecker : Addr) (idKey : Str) (metaSchema : Json)
        (createdWithDefaultTypes : Option Bool)
  /-- a `FormatChecker` instance -/
  | formatChecker (checkers : Addr)
  /-- a validator instance; `metas` is what `RefResolver.from_schema` copied out of `meta_schemas`
      when the instance was constructed -/
  | validator (cls : Addr) (typeCheckerOverride : Option Addr) (schema : Json)
        (formatChecker : Option Addr) (metas : List (Str × Json))
deriving Repr, Inhabited

/-- heap and the two module-level registries (values are class addresses) -/
structure World where
  heap : List Cell
  validators : List (Str × Addr)        -- `validators.validators`
  metaSchemas : List (Str × Addr)       -- `validators.meta_schemas` (keys normalised)
deriving Repr, Inhabited

/-- `d[k] = v` on an association list: replace in place or append -/
def dictSet {α : Type} (k : Str) (v : α) : List (Str × α) → List (Str × α)
  | [] => [(k, v)]
  | (k', v') :: rest => if k' = k then (k, v) :: rest else (k', v') :: dictSet k v rest

/-- `d.update(defs)` -/
def dictUpdate {α : Type} (d : List (Str × α)) (defs : List (Str × α)) : List (Str × α) :=
  defs.foldl (fun acc kv => dictSet kv.1 kv.2 acc) d

def fmtSet (e : FEntry) : List FEntry → List FEntry
  | [] => [e]
  | e' :: rest => if e'.name = e.name then e :: rest else e' :: fmtSet e rest

def fmtFind (name : Str) (es : List FEntry) : Option FEntry := es.find? (fun e => e.name = name)

/-- `pmap.remove(name)` for each name in turn; `error name` = `UndefinedTypeCheck(name)` -/
def removeAll (m : List (Str × TyFn)) : List Str → Except Str (List (Str × TyFn))
  | [] => .ok m
  | n :: ns =>
    match lookupS n m with
    | none => .error n
    | some _ => removeAll (m.filter (fun p => p.1 ≠ n)) ns

/-- `_generate_legacy_type_checks(types)` -/
def legacyDefs (types : List (Str × List String)) : List (Str × TyFn) :=
  dictUpdate [] (types.map fun p => (p.1, TyFn.legacy p.2))

/-- `_DEPRECATED_DEFAULT_TYPES` -/
def deprecatedDefaultTypes : List (Str × List String) :=
  [("array".toList, ["list"]), ("boolean".toList, ["bool"]), ("integer".toList, ["int"]),
   ("null".toList, ["NoneType"]), ("number".toList, ["Number"]), ("object".toList, ["dict"]),
   ("string".toList, ["str"])]

/-! ### operations -/

/-- the `validators` argument: a literal mapping, or a dict object of the caller's -/
inductive KwArg where
  | lit (kvs : List (Str × KwFn))
  | ref (d : Addr)
deriving Repr, Inhabited

inductive DOp where
  | redefine (tc : Addr) (name : Str) (f : TyFn)
  | redefineMany (tc : Addr) (defs : List (Str × TyFn))
  | remove (tc : Addr) (names : List Str)
  | extend (c : Addr) (overrides : KwArg) (version : Option Str) (tc : Option Addr)
  | create (metaSchema : Json) (kws : KwArg) (version : Option Str)
      (defaultTypes : Option (List (Str × List String))) (tc : Option Addr) (idKey : Str)
  | newValidator (c : Addr) (schema : Json) (types : List (Str × List String)) (fc : Option Addr)
  | checks (fc : Addr) (name : Str) (fn : FFn) (raises : List String)
  | clsChecks (name : Str) (fn : FFn) (raises : List String)
  | newFormatChecker (formats : Option (List Str))
  | userDict (kvs : List (Str × KwFn))                  -- the caller builds a dict of its own
  | userSet (d : Addr) (k : Str) (f : KwFn)             -- … and updates it later
deriving Repr, Inhabited

inductive DResult where
  | created (a : Addr)         -- the new object (its auxiliary cells sit just below it)
  | done                       -- `checks` / `cls_checks` / `userSet`
  | raised (cls : String) (arg : Str)
  | badAddr                    -- the operand is not an object of the required kind (never sent)
  | miss (q : JS.Query)
deriving Repr, Inhabited

/-- what an operation does to the world -/
structure Effect where
  set : Option (Addr × Cell) := none       -- at most one existing cell is updated in place
  alloc : List Cell := []                  -- new cells, appended
  validators : Option (List (Str × Addr)) := none
  metaSchemas : Option (List (Str × Addr)) := none
  result : DResult
deriving Inhabited

/-- address of the class attribute `FormatChecker.checkers` -/
def clsRegistry : Addr := 0
/-- address of `_TYPE_CHECKER_FOR_DEPRECATED_DEFAULT_TYPES` -/
def deprecatedChecker : Addr := 1

def World.cell (w : World) (a : Addr) : Option Cell := w.heap[a]?

def kwArg (w : World) : KwArg → Option (List (Str × KwFn))
  | .lit kvs => some (dictUpdate [] kvs)      -- a dict literal: the last binding of a key wins
  | .ref d => match w.cell d with
      | some (.kwDict none kvs) => some kvs
      | _ => none

/-- `validates(version)(cls)` for the class about to be allocated at `a` -/
def validatesW (env : Env) (w : World) (version : Str) (a : Addr) (idKey : Str) (metaSchema : Json) :
    Res (List (Str × Addr) × List (Str × Addr)) :=
  let vs := (w.validators.filter (·.1 ≠ version)) ++ [(version, a)]
  match metaSchema with
  | .obj kvs =>
    if Json.hasKey (skey "$ref") kvs then .ok (vs, w.metaSchemas) else
    match Json.lookup idKey kvs with
    | some (.str u) =>
      if u.isEmpty then .ok (vs, w.metaSchemas) else
      match env.urinorm u with
      | none => .miss (.urinorm u)
      | some k => .ok (vs, (w.metaSchemas.filter (·.1 ≠ k)) ++ [(k, a)])
    | _ => .ok (vs, w.metaSchemas)
  | _ => .ok (vs, w.metaSchemas)

/-- the tail of `create`: the class statement (which copies `validators`) and `validates`.
    `pre` are cells allocated earlier in the same call (a new type checker). -/
def mkClass (env : Env) (w : World) (pre : List Cell) (kvs : List (Str × KwFn)) (tc : Addr)
    (idKey : Str) (metaSchema : Json) (cwdt : Option Bool) (version : Option Str) : Effect :=
  let d := w.heap.length + pre.length
  let c := d + 1
  let cells := pre ++ [.kwDict (some c) kvs, .cls d tc idKey metaSchema cwdt]
  match version with
  | none => { alloc := cells, result := .created c }
  | some v =>
    match validatesW env w v c idKey metaSchema with
    | .ok (vs, ms) => { alloc := cells, validators := some vs, metaSchemas := some ms, result := .created c }
    | .raise _ => { result := .badAddr }
    | .miss q => { result := .miss q }

/-- `{id: cls.META_SCHEMA for id, cls in meta_schemas.items()}` -/
def metasOf (w : World) : List (Str × Json) :=
  w.metaSchemas.filterMap fun p =>
    match w.cell p.2 with
    | some (.cls _ _ _ m _) => some (p.1, m)
    | _ => none

/-- the `format_checker` argument is a `FormatChecker` (or absent) -/
def fcOk (w : World) (fc : Option Addr) : Bool :=
  match fc with
  | none => true
  | some f => match w.cell f with | some (.formatChecker _) => true | _ => false

/-- `RefResolver.from_schema(schema, id_of=id_of)` in `__init__`: `_id_of` tolerates booleans,
    `_legacy_id_of` does not; both answer `""` when `"$ref" in schema`, which also holds of a list
    with that member and of a string with that substring; neither tolerates other non-dicts -/
def ctorOk (idKey : Str) (schema : Json) : Bool :=
  match schema with
  | .obj _ => true
  | .bool _ => idKey = "$id".toList
  | .arr xs => xs.contains (.str (skey "$ref"))
  | .str s => hasInfix (skey "$ref") s
  | _ => false

/-- the exception otherwise: `"$ref" in schema` (TypeError: not iterable), else `schema.get` -/
def ctorExc (schema : Json) : String :=
  match schema with
  | .arr _ => "AttributeError"
  | .str _ => "AttributeError"
  | _ => "TypeError"

def effect (env : Env) (w : World) (op : DOp) : Effect :=
  let n := w.heap.length
  match op with
  | .redefine tc name f =>
    match w.cell tc with
    | some (.typeChecker m) => { alloc := [.typeChecker (dictSet name f m)], result := .created n }
    | _ => { result := .badAddr }
  | .redefineMany tc defs =>
    match w.cell tc with
    | some (.typeChecker m) => { alloc := [.typeChecker (dictUpdate m defs)], result := .created n }
    | _ => { result := .badAddr }
  | .remove tc names =>
    match w.cell tc with
    | some (.typeChecker m) =>
      match removeAll m names with
      | .ok m' => { alloc := [.typeChecker m'], result := .created n }
      | .error nm => { result := .raised "UndefinedTypeCheck" nm }
    | _ => { result := .badAddr }
  | .extend c overrides version tc =>
    match w.cell c, kwArg w overrides with
    | some (.cls v t idKey ms cwdt), some ov =>
      match w.cell v with
      | some (.kwDict _ kvs) =>
        let all := dictUpdate kvs ov            -- `dict(validator.VALIDATORS)` then `.update(validators)`
        match tc with
        | none =>
          -- `type_checker = validator.TYPE_CHECKER`; then `create`'s classification
          mkClass env w [] all t idKey ms (if t = deprecatedChecker then some false else none) version
        | some t' =>
          if cwdt = some true then { result := .raised "TypeError" [] } else
          match w.cell t' with
          | some (.typeChecker _) =>
            mkClass env w [] all t' idKey ms (if t' = deprecatedChecker then some false else none) version
          | _ => { result := .badAddr }
      | _ => { result := .badAddr }
    | _, _ => { result := .badAddr }
  | .create ms kws version defaultTypes tc idKey =>
    match kwArg w kws with
    | none => { result := .badAddr }
    | some kvs =>
      match defaultTypes, tc with
      | some _, some _ => { result := .raised "TypeError" [] }
      | some dt, none => mkClass env w [.typeChecker (legacyDefs dt)] kvs n idKey ms (some true) version
      | none, none => mkClass env w [] kvs deprecatedChecker idKey ms (some false) version
      | none, some t =>
        match w.cell t with
        | some (.typeChecker _) =>
          mkClass env w [] kvs t idKey ms (if t = deprecatedChecker then some false else none) version
        | _ => { result := .badAddr }
  | .newValidator c schema types fc =>
    match w.cell c with
    | some (.cls _ t idKey _ _) =>
      if !fcOk w fc then { result := .badAddr } else
      if !ctorOk idKey schema then { result := .raised (ctorExc schema) [] } else
      if types.isEmpty then
        { alloc := [.validator c none schema fc (metasOf w)], result := .created n }
      else
        match w.cell t with
        | some (.typeChecker m) =>
          { alloc := [.typeChecker (dictUpdate m (legacyDefs types)),
                      .validator c (some n) schema fc (metasOf w)], result := .created (n + 1) }
        | _ => { result := .badAddr }
    | _ => { result := .badAddr }
  | .checks fc name fn raises =>
    match w.cell fc with
    | some (.formatChecker d) =>
      match w.cell d with
      | some (.fmtDict o es) => { set := some (d, .fmtDict o (fmtSet ⟨name, fn, raises⟩ es)), result := .done }
      | _ => { result := .badAddr }
    | _ => { result := .badAddr }
  | .clsChecks name fn raises =>
    match w.cell clsRegistry with
    | some (.fmtDict o es) =>
      { set := some (clsRegistry, .fmtDict o (fmtSet ⟨name, fn, raises⟩ es)), result := .done }
    | _ => { result := .badAddr }
  | .newFormatChecker formats =>
    match w.cell clsRegistry with
    | some (.fmtDict _ es) =>
      match formats with
      | none => { alloc := [.fmtDict (some (n + 1)) es, .formatChecker n], result := .created (n + 1) }
      | some names =>
        match names.find? (fun k => (fmtFind k es).isNone) with
        | some k => { result := .raised "KeyError" k }
        | none =>
          { alloc := [.fmtDict (some (n + 1))
                        (names.foldl (fun acc k => match fmtFind k es with
                                                    | some e => fmtSet e acc | none => acc) []),
                      .formatChecker n], result := .created (n + 1) }
    | _ => { result := .badAddr }
  | .userDict kvs => { alloc := [.kwDict none (dictUpdate [] kvs)], result := .created n }
  | .userSet d k f =>
    match w.cell d with
    | some (.kwDict none kvs) => { set := some (d, .kwDict none (dictSet k f kvs)), result := .done }
    | _ => { result := .badAddr }

def applyEffect (w : World) (e : Effect) : World :=
  { heap := (match e.set with | none => w.heap | some (a, c) => w.heap.set a c) ++ e.alloc
    validators := e.validators.getD w.validators
    metaSchemas := e.metaSchemas.getD w.metaSchemas }

def step (env : Env) (w : World) (op : DOp) : World × DResult :=
  (applyEffect w (effect env w op), (effect env w op).result)

def run (env : Env) : World → List DOp → World
  | w, [] => w
  | w, op :: ops => run env (step env w op).1 ops

/-! ### the world after `import jsonschema` -/

def ofFmtEntry (e : FmtEntry) : FEntry := ⟨e.name, .builtin e.fn, e.raises⟩

def draftCells (base : Addr) (d : Draft) (tc : Addr) : List Cell :=
  [.kwDict (some (base + 1)) d.keywords, .cls base tc d.idKey d.metaSchema none]

def draftFcCells (base : Addr) (d : Draft) : List Cell :=
  [.fmtDict (some (base + 1)) (d.formats.checkers.map ofFmtEntry), .formatChecker base]

/-- fixed layout (the harness mirrors it):
     0 `FormatChecker.checkers`; 1 `_TYPE_CHECKER_FOR_DEPRECATED_DEFAULT_TYPES`;
     2,3,4 `draft3/4/6_type_checker` (`draft7_type_checker` IS `draft6_type_checker`);
     5/6, 7/8, 9/10, 11/12 `VALIDATORS` dict / class of drafts 3, 4, 6, 7;
     13/14, 15/16, 17/18, 19/20 `checkers` dict / `draftN_format_checker` -/
def initialHeap : List Cell :=
  [.fmtDict none (Generated.classFormats.checkers.map ofFmtEntry),
   .typeChecker (legacyDefs deprecatedDefaultTypes),
   .typeChecker Generated.d3Types, .typeChecker Generated.d4Types, .typeChecker Generated.d6Types]
  ++ draftCells 5 .d3 2 ++ draftCells 7 .d4 3 ++ draftCells 9 .d6 4 ++ draftCells 11 .d7 4
  ++ draftFcCells 13 .d3 ++ draftFcCells 15 .d4 ++ draftFcCells 17 .d6 ++ draftFcCells 19 .d7

def draftClassAddr : Draft → Addr
  | .d3 => 6 | .d4 => 8 | .d6 => 10 | .d7 => 12

def initial : World :=
  { heap := initialHeap
    validators := Generated.registryValidators.filterMap fun (v, tag) =>
      (Draft.ofTag? tag).map fun d => (v, draftClassAddr d)
    metaSchemas := Generated.registryMetaSchemas.filterMap fun (u, tag) =>
      (Draft.ofTag? tag).map fun d => (u, draftClassAddr d) }

/-! ### probes -/

/-- what a class looks like to an observer -/
structure ClsView where
  kws : List (Str × KwFn)
  types : List (Str × TyFn)
  idKey : Str
  metaSchema : Json
  cwdt : Option Bool
deriving Repr, Inhabited

/-- everything a probe of one object can depend on, read out of the heap *by following addresses* -/
inductive View where
  | checker (m : List (Str × TyFn))
  | kwDict (kvs : List (Str × KwFn))
  | fmtDict (es : List FEntry)
  | cls (c : ClsView)
  | fc (es : List FEntry)
  | validator (c : ClsView) (types : List (Str × TyFn)) (schema : Json) (fc : Option (List FEntry))
      (metas : List (Str × Json))
deriving Repr, Inhabited

def viewCls (h : List Cell) (a : Addr) : Option ClsView :=
  match h[a]? with
  | some (.cls v t idKey ms cwdt) =>
    match h[v]?, h[t]? with
    | some (.kwDict _ kvs), some (.typeChecker m) => some ⟨kvs, m, idKey, ms, cwdt⟩
    | _, _ => none
  | _ => none

def viewFc (h : List Cell) (a : Addr) : Option (List FEntry) :=
  match h[a]? with
  | some (.formatChecker d) =>
    match h[d]? with
    | some (.fmtDict _ es) => some es
    | _ => none
  | _ => none

def view (h : List Cell) (a : Addr) : Option View :=
  match h[a]? with
  | none => none
  | some (.typeChecker m) => some (.checker m)
  | some (.kwDict _ kvs) => some (.kwDict kvs)
  | some (.fmtDict _ es) => some (.fmtDict es)
  | some (.cls _ _ _ _ _) => (viewCls h a).map .cls
  | some (.formatChecker _) => (viewFc h a).map .fc
  | some (.validator c tco schema fc metas) =>
    match viewCls h c with
    | none => none
    | some cv =>
      let types : Option (List (Str × TyFn)) := match tco with
        | none => some cv.types
        | some t => match h[t]? with | some (.typeChecker m) => some m | _ => none
      let fcv : Option (Option (List FEntry)) := match fc with
        | none => some none
        | some f => (viewFc h f).map some
      match types, fcv with
      | some tys, some fv => some (.validator cv tys schema fv metas)
      | _, _ => none

/-- the module-level state a registry query reads -/
structure Regs where
  clsFormats : List FEntry
  validators : List (Str × Addr)
  metaSchemas : List (Str × Addr)
  metas : List (Str × Json)
deriving Inhabited

def regsOf (w : World) : Regs :=
  { clsFormats := match w.cell clsRegistry with | some (.fmtDict _ es) => es | _ => []
    validators := w.validators, metaSchemas := w.metaSchemas, metas := metasOf w }

inductive Query where
  | isType (inst : Json) (name : Str)       -- checker / class (`cls.TYPE_CHECKER`) / instance (`v.is_type`)
  | typeNames                               -- keys of the checker's map
  | kwLookup (k : Str)                      -- `VALIDATORS.get(k)` (dict / class / instance)
  | kwKeys
  | idKey                                   -- which key `ID_OF` reads
  | metaSchema
  | createdWithDefaultTypes
  | conforms (inst : Json) (format : Str)   -- format checker (or a format dict)
  | fmtKeys
  | isValid (inst : Json)                   -- validator instance: `v.is_valid(inst)`
  | errorKws (inst : Json)                  -- validator instance: `[e.validator for e in v.iter_errors(inst)]`
  | clsIsValid (schema inst : Json)         -- class: `cls(schema).is_valid(inst)` — builds a resolver NOW
  | clsErrorKws (schema inst : Json)
  | clsFmtKeys                              -- `FormatChecker.checkers` (class attribute)
  | registries                              -- `validators`, `meta_schemas`
deriving Repr, Inhabited

/-- queries answered from module-level state rather than from the probed object alone -/
def Query.readsRegistry : Query → Bool
  | .clsIsValid _ _ | .clsErrorKws _ _ | .clsFmtKeys | .registries => true
  | _ => false

inductive Answer where
  | bool (b : Bool)
  | raised (cls : String)
  | kw (f : Option KwFn)
  | str (s : Str)
  | keys (ks : List Str)
  | json (j : Json)
  | optBool (b : Option Bool)
  | errors (kws : List (Option Str)) (stop : Stop)
  | registries (vs ms : List (Str × Addr))
  | badQuery                 -- the object has no such attribute / the address holds nothing
  | miss (q : JS.Query)
deriving Repr, Inhabited

/-- the `FormatChecker` value (`JS.Keywords`) of a format dict; menu constants become oracle entries
    that `fmtEnv` answers -/
def toFormatChecker (es : List FEntry) : FormatChecker :=
  ⟨es.map fun e => ⟨e.name, match e.fn with | .const _ => .oracle | .builtin f => f, e.raises⟩⟩

def fmtEnv (env : Env) (es : List FEntry) : Env :=
  { env with fmt := fun name inst =>
      match fmtFind name es with
      | some ⟨_, .const b, _⟩ => some (.ret b)
      | _ => env.fmt name inst }

def excName : Exc → String
  | .refResolution => "RefResolutionError"
  | .unknownType _ => "UnknownType"
  | .crash c => c
  | .custom c => c

/-- `FormatChecker.conforms(instance, format)` -/
def conformsA (env : Env) (impl : FmtImpl) (es : List FEntry) (inst : Json) (name : Str) : Answer :=
  match fmtCheck (fmtEnv env es) impl (toFormatChecker es) inst name with
  | .ok none => .bool true
  | .ok (some _) => .bool false
  | .raise e => .raised (excName e)
  | .miss q => .miss q

def isTypeA (m : List (Str × TyFn)) (inst : Json) (name : Str) (exc : String) : Answer :=
  match lookupS name m with
  | some f => .bool (f.apply inst)
  | none => .raised exc

def cfgOf (c : ClsView) (types : List (Str × TyFn)) (fc : Option (List FEntry)) : Cfg :=
  { keywords := c.kws, types := types, idKey := c.idKey, formatChecker := fc.map toFormatChecker }

/-- a validation by a validator whose resolver was built from `metas` -/
def validation (env : Env) (impl : FmtImpl) (fuel : Nat) (c : ClsView) (types : List (Str × TyFn))
    (fc : Option (List FEntry)) (metas : List (Str × Json)) (schema inst : Json) (budget : Option Nat) :
    Res Out :=
  let env' := match fc with | some es => fmtEnv env es | none => env
  let cfg := cfgOf c types fc
  let base : Str := match schema with
    | .obj kvs =>
      if Json.hasKey (skey "$ref") kvs then [] else
      match Json.lookup c.idKey kvs with | some (.str s) => s | _ => []
    | _ => []
  match mkResolver env metas base schema [] true (some 1024) with
  | .ok st => .ok (eval env' impl cfg fuel inst schema budget st)
  | .raise e => .raise e
  | .miss q => .miss q

def isValidA (r : Res Out) : Answer :=
  match r with
  | .ok ⟨[], .done, _⟩ => .bool true
  | .ok ⟨_ :: _, _, _⟩ => .bool false
  | .ok ⟨[], .raised e, _⟩ => .raised (excName e)
  | .ok ⟨[], .miss q, _⟩ => .miss q
  | .ok ⟨[], s, _⟩ => .errors [] s
  | .raise e => .raised (excName e)
  | .miss q => .miss q

def errorKwsA (r : Res Out) : Answer :=
  match r with
  | .ok ⟨_, .miss q, _⟩ => .miss q
  | .ok ⟨es, s, _⟩ => .errors (es.map fun e => e.info.bind (·.kw)) s
  | .raise e => .raised (excName e)
  | .miss q => .miss q

/-- queries about the probed object alone -/
def answerObj (env : Env) (impl : FmtImpl) (fuel : Nat) (v : View) (q : Query) : Answer :=
  match q, v with
  | .isType inst name, .checker m => isTypeA m inst name "UndefinedTypeCheck"
  | .isType inst name, .cls c => isTypeA c.types inst name "UndefinedTypeCheck"
  | .isType inst name, .validator _ tys _ _ _ => isTypeA tys inst name "UnknownType"
  | .typeNames, .checker m => .keys (m.map (·.1))
  | .typeNames, .cls c => .keys (c.types.map (·.1))
  | .typeNames, .validator _ tys _ _ _ => .keys (tys.map (·.1))
  | .kwLookup k, .kwDict kvs => .kw (lookupS k kvs)
  | .kwLookup k, .cls c => .kw (lookupS k c.kws)
  | .kwLookup k, .validator c _ _ _ _ => .kw (lookupS k c.kws)
  | .kwKeys, .kwDict kvs => .keys (kvs.map (·.1))
  | .kwKeys, .cls c => .keys (c.kws.map (·.1))
  | .kwKeys, .validator c _ _ _ _ => .keys (c.kws.map (·.1))
  | .idKey, .cls c => .str c.idKey
  | .idKey, .validator c _ _ _ _ => .str c.idKey
  | .metaSchema, .cls c => .json c.metaSchema
  | .metaSchema, .validator c _ _ _ _ => .json c.metaSchema
  | .createdWithDefaultTypes, .cls c => .optBool c.cwdt
  | .createdWithDefaultTypes, .validator c _ _ _ _ => .optBool c.cwdt
  | .conforms inst name, .fc es => conformsA env impl es inst name
  | .conforms inst name, .fmtDict es => conformsA env impl es inst name
  | .fmtKeys, .fc es => .keys (es.map (·.name))
  | .fmtKeys, .fmtDict es => .keys (es.map (·.name))
  | .fmtKeys, .validator _ _ _ (some es) _ => .keys (es.map (·.name))
  | .isValid inst, .validator c tys schema fc metas =>
      isValidA (validation env impl fuel c tys fc metas schema inst (some 1))
  | .errorKws inst, .validator c tys schema fc metas =>
      errorKwsA (validation env impl fuel c tys fc metas schema inst none)
  | _, _ => .badQuery

/-- queries that read module-level state -/
def answerReg (env : Env) (impl : FmtImpl) (fuel : Nat) (r : Regs) (v : View) (q : Query) : Answer :=
  match q, v with
  | .clsIsValid schema inst, .cls c =>
      isValidA (validation env impl fuel c c.types none r.metas schema inst (some 1))
  | .clsErrorKws schema inst, .cls c =>
      errorKwsA (validation env impl fuel c c.types none r.metas schema inst none)
  | .clsFmtKeys, _ => .keys (r.clsFormats.map (·.name))
  | .registries, _ => .registries r.validators r.metaSchemas
  | _, _ => .badQuery

def answer (env : Env) (impl : FmtImpl) (fuel : Nat) (r : Regs) (v : View) (q : Query) : Answer :=
  if q.readsRegistry then answerReg env impl fuel r v q else answerObj env impl fuel v q

/-- a behavioural probe of the object at `a` -/
def probe (env : Env) (impl : FmtImpl) (fuel : Nat) (w : World) (a : Addr) (q : Query) : Answer :=
  match view w.heap a with
  | none => .badQuery
  | some v => answer env impl fuel (regsOf w) v q

def fpCls (h : List Cell) (c : Addr) : List Addr :=
  match h[c]? with
  | some (.cls v t _ _ _) => [c, v, t]
  | _ => [c]

def fpFc (h : List Cell) (f : Addr) : List Addr :=
  match h[f]? with
  | some (.formatChecker d) => [f, d]
  | _ => [f]

/-- the cells a probe of `a` reads (besides module-level state); a format dict also names its owner,
    so that "the checker whose dict this is" counts as part of it -/
def footprint (h : List Cell) (a : Addr) : List Addr :=
  match h[a]? with
  | some (.cls _ _ _ _ _) => fpCls h a
  | some (.formatChecker _) => fpFc h a
  | some (.fmtDict (some o) _) => [a, o]
  | some (.validator c tco _ fc _) =>
      a :: fpCls h c ++ (match tco with | some t => [t] | none => [])
        ++ (match fc with | some f => fpFc h f | none => [])
  | _ => [a]

/-- the object an operation updates in place, named as the caller names it -/
def DOp.touches : DOp → Option Addr
  | .checks fc _ _ _ => some fc
  | .clsChecks _ _ _ => some clsRegistry
  | .userSet d _ _ => some d
  | _ => none

def DOp.isClsChecks : DOp → Bool
  | .clsChecks _ _ _ => true
  | _ => false

end JS.Derive
