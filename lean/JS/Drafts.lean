/-
  JS.Drafts — the four draft classes, assembled from the regenerated tables.
-/
import JS.Eval
import JS.Generated.Tables
namespace JS

inductive Draft where
  | d3 | d4 | d6 | d7
deriving Repr, DecidableEq, Inhabited

def Draft.all : List Draft := [.d3, .d4, .d6, .d7]

def Draft.tag : Draft → String
  | .d3 => "d3" | .d4 => "d4" | .d6 => "d6" | .d7 => "d7"

def Draft.ofTag? : String → Option Draft
  | "d3" => some .d3 | "d4" => some .d4 | "d6" => some .d6 | "d7" => some .d7 | _ => none

def Draft.keywords : Draft → List (Str × KwFn)
  | .d3 => Generated.d3Keywords | .d4 => Generated.d4Keywords
  | .d6 => Generated.d6Keywords | .d7 => Generated.d7Keywords

def Draft.types : Draft → List (Str × TyFn)
  | .d3 => Generated.d3Types | .d4 => Generated.d4Types
  | .d6 => Generated.d6Types | .d7 => Generated.d7Types

def Draft.idKey : Draft → Str
  | .d3 => Generated.d3IdKey | .d4 => Generated.d4IdKey
  | .d6 => Generated.d6IdKey | .d7 => Generated.d7IdKey

def Draft.metaSchema : Draft → Json
  | .d3 => Generated.d3Meta | .d4 => Generated.d4Meta
  | .d6 => Generated.d6Meta | .d7 => Generated.d7Meta

def Draft.formats : Draft → FormatChecker
  | .d3 => Generated.d3Formats | .d4 => Generated.d4Formats
  | .d6 => Generated.d6Formats | .d7 => Generated.d7Formats

/-- the validator class of a draft, with an optional format checker attached -/
def Draft.cfg (d : Draft) (fc : Option FormatChecker := none) : Cfg :=
  { keywords := d.keywords, types := d.types, idKey := d.idKey, formatChecker := fc }

/-- `meta_schemas` as (normalised id, metaschema of the registered class) -/
def registeredMetas : List (Str × Json) :=
  Generated.registryMetaSchemas.filterMap fun (uri, tag) =>
    (Draft.ofTag? tag).map fun d => (uri, d.metaSchema)

/-- `RefResolver(base_uri, referrer, store=…, cache_remote=…)`: the store is seeded with the
    registered metaschemas, then the caller's store, then the referrer under the base URI;
    every key written through `URIDict.__setitem__` is normalised. -/
def mkResolver (env : Env) (metas : List (Str × Json)) (base : Str) (referrer : Json)
    (store : List (Str × Json)) (cacheRemote : Bool) (memoCap : Option Nat) : Res RState :=
  let rec addAll : List (Str × Json) → List (Str × Json) → Res (List (Str × Json))
    | acc, [] => .ok acc
    | acc, (k, v) :: rest =>
      match env.urinorm k with
      | none => .miss (.urinorm k)
      | some k' => addAll (storeSet k' v acc) rest
  match addAll metas (store ++ [(base, referrer)]) with
  | .ok s => .ok { scopes := [base], store := s, memo := [], memoCap := memoCap,
                   cacheRemote := cacheRemote, clock := 0, fetchLog := [] }
  | .raise e => .raise e
  | .miss q => .miss q

end JS
