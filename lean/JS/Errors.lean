/-
  JS.Errors — model of `exceptions.py`: `relevance`, `best_match`, `create_from`,
  absolute paths, `json_path` structure, and `ErrorTree`.
-/
import JS.Eval
namespace JS

/-! ### `best_match` -/

/-- the keyword an error carries (`error.validator`), `none` when it is `None`/unset -/
def Err.kw (e : Err) : Option Str :=
  match e.info with
  | some i => i.kw
  | none => none

/-- `relevance(error)` = `(-len(error.path), validator not in weak, validator in strong)` -/
def relevance (weak strong : List Str) (e : Err) : Int × Bool × Bool :=
  (-(e.path.length : Int),
   match e.kw with | some k => !weak.contains k | none => true,
   match e.kw with | some k => strong.contains k | none => false)

/-- Python tuple `<` on relevance keys (`False < True`) -/
def keyLt (a b : Int × Bool × Bool) : Bool :=
  if a.1 < b.1 then true else if b.1 < a.1 then false
  else if a.2.1 != b.2.1 then !a.2.1
  else if a.2.2 != b.2.2 then !a.2.2
  else false

/-- `max(xs, key=key)`: the first maximal element wins -/
def maxBy (key : Err → Int × Bool × Bool) (best : Err) : List Err → Err
  | [] => best
  | x :: xs => if keyLt (key best) (key x) then maxBy key x xs else maxBy key best xs

/-- `min(xs, key=key)`: the first minimal element wins -/
def minBy (key : Err → Int × Bool × Bool) (best : Err) : List Err → Err
  | [] => best
  | x :: xs => if keyLt (key x) (key best) then minBy key x xs else minBy key best xs

mutual
/-- height of the context tree -/
def Err.depth : Err → Nat
  | .mk _ _ _ _ ctx _ => 1 + Err.depthList ctx
def Err.depthList : List Err → Nat
  | [] => 0
  | e :: es => max (Err.depth e) (Err.depthList es)
end

/-- `while best.context: best = min(best.context, key=key)` -/
def descendBest (key : Err → Int × Bool × Bool) : Nat → Err → Err
  | 0, e => e
  | n + 1, e =>
    match e.context with
    | [] => e
    | c :: cs => descendBest key n (minBy key c cs)

/-- `best_match(errors)` -/
def bestMatch (weak strong : List Str) (es : List Err) : Option Err :=
  match es with
  | [] => none
  | e :: rest =>
    let key := relevance weak strong
    let best := maxBy key e rest
    some (descendBest key best.depth best)

/-! ### absolute paths -/

mutual
/-- all errors in the transitive context closure with their absolute (instance, schema) paths -/
def Err.closure (pp psp : List PathElem) : Err → List (List PathElem × List PathElem × Err)
  | .mk m i p sp ctx c =>
    (pp ++ p, psp ++ sp, .mk m i p sp ctx c) :: Err.closureList (pp ++ p) (psp ++ sp) ctx
def Err.closureList (pp psp : List PathElem) : List Err → List (List PathElem × List PathElem × Err)
  | [] => []
  | e :: es => Err.closure pp psp e ++ Err.closureList pp psp es
end

/-! ### `ErrorTree` -/

inductive Tree where
  | node (errors : List (Option Str × Err)) (children : List (PathElem × Tree)) (inst : Option Json)
deriving Inhabited

namespace Tree

def empty : Tree := .node [] [] none

def errors : Tree → List (Option Str × Err) | .node e _ _ => e
def children : Tree → List (PathElem × Tree) | .node _ c _ => c
def inst : Tree → Option Json | .node _ _ i => i

def lookupChild (p : PathElem) : List (PathElem × Tree) → Option Tree
  | [] => none
  | (q, t) :: rest => if q = p then some t else lookupChild p rest

def setChild (p : PathElem) (t : Tree) : List (PathElem × Tree) → List (PathElem × Tree)
  | [] => [(p, t)]
  | (q, t') :: rest => if q = p then (p, t) :: rest else (q, t') :: setChild p t rest

def setError (k : Option Str) (e : Err) : List (Option Str × Err) → List (Option Str × Err)
  | [] => [(k, e)]
  | (k', e') :: rest => if k' = k then (k, e) :: rest else (k', e') :: setError k e rest

/-- file one error: walk/create children along `path` (unchecked `_contents[element]`), then
    `container.errors[error.validator] = error; container._instance = error.instance` -/
def insert (e : Err) (einst : Option Json) : List PathElem → Tree → Tree
  | [], .node errs ch _ => .node (setError e.kw e errs) ch einst
  | p :: ps, .node errs ch i =>
    .node errs (setChild p (insert e einst ps ((lookupChild p ch).getD empty)) ch) i

def Err.instOpt (e : Err) : Option Json := e.info.map (·.inst)

/-- `ErrorTree(errors)` -/
def build (es : List Err) : Tree :=
  es.foldl (fun t e => insert e (e.info.map (·.inst)) e.path t) empty

/-- `index in tree` -/
def contains (t : Tree) (p : PathElem) : Bool := (lookupChild p t.children).isSome

/-- `iter(tree)` -/
def keys (t : Tree) : List PathElem := t.children.map (·.1)

mutual
/-- `tree.total_errors` / `len(tree)` -/
def totalErrors : Tree → Nat
  | .node errs ch _ => errs.length + totalErrorsList ch
def totalErrorsList : List (PathElem × Tree) → Nat
  | [] => 0
  | (_, t) :: rest => totalErrors t + totalErrorsList rest
end

/-- `instance[index]`: `none` = fine, `some cls` = the exception it raises -/
def indexRaises (inst : Json) (p : PathElem) : Option String :=
  match inst, p with
  | .obj kvs, .key k => if Json.hasKey k kvs then none else some "KeyError"
  | .obj _, .idx _ => some "KeyError"
  | .arr xs, .idx n => if n < xs.length then none else some "IndexError"
  | .arr _, .key _ => some "TypeError"
  | .str s, .idx n => if n < s.length then none else some "IndexError"
  | .str _, .key _ => some "TypeError"
  | _, _ => some "TypeError"

/-- `tree[index]`: the exception raised, or the child (created empty when absent: `defaultdict`)
    together with the tree after the lookup -/
def getitem (t : Tree) (p : PathElem) : Except String (Tree × Tree) :=
  match t with
  | .node errs ch i =>
    match lookupChild p ch with
    | some c => .ok (c, t)
    | none =>
      match i.bind (fun inst => indexRaises inst p) with
      | some cls => .error cls
      | none => .ok (empty, .node errs (ch ++ [(p, empty)]) i)

/-- follow a path through existing children only -/
def walk : Tree → List PathElem → Option Tree
  | t, [] => some t
  | t, p :: ps => match lookupChild p t.children with
      | some c => walk c ps
      | none => none

end Tree
end JS
