/-
  JS.Eval — the dispatcher `iter_errors` (one layer, `evalStep`), the knot on fuel
  (`eval`), and the entry points `is_valid`, `validate`, `iter_errors` as three budgets
  of one evaluation.
-/
import JS.Keywords
namespace JS

/-- call the keyword function bound to a keyword -/
def applyKw (env : Env) (impl : FmtImpl) (cfg : Cfg) (rec : Rec) (f : KwFn) (v inst schema : Json) : Gen :=
  match f with
  | .ref => kwRef env rec v inst
  | .additionalItems => kwAdditionalItems cfg rec v inst schema
  | .additionalProperties => kwAdditionalProperties env cfg rec v inst schema
  | .const => kwConst v inst
  | .contains => kwContains cfg rec v inst
  | .exclusiveMinimum => kwExclusiveMinimum cfg v inst
  | .exclusiveMaximum => kwExclusiveMaximum cfg v inst
  | .minimum => kwMinimum cfg v inst
  | .maximum => kwMaximum cfg v inst
  | .multipleOf => kwMultipleOf cfg v inst
  | .minItems => kwMinItems cfg v inst
  | .maxItems => kwMaxItems cfg v inst
  | .uniqueItems => kwUniqueItems cfg v inst
  | .pattern => kwPattern env cfg v inst
  | .format => kwFormat env impl cfg v inst
  | .minLength => kwMinLength cfg v inst
  | .maxLength => kwMaxLength cfg v inst
  | .dependencies => kwDependencies cfg rec v inst
  | .enum => kwEnum v inst
  | .type => kwType cfg v inst
  | .properties => kwProperties cfg rec v inst
  | .required => kwRequired cfg v inst
  | .minProperties => kwMinProperties cfg v inst
  | .maxProperties => kwMaxProperties cfg v inst
  | .allOf => kwAllOf rec v inst
  | .anyOf => kwAnyOf rec v inst
  | .oneOf => kwOneOf rec v inst
  | .not_ => kwNot rec v inst
  | .if_ => kwIf rec v inst schema
  | .items => kwItems cfg rec v inst
  | .patternProperties => kwPatternProperties env cfg rec v inst
  | .propertyNames => kwPropertyNames cfg rec v inst
  | .dependencies_draft3 => kwDependenciesDraft3 cfg rec v inst
  | .disallow_draft3 => kwDisallowDraft3 rec v inst
  | .extends_draft3 => kwExtendsDraft3 cfg rec v inst
  | .items_draft3_draft4 => kwItemsDraft3Draft4 cfg rec v inst
  | .minimum_draft3_draft4 => kwMinimumDraft3Draft4 cfg v inst schema
  | .maximum_draft3_draft4 => kwMaximumDraft3Draft4 cfg v inst schema
  | .properties_draft3 => kwPropertiesDraft3 cfg rec v inst schema
  | .type_draft3 => kwTypeDraft3 cfg rec v inst
  | .alwaysFail tag => emit [Err.fresh "custom" [.str tag.toList]]
  | .never => nothing
  | .foreign _ => crashG "ForeignKeywordFunction"

/-- what the loop of `iter_errors` does to each error of keyword `k`:
    `_set` (fill only unset fields) and prepend `k` to the schema path unless `k ∈ {if, $ref}` -/
def stamp (k : Str) (v inst schema : Json) (e : Err) : Err :=
  let e' := e.setInfo ⟨some k, v, inst, schema⟩
  if k = skey "if" ∨ k = skey "$ref" then e' else e'.consSchemaPath (.key k)

/-- one iteration of the keyword loop -/
def runKeyword (env : Env) (impl : FmtImpl) (cfg : Cfg) (rec : Rec) (inst schema : Json) (kv : Str × Json) : Gen :=
  match lookupS kv.1 cfg.keywords with
  | none => nothing
  | some f => mapErrs (stamp kv.1 kv.2 inst schema) (applyKw env impl cfg rec f kv.2 inst schema)

/-- the error of the `False` schema -/
def falseErr (inst : Json) : Err :=
  .mk ⟨"false", [inst]⟩ (some ⟨none, .null, inst, .bool false⟩) [] [] [] none

/-- the scope `id_of(schema)` contributes: `none` = falsy (nothing pushed);
    `""` whenever the schema has a `$ref` key (whatever its value) -/
def scopeOf (cfg : Cfg) (kvs : List (Str × Json)) : Except String (Option Str) :=
  if Json.hasKey (skey "$ref") kvs then .ok none else
  match Json.lookup cfg.idKey kvs with
  | none => .ok none
  | some (.str s) => .ok (if s.isEmpty then none else some s)
  | some j => if truthy j then .error "TypeError" else .ok none

/-- the body of `iter_errors` for a dict schema, inside the scope -/
def schemaBody (env : Env) (impl : FmtImpl) (cfg : Cfg) (rec : Rec) (inst : Json) (kvs : List (Str × Json)) : Gen :=
  match Json.lookup (skey "$ref") kvs with
  | some .null => seqG (runKeyword env impl cfg rec inst (.obj kvs)) kvs
  | some ref => runKeyword env impl cfg rec inst (.obj kvs) (skey "$ref", ref)
  | none => seqG (runKeyword env impl cfg rec inst (.obj kvs)) kvs

/-- one layer of `iter_errors(instance, _schema)` -/
def evalStep (env : Env) (impl : FmtImpl) (cfg : Cfg) (rec : Rec) : Rec := fun inst schema =>
  match schema with
  | .bool true => nothing
  | .bool false => emit [falseErr inst]
  | .obj kvs =>
    match scopeOf cfg kvs with
    | .ok scope => withScopeOpt env scope (schemaBody env impl cfg rec inst kvs)
    | .error cls => crashG cls
  | .num _ => crashG "TypeError"        -- `"$ref" in schema` of `id_of`
  | _ => crashG "AttributeError"        -- `"$ref" in schema` answers for strings and lists: `schema.get`

/-- tie the knot: `fuel` bounds the nesting of `iter_errors` calls -/
def eval (env : Env) (impl : FmtImpl) (cfg : Cfg) : Nat → Rec
  | 0 => fun _ _ => stopG .fuel
  | n + 1 => evalStep env impl cfg (eval env impl cfg n)

/-! ### entry points -/

inductive Outcome (α : Type) where
  | ok (a : α)
  | invalid (e : Err)            -- `raise error` of `validate`
  | raise (e : Exc)
  | other (s : Stop)             -- fuel / miss
deriving Inhabited

/-- `list(iter_errors(instance))` followed by whatever ended it -/
def exhaust (g : Gen) (st : RState) : Out := g none st

/-- `is_valid`: `next(iter_errors(...), None) is None`, the generator then dropped -/
def isValid (g : Gen) (st : RState) : Outcome Bool × RState :=
  match g (some 1) st with
  | ⟨[], .done, st'⟩ => (.ok true, st')
  | ⟨_ :: _, _, st'⟩ => (.ok false, st')
  | ⟨[], .raised e, st'⟩ => (.raise e, st')
  | ⟨[], s, st'⟩ => (.other s, st')

/-- `validate`: raise the first error -/
def validateM (g : Gen) (st : RState) : Outcome Unit × RState :=
  match g (some 1) st with
  | ⟨[], .done, st'⟩ => (.ok (), st')
  | ⟨e :: _, _, st'⟩ => (.invalid e, st')
  | ⟨[], .raised e, st'⟩ => (.raise e, st')
  | ⟨[], s, st'⟩ => (.other s, st')

end JS
