/-
  JS.Format — executable model of the built-in format functions of `jsonschema/_format.py`
  that do not need an oracle: `is_email`, `is_ipv4`, `is_ipv6`, `is_date`.

  `is_ipv4`/`is_ipv6` delegate to CPython 3.12's `ipaddress` module; the parsers below mirror
  `IPv4Address.__init__` / `_BaseV4._ip_int_from_string` / `_parse_octet` and
  `IPv6Address.__init__` / `_split_scope_id` / `_BaseV6._ip_int_from_string` / `_parse_hextet`
  step by step (same order of checks).  `is_date` is `datetime.date.fromisoformat` guarded by
  `_RE_FULL_DATE.fullmatch`.

  A format function is a `Json → FmtRes`: what calling the Python function does — it returns a
  value of some truthiness or raises (the `mro` lists the class names, own class first).
-/
import JS.Keywords
namespace JS

/-- `type(e).__mro__` of an `ipaddress.AddressValueError` -/
def addrValueErrorMro : List String :=
  ["AddressValueError", "ValueError", "Exception", "BaseException", "object"]

/-- `type(e).__mro__` of a `ValueError` -/
def valueErrorMro : List String := ["ValueError", "Exception", "BaseException", "object"]

/-! ### email -/

/-- `is_email`: `"@" in instance` -/
def fmtEmail : Json → FmtRes
  | .str s => .ret (s.contains '@')
  | _ => .ret true

/-! ### ipv4 -/

/-- `_BaseV4._parse_octet`; `none` = `ValueError`.  `isDigit` is `'0' ≤ c ≤ '9'`, which is what
    `octet_str.isascii() and octet_str.isdigit()` checks character by character. -/
def parseOctet (p : Str) : Option Nat :=
  if p.isEmpty then none                                   -- "Empty octet not permitted"
  else if !(p.all isDigit) then none                       -- "Only decimal digits permitted"
  else if p.length > 3 then none                           -- "At most 3 characters permitted"
  else if p != ['0'] && p.head? == some '0' then none      -- "Leading zeros are not permitted"
  else if digitsVal p > 255 then none                      -- "Octet %d (> 255) not permitted"
  else some (digitsVal p)

/-- `map(cls._parse_octet, octets)` consumed by `int.from_bytes`: the first failure raises -/
def parseOctets : List Str → Option (List Nat)
  | [] => some []
  | p :: ps =>
    match parseOctet p with
    | none => none
    | some n =>
      match parseOctets ps with
      | none => none
      | some ns => some (n :: ns)

/-- `IPv4Address(s)` for a `str`: the four octets; `none` = `AddressValueError` -/
def ipv4Parse (s : Str) : Option (List Nat) :=
  if s.contains '/' then none                              -- "Unexpected '/' in"
  else if s.isEmpty then none                              -- "Address cannot be empty"
  else if (splitOn '.' s).length != 4 then none            -- "Expected 4 octets in"
  else parseOctets (splitOn '.' s)

/-- `is_ipv4`: returns the `IPv4Address` object (always truthy: the class defines neither
    `__bool__` nor `__len__`) -/
def fmtIpv4 : Json → FmtRes
  | .str s =>
    match ipv4Parse s with
    | some _ => .ret true
    | none => .raise addrValueErrorMro
  | _ => .ret true

/-! ### ipv6 -/

/-- `_BaseV6._HEX_DIGITS` -/
def hexDigits : Str := "0123456789ABCDEFabcdef".toList

/-- `_BaseV6._parse_hextet` returns (rather than raising `ValueError`): only `_HEX_DIGITS`, at most
    4 characters, and `int(hextet_str, 16)` succeeds (it fails exactly on the empty string here). -/
def hextetOk (p : Str) : Bool :=
  p.all (fun c => hexDigits.contains c) && decide (p.length ≤ 4) && !p.isEmpty

/-- `'%x' % n` -/
def hexStr (n : Nat) : Str := Nat.toDigits 16 n

/-- the IPv4-suffix step of `_ip_int_from_string`: if the last part contains a '.', it is parsed
    by `IPv4Address` and replaced by two hextets; `none` = `AddressValueError` -/
def ipv6Tail (parts : List Str) : Option (List Str) :=
  match parts.getLast? with
  | none => some parts
  | some last =>
    if last.contains '.' then
      match ipv4Parse last with
      | some [a, b, c, d] =>
          some (parts.dropLast ++ [hexStr (a * 256 + b), hexStr (c * 256 + d)])
      | _ => none
    else some parts

/-- the indices `i, i+1, …` of the empty strings of a list -/
def emptiesFrom (i : Nat) : List Str → List Nat
  | [] => []
  | p :: ps => if p.isEmpty then i :: emptiesFrom (i + 1) ps else emptiesFrom (i + 1) ps

/-- the rest of `_BaseV6._ip_int_from_string` (after the suffix step): `true` = an integer is
    returned, `false` = `AddressValueError` -/
def ipv6PartsOk (parts : List Str) : Bool :=
  if parts.length > 9 then false                           -- "At most 8 colons permitted"
  else
    -- `for i in range(1, len(parts) - 1): if not parts[i]: …`
    match emptiesFrom 1 parts.tail.dropLast with
    | _ :: _ :: _ => false                                 -- "At most one '::' permitted"
    | [skip] =>
      let firstEmpty := (parts.headD []).isEmpty
      let lastEmpty := (parts.getLastD []).isEmpty
      let hi := if firstEmpty then skip - 1 else skip
      let lo := if lastEmpty then parts.length - skip - 1 - 1 else parts.length - skip - 1
      if firstEmpty && hi != 0 then false                  -- "Leading ':' only permitted as part of '::'"
      else if lastEmpty && lo != 0 then false              -- "Trailing ':' only permitted as part of '::'"
      else if hi + lo ≥ 8 then false                       -- parts_skipped < 1
      else (parts.take hi).all hextetOk && (parts.drop (parts.length - lo)).all hextetOk
    | [] =>
      if parts.length != 8 then false                      -- "Exactly 8 parts expected without '::'"
      else if (parts.headD []).isEmpty then false
      else if (parts.getLastD []).isEmpty then false
      else parts.all hextetOk

/-- `_BaseV6._ip_int_from_string(ip_str)` returns (`false` = `AddressValueError`) -/
def ipv6Ok (s : Str) : Bool :=
  if s.isEmpty then false                                  -- "Address cannot be empty"
  else if (splitOn ':' s).length < 3 then false            -- "At least 3 parts expected"
  else
    match ipv6Tail (splitOn ':' s) with
    | none => false
    | some parts => ipv6PartsOk parts

/-- `IPv6Address(s)` for a `str`: `none` = `AddressValueError`, `some b` = an address object
    whose `scope_id` is a non-empty string (`b = true`) or `None` (`b = false`) -/
def ipv6Address (s : Str) : Option Bool :=
  if s.contains '/' then none                              -- "Unexpected '/' in"
  else
    -- `_split_scope_id`: `addr, sep, scope_id = ip_str.partition('%')`
    match s.span (· != '%') with
    | (addr, []) => if ipv6Ok addr then some false else none
    | (addr, _ :: scope) =>
      if scope.isEmpty || scope.contains '%' then none     -- "Invalid IPv6 address"
      else if ipv6Ok addr then some true else none

/-- `is_ipv6`: `not getattr(address, "scope_id", "")` -/
def fmtIpv6 : Json → FmtRes
  | .str s =>
    match ipv6Address s with
    | some hasScope => .ret (!hasScope)
    | none => .raise addrValueErrorMro
  | _ => .ret true

/-! ### date -/

/-- `datetime._is_leap` -/
def isLeap (y : Nat) : Bool := y % 4 == 0 && (y % 100 != 0 || y % 400 == 0)

/-- `datetime._days_in_month` (`_DAYS_IN_MONTH` table, 1-based; month is already in 1..12) -/
def pyDaysInMonth (y m : Nat) : Nat :=
  if m == 2 && isLeap y then 29
  else [0, 31, 28, 31, 30, 31, 30, 31, 31, 30, 31, 30, 31].getD m 0

/-- `is_date`: `_RE_FULL_DATE.fullmatch` (`[0-9]{4}-[0-9]{2}-[0-9]{2}`), then
    `datetime.date.fromisoformat`, which for such a string is `date(int(s[0:4]), int(s[5:7]),
    int(s[8:10]))` with its range checks (`MINYEAR = 1`); a `date` object is always truthy -/
def fmtDate : Json → FmtRes
  | .str s =>
    match s with
    | [y1, y2, y3, y4, s1, m1, m2, s2, d1, d2] =>
      if s1 == '-' && s2 == '-' && [y1, y2, y3, y4, m1, m2, d1, d2].all isDigit then
        let y := digitsVal [y1, y2, y3, y4]
        let m := digitsVal [m1, m2]
        let d := digitsVal [d1, d2]
        if 1 ≤ y && 1 ≤ m && m ≤ 12 && 1 ≤ d && d ≤ pyDaysInMonth y m then .ret true
        else .raise valueErrorMro
      else .ret false
    | _ => .ret false
  | _ => .ret true

/-! ### the table of modelled functions -/

def builtinImpl : FmtImpl :=
  ⟨fun f j =>
    match f with
    | .email => some (fmtEmail j)
    | .ipv4 => some (fmtIpv4 j)
    | .ipv6 => some (fmtIpv6 j)
    | .date => some (fmtDate j)
    | .oracle => none⟩

end JS
