/-
  JS.Gen — generator combinators. Every keyword function is built from these, so every
  evaluator-wide invariant needs one lemma per combinator.

  Convention (normal form): a stage that produced `k` errors under budget `some k`
  stops with `budget` (the consumer closes the generator *at* the k-th `yield`; nothing
  after that `yield` runs except the enclosing `finally` blocks).
-/
import JS.PyOps
namespace JS

def RState.top (st : RState) : Str := st.scopes.headD []

/-- remaining budget after `n` errors were handed over -/
def budgetSub (b : Option Nat) (n : Nat) : Option Nat := b.map (· - n)

/-- a stage that yields the errors `es` and does nothing else -/
def emit (es : List Err) : Gen := fun b st =>
  match b with
  | none => ⟨es, .done, st⟩
  | some k => if es.length < k then ⟨es, .done, st⟩ else ⟨es.take k, .budget, st⟩

/-- a stage that yields nothing: a unit for sequencing under every budget -/
def nothing : Gen := fun _ st => ⟨[], .done, st⟩

def stopG (s : Stop) : Gen := fun _ st => ⟨[], s, st⟩
def raiseG (e : Exc) : Gen := stopG (.raised e)
def crashG (cls : String) : Gen := raiseG (.crash cls)

/-- run `g`, and if it finished normally run `h` with what is left of the budget -/
def andThen (g h : Gen) : Gen := fun b st =>
  match g b st with
  | ⟨es, .done, st'⟩ =>
      match h (budgetSub b es.length) st' with
      | ⟨es', s, st''⟩ => ⟨es ++ es', s, st''⟩
  | o => o

/-- `for x in xs: yield from f x` -/
def seqG {α : Type} (f : α → Gen) : List α → Gen
  | [] => nothing
  | x :: xs => andThen (f x) (seqG f xs)

/-- apply `f` to every error passing through (`descend`'s prepending, `_set`) -/
def mapErrs (f : Err → Err) (g : Gen) : Gen := fun b st =>
  match g b st with
  | ⟨es, s, st'⟩ => ⟨es.map f, s, st'⟩

/-- run `g` as its own consumer (`list(g)` = budget `none`, `is_valid`/`next` = `some 1`) and
    continue with `k` on what it produced. An exception inside `g` propagates and the
    errors collected so far are lost. -/
def inner (g : Gen) (b' : Option Nat) (k : List Err → Gen) : Gen := fun b st =>
  match g b' st with
  | ⟨es, .done, st'⟩ => k es b st'
  | ⟨es, .budget, st'⟩ => k es b st'
  | ⟨_, s, st'⟩ => ⟨[], s, st'⟩

/-- `validator.is_valid(inst, schema)` inside a keyword function: continue with the verdict -/
def innerValid (g : Gen) (k : Bool → Gen) : Gen :=
  inner g (some 1) (fun es => k es.isEmpty)

/-- `descend(instance, schema, path, schema_path)` given the recursive call's generator -/
def descendG (g : Gen) (path schemaPath : Option PathElem) : Gen :=
  mapErrs (fun e =>
    let e := match path with | some p => e.consPath p | none => e
    match schemaPath with | some p => e.consSchemaPath p | none => e) g

/-- push `urljoin(top, scope)`, run `g`, pop on every exit (the `try/finally`) -/
def withScope (env : Env) (scope : Str) (g : Gen) : Gen := fun b st =>
  match env.urljoin st.top scope with
  | none => ⟨[], .miss (.urljoin st.top scope), st⟩
  | some u =>
      match g b { st with scopes := u :: st.scopes } with
      | ⟨es, s, st'⟩ => ⟨es, s, { st' with scopes := st'.scopes.tail }⟩

/-- push an already resolved URL (the `ref` keyword pushes `url` itself: `push_scope(url)`
    joins it with the current top again) -/
def withScopeOpt (env : Env) (scope : Option Str) (g : Gen) : Gen :=
  match scope with
  | none => g
  | some s => withScope env s g

/-- `Except`-style results of non-generator helpers -/
inductive Res (α : Type) where
  | ok (a : α)
  | raise (e : Exc)
  | miss (q : Query)
deriving Inhabited

def Res.bind {α β : Type} (r : Res α) (f : α → Res β) : Res β :=
  match r with
  | .ok a => f a
  | .raise e => .raise e
  | .miss q => .miss q

instance : Monad Res where
  pure := .ok
  bind := Res.bind

/-- continue a generator with the result of a helper, propagating its failure -/
def withRes {α : Type} (r : Res α) (k : α → Gen) : Gen :=
  match r with
  | .ok a => k a
  | .raise e => raiseG e
  | .miss q => stopG (.miss q)

def askOpt {α : Type} (q : Query) (o : Option α) : Res α :=
  match o with
  | some a => .ok a
  | none => .miss q

end JS
