/-
  JS.History — one validator object used many times (C07, C15, C18): operations on the pair
  (schema, resolver state), folded over a history.
-/
import JS.Eval
namespace JS

/-- what a caller can do with one validator object -/
inductive Op where
  | isValid (i : Json)
  | exhaust (i : Json)                 -- `list(v.iter_errors(i))`
  | validate (i : Json)
  | take (k : Nat) (i : Json)          -- pull `k` errors, then close (or drop) the iterator
  | resolve (ref : Str)                -- `v.resolver.resolve(ref)` called directly
deriving Inhabited

/-- what the caller observes -/
inductive OpResult where
  | verdict (b : Bool)
  | errors (es : List Err) (stop : Stop)
  | valid
  | invalid (e : Err)
  | resolved (url : Str) (doc : Json)
  | raised (e : Exc)
  | other (s : Stop)
deriving Inhabited

/-- one operation on a validator whose class is `cfg`, schema `schema` and resolver state `st` -/
def stepOp (env : Env) (impl : FmtImpl) (cfg : Cfg) (fuel : Nat) (schema : Json)
    (st : RState) (op : Op) : OpResult × RState :=
  match op with
  | .isValid i =>
    match isValid (eval env impl cfg fuel i schema) st with
    | (.ok b, st') => (.verdict b, st')
    | (.invalid e, st') => (.invalid e, st')
    | (.raise e, st') => (.raised e, st')
    | (.other s, st') => (.other s, st')
  | .exhaust i =>
    match eval env impl cfg fuel i schema none st with
    | ⟨es, s, st'⟩ => (.errors es s, st')
  | .validate i =>
    match validateM (eval env impl cfg fuel i schema) st with
    | (.ok (), st') => (.valid, st')
    | (.invalid e, st') => (.invalid e, st')
    | (.raise e, st') => (.raised e, st')
    | (.other s, st') => (.other s, st')
  | .take k i =>
    if k = 0 then (.errors [] .budget, st) else
    match eval env impl cfg fuel i schema (some k) st with
    | ⟨es, s, st'⟩ => (.errors es s, st')
  | .resolve ref =>
    match resolve env ref st with
    | (.ok (url, doc), st') => (.resolved url doc, st')
    | (.raise e, st') => (.raised e, st')
    | (.miss q, st') => (.other (.miss q), st')

/-- a history: results in order, and the final state -/
def runHist (env : Env) (impl : FmtImpl) (cfg : Cfg) (fuel : Nat) (schema : Json) :
    RState → List Op → List (OpResult × RState) × RState
  | st, [] => ([], st)
  | st, op :: ops =>
    match stepOp env impl cfg fuel schema st op with
    | (r, st') =>
      match runHist env impl cfg fuel schema st' ops with
      | (rs, stf) => ((r, st') :: rs, stf)

end JS
