/-
  JS.Keywords — the keyword functions of `_validators.py` and `_legacy_validators.py`,
  one named, non-recursive definition each; the recursive call (`descend`, `is_valid`)
  is the parameter `rec`.
-/
import JS.Resolver
namespace JS

/-! ### format checkers (`_format.py`) -/

/-- what a registered format function is, as far as the model knows -/
inductive FmtFn where
  | email | ipv4 | ipv6 | date
  | oracle                      -- answered by `env.fmt name instance`
deriving Repr, DecidableEq, Inhabited

structure FmtEntry where
  name : Str
  fn : FmtFn
  raises : List String          -- class names listed in `raises`
deriving Repr, Inhabited

structure FormatChecker where
  checkers : List FmtEntry
deriving Repr, Inhabited

def FormatChecker.find (fc : FormatChecker) (name : Str) : Option FmtEntry :=
  fc.checkers.find? (fun e => e.name = name)

/-- names of keyword functions (identified by `module.qualname` in the generated tables) -/
inductive KwFn where
  | ref | additionalItems | additionalProperties | const | contains
  | exclusiveMinimum | exclusiveMaximum | minimum | maximum | multipleOf
  | minItems | maxItems | uniqueItems | pattern | format | minLength | maxLength
  | dependencies | enum | type | properties | required | minProperties | maxProperties
  | allOf | anyOf | oneOf | not_ | if_ | items | patternProperties | propertyNames
  | dependencies_draft3 | disallow_draft3 | extends_draft3 | items_draft3_draft4
  | minimum_draft3_draft4 | maximum_draft3_draft4 | properties_draft3 | type_draft3
  | alwaysFail (tag : String)        -- C16 menu: a user keyword that yields one error
  | never                            -- C16 menu: a user keyword that yields nothing
  | foreign (name : String)
deriving Repr, DecidableEq, Inhabited

/-- a validator class as far as validation is concerned -/
structure Cfg where
  keywords : List (Str × KwFn)
  types : List (Str × TyFn)
  idKey : Str
  formatChecker : Option FormatChecker
deriving Repr, Inhabited

def lookupS {α : Type} (k : Str) : List (Str × α) → Option α
  | [] => none
  | (k', v) :: rest => if k' = k then some v else lookupS k rest

/-- `validator.is_type(instance, type)`; unknown names raise `UnknownType` -/
def isType (cfg : Cfg) (inst : Json) (name : Json) : Res Bool :=
  match name with
  | .str n => match lookupS n cfg.types with
      | some f => .ok (f.apply inst)
      | none => .raise (.unknownType name)
  | .arr _ => .raise (.crash "TypeError")
  | .obj _ => .raise (.crash "TypeError")
  | _ => .raise (.unknownType name)

def isTypeS (cfg : Cfg) (inst : Json) (name : String) : Res Bool := isType cfg inst (.str name.toList)

/-- `if not validator.is_type(instance, name): return` -/
def gate (cfg : Cfg) (inst : Json) (name : String) (k : Gen) : Gen :=
  withRes (isTypeS cfg inst name) fun ok => if ok then k else nothing

def search (env : Env) (p s : Str) : Res Bool :=
  match env.reSearch p s with
  | none => .miss (.reSearch p s)
  | some none => .raise (.crash "re.error")
  | some (some b) => .ok b

def jstr (s : Str) : Json := .str s
def jnat (n : Nat) : Json := .num (.int n)
def skey (s : String) : Str := s.toList

/-- `enumerate` -/
def enumFrom {α : Type} (n : Nat) : List α → List (Nat × α)
  | [] => []
  | x :: xs => (n, x) :: enumFrom (n + 1) xs

/-- `len(x) < m` / `>` where `m` is the keyword value (a JSON number; anything else: TypeError) -/
def lenCmp (lt : Bool) (len : Nat) (m : Json) : Res Bool :=
  match m with
  | .num n => .ok (if lt then Num.lt (.int len) n else Num.lt n (.int len))
  | .bool b => .ok (if lt then Num.lt (.int len) (boolNum b) else Num.lt (boolNum b) (.int len))
  | _ => .raise (.crash "TypeError")

/-! ### `_validators.py` -/

def kwPatternProperties (env : Env) (cfg : Cfg) (rec : Rec) (v inst : Json) : Gen :=
  gate cfg inst "object" <|
    match v, inst with
    | .obj pkvs, .obj ikvs =>
        seqG (fun (ps : Str × Json) =>
          seqG (fun (kx : Str × Json) =>
            withRes (search env ps.1 kx.1) fun m =>
              if m then descendG (rec kx.2 ps.2) (some (.key kx.1)) (some (.key ps.1)) else nothing)
            ikvs) pkvs
    | _, _ => crashG "AttributeError"

def kwPropertyNames (cfg : Cfg) (rec : Rec) (v inst : Json) : Gen :=
  gate cfg inst "object" <|
    match inst with
    | .obj ikvs => seqG (fun (kx : Str × Json) => descendG (rec (.str kx.1) v) none none) ikvs
    | _ => crashG "TypeError"

/-- `any(re.search(pattern, property) for pattern in patterns)` -/
def anySearch (env : Env) (prop : Str) : List Str → Res Bool
  | [] => .ok false
  | p :: ps => match search env p prop with
      | .ok true => .ok true
      | .ok false => anySearch env prop ps
      | .raise e => .raise e
      | .miss q => .miss q

/-- `find_additional_properties(instance, schema)` (as a list, in instance order) -/
def findAdditional (env : Env) (props : List (Str × Json)) (patterns : List Str) :
    List (Str × Json) → Res (List Str)
  | [] => .ok []
  | (k, _) :: rest =>
    if Json.hasKey k props then findAdditional env props patterns rest
    else match anySearch env k patterns with
      | .ok true => findAdditional env props patterns rest
      | .ok false => match findAdditional env props patterns rest with
          | .ok ks => .ok (k :: ks)
          | r => r
      | .raise e => .raise e
      | .miss q => .miss q

def objKvs : Option Json → Option (List (Str × Json))
  | none => some []
  | some (.obj kvs) => some kvs
  | some _ => none

def kwAdditionalProperties (env : Env) (cfg : Cfg) (rec : Rec) (aP inst schema : Json) : Gen :=
  gate cfg inst "object" <|
    match inst, objKvs (schema.get? (skey "properties")), objKvs (schema.get? (skey "patternProperties")) with
    | .obj ikvs, some props, some pats =>
      withRes (findAdditional env props (pats.map (·.1)) ikvs) fun extras0 =>
      withRes (askOpt (.setOrder extras0) (env.setOrder extras0)) fun extras =>
      withRes (isTypeS cfg aP "object") fun aPobj =>
        if aPobj then
          seqG (fun (extra : Str) =>
            match Json.lookup extra ikvs with
            | some x => descendG (rec x aP) (some (.key extra)) none
            | none => crashG "KeyError") extras
        else if !truthy aP && !extras.isEmpty then
          if (schema.get? (skey "patternProperties")).isSome then
            emit [Err.fresh "addPropsPatterns" [.arr (extras.map jstr), .arr (pats.map (jstr ·.1))]]
          else
            emit [Err.fresh "addProps" [.arr (extras.map jstr)]]
        else nothing
    | _, _, _ => crashG "TypeError"

/-- draft 6/7 `items` -/
def kwItems (cfg : Cfg) (rec : Rec) (items inst : Json) : Gen :=
  gate cfg inst "array" <|
    match inst with
    | .arr xs =>
      withRes (isTypeS cfg items "array") fun isArr =>
        if isArr then
          match items with
          | .arr subs =>
            seqG (fun (t : (Nat × Json) × Json) =>
              descendG (rec t.1.2 t.2) (some (.idx t.1.1)) (some (.idx t.1.1))) ((enumFrom 0 xs).zip subs)
          | _ => crashG "TypeError"
        else
          seqG (fun (t : Nat × Json) => descendG (rec t.2 items) (some (.idx t.1)) none) (enumFrom 0 xs)
    | _ => crashG "TypeError"

def kwItemsDraft3Draft4 (cfg : Cfg) (rec : Rec) (items inst : Json) : Gen :=
  gate cfg inst "array" <|
    match inst with
    | .arr xs =>
      withRes (isTypeS cfg items "object") fun isObj =>
        if isObj then
          seqG (fun (t : Nat × Json) => descendG (rec t.2 items) (some (.idx t.1)) none) (enumFrom 0 xs)
        else
          match items with
          | .arr subs =>
            seqG (fun (t : (Nat × Json) × Json) =>
              descendG (rec t.1.2 t.2) (some (.idx t.1.1)) (some (.idx t.1.1))) ((enumFrom 0 xs).zip subs)
          | _ => crashG "TypeError"
    | _ => crashG "TypeError"

def kwAdditionalItems (cfg : Cfg) (rec : Rec) (aI inst schema : Json) : Gen :=
  withRes (isTypeS cfg inst "array") fun instArr =>
    if !instArr then nothing else
    withRes (isTypeS cfg ((schema.get? (skey "items")).getD (.obj [])) "array") fun itemsArr =>
      if !itemsArr then nothing else
      match inst, schema.get? (skey "items") with
      | .arr xs, some (.arr subs) =>
        withRes (isTypeS cfg aI "object") fun aIobj =>
          if aIobj then
            seqG (fun (t : Nat × Json) => descendG (rec t.2 aI) (some (.idx t.1)) none)
              (enumFrom subs.length (xs.drop subs.length))
          else if !truthy aI && xs.length > subs.length then
            emit [Err.fresh "addItems" [.arr (xs.drop subs.length)]]
          else nothing
      | _, _ => crashG "TypeError"

def kwConst (c inst : Json) : Gen :=
  if equal inst c then nothing else emit [Err.fresh "const" [c]]

/-- `any(validator.is_valid(element, contains) for element in instance)` -/
def containsLoop (rec : Rec) (sub : Json) (whole : Json) : List Json → Gen
  | [] => emit [Err.fresh "contains" [whole]]
  | x :: xs => innerValid (rec x sub) fun ok => if ok then nothing else containsLoop rec sub whole xs

def kwContains (cfg : Cfg) (rec : Rec) (sub inst : Json) : Gen :=
  gate cfg inst "array" <|
    match inst with
    | .arr xs => containsLoop rec sub inst xs
    | _ => crashG "TypeError"

/-- numeric operand of a comparison (bool counts as int, as in Python) -/
def asNum : Json → Option Num
  | .num n => some n
  | .bool b => some (boolNum b)
  | _ => none

/-- the four draft-6/7 bound keywords: `fails i b` is the failing comparison -/
def kwBound (cfg : Cfg) (tmpl : String) (fails : Num → Num → Bool) (bound inst : Json) : Gen :=
  gate cfg inst "number" <|
    match asNum inst, asNum bound with
    | some i, some b => if fails i b then emit [Err.fresh tmpl [inst, bound]] else nothing
    | _, _ => crashG "TypeError"

def kwMinimum (cfg : Cfg) := kwBound cfg "minimum" (fun i b => Num.lt i b)
def kwMaximum (cfg : Cfg) := kwBound cfg "maximum" (fun i b => Num.lt b i)
def kwExclusiveMinimum (cfg : Cfg) := kwBound cfg "exclusiveMinimum" (fun i b => Num.le i b)
def kwExclusiveMaximum (cfg : Cfg) := kwBound cfg "exclusiveMaximum" (fun i b => Num.le b i)

/-- draft 3/4: the boolean modifier is read from the sibling -/
def kwMinimumDraft3Draft4 (cfg : Cfg) (bound inst schema : Json) : Gen :=
  if truthy ((schema.get? (skey "exclusiveMinimum")).getD (.bool false))
  then kwBound cfg "exclusiveMinimum" (fun i b => Num.le i b) bound inst
  else kwBound cfg "minimum" (fun i b => Num.lt i b) bound inst

def kwMaximumDraft3Draft4 (cfg : Cfg) (bound inst schema : Json) : Gen :=
  if truthy ((schema.get? (skey "exclusiveMaximum")).getD (.bool false))
  then kwBound cfg "exclusiveMaximum" (fun i b => Num.le b i) bound inst
  else kwBound cfg "maximum" (fun i b => Num.lt b i) bound inst

/-- the decision of `multipleOf` on two numbers: `ok failed` or an escaping exception -/
def multipleOfFailed (inst dB : Num) : Except String Bool :=
  match dB with
  | .flt _ _ _ =>
    if dB.isZero then .error "ZeroDivisionError" else
    match inst.toDouble with
    | none => .ok (!Num.exactMultiple inst dB)                 -- OverflowError → Fraction
    | some fi =>
      match Num.fdiv fi dB with
      | .inf => .ok (!Num.exactMultiple inst dB)               -- int(inf) → OverflowError → Fraction
      | .fin q => .ok (!q.isIntegral)
  | .int d =>
    if d = 0 then .error "ZeroDivisionError" else
    match inst with
    | .int i => .ok (decide (Int.fmod i d ≠ 0))
    | .flt _ _ _ =>
      match Num.intToDouble d with
      | none => .ok (!Num.exactMultiple inst dB)               -- OverflowError → Fraction
      | some fd => .ok (!Num.exactMultiple inst fd)            -- `float % float` is exact

def kwMultipleOf (cfg : Cfg) (dB inst : Json) : Gen :=
  gate cfg inst "number" <|
    match asNum inst, asNum dB with
    | some i, some d =>
      match multipleOfFailed i d with
      | .ok true => emit [Err.fresh "multipleOf" [inst, dB]]
      | .ok false => nothing
      | .error cls => crashG cls
    | _, _ => crashG "TypeError"

def kwLenBound (cfg : Cfg) (ty tmpl : String) (lt : Bool) (len : Json → Option Nat) (m inst : Json) : Gen :=
  withRes (isTypeS cfg inst ty) fun ok =>
    if !ok then nothing else
    match len inst with
    | none => crashG "TypeError"
    | some n => withRes (lenCmp lt n m) fun fails =>
        if fails then emit [Err.fresh tmpl [inst]] else nothing

def arrLen : Json → Option Nat | .arr xs => some xs.length | _ => none
def strLen : Json → Option Nat | .str s => some s.length | _ => none
def objLen : Json → Option Nat | .obj kvs => some kvs.length | _ => none

def kwMinItems (cfg : Cfg) := kwLenBound cfg "array" "tooShort" true arrLen
def kwMaxItems (cfg : Cfg) := kwLenBound cfg "array" "tooLong" false arrLen
def kwMinLength (cfg : Cfg) := kwLenBound cfg "string" "tooShort" true strLen
def kwMaxLength (cfg : Cfg) := kwLenBound cfg "string" "tooLong" false strLen
def kwMinProperties (cfg : Cfg) := kwLenBound cfg "object" "minProperties" true objLen
def kwMaxProperties (cfg : Cfg) := kwLenBound cfg "object" "maxProperties" false objLen

def kwUniqueItems (cfg : Cfg) (uI inst : Json) : Gen :=
  if !truthy uI then nothing else
  withRes (isTypeS cfg inst "array") fun ok =>
    if !ok then nothing else
    match inst with
    | .arr xs =>
      if uniq xs then nothing else emit [Err.fresh "uniqueItems" [inst]]
    | _ => crashG "TypeError"

def kwPattern (env : Env) (cfg : Cfg) (p inst : Json) : Gen :=
  withRes (isTypeS cfg inst "string") fun ok =>
    if !ok then nothing else
    match p, inst with
    | .str ps, .str s => withRes (search env ps s) fun m =>
        if m then nothing else emit [Err.fresh "pattern" [inst, p]]
    | _, _ => crashG "TypeError"

/-- the built-in format functions modelled in Lean are plugged in here -/
structure FmtImpl where
  run : FmtFn → Json → Option FmtRes     -- `none`: not modelled, ask the oracle
deriving Inhabited

def runFmt (env : Env) (impl : FmtImpl) (e : FmtEntry) (inst : Json) : Res FmtRes :=
  match impl.run e.fn inst with
  | some r => .ok r
  | none => askOpt (.fmt e.name inst) (env.fmt e.name inst)

/-- `FormatChecker.check(instance, format)`: `ok none` = passes, `ok (some cause)` = `FormatError`
    with that cause, `raise` = an unlisted exception escapes -/
def fmtCheck (env : Env) (impl : FmtImpl) (fc : FormatChecker) (inst : Json) (name : Str) :
    Res (Option (Option String)) :=
  match fc.find name with
  | none => .ok none
  | some e =>
    match runFmt env impl e inst with
    | .ok (.ret t) => .ok (if t then none else some none)
    | .ok (.raise mro) =>
        if mro.any (fun c => e.raises.contains c) then .ok (some mro.head?)
        else .raise (.custom (mro.headD "Exception"))
    | .raise x => .raise x
    | .miss q => .miss q

def kwFormat (env : Env) (impl : FmtImpl) (cfg : Cfg) (fmt inst : Json) : Gen :=
  match cfg.formatChecker with
  | none => nothing
  | some fc =>
    match fmt with
    | .str name =>
      withRes (fmtCheck env impl fc inst name) fun r =>
        match r with
        | none => nothing
        | some cause => emit [Err.fresh "format" [inst, fmt] [] cause]
    | .arr _ => crashG "TypeError"
    | .obj _ => crashG "TypeError"
    | _ => nothing

/-- `x not in instance` for a dict instance -/
def missingKey (ikvs : List (Str × Json)) (x : Json) : Res Bool :=
  match x with
  | .str k => .ok (!Json.hasKey k ikvs)
  | .arr _ => .raise (.crash "TypeError")
  | .obj _ => .raise (.crash "TypeError")
  | _ => .ok true

def depArray (ikvs : List (Str × Json)) (prop : Str) (deps : List Json) : Gen :=
  seqG (fun (each : Json) =>
    withRes (missingKey ikvs each) fun miss =>
      if miss then emit [Err.fresh "dependency" [each, .str prop]] else nothing) deps

def kwDependencies (cfg : Cfg) (rec : Rec) (deps inst : Json) : Gen :=
  gate cfg inst "object" <|
    match deps, inst with
    | .obj dkvs, .obj ikvs =>
      seqG (fun (pd : Str × Json) =>
        if !Json.hasKey pd.1 ikvs then nothing else
        withRes (isTypeS cfg pd.2 "array") fun isArr =>
          if isArr then
            match pd.2 with
            | .arr ds => depArray ikvs pd.1 ds
            | _ => crashG "TypeError"
          else descendG (rec inst pd.2) none (some (.key pd.1))) dkvs
    | _, _ => crashG "AttributeError"

def kwEnum (enums inst : Json) : Gen :=
  match enums with
  | .arr es =>
    if es.all (fun each => !equal inst each) then emit [Err.fresh "enum" [inst, enums]] else nothing
  | _ => crashG "TypeError"

/-- `ensure_list` -/
def ensureList (j : Json) : Option (List Json) :=
  match j with
  | .str _ => some [j]
  | .arr xs => some xs
  | _ => none

/-- `any(validator.is_type(instance, t) for t in types)` -/
def anyType (cfg : Cfg) (inst : Json) : List Json → Res Bool
  | [] => .ok false
  | t :: ts => match isType cfg inst t with
      | .ok true => .ok true
      | .ok false => anyType cfg inst ts
      | r => r

def kwType (cfg : Cfg) (types inst : Json) : Gen :=
  match ensureList types with
  | none => crashG "TypeError"
  | some ts => withRes (anyType cfg inst ts) fun ok =>
      if ok then nothing else emit [Err.fresh "type" [inst, .arr ts]]

def kwProperties (cfg : Cfg) (rec : Rec) (props inst : Json) : Gen :=
  gate cfg inst "object" <|
    match props, inst with
    | .obj pkvs, .obj ikvs =>
      seqG (fun (ps : Str × Json) =>
        match Json.lookup ps.1 ikvs with
        | some x => descendG (rec x ps.2) (some (.key ps.1)) (some (.key ps.1))
        | none => nothing) pkvs
    | _, _ => crashG "AttributeError"

def kwRequired (cfg : Cfg) (req inst : Json) : Gen :=
  gate cfg inst "object" <|
    match req, inst with
    | .arr rs, .obj ikvs =>
      seqG (fun (p : Json) =>
        withRes (missingKey ikvs p) fun miss =>
          if miss then emit [Err.fresh "required" [p]] else nothing) rs
    | _, _ => crashG "TypeError"

def kwAllOf (rec : Rec) (subs inst : Json) : Gen :=
  match subs with
  | .arr ss => seqG (fun (t : Nat × Json) => descendG (rec inst t.2) none (some (.idx t.1))) (enumFrom 0 ss)
  | _ => crashG "TypeError"

/-- the first loop of `anyOf`/`oneOf`: `none` = no branch was valid (all errors collected);
    `some rest` = a branch was valid, `rest` are the branches after it -/
def firstValid (rec : Rec) (inst : Json) (k : Option (Json × List (Nat × Json)) → List Err → Gen) :
    List (Nat × Json) → List Err → Gen
  | [], acc => k none acc
  | (i, s) :: rest, acc =>
    inner (descendG (rec inst s) none (some (.idx i))) none fun errs =>
      if errs.isEmpty then k (some (s, rest)) acc else firstValid rec inst k rest (acc ++ errs)

def kwAnyOf (rec : Rec) (subs inst : Json) : Gen :=
  match subs with
  | .arr ss =>
    firstValid rec inst (fun r acc =>
      match r with
      | some _ => nothing
      | none => emit [Err.fresh "anyOf" [inst] acc]) (enumFrom 0 ss) []
  | _ => crashG "TypeError"

/-- `[s for i, s in subschemas if validator.is_valid(instance, s)]` -/
def moreValid (rec : Rec) (inst : Json) (k : List Json → Gen) : List (Nat × Json) → List Json → Gen
  | [], acc => k acc
  | (_, s) :: rest, acc =>
    innerValid (rec inst s) fun ok => moreValid rec inst k rest (if ok then acc ++ [s] else acc)

def kwOneOf (rec : Rec) (subs inst : Json) : Gen :=
  match subs with
  | .arr ss =>
    firstValid rec inst (fun r acc =>
      match r with
      | none => emit [Err.fresh "anyOf" [inst] acc]        -- same wording as anyOf
      | some (first, rest) =>
        moreValid rec inst (fun more =>
          if more.isEmpty then nothing
          else emit [Err.fresh "oneOfMore" [inst, .arr (more ++ [first])]]) rest []) (enumFrom 0 ss) []
  | _ => crashG "TypeError"

def kwNot (rec : Rec) (sub inst : Json) : Gen :=
  innerValid (rec inst sub) fun ok =>
    if ok then emit [Err.fresh "not" [sub, inst]] else nothing

def kwIf (rec : Rec) (ifS inst schema : Json) : Gen :=
  innerValid (rec inst ifS) fun ok =>
    if ok then
      match schema.get? (skey "then") with
      | some t => descendG (rec inst t) none (some (.key (skey "then")))
      | none => nothing
    else
      match schema.get? (skey "else") with
      | some e => descendG (rec inst e) none (some (.key (skey "else")))
      | none => nothing

/-! ### `_legacy_validators.py` -/

def kwDependenciesDraft3 (cfg : Cfg) (rec : Rec) (deps inst : Json) : Gen :=
  gate cfg inst "object" <|
    match deps, inst with
    | .obj dkvs, .obj ikvs =>
      seqG (fun (pd : Str × Json) =>
        if !Json.hasKey pd.1 ikvs then nothing else
        withRes (isTypeS cfg pd.2 "object") fun isObj =>
          if isObj then descendG (rec inst pd.2) none (some (.key pd.1))
          else withRes (isTypeS cfg pd.2 "string") fun isStr =>
            if isStr then
              withRes (missingKey ikvs pd.2) fun miss =>
                if miss then emit [Err.fresh "dependency" [pd.2, .str pd.1]] else nothing
            else
              match pd.2 with
              | .arr ds => depArray ikvs pd.1 ds
              | _ => crashG "TypeError") dkvs
    | _, _ => crashG "AttributeError"

def kwDisallowDraft3 (rec : Rec) (dis inst : Json) : Gen :=
  match ensureList dis with
  | none => crashG "TypeError"
  | some ds =>
    seqG (fun (d : Json) =>
      innerValid (rec inst (.obj [(skey "type", .arr [d])])) fun ok =>
        if ok then emit [Err.fresh "disallow" [d, inst]] else nothing) ds

def kwExtendsDraft3 (cfg : Cfg) (rec : Rec) (ext inst : Json) : Gen :=
  withRes (isTypeS cfg ext "object") fun isObj =>
    if isObj then descendG (rec inst ext) none none
    else match ext with
      | .arr ss => seqG (fun (t : Nat × Json) => descendG (rec inst t.2) none (some (.idx t.1))) (enumFrom 0 ss)
      | _ => crashG "TypeError"

/-- the pre-filled error of `properties_draft3` for a missing required property -/
def requiredDraft3Err (prop : Str) (reqVal inst schema : Json) : Err :=
  .mk ⟨"required", [.str prop]⟩
    (some ⟨some (skey "required"), reqVal, inst, schema⟩)
    [.key prop] [.key prop, .key (skey "required")] [] none

def kwPropertiesDraft3 (cfg : Cfg) (rec : Rec) (props inst schema : Json) : Gen :=
  gate cfg inst "object" <|
    match props, inst with
    | .obj pkvs, .obj ikvs =>
      seqG (fun (ps : Str × Json) =>
        match Json.lookup ps.1 ikvs with
        | some x => descendG (rec x ps.2) (some (.key ps.1)) (some (.key ps.1))
        | none =>
          match ps.2 with
          | .obj skvs =>
            match Json.lookup (skey "required") skvs with
            | some r => if truthy r then emit [requiredDraft3Err ps.1 r inst schema] else nothing
            | none => nothing
          | _ => crashG "AttributeError") pkvs
    | _, _ => crashG "AttributeError"

/-- the loop of `type_draft3`; `true` passed to `k` = some entry matched -/
def typeDraft3Loop (cfg : Cfg) (rec : Rec) (inst : Json) (k : Bool → List Err → Gen) :
    List (Nat × Json) → List Err → Gen
  | [], acc => k false acc
  | (i, t) :: rest, acc =>
    withRes (isTypeS cfg t "object") fun isObj =>
      if isObj then
        inner (descendG (rec inst t) none (some (.idx i))) none fun errs =>
          if errs.isEmpty then k true acc else typeDraft3Loop cfg rec inst k rest (acc ++ errs)
      else
        withRes (isType cfg inst t) fun ok =>
          if ok then k true acc else typeDraft3Loop cfg rec inst k rest acc

def kwTypeDraft3 (cfg : Cfg) (rec : Rec) (types inst : Json) : Gen :=
  match ensureList types with
  | none => crashG "TypeError"
  | some ts =>
    typeDraft3Loop cfg rec inst (fun matched acc =>
      if matched then nothing else emit [Err.fresh "type" [inst, .arr ts] acc]) (enumFrom 0 ts) []

end JS
