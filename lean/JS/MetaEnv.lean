/-
  JS.MetaEnv — the environment in which `check_schema` evaluates a draft's metaschema: the answers
  of this installation's `urllib.parse` on the finitely many URI questions that arise (REGENERATED:
  JS/Generated/MetaUrls.lean). No regular expression and no retrieval is ever needed for a
  metaschema (the regex oracle is nevertheless total here, so that theorems stated under
  `Spec.RegexTotal` apply); set iteration order is taken to be insertion order (any permutation would do).
-/
import JS.Drafts
import JS.Generated.MetaUrls
namespace JS

def lookupPair {α : Type} (a b : Str) : List ((Str × Str) × α) → Option α
  | [] => none
  | ((x, y), v) :: rest => if x = a ∧ y = b then some v else lookupPair a b rest

def Draft.urljoinTable : Draft → List ((Str × Str) × Str)
  | .d3 => Generated.d3Urljoin | .d4 => Generated.d4Urljoin | .d6 => Generated.d6Urljoin | .d7 => Generated.d7Urljoin
def Draft.urldefragTable : Draft → List (Str × (Str × Str))
  | .d3 => Generated.d3Urldefrag | .d4 => Generated.d4Urldefrag | .d6 => Generated.d6Urldefrag | .d7 => Generated.d7Urldefrag
def Draft.urinormTable : Draft → List (Str × Str)
  | .d3 => Generated.d3Urinorm | .d4 => Generated.d4Urinorm | .d6 => Generated.d6Urinorm | .d7 => Generated.d7Urinorm

/-- the oracle answers for evaluating the metaschema of draft `d` -/
def metaEnv (d : Draft) : Env where
  reSearch _ _ := some (some false)      -- never consulted: the metaschemas contain no `pattern`/`patternProperties`
  urljoin a b := lookupPair a b d.urljoinTable
  urldefrag u := lookupS u d.urldefragTable
  urinorm u := lookupS u d.urinormTable
  scheme _ := none
  sortPerm _ := none
  setOrder xs := some xs
  fetch _ _ := some none
  fmt _ _ := none

end JS
