/-
  JS.Module — module-level entry points: `validator_for`, `check_schema`, `jsonschema.validate`,
  and the global registries they read (C04, C11, C20).
-/
import JS.Errors
import JS.Drafts
namespace JS

/-- a registered validator class: its behaviour and its metaschema -/
structure ClassDef where
  name : String
  cfg : Cfg
  metaSchema : Json
deriving Inhabited

/-- the module-level mutable registries -/
structure Globals where
  metaSchemas : List (Str × ClassDef)      -- `meta_schemas` (URIDict: keys normalised)
  validators : List (Str × ClassDef)       -- `validators` (by version name)
  latest : ClassDef                        -- `_LATEST_VERSION`
deriving Inhabited

def Draft.classDef (d : Draft) : ClassDef := ⟨d.tag, d.cfg, d.metaSchema⟩

/-- the registries as the import of `jsonschema.validators` leaves them (regenerated tables) -/
def Globals.initial : Globals :=
  { metaSchemas := Generated.registryMetaSchemas.filterMap fun (uri, tag) =>
      (Draft.ofTag? tag).map fun d => (uri, d.classDef)
    validators := Generated.registryValidators.filterMap fun (v, tag) =>
      (Draft.ofTag? tag).map fun d => (v, d.classDef)
    latest := ((Draft.ofTag? Generated.latestVersion).getD .d7).classDef }

/-- `validates(version)(cls)`: register by version name and, when the metaschema has a (truthy)
    id (`ID_OF`: none next to a `$ref` key), by that id — overwriting what was there -/
def validates (env : Env) (version : Str) (c : ClassDef) (g : Globals) : Res Globals :=
  let g1 := { g with validators := (g.validators.filter (·.1 ≠ version)) ++ [(version, c)] }
  match c.metaSchema with
  | .obj kvs =>
    if Json.hasKey (skey "$ref") kvs then .ok g1 else
    match Json.lookup c.cfg.idKey kvs with
    | some (.str u) =>
      if u.isEmpty then .ok g1 else
      match env.urinorm u with
      | none => .miss (.urinorm u)
      | some k => .ok { g1 with metaSchemas := (g1.metaSchemas.filter (·.1 ≠ k)) ++ [(k, c)] }
    | _ => .ok g1
  | _ => .ok g1

/-- `needle in haystack` for strings -/
def hasInfix (needle : Str) : Str → Bool
  | [] => needle.isEmpty
  | c :: rest => needle.isPrefixOf (c :: rest) || hasInfix needle rest

/-- `validator_for(schema, default)`: the class and whether a DeprecationWarning was issued -/
def validatorFor (env : Env) (g : Globals) (dflt : ClassDef) (schema : Json) : Res (ClassDef × Bool) :=
  match schema with
  | .bool _ => .ok (dflt, false)
  | .obj kvs =>
    match Json.lookup (skey "$schema") kvs with
    | none => .ok (dflt, false)
    | some (.str u) =>
      match env.urinorm u with
      | none => .miss (.urinorm u)
      | some k =>
        match lookupS k g.metaSchemas with
        | some c => .ok (c, false)
        | none => .ok (g.latest, true)
    | some .null => .ok (g.latest, true)           -- `urlsplit(None)` happens to work: "not found", warning
    | some _ => .raise (.crash "AttributeError")
  -- `"$schema" not in schema` also answers for lists (membership) and strings (substring)
  | .arr xs => if xs.contains (.str (skey "$schema")) then .raise (.crash "TypeError") else .ok (dflt, false)
  | .str s => if hasInfix (skey "$schema") s then .raise (.crash "TypeError") else .ok (dflt, false)
  | _ => .raise (.crash "TypeError")

/-- the resolver `cls(schema)` builds for itself: `RefResolver.from_schema(schema, id_of=id_of)` -/
def freshResolver (env : Env) (g : Globals) (c : ClassDef) (schema : Json) : Res RState :=
  let base : Str := match schema with
    | .obj kvs =>
      if Json.hasKey (skey "$ref") kvs then [] else
      match Json.lookup c.cfg.idKey kvs with | some (.str s) => s | _ => []
    | _ => []
  mkResolver env (g.metaSchemas.map fun p => (p.1, p.2.metaSchema)) base schema [] true (some 1024)

inductive CheckResult where
  | ok
  | schemaError (e : Err)
  | raise (e : Exc)
  | other (s : Stop)
deriving Inhabited

/-- `cls.check_schema(schema)`: the first error of the metaschema validating the schema,
    re-typed as `SchemaError` with all fields copied -/
def checkSchema (env : Env) (impl : FmtImpl) (g : Globals) (c : ClassDef) (fuel : Nat) (schema : Json) : CheckResult :=
  match freshResolver env g c c.metaSchema with
  | .miss q => .other (.miss q)
  | .raise e => .raise e
  | .ok st =>
    match validateM (eval env impl { c.cfg with formatChecker := none } fuel schema c.metaSchema) st with
    | (.ok (), _) => .ok
    | (.invalid e, _) => .schemaError e
    | (.raise e, _) => .raise e
    | (.other s, _) => .other s

inductive ModResult where
  | ok
  | schemaError (e : Err)
  | validationError (e : Err)
  | raise (e : Exc)
  | other (s : Stop)
deriving Inhabited

/-- `jsonschema.validate(instance, schema, cls=None, format_checker=…)` -/
def moduleValidate (env : Env) (impl : FmtImpl) (g : Globals) (fuel : Nat) (weak strong : List Str)
    (cls : Option ClassDef) (fc : Option FormatChecker) (inst schema : Json) : ModResult × Bool :=
  let sel : Res (ClassDef × Bool) := match cls with
    | some c => .ok (c, false)
    | none => validatorFor env g g.latest schema
  match sel with
  | .miss q => (.other (.miss q), false)
  | .raise e => (.raise e, false)
  | .ok (c, warned) =>
    match checkSchema env impl g c fuel schema with
    | .schemaError e => (.schemaError e, warned)
    | .raise e => (.raise e, warned)
    | .other s => (.other s, warned)
    | .ok =>
      match freshResolver env g c schema with
      | .miss q => (.other (.miss q), warned)
      | .raise e => (.raise e, warned)
      | .ok st =>
        match eval env impl { c.cfg with formatChecker := fc } fuel inst schema none st with
        | ⟨es, .done, _⟩ =>
          (match bestMatch weak strong es with
           | none => .ok
           | some b => .validationError b, warned)
        | ⟨_, .raised e, _⟩ => (.raise e, warned)
        | ⟨_, s, _⟩ => (.other s, warned)

end JS
