/-
  JS.Num — Python number semantics on the exact representation.
  Mixed int/float comparison in Python is exact; float division and int→float
  conversion round to nearest-even binary64 (`roundToDouble`, DESIGN Appendix D).
-/
import JS.Basic
namespace JS
namespace Num

/-- signed mantissa -/
def sm : Num → Int
  | .int v => v
  | .flt neg m _ => if neg then -(m : Int) else (m : Int)

/-- binary exponent -/
def ex : Num → Int
  | .int _ => 0
  | .flt _ _ e => e

def isFloat : Num → Bool
  | .flt _ _ _ => true
  | .int _ => false

/-- the integer `sm · 2^(ex − e0)` for any `e0 ≤ ex` -/
def scaled (a : Num) (e0 : Int) : Int := a.sm * 2 ^ (a.ex - e0).toNat

/-- exact `a < b` -/
def lt (a b : Num) : Bool :=
  decide (a.scaled (min a.ex b.ex) < b.scaled (min a.ex b.ex))

/-- exact `a ≤ b` -/
def le (a b : Num) : Bool :=
  decide (a.scaled (min a.ex b.ex) ≤ b.scaled (min a.ex b.ex))

/-- exact `a == b` (Python `==` on int/float) -/
def eq (a b : Num) : Bool :=
  decide (a.scaled (min a.ex b.ex) = b.scaled (min a.ex b.ex))

def isZero (a : Num) : Bool := decide (a.sm = 0)

/-- is the value an integer (`float.is_integer()`, `int(q) == q`) -/
def isIntegral (a : Num) : Bool :=
  match a with
  | .int _ => true
  | .flt _ m e => if 0 ≤ e then true else decide (m % 2 ^ (-e).toNat = 0)

def ofNat (n : Nat) : Num := .int n

/-! ### binary64 rounding -/

def bitlen (n : Nat) : Nat := if n = 0 then 0 else Nat.log2 n + 1

/-- the odd part of a positive number and the exponent of 2 removed: `n = oddPart · 2^twoAdic` -/
def twoAdic : Nat → Nat → Nat
  | 0, _ => 0
  | fuel + 1, n => if n ≠ 0 ∧ n % 2 = 0 then twoAdic fuel (n / 2) + 1 else 0

/-- if `num/den` is exactly a binary64 value, that value as `(m, e)` with `m` odd (or zero) -/
def exactDouble? (num den : Nat) : Option (Nat × Int) :=
  if num = 0 then some (0, 0) else
  let g := Nat.gcd num den
  let n := num / g
  let d := den / g
  let j := twoAdic d d
  if d ≠ 2 ^ j then none else
  let t := twoAdic n n
  let m := n / 2 ^ t
  let e : Int := (t : Int) - (j : Int)
  if m < 2 ^ 53 ∧ -1074 ≤ e ∧ (bitlen m : Int) + e ≤ 1024 then some (m, e) else none

/-- nearest-even rounding of an inexact `num/den` (DESIGN Appendix D) -/
def roundInexact (num den : Nat) : Option (Nat × Int) :=
  let e0 : Int := (bitlen num : Int) - (bitlen den : Int) - 53
  -- floor(num / (den * 2^e)) for integer e
  let quo (e : Int) : Nat × Nat × Nat :=   -- (q, r, divisor)
    if e < 0 then
      let n' := num * 2 ^ (-e).toNat
      (n' / den, n' % den, den)
    else
      let d' := den * 2 ^ e.toNat
      (num / d', num % d', d')
  let e1 : Int := if (quo e0).1 ≥ 2 ^ 53 then e0 + 1 else e0
  let e2 : Int := max e1 (-1074)
  let (q, r, d) := quo e2
  let q' := if 2 * r > d ∨ (2 * r = d ∧ q % 2 = 1) then q + 1 else q
  let (q'', e3) := if q' = 2 ^ 53 then (2 ^ 52, e2 + 1) else (q', e2)
  if e3 > 971 then none else some (q'', e3)

/-- Nearest-even binary64 to `num/den` (`den > 0`): `some (m, e)` meaning `m·2^e`, or `none` for
    overflow to infinity. A value that is exactly representable is returned as it is; only
    otherwise does rounding happen (the C09 theorems never enter the rounding branch). -/
def roundToDouble (num den : Nat) : Option (Nat × Int) :=
  match exactDouble? num den with
  | some r => some r
  | none => roundInexact num den

/-- `float(v)` for a Python int: `none` = `OverflowError` -/
def intToDouble (v : Int) : Option Num :=
  match roundToDouble v.natAbs 1 with
  | none => none
  | some (m, e) => some (.flt (decide (v < 0)) m e)

/-- operand of a float operation: floats as they are, ints converted (may overflow) -/
def toDouble : Num → Option Num
  | .int v => intToDouble v
  | f => some f

inductive FloatVal where
  | fin (n : Num)
  | inf
deriving Repr, Inhabited

/-- IEEE division of two finite doubles given as `flt` (divisor non-zero) -/
def fdiv (a b : Num) : FloatVal :=
  match a, b with
  | .flt na ma ea, .flt nb mb eb =>
    let d := ea - eb
    let num := if 0 ≤ d then ma * 2 ^ d.toNat else ma
    let den := if 0 ≤ d then mb else mb * 2 ^ (-d).toNat
    match roundToDouble num den with
    | none => .inf
    | some (m, e) => .fin (.flt (na != nb) m e)
  | _, _ => .inf   -- unreachable: callers pass floats

/-- is `a / b` an integer, exactly (the `Fraction` fallback); `b ≠ 0` -/
def exactMultiple (a b : Num) : Bool :=
  let e0 := min a.ex b.ex
  decide (a.scaled e0 % b.scaled e0 = 0)

end Num
end JS
