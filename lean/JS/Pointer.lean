/-
  JS.Pointer — model of `RefResolver.resolve_fragment` and of `urllib.parse.unquote`
  (percent-decoding to UTF-8 with `errors="replace"`), which C14 is about.
-/
import JS.Gen
namespace JS

/-! ### `urllib.parse.unquote` -/

def hexVal (c : Char) : Option Nat :=
  if '0' ≤ c ∧ c ≤ '9' then some (c.toNat - '0'.toNat)
  else if 'a' ≤ c ∧ c ≤ 'f' then some (c.toNat - 'a'.toNat + 10)
  else if 'A' ≤ c ∧ c ≤ 'F' then some (c.toNat - 'A'.toNat + 10)
  else none

/-- `unquote_to_bytes` on a run of ASCII characters: `%XX` becomes one byte, everything else
    (including a `%` not followed by two hex digits) its own code -/
def byteOf (c : Char) : UInt8 := UInt8.ofNat c.toNat

def unquoteBytes : Str → List UInt8
  | [] => []
  | [c] => [byteOf c]
  | [c, d] => [byteOf c, byteOf d]
  | c :: h :: l :: rest' =>
    if c = '%' then
      match hexVal h, hexVal l with
      | some a, some b => UInt8.ofNat (a * 16 + b) :: unquoteBytes rest'
      | _, _ => byteOf c :: unquoteBytes (h :: l :: rest')
    else byteOf c :: unquoteBytes (h :: l :: rest')

def isCont (b : UInt8) : Bool := 0x80 ≤ b && b ≤ 0xBF

def replacement : Char := Char.ofNat 0xFFFD

/-- CPython's UTF-8 decoder with `errors="replace"`: every maximal invalid prefix becomes one
    U+FFFD. -/
def utf8Replace : List UInt8 → Str
  | [] => []
  | b0 :: rest =>
    if b0 < 0x80 then Char.ofNat b0.toNat :: utf8Replace rest
    else if 0xC2 ≤ b0 ∧ b0 ≤ 0xDF then
      match hr : rest with
      | b1 :: rest1 =>
        if isCont b1 then
          Char.ofNat ((b0.toNat - 0xC0) * 64 + (b1.toNat - 0x80)) :: utf8Replace rest1
        else replacement :: utf8Replace rest
      | [] => [replacement]
    else if 0xE0 ≤ b0 ∧ b0 ≤ 0xEF then
      match hr : rest with
      | b1 :: rest1 =>
        let ok1 : Bool :=
          if b0 = 0xE0 then 0xA0 ≤ b1 && b1 ≤ 0xBF
          else if b0 = 0xED then 0x80 ≤ b1 && b1 ≤ 0x9F
          else isCont b1
        if ok1 then
          match hr1 : rest1 with
          | b2 :: rest2 =>
            if isCont b2 then
              Char.ofNat ((b0.toNat - 0xE0) * 4096 + (b1.toNat - 0x80) * 64 + (b2.toNat - 0x80))
                :: utf8Replace rest2
            else replacement :: utf8Replace rest1
          | [] => [replacement]
        else replacement :: utf8Replace rest
      | [] => [replacement]
    else if 0xF0 ≤ b0 ∧ b0 ≤ 0xF4 then
      match hr : rest with
      | b1 :: rest1 =>
        let ok1 : Bool :=
          if b0 = 0xF0 then 0x90 ≤ b1 && b1 ≤ 0xBF
          else if b0 = 0xF4 then 0x80 ≤ b1 && b1 ≤ 0x8F
          else isCont b1
        if ok1 then
          match hr1 : rest1 with
          | b2 :: rest2 =>
            if isCont b2 then
              match hr2 : rest2 with
              | b3 :: rest3 =>
                if isCont b3 then
                  Char.ofNat ((b0.toNat - 0xF0) * 262144 + (b1.toNat - 0x80) * 4096
                      + (b2.toNat - 0x80) * 64 + (b3.toNat - 0x80)) :: utf8Replace rest3
                else replacement :: utf8Replace rest2
              | [] => [replacement]
            else replacement :: utf8Replace rest1
          | [] => [replacement]
        else replacement :: utf8Replace rest
      | [] => [replacement]
    else replacement :: utf8Replace rest
termination_by bs => bs.length
decreasing_by
  all_goals simp_wf
  all_goals (try subst_vars)
  all_goals (first | omega | (simp only [List.length_cons] at *; omega))

/-- decode a byte string as UTF-8: the strict decoder of Lean core when it succeeds
    (this is the branch the C14 round-trip theorem uses), CPython's replacing decoder otherwise -/
def decodeUtf8 (bs : List UInt8) : Str :=
  match (ByteArray.mk bs.toArray).utf8Decode? with
  | some cs => cs.toList
  | none => utf8Replace bs

def isAscii (c : Char) : Bool := c.toNat < 128

/-- split into maximal runs of ASCII / non-ASCII characters, ASCII run first (possibly empty):
    the `_asciire.split` of `unquote` -/
def asciiRuns : Str → List (Bool × Str)
  | [] => []
  | c :: rest =>
    match asciiRuns rest with
    | (a, run) :: more => if a = isAscii c then (a, c :: run) :: more else (isAscii c, [c]) :: (a, run) :: more
    | [] => [(isAscii c, [c])]

/-- `urllib.parse.unquote(s)` (UTF-8, `errors="replace"`) -/
def unquote (s : Str) : Str :=
  if s.contains '%' then
    (asciiRuns s).flatMap fun (a, run) => if a then decodeUtf8 (unquoteBytes run) else run
  else s

/-! ### RFC 6901 -/

/-- `str.replace` for a two-character needle -/
def repl2 (a b r : Char) : Str → Str
  | [] => []
  | [x] => [x]
  | x :: y :: rest => if x = a ∧ y = b then r :: repl2 a b r rest else x :: repl2 a b r (y :: rest)

/-- `part.replace("~1", "/").replace("~0", "~")` -/
def unescapeToken (s : Str) : Str := repl2 '~' '0' '~' (repl2 '~' '1' '/' s)

/-- `str.split(c)` -/
def splitOn (c : Char) : Str → List Str
  | [] => [[]]
  | x :: xs =>
    if x = c then [] :: splitOn c xs
    else match splitOn c xs with
      | h :: t => (x :: h) :: t
      | [] => [[x]]

def isDigit (c : Char) : Bool := '0' ≤ c && c ≤ '9'

/-- value of a string of ASCII digits -/
def digitsVal (s : Str) : Nat := s.foldl (fun acc c => acc * 10 + (c.toNat - '0'.toNat)) 0

/-- `_ARRAY_INDEX.fullmatch(part)`: `0|[1-9][0-9]*`, and then `int(part)` -/
def arrayIndex? (s : Str) : Option Nat :=
  match s with
  | [] => none
  | ['0'] => some 0
  | c :: rest => if '1' ≤ c ∧ c ≤ '9' ∧ rest.all isDigit then some (digitsVal s) else none

/-- one step of the pointer walk: `document[part]` after the index conversion;
    `none` = `TypeError`/`LookupError` -/
def ptrStep (doc : Json) (tok : Str) : Option Json :=
  match doc with
  | .obj kvs => Json.lookup tok kvs
  | .arr xs => match arrayIndex? tok with
      | some n => xs[n]?
      | none => none
  | _ => none

def ptrWalk (doc : Json) : List Str → Option Json
  | [] => some doc
  | t :: ts => match ptrStep doc t with
      | some d => ptrWalk d ts
      | none => none

/-- the tokens of a fragment: percent-decode, drop exactly one leading `/`, split,
    unescape each token (`~1` before `~0`) -/
def fragmentTokens (fragment : Str) : List Str :=
  match unquote fragment with
  | [] => []
  | '/' :: rest => (splitOn '/' rest).map unescapeToken
  | s => (splitOn '/' s).map unescapeToken

/-- `RefResolver.resolve_fragment(document, fragment)`; `none` = `RefResolutionError` -/
def resolveFragment (doc : Json) (fragment : Str) : Option Json :=
  ptrWalk doc (fragmentTokens fragment)

end JS
