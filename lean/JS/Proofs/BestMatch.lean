/- Helper lemmas about `maxBy`, `minBy`, `descendBest`, `Err.depth`, `Err.closure` (C04). -/
import JS.Errors
namespace JS

/-! ### `maxBy` / `minBy` return one of their arguments -/

theorem maxBy_mem (key : Err → Int × Bool × Bool) (best : Err) (xs : List Err) :
    maxBy key best xs ∈ best :: xs := by
  induction xs generalizing best with
  | nil => simp [maxBy]
  | cons x xs ih =>
    unfold maxBy
    split
    · have := ih x
      simp only [List.mem_cons] at this ⊢
      rcases this with h | h
      · exact Or.inr (Or.inl h)
      · exact Or.inr (Or.inr h)
    · have := ih best
      simp only [List.mem_cons] at this ⊢
      rcases this with h | h
      · exact Or.inl h
      · exact Or.inr (Or.inr h)

theorem minBy_mem (key : Err → Int × Bool × Bool) (best : Err) (xs : List Err) :
    minBy key best xs ∈ best :: xs := by
  induction xs generalizing best with
  | nil => simp [minBy]
  | cons x xs ih =>
    unfold minBy
    split
    · have := ih x
      simp only [List.mem_cons] at this ⊢
      rcases this with h | h
      · exact Or.inr (Or.inl h)
      · exact Or.inr (Or.inr h)
    · have := ih best
      simp only [List.mem_cons] at this ⊢
      rcases this with h | h
      · exact Or.inl h
      · exact Or.inr (Or.inr h)

/-! ### `Err.depth` -/

theorem Err.depth_eq (e : Err) : e.depth = 1 + Err.depthList e.context := by
  cases e
  simp [Err.depth, Err.context]

theorem Err.depth_le_depthList {x : Err} {l : List Err} (h : x ∈ l) :
    x.depth ≤ Err.depthList l := by
  induction l with
  | nil => cases h
  | cons y ys ih =>
    simp only [Err.depthList]
    rcases List.mem_cons.1 h with h | h
    · subst h; omega
    · have := ih h; omega

theorem Err.depth_lt_of_mem_context {x e : Err} (h : x ∈ e.context) : x.depth < e.depth := by
  have := Err.depth_le_depthList h
  rw [Err.depth_eq e]
  omega

/-! ### `descendBest` -/

/-- enough fuel: the result has no context -/
theorem descendBest_context (key : Err → Int × Bool × Bool) :
    ∀ (n : Nat) (e : Err), e.depth ≤ n → (descendBest key n e).context = [] := by
  intro n
  induction n with
  | zero =>
    intro e h
    rw [Err.depth_eq] at h
    omega
  | succ n ih =>
    intro e h
    unfold descendBest
    split
    · assumption
    · rename_i c cs hc
      apply ih
      have hm : minBy key c cs ∈ e.context := by rw [hc]; exact minBy_mem key c cs
      have := Err.depth_lt_of_mem_context hm
      omega

/-- on an error without context `descendBest` does nothing -/
theorem descendBest_of_context_nil (key : Err → Int × Bool × Bool) (n : Nat) (e : Err)
    (h : e.context = []) : descendBest key n e = e := by
  cases n with
  | zero => rfl
  | succ n => unfold descendBest; rw [h]

/-! ### the transitive context closure without paths -/

mutual
/-- `e` and everything below it in its context tree -/
def Err.desc : Err → List Err
  | .mk m i p sp ctx c => .mk m i p sp ctx c :: Err.descList ctx
def Err.descList : List Err → List Err
  | [] => []
  | e :: es => Err.desc e ++ Err.descList es
end

mutual
theorem Err.closure_map (pp psp : List PathElem) :
    ∀ e : Err, (Err.closure pp psp e).map (·.2.2) = Err.desc e
  | .mk m i p sp ctx c => by
    simp [Err.closure, Err.desc, Err.closureList_map (pp ++ p) (psp ++ sp) ctx]
theorem Err.closureList_map (pp psp : List PathElem) :
    ∀ l : List Err, (Err.closureList pp psp l).map (·.2.2) = Err.descList l
  | [] => by simp [Err.closureList, Err.descList]
  | e :: es => by
    simp [Err.closureList, Err.descList, Err.closure_map pp psp e, Err.closureList_map pp psp es]
end

theorem Err.desc_eq (e : Err) : Err.desc e = e :: Err.descList e.context := by
  cases e
  simp [Err.desc, Err.context]

theorem Err.self_mem_desc (e : Err) : e ∈ Err.desc e := by
  rw [Err.desc_eq]; exact List.mem_cons_self

theorem Err.mem_descList {x c : Err} {l : List Err} (hc : c ∈ l) (hx : x ∈ Err.desc c) :
    x ∈ Err.descList l := by
  induction l with
  | nil => cases hc
  | cons y ys ih =>
    simp only [Err.descList, List.mem_append]
    rcases List.mem_cons.1 hc with h | h
    · subst h; exact Or.inl hx
    · exact Or.inr (ih h)

/-- descendants of an element of the context are descendants -/
theorem Err.mem_desc_of_mem_context {x c e : Err} (hc : c ∈ e.context) (hx : x ∈ Err.desc c) :
    x ∈ Err.desc e := by
  rw [Err.desc_eq e]
  exact List.mem_cons_of_mem _ (Err.mem_descList hc hx)

theorem descendBest_mem_desc (key : Err → Int × Bool × Bool) :
    ∀ (n : Nat) (e : Err), descendBest key n e ∈ Err.desc e := by
  intro n
  induction n with
  | zero => intro e; exact Err.self_mem_desc e
  | succ n ih =>
    intro e
    unfold descendBest
    split
    · exact Err.self_mem_desc e
    · rename_i c cs hc
      have hm : minBy key c cs ∈ e.context := by rw [hc]; exact minBy_mem key c cs
      exact Err.mem_desc_of_mem_context hm (ih _)

/-! ### `bestMatch` -/

theorem bestMatch_cons (weak strong : List Str) (e : Err) (rest : List Err) :
    bestMatch weak strong (e :: rest) =
      some (descendBest (relevance weak strong) (maxBy (relevance weak strong) e rest).depth
        (maxBy (relevance weak strong) e rest)) := rfl

theorem bestMatch_mem' (weak strong : List Str) (es : List Err) (b : Err)
    (h : bestMatch weak strong es = some b) :
    b.context = [] ∧ ∃ e ∈ es, b ∈ (Err.closure [] [] e).map (·.2.2) := by
  cases es with
  | nil => cases h
  | cons e rest =>
    rw [bestMatch_cons] at h
    injection h with h
    subst h
    refine ⟨descendBest_context _ _ _ (Nat.le_refl _), maxBy (relevance weak strong) e rest,
      maxBy_mem _ e rest, ?_⟩
    rw [Err.closure_map]
    exact descendBest_mem_desc _ _ _

theorem bestMatch_none_iff' (weak strong : List Str) (es : List Err) :
    bestMatch weak strong es = none ↔ es = [] := by
  cases es with
  | nil => exact ⟨fun _ => rfl, fun _ => rfl⟩
  | cons e rest => rw [bestMatch_cons]; exact ⟨nofun, nofun⟩

theorem bestMatch_flat' (weak strong : List Str) (e : Err) (es : List Err)
    (h : ∀ x ∈ e :: es, x.context = []) :
    bestMatch weak strong (e :: es) = some (maxBy (relevance weak strong) e es) := by
  rw [bestMatch_cons, descendBest_of_context_nil _ _ _ (h _ (maxBy_mem _ e es))]

end JS
