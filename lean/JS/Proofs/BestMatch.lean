/- Helper lemmas about `maxBy`, `minBy`, `descendBest`, `Err.depth`, `Err.closure` (C04). -/
import JS.Errors
namespace JS
end JS
