/-
  Helper lemmas for the bridge theorems of C11 (`allowed_is_shaped`, `allowed_is_shaped_d34`,
  `accepted_is_shaped`): what a bundled metaschema — read by the reference-aware specification
  `Spec.validRN` — allows in the limit has the hand-written shape `Spec.shapedR`.

  Part A: "eventually true" Boolean sequences and the limit reading of `Spec.validRN`.
  Part B: what `Spec.clause` says, keyword by keyword (the metaschema side).
  Part C: the finitely many facts about the four regenerated metaschemas (kernel evaluation).
  Part D: what the subschemas of the metaschemas say about a candidate's member.
  Part E: the tables (which property says what), the induction, the members of a candidate per
  draft family (4/6/7 and 3), and the bridge `allowed_shaped67` / `allowed_shaped34`.
-/
import JS.Proofs.CheckSchema
import JS.Props.C02
namespace JS.Bridge
open JS JS.Spec

/-! ### A. eventually-true sequences -/

/-- from some index on the answer is `true` -/
def EvB (f : Nat → Bool) : Prop := ∃ n, ∀ m, n ≤ m → f m = true
/-- from some index on the answer is `false` -/
def EvF (f : Nat → Bool) : Prop := ∃ n, ∀ m, n ≤ m → f m = false

theorem EvB.const {b : Bool} (h : EvB (fun _ => b)) : b = true := by
  obtain ⟨n, hn⟩ := h
  exact hn n (Nat.le_refl _)

theorem EvB.of_const {b : Bool} (h : b = true) : EvB (fun _ => b) := ⟨0, fun _ _ => h⟩

theorem EvF.of_const {b : Bool} (h : b = false) : EvF (fun _ => b) := ⟨0, fun _ _ => h⟩

theorem EvB.congr {f g : Nat → Bool} (h : EvB f) (e : ∀ m, f m = g m) : EvB g := by
  obtain ⟨n, hn⟩ := h
  exact ⟨n, fun m hm => by rw [← e m]; exact hn m hm⟩

theorem EvB.mono {f g : Nat → Bool} (h : EvB f) (e : ∀ m, f m = true → g m = true) : EvB g := by
  obtain ⟨n, hn⟩ := h
  exact ⟨n, fun m hm => e m (hn m hm)⟩

theorem EvB.and_left {f g : Nat → Bool} (h : EvB (fun m => f m && g m)) : EvB f :=
  h.mono fun _ hm => (Bool.and_eq_true_iff.1 hm).1

theorem EvB.and_right {f g : Nat → Bool} (h : EvB (fun m => f m && g m)) : EvB g :=
  h.mono fun _ hm => (Bool.and_eq_true_iff.1 hm).2

theorem EvB.all {α : Type} {l : List α} {f : Nat → α → Bool} (h : EvB (fun m => l.all (f m)))
    {x : α} (hx : x ∈ l) : EvB (fun m => f m x) :=
  h.mono fun _ hm => List.all_eq_true.1 hm x hx

/-- a disjunction whose first disjunct is eventually false -/
theorem EvB.or_right {f g : Nat → Bool} (h : EvB (fun m => f m || g m)) (hf : EvF f) : EvB g := by
  obtain ⟨n, hn⟩ := h
  obtain ⟨n', hn'⟩ := hf
  refine ⟨max n n', fun m hm => ?_⟩
  have h1 : (f m || g m) = true := hn m (by omega)
  rw [hn' m (by omega)] at h1
  exact h1

/-- a disjunction whose second disjunct is eventually false -/
theorem EvB.or_left {f g : Nat → Bool} (h : EvB (fun m => f m || g m)) (hg : EvF g) : EvB f := by
  refine EvB.or_right (h.congr fun m => Bool.or_comm _ _) hg

theorem EvB.shift {f : Nat → Bool} (h : EvB f) : EvB (fun m => f (m + 1)) := by
  obtain ⟨n, hn⟩ := h
  exact ⟨n, fun m hm => hn (m + 1) (by omega)⟩

theorem EvB.unshift {f : Nat → Bool} (h : EvB (fun m => f (m + 1))) : EvB f := by
  obtain ⟨n, hn⟩ := h
  refine ⟨n + 1, fun m hm => ?_⟩
  obtain ⟨m', rfl⟩ : ∃ m', m = m' + 1 := ⟨m - 1, by omega⟩
  exact hn m' (by omega)

theorem EvF.unshift {f : Nat → Bool} (h : EvF (fun m => f (m + 1))) : EvF f := by
  obtain ⟨n, hn⟩ := h
  refine ⟨n + 1, fun m hm => ?_⟩
  obtain ⟨m', rfl⟩ : ∃ m', m = m' + 1 := ⟨m - 1, by omega⟩
  exact hn m' (by omega)

theorem EvF.mono {f g : Nat → Bool} (h : EvF f) (e : ∀ m, f m = false → g m = false) : EvF g := by
  obtain ⟨n, hn⟩ := h
  exact ⟨n, fun m hm => e m (hn m hm)⟩

/-! ### the limit reading of `Spec.validRN` -/

section Limit
variable {env : Env} {d : Draft} {base : List (Str × Json)}

/-- the schema `t`, with base URI `top` in effect, eventually says `true` of `i` -/
def Ev (env : Env) (d : Draft) (base : List (Str × Json)) (top : Str) (t i : Json) : Prop :=
  EvB (fun m => validRN env d base m top t i)

/-- … eventually says `false` -/
def Nv (env : Env) (d : Draft) (base : List (Str × Json)) (top : Str) (t i : Json) : Prop :=
  EvF (fun m => validRN env d base m top t i)

theorem Ev_iff_ValidR {top : Str} {t i : Json} :
    Ev env d base top t i ↔ ValidR env d base top t i true := Iff.rfl

/-- a schema object without `$ref`: every member's clause is eventually true -/
theorem Ev.member {top : Str} {kvs : List (Str × Json)} {i : Json}
    (h : Ev env d base top (.obj kvs) i) (hnr : lookupJ "$ref" kvs = none)
    {p : Str × Json} (hp : p ∈ kvs) :
    EvB (fun m => clause env d (validRN env d base m (baseInside env d top kvs)) kvs i p) := by
  have h1 := EvB.shift h
  have h2 : EvB (fun m => kvs.all (clause env d (validRN env d base m (baseInside env d top kvs)) kvs i)) :=
    h1.congr fun m => validRN_succ_noref env d base m top kvs i hnr
  exact h2.all hp

/-- a schema object with a `$ref` that designates `t` -/
theorem Ev.ref {top : Str} {kvs : List (Str × Json)} {i : Json} {r url : Str} {t : Json}
    (h : Ev env d base top (.obj kvs) i) (hr : lookupJ "$ref" kvs = some (.str r))
    (hdes : designated env base top r = some (url, t)) : Ev env d base url t i :=
  (EvB.shift h).congr fun m => validRN_succ_ref env d base m top kvs i hr hdes

/-- one member whose clause is eventually false makes the object eventually false -/
theorem Nv.of_member {top : Str} {kvs : List (Str × Json)} {i : Json}
    (hnr : lookupJ "$ref" kvs = none) {p : Str × Json} (hp : p ∈ kvs)
    (h : EvF (fun m => clause env d (validRN env d base m (baseInside env d top kvs)) kvs i p)) :
    Nv env d base top (.obj kvs) i := by
  refine EvF.unshift (h.mono fun m hm => ?_)
  rw [validRN_succ_noref env d base m top kvs i hnr, Bool.eq_false_iff]
  intro hall
  rw [List.all_eq_true.1 hall p hp] at hm
  cases hm

theorem Nv.of_ref {top : Str} {kvs : List (Str × Json)} {i : Json} {r url : Str} {t : Json}
    (hr : lookupJ "$ref" kvs = some (.str r))
    (hdes : designated env base top r = some (url, t)) (h : Nv env d base url t i) :
    Nv env d base top (.obj kvs) i := by
  refine EvF.unshift (h.mono fun m hm => ?_)
  rw [validRN_succ_ref env d base m top kvs i hr hdes]
  exact hm

theorem Ev.bool {top : Str} {b : Bool} {i : Json} (h : Ev env d base top (.bool b) i) : b = true :=
  EvB.const ((EvB.shift h).congr fun m => validRN_succ_bool env d base m top b i)

end Limit


/-! ### B. what `Spec.clause` says, keyword by keyword -/

section Clauses
variable (env : Env) (d : Draft) (sub : Json → Json → Bool) (kvs : List (Str × Json)) (i : Json)

theorem clause_type_str (t : Str) : clause env d sub kvs i (k!"type", .str t) = hasType d t i := by
  cases d <;> rfl

theorem clause_type_arr (hd : d ≠ .d3) (ts : List Json) :
    clause env d sub kvs i (k!"type", .arr ts)
      = ts.any (fun t => match t with | .str t => hasType d t i | _ => false) := by
  cases d <;> first | exact absurd rfl hd | rfl

theorem clause_type_arr3 (ts : List Json) :
    clause env .d3 sub kvs i (k!"type", .arr ts)
      = ts.any (fun t => match t with | .str t => hasType .d3 t i | .obj _ => sub t i | _ => false) := rfl

theorem clause_enum (es : List Json) :
    clause env d sub kvs i (k!"enum", .arr es) = es.any (jsonEq i) := rfl

theorem clause_allOf (hd : d ≠ .d3) (ss : List Json) :
    clause env d sub kvs i (k!"allOf", .arr ss) = ss.all (fun s => sub s i) := by
  cases d <;> first | exact absurd rfl hd | rfl

theorem clause_anyOf (hd : d ≠ .d3) (ss : List Json) :
    clause env d sub kvs i (k!"anyOf", .arr ss) = ss.any (fun s => sub s i) := by
  cases d <;> first | exact absurd rfl hd | rfl

theorem clause_items_obj (xs : List Json) (sch : List (Str × Json)) :
    clause env d sub kvs (.arr xs) (k!"items", .obj sch) = xs.all (fun x => sub (.obj sch) x) := rfl

theorem clause_minItems (xs : List Json) (v : Json) :
    clause env d sub kvs (.arr xs) (k!"minItems", v)
      = (match natBound v with | some m => decide (m ≤ (xs.length : Rat)) | none => true) := rfl

theorem clause_properties (ms ps : List (Str × Json)) :
    clause env d sub kvs (.obj ms) (k!"properties", .obj ps)
      = (ms.all (fun m => match Json.lookup m.1 ps with | some s => sub s m.2 | none => true)
         && (d ≠ .d3 || ps.all (fun p =>
               match p.2 with
               | .obj pk => (match lookupJ "required" pk with
                             | some (.bool true) => Json.hasKey p.1 ms
                             | _ => true)
               | _ => true))) := rfl

theorem clause_additionalProperties_obj (ms sch : List (Str × Json)) :
    clause env d sub kvs (.obj ms) (k!"additionalProperties", .obj sch)
      = ms.all (fun m => covered env kvs m.1 || sub (.obj sch) m.2) := rfl

theorem clause_exclusiveMinimum67 (hd : d = .d6 ∨ d = .d7) (x : Num) (v : Json) :
    clause env d sub kvs (.num x) (k!"exclusiveMinimum", v)
      = (match isNum v with | some b => decide (val b < val x) | none => true) := by
  rcases hd with rfl | rfl <;> rfl

theorem clause_minimum34 (hd : d = .d3 ∨ d = .d4) (x : Num) (v : Json) :
    clause env d sub kvs (.num x) (k!"minimum", v)
      = (match isNum v with
         | some b => if flag "exclusiveMinimum" kvs then decide (val b < val x) else decide (val b ≤ val x)
         | none => true) := by
  rcases hd with rfl | rfl <;> rfl

end Clauses


/-! ### what a plain schema object (no `$ref`, no identifier) eventually says -/

/-- neither `$ref` nor `id`/`$id` -/
def plain (kvs : List (Str × Json)) : Bool :=
  (lookupJ "$ref" kvs).isNone && (lookupJ "id" kvs).isNone && (lookupJ "$id" kvs).isNone

theorem plain_noref {kvs : List (Str × Json)} (h : plain kvs = true) : lookupJ "$ref" kvs = none := by
  simp only [plain, Bool.and_eq_true, Option.isNone_iff_eq_none] at h
  exact h.1.1

theorem plain_base {kvs : List (Str × Json)} (h : plain kvs = true) (env : Env) (d : Draft) (top : Str) :
    baseInside env d top kvs = top := by
  simp only [plain, Bool.and_eq_true, Option.isNone_iff_eq_none] at h
  unfold baseInside idOf
  cases d <;> simp [h.1.2, h.2]

section Plain
variable {env : Env} {d : Draft} {base : List (Str × Json)} {top : Str} {kvs : List (Str × Json)}
  {v : Json}

/-- the clause of one member, with the base URI unchanged -/
theorem Ev.pmember (h : Ev env d base top (.obj kvs) v) (hp : plain kvs = true)
    {p : Str × Json} (hm : p ∈ kvs) :
    EvB (fun m => clause env d (validRN env d base m top) kvs v p) := by
  have := h.member (plain_noref hp) hm
  rwa [plain_base hp] at this

theorem Nv.of_pmember (hp : plain kvs = true) {p : Str × Json} (hm : p ∈ kvs)
    (h : EvF (fun m => clause env d (validRN env d base m top) kvs v p)) :
    Nv env d base top (.obj kvs) v := by
  refine Nv.of_member (plain_noref hp) hm ?_
  rwa [plain_base hp]

theorem Ev.type_str (h : Ev env d base top (.obj kvs) v) (hp : plain kvs = true) {t : Str}
    (hm : (k!"type", .str t) ∈ kvs) : hasType d t v = true :=
  EvB.const ((h.pmember hp hm).congr fun _ => clause_type_str env d _ kvs v t)

theorem Nv.type_str (hp : plain kvs = true) {t : Str} (hm : (k!"type", .str t) ∈ kvs)
    (hf : hasType d t v = false) : Nv env d base top (.obj kvs) v :=
  Nv.of_pmember hp hm ⟨0, fun _ _ => (clause_type_str env d _ kvs v t).trans hf⟩

theorem Ev.type_arr (h : Ev env d base top (.obj kvs) v) (hp : plain kvs = true) (hd : d ≠ .d3)
    {ts : List Json} (hm : (k!"type", .arr ts) ∈ kvs) :
    ts.any (fun t => match t with | .str t => hasType d t v | _ => false) = true :=
  EvB.const ((h.pmember hp hm).congr fun _ => clause_type_arr env d _ kvs v hd ts)

theorem Ev.type_arr3 {kvs : List (Str × Json)} (h : Ev env .d3 base top (.obj kvs) v)
    (hp : plain kvs = true) {ts : List Json} (hm : (k!"type", .arr ts) ∈ kvs) :
    EvB (fun m => ts.any (fun t => match t with
      | .str t => hasType .d3 t v | .obj _ => validRN env .d3 base m top t v | _ => false)) :=
  (h.pmember hp hm).congr fun _ => clause_type_arr3 env _ kvs v ts

theorem Ev.enum (h : Ev env d base top (.obj kvs) v) (hp : plain kvs = true) {es : List Json}
    (hm : (k!"enum", .arr es) ∈ kvs) : es.any (jsonEq v) = true :=
  EvB.const ((h.pmember hp hm).congr fun _ => clause_enum env d _ kvs v es)

theorem Nv.enum (hp : plain kvs = true) {es : List Json} (hm : (k!"enum", .arr es) ∈ kvs)
    (hf : es.any (jsonEq v) = false) : Nv env d base top (.obj kvs) v :=
  Nv.of_pmember hp hm ⟨0, fun _ _ => (clause_enum env d _ kvs v es).trans hf⟩

theorem Ev.allOf (h : Ev env d base top (.obj kvs) v) (hp : plain kvs = true) (hd : d ≠ .d3)
    {ss : List Json} (hm : (k!"allOf", .arr ss) ∈ kvs) {s : Json} (hs : s ∈ ss) :
    Ev env d base top s v :=
  ((h.pmember hp hm).congr fun _ => clause_allOf env d _ kvs v hd ss).all hs

theorem Ev.anyOf2 (h : Ev env d base top (.obj kvs) v) (hp : plain kvs = true) (hd : d ≠ .d3)
    {a b : Json} (hm : (k!"anyOf", .arr [a, b]) ∈ kvs) :
    EvB (fun m => validRN env d base m top a v || validRN env d base m top b v) :=
  (h.pmember hp hm).congr fun m => by
    rw [clause_anyOf env d _ kvs v hd]
    simp only [List.any_cons, List.any_nil, Bool.or_false]

theorem Ev.items_obj {xs : List Json} (h : Ev env d base top (.obj kvs) (.arr xs))
    (hp : plain kvs = true) {sch : List (Str × Json)} (hm : (k!"items", .obj sch) ∈ kvs)
    {x : Json} (hx : x ∈ xs) : Ev env d base top (.obj sch) x :=
  ((h.pmember hp hm).congr fun _ => clause_items_obj env d _ kvs xs sch).all hx

theorem Ev.minItems1 {xs : List Json} (h : Ev env d base top (.obj kvs) (.arr xs))
    (hp : plain kvs = true) (hm : (k!"minItems", .num (.int 1)) ∈ kvs) : xs ≠ [] := by
  have h1 := EvB.const ((h.pmember hp hm).congr fun _ => clause_minItems env d _ kvs xs _)
  rintro rfl
  revert h1
  decide

theorem Ev.properties {ms : List (Str × Json)} (h : Ev env d base top (.obj kvs) (.obj ms))
    (hp : plain kvs = true) {ps : List (Str × Json)} (hm : (k!"properties", .obj ps) ∈ kvs)
    {k : Str} {x : Json} (hx : (k, x) ∈ ms) {sch : Json} (hl : Json.lookup k ps = some sch) :
    Ev env d base top sch x := by
  have h1 := (((h.pmember hp hm).congr fun _ => clause_properties env d _ kvs ms ps).and_left).all hx
  refine h1.congr fun m => ?_
  simp only [hl]

theorem Ev.additionalProperties_obj {ms : List (Str × Json)}
    (h : Ev env d base top (.obj kvs) (.obj ms)) (hp : plain kvs = true)
    {sch : List (Str × Json)} (hm : (k!"additionalProperties", .obj sch) ∈ kvs)
    (h1 : lookupJ "properties" kvs = none) (h2 : lookupJ "patternProperties" kvs = none)
    {k : Str} {x : Json} (hx : (k, x) ∈ ms) : Ev env d base top (.obj sch) x := by
  have h3 := ((h.pmember hp hm).congr fun _ => clause_additionalProperties_obj env d _ kvs ms sch).all hx
  refine h3.congr fun m => ?_
  simp only [covered, h1, h2, Bool.false_or]

theorem Ev.exclusiveMinimum0 {x : Num} (h : Ev env d base top (.obj kvs) (.num x))
    (hp : plain kvs = true) (hd : d = .d6 ∨ d = .d7)
    (hm : (k!"exclusiveMinimum", .num (.int 0)) ∈ kvs) : 0 < val x := by
  have h1 := EvB.const ((h.pmember hp hm).congr fun _ => clause_exclusiveMinimum67 env d _ kvs hd x _)
  have h2 : val (.int 0) < val x := of_decide_eq_true h1
  simpa [val] using h2

theorem Ev.minimum0_excl {x : Num} (h : Ev env d base top (.obj kvs) (.num x))
    (hp : plain kvs = true) (hd : d = .d3 ∨ d = .d4)
    (hm : (k!"minimum", .num (.int 0)) ∈ kvs) (hf : flag "exclusiveMinimum" kvs = true) :
    0 < val x := by
  have h1 := EvB.const ((h.pmember hp hm).congr fun _ => clause_minimum34 env d _ kvs hd x _)
  simp only [isNum, hf, if_true] at h1
  have h2 : val (.int 0) < val x := of_decide_eq_true h1
  simpa [val] using h2

end Plain


/-! ### C. the regenerated metaschemas: notation and the Boolean checks the kernel evaluates -/

/-- the members of the metaschema of draft `d` -/
def rootKvs (d : Draft) : List (Str × Json) := match d.metaSchema with | .obj kvs => kvs | _ => []
/-- its `properties` -/
def metaProps (d : Draft) : List (Str × Json) :=
  match lookupJ "properties" (rootKvs d) with | some (.obj ps) => ps | _ => []

/-- the limit reading of the metaschema world of draft `d` -/
abbrev EvM (d : Draft) (top : Str) (t v : Json) : Prop := Ev (metaEnv d) d (freshStore d) top t v
abbrev NvM (d : Draft) (top : Str) (t v : Json) : Prop := Nv (metaEnv d) d (freshStore d) top t v

/-- the metaschema allows `v`, under one of the base URIs that can be in effect -/
def Allowed (d : Draft) (v : Json) : Prop := ∃ top ∈ metaTops d, EvM d top d.metaSchema v

/-- `{"$ref": r}` -/
def refTo (r : Str) : Json := .obj [(k!"$ref", .str r)]
/-- `{"$ref": "#"}` -/
def selfRef : Json := refTo (k!"#")

/-- the `type` of the metaschema root -/
def rootType (d : Draft) : Json :=
  if d = .d6 ∨ d = .d7 then .arr [.str (k!"object"), .str (k!"boolean")] else .str (k!"object")

/-- facts about the root of the metaschema -/
def rootOK (d : Draft) : Bool :=
  decide (d.metaSchema = .obj (rootKvs d)) && (lookupJ "$ref" (rootKvs d)).isNone
  && (metaTops d).all (fun top => decide (baseInside (metaEnv d) d top (rootKvs d) ∈ metaTops d))
  && decide ((k!"properties", Json.obj (metaProps d)) ∈ rootKvs d)
  && decide ((k!"type", rootType d) ∈ rootKvs d)
  && decide (freshTop d ∈ metaTops d)

/-- under every base URI that can be in effect the reference `r` designates `t`, and the base URI
    in effect inside is again one of them -/
def refOK (d : Draft) (r : Str) (t : Json) : Bool :=
  (metaTops d).all fun top =>
    match designated (metaEnv d) (freshStore d) top r with
    | some (url, t') => decide (url ∈ metaTops d) && decide (t' = t)
    | none => false

def refsOK (d : Draft) (l : List (Str × Json)) : Bool := l.all fun p => refOK d p.1 p.2

/-- the property `k` of the metaschema is the schema `sch` -/
def propsOK (d : Draft) (l : List (Str × Json)) : Bool :=
  l.all fun p => decide (Json.lookup p.1 (metaProps d) = some p.2)

/-- the property `k` of the metaschema is a plain schema object with the member `"type": t` -/
def tyOK (d : Draft) (l : List (Str × Str)) : Bool :=
  l.all fun p => match Json.lookup p.1 (metaProps d) with
    | some (.obj kvs) => plain kvs && decide ((k!"type", Json.str p.2) ∈ kvs)
    | _ => false

theorem refOK_sound {d : Draft} {r : Str} {t : Json} (h : refOK d r t = true) {top : Str}
    (htop : top ∈ metaTops d) :
    ∃ url ∈ metaTops d, designated (metaEnv d) (freshStore d) top r = some (url, t) := by
  have h1 := List.all_eq_true.1 h top htop
  cases hdes : designated (metaEnv d) (freshStore d) top r with
  | none => rw [hdes] at h1; cases h1
  | some p =>
    obtain ⟨url, t'⟩ := p
    rw [hdes] at h1
    dsimp only at h1
    rw [Bool.and_eq_true] at h1
    have := of_decide_eq_true h1.2
    subst this
    exact ⟨url, of_decide_eq_true h1.1, rfl⟩

theorem refsOK_sound {d : Draft} {l : List (Str × Json)} (h : refsOK d l = true) {r : Str} {t : Json}
    (hm : (r, t) ∈ l) : refOK d r t = true := List.all_eq_true.1 h (r, t) hm

theorem propsOK_sound {d : Draft} {l : List (Str × Json)} (h : propsOK d l = true) {k : Str}
    {sch : Json} (hm : (k, sch) ∈ l) : Json.lookup k (metaProps d) = some sch :=
  of_decide_eq_true (List.all_eq_true.1 h (k, sch) hm)

theorem tyOK_sound {d : Draft} {l : List (Str × Str)} (h : tyOK d l = true) {k t : Str}
    (hm : (k, t) ∈ l) :
    ∃ kvs, Json.lookup k (metaProps d) = some (.obj kvs) ∧ plain kvs = true
      ∧ (k!"type", Json.str t) ∈ kvs := by
  have h1 := List.all_eq_true.1 h (k, t) hm
  dsimp only at h1
  split at h1
  · rename_i kvs hl
    rw [Bool.and_eq_true] at h1
    exact ⟨kvs, hl, h1.1, of_decide_eq_true h1.2⟩
  · cases h1

/-- the facts about the root, unpacked -/
structure Root (d : Draft) : Prop where
  obj : d.metaSchema = .obj (rootKvs d)
  noref : lookupJ "$ref" (rootKvs d) = none
  base : ∀ top ∈ metaTops d, baseInside (metaEnv d) d top (rootKvs d) ∈ metaTops d
  props : (k!"properties", Json.obj (metaProps d)) ∈ rootKvs d
  type : (k!"type", rootType d) ∈ rootKvs d
  top : freshTop d ∈ metaTops d
  self : refOK d (k!"#") d.metaSchema = true

theorem Root.of {d : Draft} (h : rootOK d = true) (hs : refOK d (k!"#") d.metaSchema = true) :
    Root d := by
  simp only [rootOK, Bool.and_eq_true, decide_eq_true_eq, Option.isNone_iff_eq_none,
    List.all_eq_true] at h
  exact ⟨h.1.1.1.1.1, h.1.1.1.1.2, h.1.1.1.2, h.1.1.2, h.1.2, h.2, hs⟩


/-! ### D. what the metaschemas say about a candidate -/

theorem hasType_object (d : Draft) (v : Json) : hasType d (k!"object") v = v.isObj := rfl
theorem hasType_array (d : Draft) (v : Json) : hasType d (k!"array") v = v.isArr := rfl
theorem hasType_string (d : Draft) (v : Json) : hasType d (k!"string") v = v.isStr := rfl
theorem hasType_number (d : Draft) (v : Json) : hasType d (k!"number") v = v.isNumJ := rfl
theorem hasType_boolean (d : Draft) (v : Json) : hasType d (k!"boolean") v = v.isBoolJ := rfl
theorem hasType_integer (d : Draft) (v : Json) : hasType d (k!"integer") v = isNonNegInt d v := by
  cases v <;> rfl

theorem refTo_ref (r : Str) : lookupJ "$ref" [(k!"$ref", Json.str r)] = some (.str r) := rfl

/-- the kind of thing a schema of draft `d` is -/
def Kind (d : Draft) (v : Json) : Prop := v.isObj = true ∨ ((d = .d6 ∨ d = .d7) ∧ v.isBoolJ = true)

section Meta
variable {d : Draft} {top : Str} {v : Json}

theorem Allowed.kind (R : Root d) (h : Allowed d v) : Kind d v := by
  obtain ⟨top, _, hev⟩ := h
  unfold EvM at hev
  rw [R.obj] at hev
  have h1 := hev.member R.noref R.type
  unfold rootType at h1
  by_cases hd : d = .d6 ∨ d = .d7
  · rw [if_pos hd] at h1
    have hd3 : d ≠ .d3 := by rcases hd with rfl | rfl <;> decide
    have h2 := EvB.const (h1.congr fun _ => clause_type_arr (metaEnv d) d _ _ v hd3 _)
    simp only [List.any_cons, List.any_nil, Bool.or_false, Bool.or_eq_true, hasType_object,
      hasType_boolean] at h2
    exact h2.imp id fun hb => ⟨hd, hb⟩
  · rw [if_neg hd] at h1
    have h2 := EvB.const (h1.congr fun _ => clause_type_str (metaEnv d) d _ _ v _)
    rw [hasType_object] at h2
    exact .inl h2

/-- the metaschema eventually rejects what is not of a schema's kind -/
theorem NvM.root (R : Root d) (hk : ¬ Kind d v) (top : Str) : NvM d top d.metaSchema v := by
  unfold NvM
  rw [R.obj]
  refine Nv.of_member R.noref R.type (EvF.of_const (b := hasType d (k!"object") v
    || ((decide (d = .d6) || decide (d = .d7)) && hasType d (k!"boolean") v)) ?_ |>.mono fun m hm => ?_)
  · rw [hasType_object, hasType_boolean, Bool.eq_false_iff]
    intro h
    simp only [Bool.or_eq_true, Bool.and_eq_true, decide_eq_true_eq] at h
    exact hk h
  · unfold rootType
    by_cases hd : d = .d6 ∨ d = .d7
    · rw [if_pos hd]
      have hd3 : d ≠ .d3 := by rcases hd with rfl | rfl <;> decide
      rw [clause_type_arr (metaEnv d) d _ _ v hd3]
      have : (decide (d = .d6) || decide (d = .d7)) = true := by
        rcases hd with rfl | rfl <;> rfl
      simpa [this] using hm
    · rw [if_neg hd, clause_type_str]
      rw [Bool.or_eq_false_iff] at hm
      exact hm.1

/-- **the root step**: the metaschema's `properties` applied to the members of the candidate -/
theorem Allowed.props (R : Root d) {ms : List (Str × Json)} (h : Allowed d (.obj ms)) :
    ∃ top ∈ metaTops d, ∀ k x, (k, x) ∈ ms → ∀ sch, Json.lookup k (metaProps d) = some sch →
      EvM d top sch x := by
  obtain ⟨top, htop, hev⟩ := h
  unfold EvM at hev
  rw [R.obj] at hev
  refine ⟨_, R.base top htop, fun k x hx sch hl => ?_⟩
  have h1 := (((hev.member R.noref R.props).congr fun _ =>
    clause_properties (metaEnv d) d _ _ ms (metaProps d)).and_left).all hx
  refine h1.congr fun m => ?_
  simp only [hl]

/-- `{"$ref": "#", …}`: the metaschema itself -/
theorem EvM.self (R : Root d) (htop : top ∈ metaTops d) {kvs : List (Str × Json)}
    (hr : lookupJ "$ref" kvs = some (.str (k!"#"))) (h : EvM d top (.obj kvs) v) : Allowed d v := by
  obtain ⟨url, hurl, hdes⟩ := refOK_sound R.self htop
  exact ⟨url, hurl, Ev.ref h hr hdes⟩

theorem NvM.self (R : Root d) (htop : top ∈ metaTops d) {kvs : List (Str × Json)}
    (hr : lookupJ "$ref" kvs = some (.str (k!"#"))) (hk : ¬ Kind d v) : NvM d top (.obj kvs) v := by
  obtain ⟨url, _, hdes⟩ := refOK_sound R.self htop
  exact Nv.of_ref hr hdes (NvM.root R hk url)

theorem not_kind_of_arr {xs : List Json} : ¬ Kind d (.arr xs) := by
  rintro (h | ⟨_, h⟩) <;> cases h

theorem not_kind_of_str {t : Str} : ¬ Kind d (.str t) := by
  rintro (h | ⟨_, h⟩) <;> cases h

/-- a reference to an array-typed definition -/
theorem EvM.arrayRef (htop : top ∈ metaTops d) {r : Str} {kvs : List (Str × Json)}
    (hr : refOK d r (.obj kvs) = true) (hp : plain kvs = true)
    (hty : (k!"type", Json.str (k!"array")) ∈ kvs) (h : EvM d top (refTo r) v) :
    ∃ url ∈ metaTops d, ∃ xs, v = .arr xs ∧ EvM d url (.obj kvs) (.arr xs) := by
  obtain ⟨url, hurl, hdes⟩ := refOK_sound hr htop
  have h1 : EvM d url (.obj kvs) v := Ev.ref h (refTo_ref r) hdes
  have h2 := h1.type_str hp hty
  rw [hasType_array] at h2
  cases v with
  | arr xs => exact ⟨url, hurl, xs, rfl, h1⟩
  | _ => cases h2

theorem NvM.arrayRef (htop : top ∈ metaTops d) {r : Str} {kvs : List (Str × Json)}
    (hr : refOK d r (.obj kvs) = true) (hp : plain kvs = true)
    (hty : (k!"type", Json.str (k!"array")) ∈ kvs) (hv : v.isArr = false) : NvM d top (refTo r) v := by
  obtain ⟨url, _, hdes⟩ := refOK_sound hr htop
  exact Nv.of_ref (refTo_ref r) hdes (Nv.type_str hp hty (by rw [hasType_array]; exact hv))

/-- `definitions/schemaArray` (drafts 4, 6, 7) -/
def schemaArrayDef : Json :=
  .obj [(k!"type", .str (k!"array")), (k!"minItems", .num (.int 1)), (k!"items", selfRef)]

theorem EvM.schemaArray (R : Root d) (htop : top ∈ metaTops d) {r : Str}
    (hr : refOK d r schemaArrayDef = true) (h : EvM d top (refTo r) v) :
    ∃ xs, v = .arr xs ∧ xs ≠ [] ∧ ∀ x ∈ xs, Allowed d x := by
  have hp : plain [(k!"type", Json.str (k!"array")), (k!"minItems", .num (.int 1)), (k!"items", selfRef)]
    = true := by decide +kernel
  obtain ⟨url, hurl, xs, rfl, h1⟩ := EvM.arrayRef htop hr hp (by decide +kernel) h
  refine ⟨xs, rfl, Ev.minItems1 h1 hp (by decide +kernel), fun x hx => ?_⟩
  exact EvM.self R hurl (refTo_ref _) (Ev.items_obj h1 hp (sch := [(k!"$ref", .str (k!"#"))])
    (by decide +kernel) hx)

theorem NvM.schemaArray (htop : top ∈ metaTops d) {r : Str}
    (hr : refOK d r schemaArrayDef = true) (hv : v.isArr = false) : NvM d top (refTo r) v :=
  NvM.arrayRef htop hr (by decide +kernel) (by decide +kernel) hv


/-- `definitions/nonNegativeInteger` (draft 4: `positiveInteger`) -/
def nonNegDef : Json := .obj [(k!"type", .str (k!"integer")), (k!"minimum", .num (.int 0))]

theorem EvM.nonNeg (htop : top ∈ metaTops d) {r : Str} (hr : refOK d r nonNegDef = true)
    (h : EvM d top (refTo r) v) : isNonNegInt d v = true := by
  obtain ⟨url, _, hdes⟩ := refOK_sound hr htop
  have h1 : EvM d url nonNegDef v := Ev.ref h (refTo_ref r) hdes
  have h2 := Ev.type_str h1 (by decide +kernel) (t := k!"integer") (by decide +kernel)
  rwa [hasType_integer] at h2

/-- `definitions/nonNegativeIntegerDefault0` (draft 4: `positiveIntegerDefault0`) -/
def default0Def (r : Str) : Json :=
  .obj [(k!"allOf", .arr [refTo r, .obj [(k!"default", .num (.int 0))]])]

theorem EvM.nonNeg0 (htop : top ∈ metaTops d) (hd : d ≠ .d3) {r0 r : Str}
    (hr0 : refOK d r0 (default0Def r) = true) (hr : refOK d r nonNegDef = true)
    (h : EvM d top (refTo r0) v) : isNonNegInt d v = true := by
  obtain ⟨url, hurl, hdes⟩ := refOK_sound hr0 htop
  have h1 : EvM d url (default0Def r) v := Ev.ref h (refTo_ref r0) hdes
  have h2 := Ev.allOf h1 (by rfl) hd (List.mem_cons_self ..) (List.mem_cons_self ..)
  exact EvM.nonNeg hurl hr h2

/-- `definitions/simpleTypes` (drafts 4, 6, 7) -/
def simpleTypesDef : Json :=
  .obj [(k!"enum", .arr [.str (k!"array"), .str (k!"boolean"), .str (k!"integer"), .str (k!"null"),
    .str (k!"number"), .str (k!"object"), .str (k!"string")])]

theorem typeNames_of_any (hd : d ≠ .d3) {t : Str}
    (h : [Json.str (k!"array"), .str (k!"boolean"), .str (k!"integer"), .str (k!"null"),
      .str (k!"number"), .str (k!"object"), .str (k!"string")].any (jsonEq (.str t)) = true) :
    (typeNames d).contains t = true := by
  simp only [List.any_cons, List.any_nil, Bool.or_false, Bool.or_eq_true, jsonEq, beq_iff_eq] at h
  rcases h with rfl | rfl | rfl | rfl | rfl | rfl | rfl <;> cases d <;>
    first | exact absurd rfl hd | decide +kernel

theorem EvM.simpleTypes (htop : top ∈ metaTops d) (hd : d ≠ .d3) {r : Str}
    (hr : refOK d r simpleTypesDef = true) (h : EvM d top (refTo r) v) :
    ∃ t, v = .str t ∧ (typeNames d).contains t = true := by
  obtain ⟨url, _, hdes⟩ := refOK_sound hr htop
  have h1 : EvM d url simpleTypesDef v := Ev.ref h (refTo_ref r) hdes
  have h2 := Ev.enum h1 (by decide +kernel) (List.mem_cons_self ..)
  cases v with
  | str t => exact ⟨t, rfl, typeNames_of_any hd h2⟩
  | _ => simp [jsonEq] at h2

theorem NvM.simpleTypes (htop : top ∈ metaTops d) {r : Str}
    (hr : refOK d r simpleTypesDef = true) (hv : v.isStr = false) : NvM d top (refTo r) v := by
  obtain ⟨url, _, hdes⟩ := refOK_sound hr htop
  refine Nv.of_ref (refTo_ref r) hdes (Nv.enum (by decide +kernel) (List.mem_cons_self ..) ?_)
  cases v with
  | str t => cases hv
  | _ => simp [jsonEq]

/-- the second alternative of the `type` property (drafts 4, 6, 7) -/
def typeArrKvs (r : Str) : List (Str × Json) :=
  [(k!"type", .str (k!"array")), (k!"items", refTo r), (k!"minItems", .num (.int 1)),
   (k!"uniqueItems", .bool true)]
/-- the `type` property (drafts 4, 6, 7) -/
def typeSch (r : Str) : Json := .obj [(k!"anyOf", .arr [refTo r, .obj (typeArrKvs r)])]

/-- what `shapeClause` asks of `type` since draft 4 -/
def typeShape (d : Draft) (v : Json) : Bool :=
  match v with
  | .str t => (typeNames d).contains t
  | .arr ts => ts.all (fun t => match t with | .str t => (typeNames d).contains t | _ => false)
  | _ => false

theorem EvM.typeKw (htop : top ∈ metaTops d) (hd : d ≠ .d3) {r : Str}
    (hr : refOK d r simpleTypesDef = true) (h : EvM d top (typeSch r) v) : typeShape d v = true := by
  have hp : plain (typeArrKvs r) = true := rfl
  have hty : (k!"type", Json.str (k!"array")) ∈ typeArrKvs r := List.mem_cons_self ..
  have h1 := Ev.anyOf2 h (by rfl) hd (List.mem_cons_self ..)
  by_cases hs : v.isStr = true
  · have h2 : EvM d top (refTo r) v := h1.or_left (Nv.type_str hp hty (by
      rw [hasType_array]; cases v <;> first | rfl | cases hs))
    obtain ⟨t, rfl, ht⟩ := EvM.simpleTypes htop hd hr h2
    exact ht
  · have h2 : EvM d top (.obj (typeArrKvs r)) v :=
      h1.or_right (NvM.simpleTypes htop hr (by simpa using hs))
    have h3 := Ev.type_str h2 hp hty
    rw [hasType_array] at h3
    cases v with
    | arr ts =>
      refine List.all_eq_true.2 fun x hx => ?_
      have h4 : EvM d top (refTo r) x :=
        Ev.items_obj h2 hp (sch := [(k!"$ref", .str r)]) (List.mem_cons_of_mem _ (List.mem_cons_self ..)) hx
      obtain ⟨t, rfl, ht⟩ := EvM.simpleTypes htop hd hr h4
      exact ht
    | _ => cases h3

/-- `anyOf [{"$ref": "#"}, {"$ref": ".../schemaArray"}]` (`items`, drafts 4, 6, 7) -/
theorem EvM.selfOrSchemaArray (R : Root d) (htop : top ∈ metaTops d) (hd : d ≠ .d3) {r : Str}
    (hr : refOK d r schemaArrayDef = true) {kvs : List (Str × Json)} (hp : plain kvs = true)
    (hm : (k!"anyOf", Json.arr [selfRef, refTo r]) ∈ kvs) (h : EvM d top (.obj kvs) v) :
    (v.isArr = false ∧ Allowed d v) ∨ (∃ xs, v = .arr xs ∧ xs ≠ [] ∧ ∀ x ∈ xs, Allowed d x) := by
  have h1 := Ev.anyOf2 h hp hd hm
  cases hv : v.isArr with
  | false => exact .inl ⟨rfl, EvM.self R htop (refTo_ref _) (h1.or_left (NvM.schemaArray htop hr hv))⟩
  | true =>
    have hk : ¬ Kind d v := by
      cases v with
      | arr xs => exact not_kind_of_arr
      | _ => cases hv
    exact .inr (EvM.schemaArray R htop hr (h1.or_right (NvM.self R htop (refTo_ref _) hk)))

/-- `anyOf [{"$ref": "#"}, {"$ref": ".../stringArray"}]` (the values of `dependencies`,
    drafts 4, 6, 7) -/
theorem EvM.selfOrStringArray (R : Root d) (htop : top ∈ metaTops d) (hd : d ≠ .d3) {r : Str}
    {kvs' : List (Str × Json)} (hr : refOK d r (.obj kvs') = true) (hp' : plain kvs' = true)
    (hty : (k!"type", Json.str (k!"array")) ∈ kvs')
    (hit : (k!"items", Json.obj [(k!"type", .str (k!"string"))]) ∈ kvs')
    {kvs : List (Str × Json)} (hp : plain kvs = true)
    (hm : (k!"anyOf", Json.arr [selfRef, refTo r]) ∈ kvs) (h : EvM d top (.obj kvs) v) :
    (v.isArr = false ∧ Allowed d v) ∨ (∃ xs, v = .arr xs ∧ ∀ x ∈ xs, isStrJ x = true) := by
  have h1 := Ev.anyOf2 h hp hd hm
  cases hv : v.isArr with
  | false =>
    exact .inl ⟨rfl, EvM.self R htop (refTo_ref _) (h1.or_left (NvM.arrayRef htop hr hp' hty hv))⟩
  | true =>
    have hk : ¬ Kind d v := by
      cases v with
      | arr xs => exact not_kind_of_arr
      | _ => cases hv
    obtain ⟨url, _, xs, rfl, h2⟩ :=
      EvM.arrayRef htop hr hp' hty (h1.or_right (NvM.self R htop (refTo_ref _) hk))
    refine .inr ⟨xs, rfl, fun x hx => ?_⟩
    have h3 := Ev.type_str (Ev.items_obj h2 hp' hit hx) (by decide +kernel) (List.mem_cons_self ..)
    rw [hasType_string] at h3
    cases x <;> first | rfl | cases h3

/-- a reference to `definitions/stringArray` (`required`, drafts 4, 6, 7) -/
theorem EvM.stringArray (htop : top ∈ metaTops d) {r : Str}
    {kvs' : List (Str × Json)} (hr : refOK d r (.obj kvs') = true) (hp' : plain kvs' = true)
    (hty : (k!"type", Json.str (k!"array")) ∈ kvs')
    (hit : (k!"items", Json.obj [(k!"type", .str (k!"string"))]) ∈ kvs')
    (h : EvM d top (refTo r) v) : ∃ xs, v = .arr xs ∧ ∀ x ∈ xs, isStrJ x = true := by
  obtain ⟨url, _, xs, rfl, h2⟩ := EvM.arrayRef htop hr hp' hty h
  refine ⟨xs, rfl, fun x hx => ?_⟩
  have h3 := Ev.type_str (Ev.items_obj h2 hp' hit hx) (by decide +kernel) (List.mem_cons_self ..)
  rw [hasType_string] at h3
  cases x <;> first | rfl | cases h3

/-- `anyOf [{"type": "boolean"}, {"$ref": "#"}]` (`additionalItems`, `additionalProperties`, draft 4) -/
theorem EvM.boolOrSelf (R : Root d) (htop : top ∈ metaTops d) (hd : d ≠ .d3)
    {kvs : List (Str × Json)} (hp : plain kvs = true)
    (hm : (k!"anyOf", Json.arr [.obj [(k!"type", .str (k!"boolean"))], selfRef]) ∈ kvs)
    (h : EvM d top (.obj kvs) v) : v.isBoolJ = true ∨ Allowed d v := by
  have h1 := Ev.anyOf2 h hp hd hm
  cases hv : v.isBoolJ with
  | true => exact .inl rfl
  | false =>
    exact .inr (EvM.self R htop (refTo_ref _) (h1.or_right (Nv.type_str (by decide +kernel)
      (List.mem_cons_self ..) (by rw [hasType_boolean]; exact hv))))

/-- `{"type": "object", "additionalProperties": sch}` without `properties`/`patternProperties` -/
theorem EvM.mapOf {kvs sch : List (Str × Json)} (hp : plain kvs = true)
    (hty : (k!"type", Json.str (k!"object")) ∈ kvs)
    (hm : (k!"additionalProperties", Json.obj sch) ∈ kvs)
    (h1 : lookupJ "properties" kvs = none) (h2 : lookupJ "patternProperties" kvs = none)
    (h : EvM d top (.obj kvs) v) :
    ∃ ps, v = .obj ps ∧ ∀ k x, (k, x) ∈ ps → EvM d top (.obj sch) x := by
  have h3 := Ev.type_str h hp hty
  rw [hasType_object] at h3
  cases v with
  | obj ps => exact ⟨ps, rfl, fun k x hx => Ev.additionalProperties_obj h hp hm h1 h2 hx⟩
  | _ => cases h3


/-- what `shapeClause` asks of `multipleOf`/`divisibleBy` -/
def posShape (v : Json) : Bool := match v with | .num m => decide (0 < val m) | _ => false

/-- `multipleOf` in drafts 6 and 7: `{"type": "number", "exclusiveMinimum": 0}` -/
theorem EvM.positive67 (hd : d = .d6 ∨ d = .d7) {kvs : List (Str × Json)} (hp : plain kvs = true)
    (hty : (k!"type", Json.str (k!"number")) ∈ kvs)
    (hm : (k!"exclusiveMinimum", Json.num (.int 0)) ∈ kvs) (h : EvM d top (.obj kvs) v) :
    posShape v = true := by
  have h1 := Ev.type_str h hp hty
  rw [hasType_number] at h1
  cases v with
  | num x => exact decide_eq_true (Ev.exclusiveMinimum0 h hp hd hm)
  | _ => cases h1

/-- `multipleOf` in draft 4, `divisibleBy` in draft 3:
    `{"type": "number", "minimum": 0, "exclusiveMinimum": true}` -/
theorem EvM.positive34 (hd : d = .d3 ∨ d = .d4) {kvs : List (Str × Json)} (hp : plain kvs = true)
    (hty : (k!"type", Json.str (k!"number")) ∈ kvs)
    (hm : (k!"minimum", Json.num (.int 0)) ∈ kvs)
    (hf : Json.lookup (k!"exclusiveMinimum") kvs = some (.bool true)) (h : EvM d top (.obj kvs) v) :
    posShape v = true := by
  have h1 := Ev.type_str h hp hty
  rw [hasType_number] at h1
  have hf' : flag "exclusiveMinimum" kvs = true := by
    unfold flag lookupJ
    rw [ks_exclusiveMinimum, hf]
  cases v with
  | num x => exact decide_eq_true (Ev.minimum0_excl h hp hd hm hf')
  | _ => cases h1

/-- a draft 3 type union whose members are type names and `{"$ref": "#"}` -/
theorem EvM.union3 (R : Root .d3) (htop : top ∈ metaTops .d3) {kvs : List (Str × Json)}
    (hp : plain kvs = true) {ts : List Json} (hm : (k!"type", Json.arr ts) ∈ kvs)
    (hts : ∀ t ∈ ts, (∃ n, t = .str n) ∨ t = selfRef) (h : EvM .d3 top (.obj kvs) v) :
    (∃ n, Json.str n ∈ ts ∧ hasType .d3 n v = true) ∨ Allowed .d3 v := by
  have h1 := Ev.type_arr3 h hp hm
  by_cases hn : ∃ n, Json.str n ∈ ts ∧ hasType .d3 n v = true
  · exact .inl hn
  · refine .inr (EvM.self R htop (refTo_ref _) (h1.mono fun m hm' => ?_))
    obtain ⟨t, ht, htv⟩ := List.any_eq_true.1 hm'
    rcases hts t ht with ⟨n, rfl⟩ | rfl
    · exact absurd ⟨n, ht, htv⟩ hn
    · exact htv

end Meta


/-! ### the tables: which property of which metaschema says what -/

/-- no `properties`, no `patternProperties` -/
def noProps (kvs : List (Str × Json)) : Bool :=
  (lookupJ "properties" kvs).isNone && (lookupJ "patternProperties" kvs).isNone

/-- the property `k` of the metaschema is a plain schema object whose member `k'` is `val` -/
def memOK (d : Draft) (l : List (Str × Str × Json)) : Bool :=
  l.all fun p => match Json.lookup p.1 (metaProps d) with
    | some (.obj kvs) => plain kvs && noProps kvs && decide (Json.lookup p.2.1 kvs = some p.2.2)
    | _ => false

/-- a property of the metaschema that is a plain schema object -/
structure PlainProp (d : Draft) (k : Str) (kvs : List (Str × Json)) : Prop where
  look : Json.lookup k (metaProps d) = some (.obj kvs)
  plain : plain kvs = true
  np1 : lookupJ "properties" kvs = none
  np2 : lookupJ "patternProperties" kvs = none

theorem memOK_sound {d : Draft} {l : List (Str × Str × Json)} (h : memOK d l = true) {k k' : Str}
    {val : Json} (hm : (k, k', val) ∈ l) :
    ∃ kvs, PlainProp d k kvs ∧ Json.lookup k' kvs = some val := by
  have h1 := List.all_eq_true.1 h (k, k', val) hm
  dsimp only at h1
  split at h1
  · rename_i kvs hl
    simp only [Bool.and_eq_true, noProps, Option.isNone_iff_eq_none, decide_eq_true_eq] at h1
    exact ⟨kvs, ⟨hl, h1.1.1, h1.1.2.1, h1.1.2.2⟩, h1.2⟩
  · cases h1

theorem PlainProp.unique {d : Draft} {k : Str} {kvs kvs' : List (Str × Json)}
    (h : PlainProp d k kvs) (h' : PlainProp d k kvs') : kvs = kvs' := by
  have := h.look.symm.trans h'.look
  injection this with this
  injection this

def saRef : Str := k!"#/definitions/schemaArray"
def stRef : Str := k!"#/definitions/simpleTypes"
def strRef : Str := k!"#/definitions/stringArray"
def nnRef (d : Draft) : Str :=
  if d = .d4 then k!"#/definitions/positiveInteger" else k!"#/definitions/nonNegativeInteger"
def nn0Ref (d : Draft) : Str :=
  if d = .d4 then k!"#/definitions/positiveIntegerDefault0" else k!"#/definitions/nonNegativeIntegerDefault0"

def tyString : Json := .obj [(k!"type", .str (k!"string"))]

/-- `definitions/stringArray` -/
def stringArrayKvs (d : Draft) : List (Str × Json) :=
  if d = .d4 then
    [(k!"type", .str (k!"array")), (k!"items", tyString), (k!"minItems", .num (.int 1)),
     (k!"uniqueItems", .bool true)]
  else
    [(k!"type", .str (k!"array")), (k!"items", tyString), (k!"uniqueItems", .bool true),
     (k!"default", .arr [])]

def depValue : List (Str × Json) := [(k!"anyOf", .arr [selfRef, refTo strRef])]
/-- the `dependencies` property (drafts 4, 6, 7) -/
def depsSch : Json :=
  .obj [(k!"type", .str (k!"object")), (k!"additionalProperties", .obj depValue)]

/-- the references of the metaschema of draft `d` and what they designate -/
def refTable (d : Draft) : List (Str × Json) :=
  if d = .d3 then [] else
    [(saRef, schemaArrayDef), (nnRef d, nonNegDef), (nn0Ref d, default0Def (nnRef d)),
     (stRef, simpleTypesDef), (strRef, .obj (stringArrayKvs d))]

/-- the properties of the metaschema of draft `d` that are given literally -/
def propTable (d : Draft) : List (Str × Json) :=
  if d = .d3 then [] else
    [(k!"allOf", refTo saRef), (k!"anyOf", refTo saRef), (k!"oneOf", refTo saRef), (k!"not", selfRef),
     (k!"maxLength", refTo (nnRef d)), (k!"maxItems", refTo (nnRef d)), (k!"maxProperties", refTo (nnRef d)),
     (k!"minLength", refTo (nn0Ref d)), (k!"minItems", refTo (nn0Ref d)), (k!"minProperties", refTo (nn0Ref d)),
     (k!"required", refTo strRef), (k!"type", typeSch stRef), (k!"dependencies", depsSch)]
    ++ (if d = .d6 ∨ d = .d7 then
         [(k!"additionalItems", selfRef), (k!"additionalProperties", selfRef), (k!"contains", selfRef),
          (k!"propertyNames", selfRef)] else [])
    ++ (if d = .d7 then [(k!"if", selfRef), (k!"then", selfRef), (k!"else", selfRef)] else [])

def tyS (t : Str) : Json := .str t
def boolOrSelfAlts : Json := .arr [.obj [(k!"type", .str (k!"boolean"))], selfRef]
def selfOrSaAlts : Json := .arr [selfRef, refTo saRef]

/-- draft 3 unions -/
def u3StrArr : Json := .arr [.str (k!"string"), .str (k!"array")]
def u3StrSelf : List (Str × Json) := [(k!"type", .arr [.str (k!"string"), selfRef])]
def u3SelfArr : Json := .arr [selfRef, .str (k!"array")]
def u3SelfBool : Json := .arr [selfRef, .str (k!"boolean")]
def selfObj3 : List (Str × Json) := [(k!"$ref", .str (k!"#")), (k!"type", .str (k!"object"))]
def depValue3 : List (Str × Json) :=
  [(k!"type", .arr [.str (k!"string"), .str (k!"array"), selfRef]), (k!"items", tyString)]

/-- members of the properties of the metaschema of draft `d` that are plain schema objects -/
def memTable (d : Draft) : List (Str × Str × Json) :=
  [(k!"enum", k!"type", tyS (k!"array")), (k!"minimum", k!"type", tyS (k!"number")),
   (k!"maximum", k!"type", tyS (k!"number")), (k!"pattern", k!"type", tyS (k!"string")),
   (k!"format", k!"type", tyS (k!"string")), (k!"uniqueItems", k!"type", tyS (k!"boolean")),
   (k!"properties", k!"type", tyS (k!"object")), (k!"patternProperties", k!"type", tyS (k!"object")),
   (k!"patternProperties", k!"additionalProperties", selfRef)]
  ++ (if d = .d6 ∨ d = .d7 then
       [(k!"$id", k!"type", tyS (k!"string")), (k!"$ref", k!"type", tyS (k!"string")),
        (k!"exclusiveMinimum", k!"type", tyS (k!"number")), (k!"exclusiveMaximum", k!"type", tyS (k!"number")),
        (k!"multipleOf", k!"type", tyS (k!"number")), (k!"multipleOf", k!"exclusiveMinimum", .num (.int 0))]
      else
       [(k!"id", k!"type", tyS (k!"string")),
        (k!"exclusiveMinimum", k!"type", tyS (k!"boolean")), (k!"exclusiveMaximum", k!"type", tyS (k!"boolean"))])
  ++ (if d = .d4 then
       [(k!"multipleOf", k!"type", tyS (k!"number")), (k!"multipleOf", k!"minimum", .num (.int 0)),
        (k!"multipleOf", k!"exclusiveMinimum", .bool true),
        (k!"additionalItems", k!"anyOf", boolOrSelfAlts), (k!"additionalProperties", k!"anyOf", boolOrSelfAlts)]
      else [])
  ++ (if d = .d3 then
       [(k!"$ref", k!"type", tyS (k!"string")),
        (k!"divisibleBy", k!"type", tyS (k!"number")), (k!"divisibleBy", k!"minimum", .num (.int 0)),
        (k!"divisibleBy", k!"exclusiveMinimum", .bool true),
        (k!"minLength", k!"type", tyS (k!"integer")), (k!"maxLength", k!"type", tyS (k!"integer")),
        (k!"minItems", k!"type", tyS (k!"integer")), (k!"maxItems", k!"type", tyS (k!"integer")),
        (k!"required", k!"type", tyS (k!"boolean")),
        (k!"type", k!"type", u3StrArr), (k!"type", k!"items", .obj u3StrSelf),
        (k!"disallow", k!"type", u3StrArr), (k!"disallow", k!"items", .obj u3StrSelf),
        (k!"extends", k!"type", u3SelfArr), (k!"extends", k!"items", selfRef),
        (k!"items", k!"type", u3SelfArr), (k!"items", k!"items", selfRef),
        (k!"additionalItems", k!"type", u3SelfBool), (k!"additionalProperties", k!"type", u3SelfBool),
        (k!"properties", k!"additionalProperties", .obj selfObj3),
        (k!"dependencies", k!"type", tyS (k!"object")),
        (k!"dependencies", k!"additionalProperties", .obj depValue3)]
      else
       [(k!"items", k!"anyOf", selfOrSaAlts), (k!"properties", k!"additionalProperties", selfRef)])

/-- everything the kernel evaluates about the metaschema of draft `d` -/
def allOK (d : Draft) : Bool :=
  rootOK d && refOK d (k!"#") d.metaSchema && refsOK d (refTable d) && propsOK d (propTable d)
  && memOK d (memTable d)

set_option maxRecDepth 100000 in
theorem allOK_d3 : allOK .d3 = true := by decide +kernel
set_option maxRecDepth 100000 in
theorem allOK_d4 : allOK .d4 = true := by decide +kernel
set_option maxRecDepth 100000 in
theorem allOK_d6 : allOK .d6 = true := by decide +kernel
set_option maxRecDepth 100000 in
theorem allOK_d7 : allOK .d7 = true := by decide +kernel

/-- the facts, unpacked -/
structure Facts (d : Draft) : Prop where
  root : Root d
  refs : refsOK d (refTable d) = true
  props : propsOK d (propTable d) = true
  mems : memOK d (memTable d) = true

theorem facts (d : Draft) : Facts d := by
  have h : allOK d = true := by
    cases d
    · exact allOK_d3
    · exact allOK_d4
    · exact allOK_d6
    · exact allOK_d7
  simp only [allOK, Bool.and_eq_true] at h
  exact ⟨Root.of h.1.1.1.1 h.1.1.1.2, h.1.1.2, h.1.2, h.2⟩


/-! ### the induction -/

theorem ras_kvs_mem {kvs : List (Str × Json)} (h : refsAreStrings.refsAreStringsKvs kvs = true)
    {k : Str} {v : Json} (hm : (k, v) ∈ kvs) :
    refsAreStrings v = true ∧ (k = ks "$ref" → isStrJ v = true) := by
  induction kvs with
  | nil => cases hm
  | cons y ys ih =>
    obtain ⟨k', v'⟩ := y
    simp only [refsAreStrings.refsAreStringsKvs, Bool.and_eq_true] at h
    rcases List.mem_cons.1 hm with h1 | h1
    · cases h1
      refine ⟨h.1.2, fun hk => ?_⟩
      have := h.1.1
      rwa [if_pos hk] at this
    · exact ih h.2 h1

theorem ras_list_mem {xs : List Json} (h : refsAreStrings.refsAreStringsList xs = true)
    {x : Json} (hm : x ∈ xs) : refsAreStrings x = true := by
  induction xs with
  | nil => cases hm
  | cons y ys ih =>
    simp only [refsAreStrings.refsAreStringsList, Bool.and_eq_true] at h
    rcases List.mem_cons.1 hm with rfl | h1
    · exact h.1
    · exact ih h.2 h1

theorem ras_obj_mem {kvs : List (Str × Json)} (h : refsAreStrings (.obj kvs) = true)
    {k : Str} {v : Json} (hm : (k, v) ∈ kvs) : refsAreStrings v = true := by
  rw [refsAreStrings] at h
  exact (ras_kvs_mem h hm).1

theorem ras_arr_mem {xs : List Json} (h : refsAreStrings (.arr xs) = true)
    {x : Json} (hm : x ∈ xs) : refsAreStrings x = true := by
  rw [refsAreStrings] at h
  exact ras_list_mem h hm

theorem ras_ref {kvs : List (Str × Json)} (h : refsAreStrings (.obj kvs) = true)
    {r : Json} (hl : lookupJ "$ref" kvs = some r) : isStrJ r = true := by
  rw [refsAreStrings] at h
  exact (ras_kvs_mem h (lookup_mem hl)).2 rfl

/-- the members of the candidate, as the metaschema's `properties` sees them -/
def PropsAt (d : Draft) (top : Str) (ms : List (Str × Json)) : Prop :=
  ∀ k x, (k, x) ∈ ms → ∀ sch, Json.lookup k (metaProps d) = some sch → EvM d top sch x

/-- the induction hypothesis, as the members see it -/
def SubOK (d : Draft) (P : Json → Prop) (sub : Json → Bool) (ms : List (Str × Json)) : Prop :=
  ∀ v', v'.size + 1 < (Json.obj ms).size → P v' → Allowed d v' → sub v' = true

/-- **the induction**: given the member-wise facts (`hid`, `hmem`), what the metaschema allows is
    shaped at every sufficient depth -/
theorem shaped_of_allowed (d : Draft) (R : Root d) (P : Json → Prop)
    (hid : ∀ ms top, top ∈ metaTops d → P (.obj ms) → PropsAt d top ms →
      (match lookupJ (if (d = .d6 || d = .d7) then "$id" else "id") ms with
        | some v => isStrJ v | none => true) = true
      ∧ ∀ r, lookupJ "$ref" ms = some r → isStrJ r = true)
    (hmem : ∀ ms sub top, top ∈ metaTops d → P (.obj ms) → SubOK d P sub ms → PropsAt d top ms →
      ∀ p ∈ ms, shapeClause d sub p = true) :
    ∀ n s, s.size < n → P s → Allowed d s → shapedN true d n s = true := by
  intro n
  induction n with
  | zero => intro s hs; cases hs
  | succ n ih =>
    intro s hs hP ha
    rcases ha.kind R with hk | ⟨hd, hk⟩
    · cases s with
      | obj ms =>
        obtain ⟨top, htop, hprops⟩ := ha.props R
        obtain ⟨h1, h2⟩ := hid ms top htop hP hprops
        rw [shapedN_succ_obj, Bool.and_eq_true]
        refine ⟨h1, ?_⟩
        cases hl : lookupJ "$ref" ms with
        | some r => exact h2 r hl
        | none =>
          exact List.all_eq_true.2 (hmem ms (shapedN true d n) top htop hP
            (fun v' hv' hPv' hav' => ih v' (by omega) hPv' hav') hprops)
      | _ => cases hk
    · cases s with
      | bool b =>
        show (decide (d = .d6) || decide (d = .d7)) = true
        rcases hd with rfl | rfl <;> rfl
      | _ => cases hk

/-! ### the shapes `Spec.shapeClause` asks for, and how the metaschema facts give them -/

def schemaArrShape (sub : Json → Bool) (v : Json) : Bool :=
  match v with | .arr ss => !ss.isEmpty && ss.all sub | _ => false
def itemsShape (d : Draft) (sub : Json → Bool) (v : Json) : Bool :=
  match v with
  | .arr ss => ss.all sub
  | .obj _ => sub v
  | .bool _ => (d = .d6 || d = .d7)
  | _ => false
def boolOrSchemaShape (sub : Json → Bool) (v : Json) : Bool :=
  match v with | .bool _ => true | .obj _ => sub v | _ => false
def mapShape (d : Draft) (sub : Json → Bool) (v : Json) : Bool :=
  match v with
  | .obj ps => ps.all (fun p => ((d = .d6 || d = .d7) || p.2.isObj) && sub p.2)
  | _ => false
def strArrShape (v : Json) : Bool :=
  match v with | .arr rs => rs.all isStrJ | _ => false
def depsShape (d : Draft) (sub : Json → Bool) (v : Json) : Bool :=
  match v with
  | .obj ds => ds.all (fun dp =>
      match dp.2 with
      | .arr names => names.all isStrJ
      | .str _ => d = .d3
      | .obj _ => sub dp.2
      | .bool _ => (d = .d6 || d = .d7)
      | _ => false)
  | _ => false

/-- the side condition on candidates is inherited by the values inside -/
structure Hered (P : Json → Prop) : Prop where
  obj : ∀ {kvs : List (Str × Json)} {k : Str} {v : Json}, P (.obj kvs) → (k, v) ∈ kvs → P v
  arr : ∀ {xs : List Json} {x : Json}, P (.arr xs) → x ∈ xs → P x

/-- the situation at one candidate object -/
structure MCtx (d : Draft) (P : Json → Prop) (sub : Json → Bool) (ms : List (Str × Json))
    (top : Str) : Prop where
  F : Facts d
  H : Hered P
  htop : top ∈ metaTops d
  hP : P (.obj ms)
  hsub : SubOK d P sub ms
  hprops : PropsAt d top ms

section Fin
variable {d : Draft} {P : Json → Prop} {sub : Json → Bool} {ms : List (Str × Json)} {top : Str}
  {k : Str} {v : Json}

theorem MCtx.sub_self (C : MCtx d P sub ms top) (hm : (k, v) ∈ ms) (ha : Allowed d v) :
    sub v = true :=
  C.hsub v (size_lt_of_mem_obj hm) (C.H.obj C.hP hm) ha

theorem MCtx.sub_arr (C : MCtx d P sub ms top) {xs : List Json} (hm : (k, Json.arr xs) ∈ ms)
    {x : Json} (hx : x ∈ xs) (ha : Allowed d x) : sub x = true := by
  have h1 := size_lt_of_mem_obj hm
  have h2 := size_lt_of_mem_arr hx
  exact C.hsub x (by omega) (C.H.arr (C.H.obj C.hP hm) hx) ha

theorem MCtx.sub_obj (C : MCtx d P sub ms top) {ps : List (Str × Json)} (hm : (k, Json.obj ps) ∈ ms)
    {k' : Str} {x : Json} (hx : (k', x) ∈ ps) (ha : Allowed d x) : sub x = true := by
  have h1 := size_lt_of_mem_obj hm
  have h2 := size_lt_of_mem_obj hx
  exact C.hsub x (by omega) (C.H.obj (C.H.obj C.hP hm) hx) ha

theorem MCtx.fin_schemaArr (C : MCtx d P sub ms top) (hm : (k, v) ∈ ms)
    (h : ∃ xs, v = .arr xs ∧ xs ≠ [] ∧ ∀ x ∈ xs, Allowed d x) : schemaArrShape sub v = true := by
  obtain ⟨xs, rfl, hne, hx⟩ := h
  show (!xs.isEmpty && xs.all sub) = true
  rw [Bool.and_eq_true]
  refine ⟨?_, List.all_eq_true.2 fun x hxm => C.sub_arr hm hxm (hx x hxm)⟩
  cases xs with
  | nil => exact absurd rfl hne
  | cons _ _ => rfl

theorem MCtx.fin_items (C : MCtx d P sub ms top) (hm : (k, v) ∈ ms)
    (h : (v.isArr = false ∧ Allowed d v) ∨ (∃ xs, v = .arr xs ∧ ∀ x ∈ xs, Allowed d x)) :
    itemsShape d sub v = true := by
  rcases h with ⟨_, ha⟩ | ⟨xs, rfl, hx⟩
  · rcases ha.kind C.F.root with hk | ⟨hd, hk⟩
    · cases v with
      | obj _ => exact C.sub_self hm ha
      | _ => cases hk
    · cases v with
      | bool _ =>
        show (decide (d = .d6) || decide (d = .d7)) = true
        rcases hd with rfl | rfl <;> rfl
      | _ => cases hk
  · exact List.all_eq_true.2 fun x hxm => C.sub_arr hm hxm (hx x hxm)

theorem MCtx.fin_boolOrSchema (C : MCtx d P sub ms top) (hm : (k, v) ∈ ms)
    (h : v.isBoolJ = true ∨ Allowed d v) : boolOrSchemaShape sub v = true := by
  rcases h with hb | ha
  · cases v with
    | bool _ => rfl
    | _ => cases hb
  · rcases ha.kind C.F.root with hk | ⟨_, hk⟩
    · cases v with
      | obj _ => exact C.sub_self hm ha
      | _ => cases hk
    · cases v with
      | bool _ => rfl
      | _ => cases hk

theorem MCtx.fin_map (C : MCtx d P sub ms top) (hm : (k, v) ∈ ms)
    (h : ∃ ps, v = .obj ps ∧ ∀ k' x, (k', x) ∈ ps → Allowed d x) : mapShape d sub v = true := by
  obtain ⟨ps, rfl, hx⟩ := h
  refine List.all_eq_true.2 fun p hp => ?_
  obtain ⟨k', x⟩ := p
  have ha := hx k' x hp
  rw [Bool.and_eq_true]
  refine ⟨?_, C.sub_obj hm hp ha⟩
  rcases ha.kind C.F.root with hk | ⟨hd, _⟩
  · show ((decide (d = .d6) || decide (d = .d7)) || x.isObj) = true
    rw [hk, Bool.or_true]
  · show ((decide (d = .d6) || decide (d = .d7)) || x.isObj) = true
    rcases hd with rfl | rfl <;> rfl

theorem fin_strArr (h : ∃ xs, v = .arr xs ∧ ∀ x ∈ xs, isStrJ x = true) : strArrShape v = true := by
  obtain ⟨xs, rfl, hx⟩ := h
  exact List.all_eq_true.2 hx

theorem MCtx.fin_deps (C : MCtx d P sub ms top) (hm : (k, v) ∈ ms)
    (h : ∃ ds, v = .obj ds ∧ ∀ k' x, (k', x) ∈ ds →
      (x.isArr = false ∧ Allowed d x) ∨ (∃ xs, x = .arr xs ∧ ∀ y ∈ xs, isStrJ y = true)
        ∨ (d = .d3 ∧ x.isStr = true)) : depsShape d sub v = true := by
  obtain ⟨ds, rfl, hx⟩ := h
  refine List.all_eq_true.2 fun p hp => ?_
  obtain ⟨k', x⟩ := p
  rcases hx k' x hp with ⟨_, ha⟩ | ⟨xs, rfl, hy⟩ | ⟨hd, hs⟩
  · rcases ha.kind C.F.root with hk | ⟨hd, hk⟩
    · cases x with
      | obj _ => exact C.sub_obj hm hp ha
      | _ => cases hk
    · cases x with
      | bool _ =>
        show (decide (d = .d6) || decide (d = .d7)) = true
        rcases hd with rfl | rfl <;> rfl
      | _ => cases hk
  · exact List.all_eq_true.2 hy
  · cases x with
    | str _ => exact decide_eq_true hd
    | _ => cases hs


theorem MCtx.lit (C : MCtx d P sub ms top) (hm : (k, v) ∈ ms) {sch : Json}
    (ht : (k, sch) ∈ propTable d) : EvM d top sch v :=
  C.hprops k v hm sch (propsOK_sound C.F.props ht)

theorem MCtx.mem (C : MCtx d P sub ms top) (hm : (k, v) ∈ ms) {k' : Str} {val : Json}
    (ht : (k, k', val) ∈ memTable d) :
    ∃ kvs, PlainProp d k kvs ∧ (k', val) ∈ kvs ∧ EvM d top (.obj kvs) v := by
  obtain ⟨kvs, pp, hl⟩ := memOK_sound C.F.mems ht
  exact ⟨kvs, pp, lookup_mem hl, C.hprops k v hm _ pp.look⟩

theorem MCtx.ty (C : MCtx d P sub ms top) (hm : (k, v) ∈ ms) {t : Str}
    (ht : (k, k!"type", tyS t) ∈ memTable d) : hasType d t v = true := by
  obtain ⟨kvs, pp, hmem, hev⟩ := C.mem hm ht
  exact Ev.type_str hev pp.plain hmem

theorem MCtx.ref (C : MCtx d P sub ms top) {r : Str} {t : Json} (ht : (r, t) ∈ refTable d) :
    refOK d r t = true := refsOK_sound C.F.refs ht

/-- `{"type": "object", "additionalProperties": {"$ref": "#", …}}` -/
theorem MCtx.mapSelf (C : MCtx d P sub ms top) (hm : (k, v) ∈ ms) {sch : List (Str × Json)}
    (hs : lookupJ "$ref" sch = some (.str (k!"#")))
    (h1 : (k, k!"type", tyS (k!"object")) ∈ memTable d)
    (h2 : (k, k!"additionalProperties", Json.obj sch) ∈ memTable d) :
    ∃ ps, v = .obj ps ∧ ∀ k' x, (k', x) ∈ ps → Allowed d x := by
  obtain ⟨kvs, pp, hty, hev⟩ := C.mem hm h1
  obtain ⟨kvs', pp', hl⟩ := memOK_sound C.F.mems h2
  obtain rfl := pp.unique pp'
  obtain ⟨ps, e, hx⟩ := EvM.mapOf pp.plain hty (lookup_mem hl) pp.np1 pp.np2 hev
  exact ⟨ps, e, fun k' x hx' => EvM.self C.F.root C.htop hs (hx k' x hx')⟩

/-- `{"type": "number", "minimum": 0, "exclusiveMinimum": true}` -/
theorem MCtx.positive34 (C : MCtx d P sub ms top) (hd : d = .d3 ∨ d = .d4) (hm : (k, v) ∈ ms)
    (h1 : (k, k!"type", tyS (k!"number")) ∈ memTable d)
    (h2 : (k, k!"minimum", Json.num (.int 0)) ∈ memTable d)
    (h3 : (k, k!"exclusiveMinimum", Json.bool true) ∈ memTable d) :
    posShape v = true := by
  obtain ⟨kvs, pp, hty, hev⟩ := C.mem hm h1
  obtain ⟨kvs', pp', hl⟩ := memOK_sound C.F.mems h2
  obtain ⟨kvs'', pp'', hl'⟩ := memOK_sound C.F.mems h3
  obtain rfl := pp.unique pp'
  obtain rfl := pp.unique pp''
  exact EvM.positive34 hd pp.plain hty (lookup_mem hl) hl' hev

/-- `{"type": "number", "exclusiveMinimum": 0}` -/
theorem MCtx.positive67 (C : MCtx d P sub ms top) (hd : d = .d6 ∨ d = .d7) (hm : (k, v) ∈ ms)
    (h1 : (k, k!"type", tyS (k!"number")) ∈ memTable d)
    (h2 : (k, k!"exclusiveMinimum", Json.num (.int 0)) ∈ memTable d) :
    posShape v = true := by
  obtain ⟨kvs, pp, hty, hev⟩ := C.mem hm h1
  obtain ⟨kvs', pp', hl⟩ := memOK_sound C.F.mems h2
  obtain rfl := pp.unique pp'
  exact EvM.positive67 hd pp.plain hty (lookup_mem hl) hev

theorem isStrJ_of_isStr {v : Json} (h : v.isStr = true) : isStrJ v = true := by
  cases v <;> first | rfl | cases h
theorem isBoolV_of_isBoolJ {v : Json} (h : v.isBoolJ = true) : isBoolV v = true := by
  cases v <;> first | rfl | cases h

end Fin

/-! ### the members of a candidate, drafts 4, 6 and 7 -/

set_option hygiene false in
/-- a closed fact about the tables of a concrete draft -/
local macro "tbl" : term => `(by rcases hd with rfl | rfl | rfl <;> decide +kernel)
set_option hygiene false in
local macro "tbl67" : term => `(by rcases hd67 with rfl | rfl <;> decide +kernel)

theorem members_modern {d : Draft} (hd : d = .d4 ∨ d = .d6 ∨ d = .d7) {P : Json → Prop}
    {sub : Json → Bool} {ms : List (Str × Json)} {top : Str} (C : MCtx d P sub ms top) :
    ∀ p ∈ ms, shapeClause d sub p = true := by
  rintro ⟨k, v⟩ hm
  have hne : d ≠ .d3 := by rcases hd with rfl | rfl | rfl <;> decide
  have R := C.F.root
  have htop := C.htop
  by_cases h : k = k!"type"
  · subst h
    have := EvM.typeKw htop hne (C.ref tbl) (C.lit hm (sch := typeSch stRef) tbl)
    rcases hd with rfl | rfl | rfl <;> exact this
  by_cases h : k = k!"enum"
  · subst h
    exact C.ty hm (t := k!"array") tbl
  by_cases h : k = k!"allOf" ∨ k = k!"anyOf" ∨ k = k!"oneOf"
  · have hev : EvM d top (refTo saRef) v := by
      rcases h with rfl | rfl | rfl <;> exact C.lit hm tbl
    have := C.fin_schemaArr hm (EvM.schemaArray R htop (C.ref tbl) hev)
    rcases h with rfl | rfl | rfl <;> rcases hd with rfl | rfl | rfl <;> exact this
  by_cases h : k = k!"not"
  · subst h
    have := C.sub_self hm (EvM.self R htop (refTo_ref _) (C.lit hm (sch := selfRef) tbl))
    rcases hd with rfl | rfl | rfl <;> exact this
  by_cases h : k = k!"if" ∨ k = k!"then" ∨ k = k!"else"
  · rcases hd with rfl | rfl | rfl
    · rcases h with rfl | rfl | rfl <;> rfl
    · rcases h with rfl | rfl | rfl <;> rfl
    · have hev : EvM .d7 top selfRef v := by
        rcases h with rfl | rfl | rfl <;> exact C.lit hm (by decide +kernel)
      have := C.sub_self hm (EvM.self R htop (refTo_ref _) hev)
      rcases h with rfl | rfl | rfl <;> exact this
  by_cases h : k = k!"minimum" ∨ k = k!"maximum"
  · have : hasType d (k!"number") v = true := by
      rcases h with rfl | rfl <;> exact C.ty hm tbl
    rcases h with rfl | rfl <;> exact this
  by_cases h : k = k!"exclusiveMinimum" ∨ k = k!"exclusiveMaximum"
  · rcases hd with rfl | hd67
    · have : hasType .d4 (k!"boolean") v = true := by
        rcases h with rfl | rfl <;> exact C.ty hm (by decide +kernel)
      have := isBoolV_of_isBoolJ this
      rcases h with rfl | rfl <;> exact this
    · have : hasType d (k!"number") v = true := by
        rcases h with rfl | rfl <;> exact C.ty hm tbl67
      rcases h with rfl | rfl <;> rcases hd67 with rfl | rfl <;> exact this
  by_cases h : k = k!"multipleOf"
  · subst h
    rcases hd with rfl | hd67
    · exact C.positive34 (.inr rfl) hm (by decide +kernel) (by decide +kernel) (by decide +kernel)
    · have := C.positive67 hd67 hm tbl67 tbl67
      rcases hd67 with rfl | rfl <;> exact this
  by_cases h : k = k!"maxLength" ∨ k = k!"maxItems" ∨ k = k!"maxProperties"
  · have hev : EvM d top (refTo (nnRef d)) v := by
      rcases h with rfl | rfl | rfl <;> exact C.lit hm tbl
    have := EvM.nonNeg htop (r := nnRef d) (C.ref tbl) hev
    rcases h with rfl | rfl | rfl <;> rcases hd with rfl | rfl | rfl <;> exact this
  by_cases h : k = k!"minLength" ∨ k = k!"minItems" ∨ k = k!"minProperties"
  · have hev : EvM d top (refTo (nn0Ref d)) v := by
      rcases h with rfl | rfl | rfl <;> exact C.lit hm tbl
    have := EvM.nonNeg0 htop hne (r0 := nn0Ref d) (r := nnRef d) (C.ref tbl) (C.ref tbl) hev
    rcases h with rfl | rfl | rfl <;> rcases hd with rfl | rfl | rfl <;> exact this
  by_cases h : k = k!"pattern" ∨ k = k!"format"
  · have : hasType d (k!"string") v = true := by
      rcases h with rfl | rfl <;> exact C.ty hm tbl
    have := isStrJ_of_isStr this
    rcases h with rfl | rfl <;> exact this
  by_cases h : k = k!"items"
  · subst h
    obtain ⟨kvs, pp, hmem, hev⟩ := C.mem hm (k' := k!"anyOf") (val := selfOrSaAlts) tbl
    have h1 := EvM.selfOrSchemaArray R htop hne (C.ref tbl) pp.plain hmem hev
    have := C.fin_items hm (h1.imp id fun ⟨xs, e, _, hx⟩ => ⟨xs, e, hx⟩)
    rcases hd with rfl | rfl | rfl <;> exact this
  by_cases h : k = k!"additionalItems" ∨ k = k!"additionalProperties"
  · rcases hd with rfl | hd67
    · have h1 : v.isBoolJ = true ∨ Allowed .d4 v := by
        rcases h with rfl | rfl
        all_goals
          obtain ⟨kvs, pp, hmem, hev⟩ :=
            C.mem hm (k' := k!"anyOf") (val := boolOrSelfAlts) (by decide +kernel)
          exact EvM.boolOrSelf R htop hne pp.plain hmem hev
      have := C.fin_boolOrSchema hm h1
      rcases h with rfl | rfl <;> exact this
    · have h1 : Allowed d v := by
        rcases h with rfl | rfl <;>
          exact EvM.self R htop (refTo_ref _) (C.lit hm (sch := selfRef) tbl67)
      have := C.fin_boolOrSchema hm (.inr h1)
      rcases h with rfl | rfl <;> rcases hd67 with rfl | rfl <;> exact this
  by_cases h : k = k!"uniqueItems"
  · subst h
    exact isBoolV_of_isBoolJ (C.ty hm (t := k!"boolean") tbl)
  by_cases h : k = k!"contains" ∨ k = k!"propertyNames"
  · rcases hd with rfl | hd67
    · rcases h with rfl | rfl <;> rfl
    · have h1 : Allowed d v := by
        rcases h with rfl | rfl <;>
          exact EvM.self R htop (refTo_ref _) (C.lit hm (sch := selfRef) tbl67)
      have := C.sub_self hm h1
      rcases h with rfl | rfl <;> rcases hd67 with rfl | rfl <;> exact this
  by_cases h : k = k!"properties" ∨ k = k!"patternProperties"
  · have h1 : ∃ ps, v = .obj ps ∧ ∀ k' x, (k', x) ∈ ps → Allowed d x := by
      rcases h with rfl | rfl <;> exact C.mapSelf hm (refTo_ref _) tbl tbl
    have := C.fin_map hm h1
    rcases h with rfl | rfl <;> rcases hd with rfl | rfl | rfl <;> exact this
  by_cases h : k = k!"required"
  · subst h
    have := fin_strArr (EvM.stringArray htop (r := strRef) (C.ref (t := .obj (stringArrayKvs d)) tbl) tbl tbl tbl
      (C.lit hm (sch := refTo strRef) tbl))
    rcases hd with rfl | rfl | rfl <;> exact this
  by_cases h : k = k!"dependencies"
  · subst h
    have hev : EvM d top depsSch v := C.lit hm tbl
    obtain ⟨ds, e, hx⟩ := EvM.mapOf (sch := depValue) (by decide +kernel) (by decide +kernel)
      (by decide +kernel) (by decide +kernel) (by decide +kernel) hev
    have := C.fin_deps hm ⟨ds, e, fun k' x hx' =>
      (EvM.selfOrStringArray R htop hne (r := strRef) (C.ref (t := .obj (stringArrayKvs d)) tbl) tbl tbl tbl
        (kvs := depValue) (by decide +kernel) (by decide +kernel) (hx k' x hx')).imp id .inl⟩
    rcases hd with rfl | rfl | rfl <;> exact this
  simp only [not_or] at *
  rcases hd with rfl | rfl | rfl <;> simp [shapeClause, *]


/-! ### the members of a candidate, draft 3 -/

/-- what `shapeClause` asks of `type`/`disallow` in draft 3 -/
def type3Shape (sub : Json → Bool) (v : Json) : Bool :=
  match v with
  | .str _ => true
  | .arr ts => ts.all (fun t => match t with | .str _ => true | .obj _ => sub t | _ => false)
  | _ => false
/-- … of `extends` -/
def extendsShape (sub : Json → Bool) (v : Json) : Bool :=
  match v with | .obj _ => sub v | .arr ss => ss.all (fun s => s.isObj && sub s) | _ => false

theorem kind3 {v : Json} (h : Kind .d3 v) : v.isObj = true := by
  rcases h with h | ⟨h, _⟩
  · exact h
  · rcases h with h | h <;> cases h

/-- a draft 3 union of type names only -/
theorem EvM.names3 {top : Str} {v : Json} {kvs : List (Str × Json)} (hp : plain kvs = true)
    {ts : List Json} (hm : (k!"type", Json.arr ts) ∈ kvs) (hts : ∀ t ∈ ts, ∃ n, t = .str n)
    (h : EvM .d3 top (.obj kvs) v) : ∃ n, Json.str n ∈ ts ∧ hasType .d3 n v = true := by
  obtain ⟨n0, hn0⟩ := Ev.type_arr3 h hp hm
  obtain ⟨t, ht, htv⟩ := List.any_eq_true.1 (hn0 n0 (Nat.le_refl _))
  obtain ⟨n, rfl⟩ := hts t ht
  exact ⟨n, ht, htv⟩

/-- the members of a literal draft 3 union are type names or `{"$ref": "#"}` -/
local macro "u3" : term =>
  `(by intro t ht
       simp only [List.mem_cons, List.mem_nil_iff, or_false] at ht
       rcases ht with rfl | rfl | rfl | rfl <;> first | exact .inl ⟨_, rfl⟩ | exact .inr rfl)
local macro "n3" : term =>
  `(by intro t ht
       simp only [List.mem_cons, List.mem_nil_iff, or_false] at ht
       rcases ht with rfl | rfl | rfl <;> exact ⟨_, rfl⟩)

section D3
variable {P : Json → Prop} {sub : Json → Bool} {ms : List (Str × Json)} {top : Str} {k : Str} {v : Json}

/-- `{"type": [{"$ref": "#"}, "array"], "items": {"$ref": "#"}}` (`items`, `extends`) -/
theorem MCtx.selfOrArr3 (C : MCtx .d3 P sub ms top) (hm : (k, v) ∈ ms)
    (h1 : (k, k!"type", u3SelfArr) ∈ memTable .d3) (h2 : (k, k!"items", selfRef) ∈ memTable .d3) :
    (v.isArr = false ∧ Allowed .d3 v) ∨ (∃ xs, v = .arr xs ∧ ∀ x ∈ xs, Allowed .d3 x) := by
  obtain ⟨kvs, pp, hty, hev⟩ := C.mem hm h1
  obtain ⟨kvs', pp', hl⟩ := memOK_sound C.F.mems h2
  obtain rfl := pp.unique pp'
  rcases EvM.union3 C.F.root C.htop pp.plain hty u3 hev with ⟨n, hn, hv⟩ | ha
  · have hn' : n = k!"array" := by
      simp only [List.mem_cons, Json.str.injEq, List.mem_nil_iff, or_false, selfRef, refTo,
        reduceCtorEq, false_or] at hn
      exact hn
    subst hn'
    rw [hasType_array] at hv
    cases v with
    | arr xs =>
      exact .inr ⟨xs, rfl, fun x hx => EvM.self C.F.root C.htop (refTo_ref _)
        (Ev.items_obj hev pp.plain (sch := [(k!"$ref", .str (k!"#"))]) (lookup_mem hl) hx)⟩
    | _ => cases hv
  · refine .inl ⟨?_, ha⟩
    have := kind3 (ha.kind C.F.root)
    cases v <;> first | rfl | cases this

/-- `{"type": [{"$ref": "#"}, "boolean"]}` (`additionalItems`, `additionalProperties`) -/
theorem MCtx.selfOrBool3 (C : MCtx .d3 P sub ms top) (hm : (k, v) ∈ ms)
    (h1 : (k, k!"type", u3SelfBool) ∈ memTable .d3) : v.isBoolJ = true ∨ Allowed .d3 v := by
  obtain ⟨kvs, pp, hty, hev⟩ := C.mem hm h1
  rcases EvM.union3 C.F.root C.htop pp.plain hty u3 hev with ⟨n, hn, hv⟩ | ha
  · have hn' : n = k!"boolean" := by
      simp only [List.mem_cons, Json.str.injEq, List.mem_nil_iff, or_false, selfRef, refTo,
        reduceCtorEq, false_or] at hn
      exact hn
    subst hn'
    exact .inl hv
  · exact .inr ha

/-- `{"type": ["string", "array"], "items": {"type": ["string", {"$ref": "#"}]}}`
    (`type`, `disallow`) -/
theorem MCtx.type3 (C : MCtx .d3 P sub ms top) (hm : (k, v) ∈ ms)
    (h1 : (k, k!"type", u3StrArr) ∈ memTable .d3)
    (h2 : (k, k!"items", Json.obj u3StrSelf) ∈ memTable .d3) : type3Shape sub v = true := by
  obtain ⟨kvs, pp, hty, hev⟩ := C.mem hm h1
  obtain ⟨kvs', pp', hl⟩ := memOK_sound C.F.mems h2
  obtain rfl := pp.unique pp'
  obtain ⟨n, hn, hv⟩ := EvM.names3 pp.plain hty n3 hev
  simp only [List.mem_cons, Json.str.injEq, List.mem_nil_iff, or_false] at hn
  rcases hn with rfl | rfl
  · rw [hasType_string] at hv
    cases v <;> first | rfl | cases hv
  · rw [hasType_array] at hv
    cases v with
    | arr ts =>
      refine List.all_eq_true.2 fun x hx => ?_
      have hx' := Ev.items_obj hev pp.plain (lookup_mem hl) hx
      rcases EvM.union3 C.F.root C.htop (kvs := u3StrSelf) (by decide +kernel)
        (List.mem_cons_self ..) u3 hx' with ⟨n, hn, hv'⟩ | ha
      · have hn' : n = k!"string" := by
          simp only [List.mem_cons, Json.str.injEq, List.mem_nil_iff, or_false, selfRef, refTo,
            reduceCtorEq] at hn
          exact hn
        subst hn'
        rw [hasType_string] at hv'
        cases x <;> first | rfl | cases hv'
      · have hk := kind3 (ha.kind C.F.root)
        cases x with
        | obj _ => exact C.sub_arr hm hx ha
        | _ => cases hk
    | _ => cases hv

/-- the values of `dependencies` in draft 3 -/
theorem MCtx.deps3 (C : MCtx .d3 P sub ms top) (hm : (k, v) ∈ ms)
    (h1 : (k, k!"type", tyS (k!"object")) ∈ memTable .d3)
    (h2 : (k, k!"additionalProperties", Json.obj depValue3) ∈ memTable .d3) :
    depsShape .d3 sub v = true := by
  obtain ⟨kvs, pp, hty, hev⟩ := C.mem hm h1
  obtain ⟨kvs', pp', hl⟩ := memOK_sound C.F.mems h2
  obtain rfl := pp.unique pp'
  obtain ⟨ds, e, hx⟩ := EvM.mapOf pp.plain hty (lookup_mem hl) pp.np1 pp.np2 hev
  refine C.fin_deps hm ⟨ds, e, fun k' x hx' => ?_⟩
  have hev' := hx k' x hx'
  have hp3 : plain depValue3 = true := by decide +kernel
  rcases EvM.union3 C.F.root C.htop hp3 (List.mem_cons_self ..) u3 hev'
    with ⟨n, hn, hv'⟩ | ha
  · simp only [List.mem_cons, Json.str.injEq, List.mem_nil_iff, or_false, selfRef, refTo,
      reduceCtorEq] at hn
    rcases hn with rfl | rfl
    · rw [hasType_string] at hv'
      exact .inr (.inr ⟨rfl, hv'⟩)
    · rw [hasType_array] at hv'
      cases x with
      | arr names =>
        refine .inr (.inl ⟨names, rfl, fun y hy => ?_⟩)
        have h3 := Ev.type_str (Ev.items_obj hev' hp3 (sch := [(k!"type", .str (k!"string"))])
          (by decide +kernel) hy) (by decide +kernel) (List.mem_cons_self ..)
        rw [hasType_string] at h3
        exact isStrJ_of_isStr h3
      | _ => cases hv'
  · refine .inl ⟨?_, ha⟩
    have := kind3 (ha.kind C.F.root)
    cases x <;> first | rfl | cases this

theorem members_d3 (C : MCtx .d3 P sub ms top) : ∀ p ∈ ms, shapeClause .d3 sub p = true := by
  rintro ⟨k, v⟩ hm
  by_cases h : k = k!"type" ∨ k = k!"disallow"
  · have : type3Shape sub v = true := by
      rcases h with rfl | rfl <;> exact C.type3 hm (by decide +kernel) (by decide +kernel)
    rcases h with rfl | rfl <;> exact this
  by_cases h : k = k!"extends"
  · subst h
    show extendsShape sub v = true
    rcases C.selfOrArr3 hm (by decide +kernel) (by decide +kernel) with ⟨_, ha⟩ | ⟨xs, rfl, hx⟩
    · have hk := kind3 (ha.kind C.F.root)
      cases v with
      | obj _ => exact C.sub_self hm ha
      | _ => cases hk
    · refine List.all_eq_true.2 fun x hxm => ?_
      rw [Bool.and_eq_true]
      exact ⟨kind3 ((hx x hxm).kind C.F.root), C.sub_arr hm hxm (hx x hxm)⟩
  by_cases h : k = k!"enum"
  · subst h
    exact C.ty hm (t := k!"array") (by decide +kernel)
  by_cases h : k = k!"minimum" ∨ k = k!"maximum"
  · have : hasType .d3 (k!"number") v = true := by
      rcases h with rfl | rfl <;> exact C.ty hm (by decide +kernel)
    rcases h with rfl | rfl <;> exact this
  by_cases h : k = k!"exclusiveMinimum" ∨ k = k!"exclusiveMaximum"
  · have : hasType .d3 (k!"boolean") v = true := by
      rcases h with rfl | rfl <;> exact C.ty hm (by decide +kernel)
    have := isBoolV_of_isBoolJ this
    rcases h with rfl | rfl <;> exact this
  by_cases h : k = k!"divisibleBy"
  · subst h
    exact C.positive34 (.inl rfl) hm (by decide +kernel) (by decide +kernel) (by decide +kernel)
  by_cases h : k = k!"minLength" ∨ k = k!"maxLength" ∨ k = k!"minItems" ∨ k = k!"maxItems"
  · have : hasType .d3 (k!"integer") v = true := by
      rcases h with rfl | rfl | rfl | rfl <;> exact C.ty hm (by decide +kernel)
    rw [hasType_integer] at this
    rcases h with rfl | rfl | rfl | rfl <;> exact this
  by_cases h : k = k!"pattern" ∨ k = k!"format"
  · have : hasType .d3 (k!"string") v = true := by
      rcases h with rfl | rfl <;> exact C.ty hm (by decide +kernel)
    have := isStrJ_of_isStr this
    rcases h with rfl | rfl <;> exact this
  by_cases h : k = k!"items"
  · subst h
    exact C.fin_items hm (C.selfOrArr3 hm (by decide +kernel) (by decide +kernel))
  by_cases h : k = k!"additionalItems" ∨ k = k!"additionalProperties"
  · have h1 : v.isBoolJ = true ∨ Allowed .d3 v := by
      rcases h with rfl | rfl <;> exact C.selfOrBool3 hm (by decide +kernel)
    have := C.fin_boolOrSchema hm h1
    rcases h with rfl | rfl <;> exact this
  by_cases h : k = k!"uniqueItems" ∨ k = k!"required"
  · have : hasType .d3 (k!"boolean") v = true := by
      rcases h with rfl | rfl <;> exact C.ty hm (by decide +kernel)
    have := isBoolV_of_isBoolJ this
    rcases h with rfl | rfl <;> exact this
  by_cases h : k = k!"properties"
  · subst h
    exact C.fin_map hm (C.mapSelf (sch := selfObj3) hm (by decide +kernel) (by decide +kernel)
      (by decide +kernel))
  by_cases h : k = k!"patternProperties"
  · subst h
    exact C.fin_map hm (C.mapSelf hm (refTo_ref _) (by decide +kernel) (by decide +kernel))
  by_cases h : k = k!"dependencies"
  · subst h
    exact C.deps3 hm (by decide +kernel) (by decide +kernel)
  simp only [not_or] at *
  simp [shapeClause, *]

end D3

/-! ### the identifier and `$ref` members -/

def idKeyL (d : Draft) : Str := if d = .d6 ∨ d = .d7 then k!"$id" else k!"id"

theorem lookup_idKey (d : Draft) (ms : List (Str × Json)) :
    lookupJ (if (d = .d6 || d = .d7) then "$id" else "id") ms = Json.lookup (idKeyL d) ms := by
  cases d <;> simp [lookupJ, idKeyL, ks_id, ks_dollar_id]

/-- a member whose property in the metaschema is `{"type": "string", …}` is a string -/
theorem str_member {d : Draft} (F : Facts d) {top : Str} {ms : List (Str × Json)}
    (hprops : PropsAt d top ms) {k : Str} (ht : (k, k!"type", tyS (k!"string")) ∈ memTable d)
    {v : Json} (hl : Json.lookup k ms = some v) : isStrJ v = true := by
  obtain ⟨kvs, pp, hl'⟩ := memOK_sound F.mems ht
  have hev := hprops k v (lookup_mem hl) _ pp.look
  have := Ev.type_str hev pp.plain (lookup_mem hl')
  rw [hasType_string] at this
  exact isStrJ_of_isStr this

theorem id_member (d : Draft) {top : Str} {ms : List (Str × Json)} (hprops : PropsAt d top ms) :
    (match lookupJ (if (d = .d6 || d = .d7) then "$id" else "id") ms with
      | some v => isStrJ v | none => true) = true := by
  rw [lookup_idKey]
  cases hl : Json.lookup (idKeyL d) ms with
  | none => rfl
  | some v => exact str_member (facts d) hprops (by cases d <;> decide +kernel) hl

/-! ### the bridge -/

theorem hered_true : Hered (fun _ => True) := ⟨fun _ _ => trivial, fun _ _ => trivial⟩
theorem hered_ras : Hered (fun s => refsAreStrings s = true) :=
  ⟨fun h hm => ras_obj_mem h hm, fun h hm => ras_arr_mem h hm⟩

/-- drafts 6 and 7 -/
theorem allowed_shaped67 (d : Draft) (hd : d = .d6 ∨ d = .d7) (s : Json) (h : Allowed d s) :
    shapedR d s = true := by
  refine shaped_of_allowed d (facts d).root (fun _ => True) ?_ ?_ (s.size + 1) s (Nat.lt_succ_self _)
    trivial h
  · intro ms top _ _ hprops
    refine ⟨id_member d hprops, fun r hl => ?_⟩
    unfold lookupJ at hl
    rw [ks_ref] at hl
    exact str_member (facts d) hprops (by rcases hd with rfl | rfl <;> decide +kernel) hl
  · intro ms sub top htop hP hsub hprops
    exact members_modern (.inr hd) ⟨facts d, hered_true, htop, hP, hsub, hprops⟩

/-- draft 3 alone needs no proviso: its bundled metaschema constrains `$ref`
    (`"$ref": {"type": "string", "format": "uri"}`) -/
theorem allowed_shaped3 (s : Json) (h : Allowed .d3 s) : shapedR .d3 s = true := by
  refine shaped_of_allowed .d3 (facts .d3).root (fun _ => True) ?_ ?_ (s.size + 1) s
    (Nat.lt_succ_self _) trivial h
  · intro ms top _ _ hprops
    refine ⟨id_member .d3 hprops, fun r hl => ?_⟩
    unfold lookupJ at hl
    rw [ks_ref] at hl
    exact str_member (facts .d3) hprops (by decide +kernel) hl
  · intro ms sub top htop hP hsub hprops
    exact members_d3 ⟨facts .d3, hered_true, htop, hP, hsub, hprops⟩

/-- drafts 3 and 4, for candidates whose `$ref` values are strings -/
theorem allowed_shaped34 (d : Draft) (hd : d = .d3 ∨ d = .d4) (s : Json)
    (hrefs : refsAreStrings s = true) (h : Allowed d s) : shapedR d s = true := by
  refine shaped_of_allowed d (facts d).root (fun s => refsAreStrings s = true) ?_ ?_ (s.size + 1) s
    (Nat.lt_succ_self _) hrefs h
  · intro ms top _ hP hprops
    exact ⟨id_member d hprops, fun r hl => ras_ref hP hl⟩
  · intro ms sub top htop hP hsub hprops
    rcases hd with rfl | rfl
    · exact members_d3 ⟨facts .d3, hered_ras, htop, hP, hsub, hprops⟩
    · exact members_modern (.inl rfl) ⟨facts .d4, hered_ras, htop, hP, hsub, hprops⟩

end JS.Bridge
