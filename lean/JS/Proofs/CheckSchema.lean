/- Helper lemmas for C11. -/
import JS.Module
import JS.MetaEnv
import JS.Props.C03
import JS.Props.C04
namespace JS
end JS
