/- Helper lemmas for C11. -/
import JS.Module
import JS.MetaEnv
import JS.Props.C03
import JS.Props.C04
import JS.Props.C15
import JS.Proofs.ValidRef
namespace JS

/-! ### `check_schema` as a consumer of the metaschema run -/

/-- how `check_schema` re-types the outcome of `validate` -/
def CheckResult.ofOutcome : Outcome Unit → CheckResult
  | .ok () => .ok
  | .invalid e => .schemaError e
  | .raise e => .raise e
  | .other x => .other x

/-- the format-free class configuration `check_schema` evaluates with -/
abbrev ClassDef.plainCfg (c : ClassDef) : Cfg := { c.cfg with formatChecker := none }

theorem checkSchema_unfold (env : Env) (impl : FmtImpl) (g : Globals) (c : ClassDef)
    (fuel : Nat) (s : Json) (st : RState) (hst : freshResolver env g c c.metaSchema = .ok st) :
    checkSchema env impl g c fuel s =
      (match validateM (eval env impl { c.cfg with formatChecker := none } fuel s c.metaSchema) st with
       | (.ok (), _) => .ok
       | (.invalid e, _) => .schemaError e
       | (.raise e, _) => .raise e
       | (.other x, _) => .other x) := by
  unfold checkSchema
  rw [hst]
  rfl

theorem checkSchema_ofOutcome (env : Env) (impl : FmtImpl) (g : Globals) (c : ClassDef)
    (fuel : Nat) (s : Json) (st : RState) (hst : freshResolver env g c c.metaSchema = .ok st) :
    checkSchema env impl g c fuel s =
      CheckResult.ofOutcome (validateM (eval env impl { c.cfg with formatChecker := none } fuel s c.metaSchema) st).1 := by
  rw [checkSchema_unfold env impl g c fuel s st hst]
  rcases validateM (eval env impl { c.cfg with formatChecker := none } fuel s c.metaSchema) st with ⟨o, st'⟩
  cases o <;> rfl

/-- `check_schema` in terms of the EXHAUSTIVE run of the metaschema validator (budget-prefix law) -/
theorem checkSchema_exhaustive (env : Env) (impl : FmtImpl) (g : Globals) (c : ClassDef)
    (fuel : Nat) (s : Json) (st : RState) (hst : freshResolver env g c c.metaSchema = .ok st) :
    checkSchema env impl g c fuel s =
      CheckResult.ofOutcome
        (match (eval env impl { c.cfg with formatChecker := none } fuel s c.metaSchema none st).errs,
               (eval env impl { c.cfg with formatChecker := none } fuel s c.metaSchema none st).stop with
         | [], .done => .ok ()
         | [], .raised e => .raise e
         | [], x => .other x
         | e :: _, _ => .invalid e) := by
  rw [checkSchema_ofOutcome env impl g c fuel s st hst]
  exact congrArg _ (Props.C04.validate_spec env impl { c.cfg with formatChecker := none } fuel s c.metaSchema st)

/-- the exhaustive-run reading of `validate`'s outcome -/
def Out.verdict (o : Out) : Outcome Unit :=
  match o.errs, o.stop with
  | [], .done => .ok ()
  | [], .raised e => .raise e
  | [], x => .other x
  | e :: _, _ => .invalid e

theorem Out.verdict_schemaError (o : Out) (e : Err)
    (h : CheckResult.ofOutcome o.verdict = .schemaError e) : o.errs.head? = some e := by
  rcases o with ⟨es, stop, st'⟩
  cases es with
  | nil => cases stop <;> exact nomatch h
  | cons e' es =>
    have h' : CheckResult.schemaError e' = .schemaError e := h
    injection h' with h'
    subst h'
    rfl

theorem Out.verdict_ok (o : Out) :
    CheckResult.ofOutcome o.verdict = .ok ↔ (o.errs = [] ∧ o.stop = .done) := by
  rcases o with ⟨es, stop, st'⟩
  cases es with
  | nil =>
    cases stop with
    | done => exact ⟨fun _ => ⟨rfl, rfl⟩, fun _ => rfl⟩
    | budget => exact ⟨nofun, fun h => nomatch h.2⟩
    | raised e => exact ⟨nofun, fun h => nomatch h.2⟩
    | fuel => exact ⟨nofun, fun h => nomatch h.2⟩
    | miss q => exact ⟨nofun, fun h => nomatch h.2⟩
  | cons e' es => exact ⟨nofun, fun h => nomatch h.1⟩

theorem schemaError_head (env : Env) (impl : FmtImpl) (g : Globals) (c : ClassDef)
    (fuel : Nat) (s : Json) (st : RState) (e : Err) (hst : freshResolver env g c c.metaSchema = .ok st)
    (h : checkSchema env impl g c fuel s = .schemaError e) :
    (eval env impl { c.cfg with formatChecker := none } fuel s c.metaSchema none st).errs.head? = some e := by
  rw [checkSchema_exhaustive env impl g c fuel s st hst] at h
  exact Out.verdict_schemaError _ e h

theorem accepts_iff (env : Env) (impl : FmtImpl) (g : Globals) (c : ClassDef)
    (fuel : Nat) (s : Json) (st : RState) (hst : freshResolver env g c c.metaSchema = .ok st) :
    checkSchema env impl g c fuel s = .ok ↔
      ((eval env impl { c.cfg with formatChecker := none } fuel s c.metaSchema none st).errs = []
        ∧ (eval env impl { c.cfg with formatChecker := none } fuel s c.metaSchema none st).stop = .done) := by
  rw [checkSchema_exhaustive env impl g c fuel s st hst]
  exact Out.verdict_ok _

/-- for a draft's class, in the draft's own terms -/
theorem checkSchema_draft (env : Env) (impl : FmtImpl) (g : Globals) (d : Draft)
    (fuel : Nat) (s : Json) (st : RState) (hst : freshResolver env g d.classDef d.metaSchema = .ok st) :
    checkSchema env impl g d.classDef fuel s =
      CheckResult.ofOutcome (eval env impl (d.cfg none) fuel s d.metaSchema none st).verdict :=
  checkSchema_exhaustive env impl g d.classDef fuel s st hst

/-- when the exhaustive run ends normally, the outcome is decided by its errors alone -/
theorem Out.verdict_done (o : Out) (h : o.stop = .done) :
    CheckResult.ofOutcome o.verdict = (match o.errs with | [] => .ok | e :: _ => .schemaError e) := by
  rcases o with ⟨es, stop, st'⟩
  cases h
  cases es <;> rfl

/-! ### nothing but SchemaError -/

/-- a draft's class evaluates with the draft's configuration, format checking off -/
theorem Draft.classDef_plainCfg (d : Draft) : { d.classDef.cfg with formatChecker := none } = d.cfg none := rfl

theorem checkSchema_benign (env : Env) (impl : FmtImpl) (g : Globals) (d : Draft)
    (fuel : Nat) (s : Json) (st : RState)
    (hst : freshResolver env g d.classDef d.metaSchema = .ok st)
    (hb : Props.C03.Benign d false (eval env impl (d.cfg none) fuel s d.metaSchema (some 1) st).stop) :
    (match checkSchema env impl g d.classDef fuel s with
     | .ok => True
     | .schemaError _ => True
     | .raise e => Props.C03.Benign d false (.raised e)
     | .other x => Props.C03.Benign d false x) := by
  rw [checkSchema_unfold env impl g d.classDef fuel s st hst]
  change (match (match validateM (eval env impl (d.cfg none) fuel s d.metaSchema) st with
       | (.ok (), _) => CheckResult.ok
       | (.invalid e, _) => .schemaError e
       | (.raise e, _) => .raise e
       | (.other x, _) => .other x) with
     | .ok => True
     | .schemaError _ => True
     | .raise e => Props.C03.Benign d false (.raised e)
     | .other x => Props.C03.Benign d false x)
  unfold validateM
  rcases hg : eval env impl (d.cfg none) fuel s d.metaSchema (some 1) st with ⟨es, stop, st'⟩
  rw [hg] at hb
  cases es <;> cases stop <;> first | exact hb | trivial

/-! ### closed computations over the regenerated metaschemas and URI tables -/

def CheckResult.isOk : CheckResult → Bool
  | .ok => true
  | _ => false

theorem CheckResult.eq_ok_of_isOk {r : CheckResult} (h : r.isOk = true) : r = .ok := by
  cases r <;> first | rfl | exact nomatch h

/-- Boolean form of "every reference resolves locally to a shaped schema from every scope" -/
def refsOk (env : Env) (d : Draft) (tops refs : List Str) (o : Option RState) : Bool :=
  match o with
  | none => false
  | some st =>
    tops.all fun top => refs.all fun r =>
      match resolve env r { st with scopes := [top] } with
      | (.ok (_, target), st') => Spec.shapedR d target && st'.fetchLog.isEmpty
      | _ => false

theorem refsOk_sound {env : Env} {d : Draft} {tops refs : List Str} {o : Option RState}
    (h : refsOk env d tops refs o = true) :
    ∃ st, o = some st ∧
      ∀ top ∈ tops, ∀ r ∈ refs,
        match resolve env r { st with scopes := [top] } with
        | (.ok (_, target), st') => Spec.shapedR d target = true ∧ st'.fetchLog = []
        | _ => False := by
  cases o with
  | none => exact nomatch h
  | some st =>
    refine ⟨st, rfl, fun top htop r hr => ?_⟩
    have h1 := List.all_eq_true.1 (List.all_eq_true.1 h top htop) r hr
    revert h1
    rcases resolve env r { st with scopes := [top] } with ⟨res, st'⟩
    cases res with
    | ok p =>
      rcases p with ⟨u, target⟩
      intro h1
      have h2 := Bool.and_eq_true_iff.1 h1
      exact ⟨h2.1, List.isEmpty_iff.1 h2.2⟩
    | raise e => intro h1; exact nomatch h1
    | miss q => intro h1; exact nomatch h1

/-! ### kernel evaluations, one lemma per draft (checked in parallel) -/

theorem meta_shaped_d3 : Spec.shapedR .d3 Draft.d3.metaSchema = true := by decide +kernel
theorem meta_shaped_d4 : Spec.shapedR .d4 Draft.d4.metaSchema = true := by decide +kernel
theorem meta_shaped_d6 : Spec.shapedR .d6 Draft.d6.metaSchema = true := by decide +kernel
theorem meta_shaped_d7 : Spec.shapedR .d7 Draft.d7.metaSchema = true := by decide +kernel

/-- the whole check of a metaschema against itself, under the regenerated URI answers -/
abbrev selfCheck (d : Draft) : CheckResult :=
  checkSchema (metaEnv d) ⟨fun _ _ => none⟩ Globals.initial d.classDef 64 d.metaSchema

theorem selfCheck_d3 : (selfCheck .d3).isOk = true := by decide +kernel
theorem selfCheck_d4 : (selfCheck .d4).isOk = true := by decide +kernel
theorem selfCheck_d6 : (selfCheck .d6).isOk = true := by decide +kernel
theorem selfCheck_d7 : (selfCheck .d7).isOk = true := by decide +kernel

theorem selfCheck_ok (d : Draft) : selfCheck d = .ok := by
  apply CheckResult.eq_ok_of_isOk
  cases d
  · exact selfCheck_d3
  · exact selfCheck_d4
  · exact selfCheck_d6
  · exact selfCheck_d7

/-! ### the reference domain of a metaschema

A finite domain: (base URI in effect) × (schema object), where the base URIs are those the URI table
of the draft knows and the schema objects are those found at schema positions of the metaschema
(the values under `definitions` included: they are what the references designate). That this
product is closed under subschemas and designation, each member shaped as the draft prescribes,
is a Boolean computation (`domainOk`) — evaluated by the kernel, per draft. -/

section Domain
open Spec

/-- keywords whose value is a schema or an array of schemas -/
def listKeys : List Str :=
  [k!"type", k!"disallow", k!"extends", k!"allOf", k!"anyOf", k!"oneOf", k!"items"]
/-- keywords whose value is a schema -/
def schemaKeys : List Str :=
  [k!"not", k!"if", k!"then", k!"else", k!"contains", k!"propertyNames", k!"additionalItems",
   k!"additionalProperties"]
/-- keywords whose value is an object of schemas -/
def mapKeys : List Str :=
  [k!"properties", k!"patternProperties", k!"dependencies", k!"definitions"]

mutual
/-- the schema objects at the schema positions of a schema (an over-approximation is harmless:
    every one of them is checked) -/
def nodesOf : Json → List (List (Str × Json))
  | .obj kvs => kvs :: nodesKvs kvs
  | _ => []
def nodesKvs : List (Str × Json) → List (List (Str × Json))
  | [] => []
  | (k, v) :: rest =>
    (if listKeys.contains k then
      (match v with | .arr xs => nodesList xs | .obj kvs => kvs :: nodesKvs kvs | _ => [])
     else if schemaKeys.contains k then
      (match v with | .obj kvs => kvs :: nodesKvs kvs | _ => [])
     else if mapKeys.contains k then
      (match v with | .obj ps => nodesVals ps | _ => [])
     else []) ++ nodesKvs rest
def nodesList : List Json → List (List (Str × Json))
  | [] => []
  | x :: xs => nodesOf x ++ nodesList xs
def nodesVals : List (Str × Json) → List (List (Str × Json))
  | [] => []
  | (_, v) :: rest => nodesOf v ++ nodesVals rest
end

/-- the domain given by base URIs `tops` and schema objects `nodes`; in drafts 6 and 7 also the
    boolean schemas -/
def domOf (d : Draft) (tops : List Str) (nodes : List (List (Str × Json))) (top : Str) (s : Json) : Bool :=
  match s with
  | .obj kvs => decide (top ∈ tops) && decide (kvs ∈ nodes)
  | .bool _ => (d = .d6 || d = .d7)
  | _ => false

/-- the fields of `RefDomainL` for one member, as a Boolean -/
def rowOk (env : Env) (d : Draft) (base : List (Str × Json)) (D : Str → Json → Bool)
    (top : Str) (kvs : List (Str × Json)) : Bool :=
  WF (.obj kvs)
  && kvs.all (fun p => nsMember p.1 p.2 && tkMember d p.1 p.2)
  && (match lookupJ (if (d = .d6 || d = .d7) then "$id" else "id") kvs with | some v => isStrJ v | none => true)
  && (match idOf d kvs with | some id => (env.urljoin top id).isSome | none => true)
  && (match lookupJ "$ref" kvs with
      | none => kvs.all (shapeClause d (D (baseInside env d top kvs)))
      | some (.str rs) =>
        (match designated env base top rs with
         | some (url, t) => decide (env.urljoin top url = some url) && D url t
         | none => false)
      | some _ => false)
  && (!(decide (d = .d3)) || (match lookupJ "required" kvs with | some r => isBoolV r | none => true))

def domainOk (env : Env) (d : Draft) (base : List (Str × Json)) (tops : List Str)
    (nodes : List (List (Str × Json))) : Bool :=
  tops.all fun top => nodes.all fun kvs => rowOk env d base (domOf d tops nodes) top kvs

variable {env : Env} {d : Draft} {base : List (Str × Json)} {tops : List Str}
  {nodes : List (List (Str × Json))}

theorem domOf_obj {top : Str} {kvs : List (Str × Json)}
    (h : domOf d tops nodes top (.obj kvs) = true) : top ∈ tops ∧ kvs ∈ nodes := by
  have h' : (decide (top ∈ tops) && decide (kvs ∈ nodes)) = true := h
  rw [Bool.and_eq_true] at h'
  exact ⟨of_decide_eq_true h'.1, of_decide_eq_true h'.2⟩

theorem rowOk_of_domainOk (h : domainOk env d base tops nodes = true) {top : Str}
    {kvs : List (Str × Json)} (hs : domOf d tops nodes top (.obj kvs) = true) :
    rowOk env d base (domOf d tops nodes) top kvs = true := by
  obtain ⟨h1, h2⟩ := domOf_obj hs
  exact List.all_eq_true.1 (List.all_eq_true.1 h top h1) kvs h2

/-- **the Boolean check is sound** -/
theorem refDomainL_of_domainOk (h : domainOk env d base tops nodes = true) :
    RefDomainL env d base (domOf d tops nodes) where
  kind := fun top s hs => by
    cases s with
    | obj kvs => exact Or.inl rfl
    | bool b =>
      have h' : (decide (d = .d6) || decide (d = .d7)) = true := hs
      rw [Bool.or_eq_true] at h'
      exact Or.inr ⟨h'.imp of_decide_eq_true of_decide_eq_true, b, rfl⟩
    | _ => exact nomatch hs
  wf := fun top s hs => by
    cases s with
    | obj kvs =>
      have hr := rowOk_of_domainOk h hs
      simp only [rowOk, Bool.and_eq_true] at hr
      exact hr.1.1.1.1.1
    | arr xs => exact nomatch hs
    | _ => rfl
  nsl := fun top kvs hs k v hx => by
    have hr := rowOk_of_domainOk h hs
    simp only [rowOk, Bool.and_eq_true] at hr
    have := List.all_eq_true.1 hr.1.1.1.1.2 (k, v) hx
    rw [Bool.and_eq_true] at this
    exact this.1
  tkl := fun top kvs hs k v hx => by
    have hr := rowOk_of_domainOk h hs
    simp only [rowOk, Bool.and_eq_true] at hr
    have := List.all_eq_true.1 hr.1.1.1.1.2 (k, v) hx
    rw [Bool.and_eq_true] at this
    exact this.2
  ident := fun top kvs hs => by
    have hr := rowOk_of_domainOk h hs
    simp only [rowOk, Bool.and_eq_true] at hr
    refine ⟨hr.1.1.1.2, fun id hid => ?_⟩
    have := hr.1.1.2
    rw [hid] at this
    exact this
  shape := fun top kvs hs hnr => by
    have hr := rowOk_of_domainOk h hs
    simp only [rowOk, Bool.and_eq_true] at hr
    have := hr.1.2
    rw [hnr] at this
    exact this
  ref := fun top kvs r hs hrf => by
    have hr := rowOk_of_domainOk h hs
    simp only [rowOk, Bool.and_eq_true] at hr
    have h5 := hr.1.2
    rw [hrf] at h5
    cases r with
    | str rs =>
      dsimp only at h5
      cases hdes : designated env base top rs with
      | none => rw [hdes] at h5; exact nomatch h5
      | some p =>
        obtain ⟨url, t⟩ := p
        rw [hdes] at h5
        dsimp only at h5
        rw [Bool.and_eq_true] at h5
        exact ⟨rs, url, t, rfl, hdes, of_decide_eq_true h5.1, h5.2⟩
    | _ => exact nomatch h5
  req3 := fun hd top kvs hs r hreq => by
    have hr := rowOk_of_domainOk h hs
    simp only [rowOk, Bool.and_eq_true] at hr
    have h6 := hr.2
    rw [hreq, decide_eq_true hd] at h6
    exact h6

end Domain

/-! ### the domains of the four metaschemas (kernel evaluation) -/

/-- the resolver state `check_schema` starts from (`Props.C11.metaState`) -/
def freshState (d : Draft) : Option RState :=
  match freshResolver (metaEnv d) Globals.initial d.classDef d.metaSchema with
  | .ok st => some st
  | _ => none

def freshStore (d : Draft) : List (Str × Json) := match freshState d with | some st => st.store | none => []
def freshTop (d : Draft) : Str := match freshState d with | some st => st.top | none => []

/-- the base URIs that can be in effect: the resolver's initial one and those the URI table knows -/
def metaTops (d : Draft) : List Str := (freshTop d :: d.urljoinTable.map (·.1.1)).eraseDups

/-- the domain of a metaschema -/
def metaDom (d : Draft) : Str → Json → Bool := domOf d (metaTops d) (nodesOf d.metaSchema)

def metaDomOk (d : Draft) : Bool :=
  domainOk (metaEnv d) d (freshStore d) (metaTops d) (nodesOf d.metaSchema)
  && metaDom d (freshTop d) d.metaSchema
  && (match freshState d with | some st => st.memo.isEmpty | none => false)

theorem metaDomOk_d3 : metaDomOk .d3 = true := by decide +kernel
theorem metaDomOk_d4 : metaDomOk .d4 = true := by decide +kernel
theorem metaDomOk_d6 : metaDomOk .d6 = true := by decide +kernel
theorem metaDomOk_d7 : metaDomOk .d7 = true := by decide +kernel

theorem metaDomOk_all (d : Draft) : metaDomOk d = true := by
  cases d
  · exact metaDomOk_d3
  · exact metaDomOk_d4
  · exact metaDomOk_d6
  · exact metaDomOk_d7

/-- `numSafe` answers `false` for every bundled metaschema: each has a PROPERTY named
    `multipleOf` (draft 3: `divisibleBy`) -/
theorem meta_not_numSafe (d : Draft) : Spec.numSafe d.metaSchema = false := by
  cases d <;> decide +kernel

end JS
