/- Helper lemmas for C11. -/
import JS.Module
import JS.MetaEnv
import JS.Props.C03
import JS.Props.C04
namespace JS

/-! ### `check_schema` as a consumer of the metaschema run -/

/-- how `check_schema` re-types the outcome of `validate` -/
def CheckResult.ofOutcome : Outcome Unit → CheckResult
  | .ok () => .ok
  | .invalid e => .schemaError e
  | .raise e => .raise e
  | .other x => .other x

/-- the format-free class configuration `check_schema` evaluates with -/
abbrev ClassDef.plainCfg (c : ClassDef) : Cfg := { c.cfg with formatChecker := none }

theorem checkSchema_unfold (env : Env) (impl : FmtImpl) (g : Globals) (c : ClassDef)
    (fuel : Nat) (s : Json) (st : RState) (hst : freshResolver env g c c.metaSchema = .ok st) :
    checkSchema env impl g c fuel s =
      (match validateM (eval env impl { c.cfg with formatChecker := none } fuel s c.metaSchema) st with
       | (.ok (), _) => .ok
       | (.invalid e, _) => .schemaError e
       | (.raise e, _) => .raise e
       | (.other x, _) => .other x) := by
  unfold checkSchema
  rw [hst]
  rfl

theorem checkSchema_ofOutcome (env : Env) (impl : FmtImpl) (g : Globals) (c : ClassDef)
    (fuel : Nat) (s : Json) (st : RState) (hst : freshResolver env g c c.metaSchema = .ok st) :
    checkSchema env impl g c fuel s =
      CheckResult.ofOutcome (validateM (eval env impl { c.cfg with formatChecker := none } fuel s c.metaSchema) st).1 := by
  rw [checkSchema_unfold env impl g c fuel s st hst]
  rcases validateM (eval env impl { c.cfg with formatChecker := none } fuel s c.metaSchema) st with ⟨o, st'⟩
  cases o <;> rfl

/-- `check_schema` in terms of the EXHAUSTIVE run of the metaschema validator (budget-prefix law) -/
theorem checkSchema_exhaustive (env : Env) (impl : FmtImpl) (g : Globals) (c : ClassDef)
    (fuel : Nat) (s : Json) (st : RState) (hst : freshResolver env g c c.metaSchema = .ok st) :
    checkSchema env impl g c fuel s =
      CheckResult.ofOutcome
        (match (eval env impl { c.cfg with formatChecker := none } fuel s c.metaSchema none st).errs,
               (eval env impl { c.cfg with formatChecker := none } fuel s c.metaSchema none st).stop with
         | [], .done => .ok ()
         | [], .raised e => .raise e
         | [], x => .other x
         | e :: _, _ => .invalid e) := by
  rw [checkSchema_ofOutcome env impl g c fuel s st hst]
  exact congrArg _ (Props.C04.validate_spec env impl { c.cfg with formatChecker := none } fuel s c.metaSchema st)

/-- the exhaustive-run reading of `validate`'s outcome -/
def Out.verdict (o : Out) : Outcome Unit :=
  match o.errs, o.stop with
  | [], .done => .ok ()
  | [], .raised e => .raise e
  | [], x => .other x
  | e :: _, _ => .invalid e

theorem Out.verdict_schemaError (o : Out) (e : Err)
    (h : CheckResult.ofOutcome o.verdict = .schemaError e) : o.errs.head? = some e := by
  rcases o with ⟨es, stop, st'⟩
  cases es with
  | nil => cases stop <;> exact nomatch h
  | cons e' es =>
    have h' : CheckResult.schemaError e' = .schemaError e := h
    injection h' with h'
    subst h'
    rfl

theorem Out.verdict_ok (o : Out) :
    CheckResult.ofOutcome o.verdict = .ok ↔ (o.errs = [] ∧ o.stop = .done) := by
  rcases o with ⟨es, stop, st'⟩
  cases es with
  | nil =>
    cases stop with
    | done => exact ⟨fun _ => ⟨rfl, rfl⟩, fun _ => rfl⟩
    | budget => exact ⟨nofun, fun h => nomatch h.2⟩
    | raised e => exact ⟨nofun, fun h => nomatch h.2⟩
    | fuel => exact ⟨nofun, fun h => nomatch h.2⟩
    | miss q => exact ⟨nofun, fun h => nomatch h.2⟩
  | cons e' es => exact ⟨nofun, fun h => nomatch h.1⟩

theorem schemaError_head (env : Env) (impl : FmtImpl) (g : Globals) (c : ClassDef)
    (fuel : Nat) (s : Json) (st : RState) (e : Err) (hst : freshResolver env g c c.metaSchema = .ok st)
    (h : checkSchema env impl g c fuel s = .schemaError e) :
    (eval env impl { c.cfg with formatChecker := none } fuel s c.metaSchema none st).errs.head? = some e := by
  rw [checkSchema_exhaustive env impl g c fuel s st hst] at h
  exact Out.verdict_schemaError _ e h

theorem accepts_iff (env : Env) (impl : FmtImpl) (g : Globals) (c : ClassDef)
    (fuel : Nat) (s : Json) (st : RState) (hst : freshResolver env g c c.metaSchema = .ok st) :
    checkSchema env impl g c fuel s = .ok ↔
      ((eval env impl { c.cfg with formatChecker := none } fuel s c.metaSchema none st).errs = []
        ∧ (eval env impl { c.cfg with formatChecker := none } fuel s c.metaSchema none st).stop = .done) := by
  rw [checkSchema_exhaustive env impl g c fuel s st hst]
  exact Out.verdict_ok _

/-! ### nothing but SchemaError -/

/-- a draft's class evaluates with the draft's configuration, format checking off -/
theorem Draft.classDef_plainCfg (d : Draft) : { d.classDef.cfg with formatChecker := none } = d.cfg none := rfl

theorem checkSchema_benign (env : Env) (impl : FmtImpl) (g : Globals) (d : Draft)
    (fuel : Nat) (s : Json) (st : RState)
    (hst : freshResolver env g d.classDef d.metaSchema = .ok st)
    (hb : Props.C03.Benign d false (eval env impl (d.cfg none) fuel s d.metaSchema (some 1) st).stop) :
    (match checkSchema env impl g d.classDef fuel s with
     | .ok => True
     | .schemaError _ => True
     | .raise e => Props.C03.Benign d false (.raised e)
     | .other x => Props.C03.Benign d false x) := by
  rw [checkSchema_unfold env impl g d.classDef fuel s st hst]
  change (match (match validateM (eval env impl (d.cfg none) fuel s d.metaSchema) st with
       | (.ok (), _) => CheckResult.ok
       | (.invalid e, _) => .schemaError e
       | (.raise e, _) => .raise e
       | (.other x, _) => .other x) with
     | .ok => True
     | .schemaError _ => True
     | .raise e => Props.C03.Benign d false (.raised e)
     | .other x => Props.C03.Benign d false x)
  unfold validateM
  rcases hg : eval env impl (d.cfg none) fuel s d.metaSchema (some 1) st with ⟨es, stop, st'⟩
  rw [hg] at hb
  cases es <;> cases stop <;> first | exact hb | trivial

/-! ### closed computations over the regenerated metaschemas and URI tables -/

def CheckResult.isOk : CheckResult → Bool
  | .ok => true
  | _ => false

theorem CheckResult.eq_ok_of_isOk {r : CheckResult} (h : r.isOk = true) : r = .ok := by
  cases r <;> first | rfl | exact nomatch h

/-- Boolean form of "every reference resolves locally to a shaped schema from every scope" -/
def refsOk (env : Env) (d : Draft) (tops refs : List Str) (o : Option RState) : Bool :=
  match o with
  | none => false
  | some st =>
    tops.all fun top => refs.all fun r =>
      match resolve env r { st with scopes := [top] } with
      | (.ok (_, target), st') => Spec.shapedR d target && st'.fetchLog.isEmpty
      | _ => false

theorem refsOk_sound {env : Env} {d : Draft} {tops refs : List Str} {o : Option RState}
    (h : refsOk env d tops refs o = true) :
    ∃ st, o = some st ∧
      ∀ top ∈ tops, ∀ r ∈ refs,
        match resolve env r { st with scopes := [top] } with
        | (.ok (_, target), st') => Spec.shapedR d target = true ∧ st'.fetchLog = []
        | _ => False := by
  cases o with
  | none => exact nomatch h
  | some st =>
    refine ⟨st, rfl, fun top htop r hr => ?_⟩
    have h1 := List.all_eq_true.1 (List.all_eq_true.1 h top htop) r hr
    revert h1
    rcases resolve env r { st with scopes := [top] } with ⟨res, st'⟩
    cases res with
    | ok p =>
      rcases p with ⟨u, target⟩
      intro h1
      have h2 := Bool.and_eq_true_iff.1 h1
      exact ⟨h2.1, List.isEmpty_iff.1 h2.2⟩
    | raise e => intro h1; exact nomatch h1
    | miss q => intro h1; exact nomatch h1

/-! ### kernel evaluations, one lemma per draft (checked in parallel) -/

theorem meta_shaped_d3 : Spec.shapedR .d3 Draft.d3.metaSchema = true := by decide +kernel
theorem meta_shaped_d4 : Spec.shapedR .d4 Draft.d4.metaSchema = true := by decide +kernel
theorem meta_shaped_d6 : Spec.shapedR .d6 Draft.d6.metaSchema = true := by decide +kernel
theorem meta_shaped_d7 : Spec.shapedR .d7 Draft.d7.metaSchema = true := by decide +kernel

/-- the whole check of a metaschema against itself, under the regenerated URI answers -/
abbrev selfCheck (d : Draft) : CheckResult :=
  checkSchema (metaEnv d) ⟨fun _ _ => none⟩ Globals.initial d.classDef 64 d.metaSchema

theorem selfCheck_d3 : (selfCheck .d3).isOk = true := by decide +kernel
theorem selfCheck_d4 : (selfCheck .d4).isOk = true := by decide +kernel
theorem selfCheck_d6 : (selfCheck .d6).isOk = true := by decide +kernel
theorem selfCheck_d7 : (selfCheck .d7).isOk = true := by decide +kernel

theorem selfCheck_ok (d : Draft) : selfCheck d = .ok := by
  apply CheckResult.eq_ok_of_isOk
  cases d
  · exact selfCheck_d3
  · exact selfCheck_d4
  · exact selfCheck_d6
  · exact selfCheck_d7

end JS
