/-
  JS.Proofs.Cli — helper lemmas for C19 (the command line): the fold `loop` in terms of the
  threaded per-instance outputs `outs`, the exit code as a disjunction, what `setup` reads.
-/
import JS.Cli
namespace JS.Cli
open JS

/-! ### `_validate_instance` -/

theorem validated_path (p : Str) (o : Out) : (validated p o).path = p := by
  unfold validated; split <;> rfl
theorem validated_loaded (p : Str) (o : Out) : (validated p o).loaded = true := by
  unfold validated; split <;> rfl
theorem validated_invalid (p : Str) (o : Out) : (validated p o).invalid = !o.errs.isEmpty := by
  unfold validated; split <;> rfl
theorem validated_stderr (p : Str) (o : Out) :
    (validated p o).stderr = o.errs.map (Event.validationError p) := by
  unfold validated; split <;> rfl
theorem validated_st (p : Str) (o : Out) : (validated p o).st = o.st := by
  unfold validated; split <;> rfl

theorem validated_abort_none (p : Str) (o : Out) : (validated p o).abort = none ↔ o.stop = .done := by
  unfold validated
  split
  · next h => simp [h]
  · next h => simp only [reduceCtorEq, false_iff]; exact fun h' => h h'

theorem validated_abort (p : Str) (o : Out) :
    (validated p o).abort = if o.stop.isDone then none else some o.stop := by
  unfold validated
  split
  · next h => simp [h, Stop.isDone]
  · next h =>
    have : o.stop.isDone = false := by
      cases hs : o.stop <;> simp_all [Stop.isDone]
    simp [this]

theorem validated_stdout (p : Str) (o : Out) :
    (validated p o).stdout = if o.stop.isDone ∧ o.errs = [] then [Event.success p] else [] := by
  unfold validated
  split
  · next h => cases he : o.errs <;> simp [h, Stop.isDone]
  · next h =>
    have : o.stop.isDone = false := by
      cases hs : o.stop <;> simp_all [Stop.isDone]
    simp [this]

theorem validated_failed (p : Str) (o : Out) : (validated p o).failed = !o.errs.isEmpty := by
  simp [InstOut.failed, validated_loaded, validated_invalid]

theorem validated_clean (p : Str) (o : Out) :
    (validated p o).clean = true ↔ o.errs = [] ∧ o.stop = .done := by
  simp only [InstOut.clean, validated_failed, Bool.and_eq_true, Bool.not_eq_true', Bool.not_eq_false',
    Option.isNone_iff_eq_none, validated_abort_none]
  cases o.errs <;> simp

/-! ### one instance -/

theorem instanceOut_path (s : Session) (st : RState) (p : Str) : (instanceOut s st p).path = p := by
  unfold instanceOut; split <;> first | rfl | exact validated_path ..

theorem instanceOut_json (s : Session) (st : RState) (p : Str) (v : Json) (h : s.source p = .json v) :
    instanceOut s st p = validated p (eval s.env s.impl s.cfg s.fuel v s.schema none st) := by
  unfold instanceOut; rw [h]

theorem instanceOut_missing (s : Session) (st : RState) (p : Str) (h : s.source p = .missing) :
    instanceOut s st p = ⟨p, false, false, [.notFound p], [], none, st⟩ := by
  unfold instanceOut; rw [h]

theorem instanceOut_notJson (s : Session) (st : RState) (p : Str) (h : s.source p = .notJson) :
    instanceOut s st p = ⟨p, false, false, [.parseError p], [], none, st⟩ := by
  unfold instanceOut; rw [h]

/-- the state an instance leaves is the state `iter_errors` leaves (a file that does not load
    leaves the validator alone) -/
theorem instanceOut_st (s : Session) (st : RState) (p : Str) :
    (instanceOut s st p).st = match s.source p with
      | .json v => (eval s.env s.impl s.cfg s.fuel v s.schema none st).st
      | _ => st := by
  cases h : s.source p <;> simp [instanceOut, h, validated_st]

theorem instanceOut_clean_iff (s : Session) (st : RState) (p : Str) :
    (instanceOut s st p).clean = true ↔
      ∃ v, s.source p = .json v
        ∧ (eval s.env s.impl s.cfg s.fuel v s.schema none st).errs = []
        ∧ (eval s.env s.impl s.cfg s.fuel v s.schema none st).stop = .done := by
  unfold instanceOut
  split
  · next h => simp [h, InstOut.clean, InstOut.failed]
  · next h => simp [h, InstOut.clean, InstOut.failed]
  · next v h => simp [h, validated_clean]

/-- only success events go to stdout, and only for the path at hand -/
theorem instanceOut_stdout (s : Session) (st : RState) (p : Str) :
    (instanceOut s st p).stdout = if (instanceOut s st p).clean then [Event.success p] else [] := by
  unfold instanceOut
  split
  · simp [InstOut.clean, InstOut.failed]
  · simp [InstOut.clean, InstOut.failed]
  · next v h =>
    rw [validated_stdout]
    by_cases hc : (validated p (eval s.env s.impl s.cfg s.fuel v s.schema none st)).clean = true
    · have := (validated_clean _ _).1 hc
      simp [hc, this.1, this.2, Stop.isDone]
    · have hn : ¬ ((eval s.env s.impl s.cfg s.fuel v s.schema none st).errs = []
          ∧ (eval s.env s.impl s.cfg s.fuel v s.schema none st).stop = .done) :=
        fun h => hc ((validated_clean _ _).2 h)
      have hc' : (validated p (eval s.env s.impl s.cfg s.fuel v s.schema none st)).clean = false := by
        simpa using hc
      rw [hc']
      simp only [Bool.false_eq_true, ↓reduceIte, ite_eq_right_iff]
      intro ⟨hd, he⟩
      exfalso; apply hn; refine ⟨he, ?_⟩
      cases hs : (eval s.env s.impl s.cfg s.fuel v s.schema none st).stop <;> simp_all [Stop.isDone]

theorem instanceOut_diagnostics (s : Session) (st : RState) (p : Str) :
    (instanceOut s st p).stderr.filter Event.isDiagnostic = (diagnosticOf s.source p).toList := by
  unfold instanceOut diagnosticOf
  split
  · simp [Event.isDiagnostic]
  · simp [Event.isDiagnostic]
  · next v h =>
    simp only [validated_stderr, Option.toList_none, List.filter_eq_nil_iff, List.mem_map]
    rintro _ ⟨e, _, rfl⟩
    simp [Event.isDiagnostic]

/-! ### the threaded outputs -/

theorem outs_length (s : Session) : ∀ (ps : List Str) (st : RState), (outs s st ps).length = ps.length
  | [], _ => rfl
  | p :: ps, st => by simp [outs, outs_length s ps]

theorem outs_paths (s : Session) : ∀ (ps : List Str) (st : RState), (outs s st ps).map (·.path) = ps
  | [], _ => rfl
  | p :: ps, st => by simp [outs, outs_paths s ps, instanceOut_path]

/-- a projection of the outputs that does not depend on the resolver state is a map over the paths -/
theorem outs_flatMap_blind {β : Type} (s : Session) (f : InstOut → List β) (g : Str → List β)
    (h : ∀ st p, f (instanceOut s st p) = g p) :
    ∀ (ps : List Str) (st : RState), (outs s st ps).flatMap f = ps.flatMap g
  | [], _ => rfl
  | p :: ps, st => by simp [outs, h, outs_flatMap_blind s f g h ps]

theorem reached_of_no_abort : ∀ (os : List InstOut), (∀ o ∈ os, o.abort = none) → reached os = os
  | [], _ => rfl
  | o :: os, h => by
    have ho : o.abort = none := h o (by simp)
    simp only [reached, ho]
    rw [reached_of_no_abort os (fun o' ho' => h o' (by simp [ho']))]

theorem reached_sublist : ∀ (os : List InstOut), ∃ rest, os = reached os ++ rest
  | [] => ⟨[], rfl⟩
  | o :: os => by
    cases ho : o.abort with
    | some x => exact ⟨os, by simp [reached, ho]⟩
    | none =>
      obtain ⟨rest, hr⟩ := reached_sublist os
      exact ⟨rest, by simp only [reached, ho, List.cons_append]; rw [← hr]⟩

/-- the first escaping stop among the outputs -/
def firstAbort (os : List InstOut) : Option Stop := os.findSome? (·.abort)

theorem firstAbort_none_iff (os : List InstOut) : firstAbort os = none ↔ ∀ o ∈ os, o.abort = none := by
  simp [firstAbort]


/-- every output is the output of a listed path from some resolver state -/
theorem outs_mem (s : Session) : ∀ (ps : List Str) (st : RState) (o : InstOut), o ∈ outs s st ps →
    ∃ st' p, p ∈ ps ∧ o = instanceOut s st' p
  | [], _, o, h => by simp [outs] at h
  | p :: ps, st, o, h => by
    simp only [outs, List.mem_cons] at h
    rcases h with rfl | h
    · exact ⟨st, p, by simp, rfl⟩
    · obtain ⟨st', p', hp, ho⟩ := outs_mem s ps _ o h
      exact ⟨st', p', by simp [hp], ho⟩

theorem reached_mem (os : List InstOut) (o : InstOut) (h : o ∈ reached os) : o ∈ os := by
  obtain ⟨rest, hr⟩ := reached_sublist os
  rw [hr]; simp [h]

/-- stdout over the outputs: one success event per clean output, in order -/
theorem outs_stdout (s : Session) : ∀ (ps : List Str) (st : RState),
    (outs s st ps).flatMap (·.stdout)
      = ((outs s st ps).filter (·.clean)).map (fun o => Event.success o.path)
  | [], _ => rfl
  | p :: ps, st => by
    simp only [outs, List.flatMap_cons, outs_stdout s ps, instanceOut_stdout s st p]
    cases hc : (instanceOut s st p).clean <;> simp [hc, instanceOut_path]

theorem filterMap_eq_flatMap_toList' {α β : Type} (f : α → Option β) : ∀ (xs : List α),
    xs.flatMap (fun x => (f x).toList) = xs.filterMap f
  | [] => rfl
  | x :: xs => by
    simp only [List.flatMap_cons, List.filterMap_cons, filterMap_eq_flatMap_toList' f xs]
    cases f x <;> simp

theorem filter_flatMap' {α β : Type} (q : β → Bool) (f : α → List β) : ∀ (xs : List α),
    (xs.flatMap f).filter q = xs.flatMap (fun x => (f x).filter q)
  | [] => rfl
  | x :: xs => by simp [List.flatMap_cons, List.filter_append, filter_flatMap' q f xs]

/-- what `load` reads depends on the instance list only through its emptiness -/
theorem source_congr (fs : FS) (stdin : FileState) (args args' : Args)
    (h : args'.instances.isEmpty = args.instances.isEmpty) :
    source fs stdin args' = source fs stdin args := by
  simp [source, h]

theorem stdoutText_map_success {α : Type} (mode : OutputMode) (f : α → Str) : ∀ (xs : List α),
    stdoutText mode (xs.map fun o => Event.success (f o)) = xs.flatMap fun o => successText mode (f o)
  | [] => rfl
  | x :: xs => by
    have ih := stdoutText_map_success mode f xs
    simp only [stdoutText] at ih ⊢
    simp only [List.map_cons, List.flatMap_cons, ih]

/-! ### the exit code -/

theorem nextExitCode_le_one (c : Nat) (o : InstOut) (hc : c ≤ 1) : nextExitCode c o ≤ 1 := by
  unfold nextExitCode
  have h01 : c = 0 ∨ c = 1 := by omega
  rcases h01 with rfl | rfl <;> cases o.loaded <;> cases o.invalid <;> simp

theorem nextExitCode_zero_iff (c : Nat) (o : InstOut) :
    nextExitCode c o = 0 ↔ c = 0 ∧ o.failed = false := by
  unfold nextExitCode InstOut.failed
  cases o.loaded <;> cases o.invalid <;> simp [Nat.or_eq_zero_iff]

theorem foldl_exit_le_one : ∀ (os : List InstOut) (c : Nat), c ≤ 1 → os.foldl nextExitCode c ≤ 1
  | [], _, h => h
  | o :: os, c, h => foldl_exit_le_one os _ (nextExitCode_le_one c o h)

theorem foldl_exit_zero_iff : ∀ (os : List InstOut) (c : Nat),
    os.foldl nextExitCode c = 0 ↔ c = 0 ∧ ∀ o ∈ os, o.failed = false
  | [], c => by simp
  | o :: os, c => by
    simp only [List.foldl_cons, foldl_exit_zero_iff os, nextExitCode_zero_iff, List.mem_cons, forall_eq_or_imp,
      and_assoc]

/-! ### the loop -/

theorem foldl_stuck (s : Session) (x : Stop) : ∀ (ps : List Str) (acc : Loop), acc.abort = some x →
    ps.foldl (stepInstance s) acc = acc
  | [], _, _ => rfl
  | p :: ps, acc, h => by
    have : stepInstance s acc p = acc := by simp [stepInstance, h]
    simp only [List.foldl_cons, this]
    exact foldl_stuck s x ps acc h

/-- the fold, spelled out: streams are extended by the outputs reached, the exit code is folded
    over them, and what escapes is the first thing that escaped -/
theorem foldl_spec (s : Session) : ∀ (ps : List Str) (acc : Loop), acc.abort = none →
    (ps.foldl (stepInstance s) acc).stderr = acc.stderr ++ (reached (outs s acc.st ps)).flatMap (·.stderr)
    ∧ (ps.foldl (stepInstance s) acc).stdout = acc.stdout ++ (reached (outs s acc.st ps)).flatMap (·.stdout)
    ∧ (ps.foldl (stepInstance s) acc).exitCode = (reached (outs s acc.st ps)).foldl nextExitCode acc.exitCode
    ∧ (ps.foldl (stepInstance s) acc).abort = firstAbort (outs s acc.st ps)
  | [], acc, h => by simp [outs, reached, firstAbort, h]
  | p :: ps, acc, h => by
    have hstep : stepInstance s acc p = acc.absorb (instanceOut s acc.st p) := by simp [stepInstance, h]
    simp only [List.foldl_cons, hstep, outs]
    cases ho : (instanceOut s acc.st p).abort with
    | some x =>
      have hab : (acc.absorb (instanceOut s acc.st p)).abort = some x := by simp [Loop.absorb, ho]
      rw [foldl_stuck s x ps _ hab]
      simp [reached, ho, Loop.absorb, firstAbort]
    | none =>
      have hab : (acc.absorb (instanceOut s acc.st p)).abort = none := by simp [Loop.absorb, ho]
      obtain ⟨h1, h2, h3, h4⟩ := foldl_spec s ps _ hab
      have hst : (acc.absorb (instanceOut s acc.st p)).st = (instanceOut s acc.st p).st := rfl
      rw [hst] at h1 h2 h3 h4
      refine ⟨?_, ?_, ?_, ?_⟩
      · rw [h1]; simp [reached, ho, Loop.absorb, List.append_assoc]
      · rw [h2]; simp [reached, ho, Loop.absorb, List.append_assoc]
      · rw [h3]; simp [reached, ho, Loop.absorb]
      · rw [h4]; simp [firstAbort, ho]

theorem loop_spec (s : Session) (st : RState) (ps : List Str) :
    (loop s st ps).stderr = (reached (outs s st ps)).flatMap (·.stderr)
    ∧ (loop s st ps).stdout = (reached (outs s st ps)).flatMap (·.stdout)
    ∧ (loop s st ps).exitCode = (reached (outs s st ps)).foldl nextExitCode 0
    ∧ (loop s st ps).abort = firstAbort (outs s st ps) := by
  have := foldl_spec s ps (Loop.init st) rfl
  simpa [loop, Loop.init] using this

theorem result_stderr (l : Loop) : l.result.stderr = l.stderr := by
  unfold Loop.result; split <;> rfl
theorem result_stdout (l : Loop) : l.result.stdout = l.stdout := by
  unfold Loop.result; split <;> rfl

theorem result_exit_iff (l : Loop) (n : Nat) :
    l.result.ending = .exit n ↔ l.abort = none ∧ l.exitCode = n := by
  cases h : l.abort <;> simp [Loop.result, h]

theorem result_status_zero_iff (l : Loop) : l.result.status = 0 ↔ l.abort = none ∧ l.exitCode = 0 := by
  cases h : l.abort <;> simp [Loop.result, CliResult.status, h]

theorem result_status_le_one (l : Loop) (h : l.exitCode ≤ 1) : l.result.status ≤ 1 := by
  cases h' : l.abort <;> simp [Loop.result, CliResult.status, h, h']

/-- the status of the loop is 0 exactly when every output is clean -/
theorem loop_status_zero_iff (s : Session) (st : RState) (ps : List Str) :
    (loop s st ps).result.status = 0 ↔ ∀ o ∈ outs s st ps, o.clean = true := by
  obtain ⟨_, _, h3, h4⟩ := loop_spec s st ps
  rw [result_status_zero_iff, h3, h4, firstAbort_none_iff]
  constructor
  · rintro ⟨ha, hz⟩
    rw [reached_of_no_abort _ ha, foldl_exit_zero_iff] at hz
    intro o ho
    simp [InstOut.clean, ha o ho, hz.2 o ho]
  · intro h
    have ha : ∀ o ∈ outs s st ps, o.abort = none := fun o ho => by
      have := h o ho
      simp only [InstOut.clean, Bool.and_eq_true, Option.isNone_iff_eq_none] at this
      exact this.2
    refine ⟨ha, ?_⟩
    rw [reached_of_no_abort _ ha, foldl_exit_zero_iff]
    refine ⟨rfl, fun o ho => ?_⟩
    have := h o ho
    simp only [InstOut.clean, Bool.and_eq_true, Bool.not_eq_true'] at this
    exact this.1

theorem loop_status_le_one (s : Session) (st : RState) (ps : List Str) :
    (loop s st ps).result.status ≤ 1 := by
  apply result_status_le_one
  rw [(loop_spec s st ps).2.2.1]
  exact foldl_exit_le_one _ 0 (by omega)

theorem allValid_iff (s : Session) : ∀ (ps : List Str) (st : RState),
    AllValid s st ps ↔ ∀ o ∈ outs s st ps, o.clean = true
  | [], _ => by simp [AllValid, outs]
  | p :: ps, st => by
    simp only [AllValid, outs, List.mem_cons, forall_eq_or_imp, instanceOut_clean_iff]
    rw [instanceOut_st, allValid_iff s ps]
    constructor
    · rintro ⟨⟨v, hv, he, hd⟩, h⟩
      refine ⟨⟨v, hv, he, hd⟩, ?_⟩
      simpa [hv] using h
    · rintro ⟨⟨v, hv, he, hd⟩, h⟩
      refine ⟨⟨v, hv, he, hd⟩, ?_⟩
      simpa [hv] using h

/-! ### when the resolver state does not matter: the status depends on the set of paths only -/

theorem outs_clean_blind (s : Session) (hb : ∀ p st st', (instanceOut s st p).clean = (instanceOut s st' p).clean)
    (st0 : RState) : ∀ (ps : List Str) (st : RState),
    (∀ o ∈ outs s st ps, o.clean = true) ↔ ∀ p ∈ ps, (instanceOut s st0 p).clean = true
  | [], _ => by simp [outs]
  | p :: ps, st => by
    simp only [outs, List.mem_cons, forall_eq_or_imp, outs_clean_blind s hb st0 ps, hb p st st0]

/-! ### before the loop -/

theorem setup_ready_iff (env : Env) (impl : FmtImpl) (g : Globals) (fuel : Nat) (fs : FS) (args : Args)
    (c : ClassDef) (schema : Json) (st : RState) :
    setup env impl g fuel fs args = .ready c schema st ↔
      lookupFile fs args.schema = .json schema ∧ classFor env g args schema = .ok c
      ∧ checkSchema env impl g c fuel schema = .ok
      ∧ resolverFor env g args c schema = .ok st := by
  constructor
  · intro h
    unfold setup at h
    split at h
    · cases h
    · cases h
    · next sch h1 =>
      split at h
      · simp [escapeNow] at h
      · simp [escapeNow] at h
      · next c' h2 =>
        split at h
        · cases h
        · simp [escapeNow] at h
        · simp [escapeNow] at h
        · next h3 =>
          split at h
          · simp [escapeNow] at h
          · simp [escapeNow] at h
          · next st' h4 =>
            simp only [Setup.ready.injEq] at h
            obtain ⟨rfl, rfl, rfl⟩ := h
            exact ⟨h1, h2, h3, h4⟩
  · rintro ⟨h1, h2, h3, h4⟩
    simp only [setup, h1, h2, h3, h4]

/-- whenever the run ends before the loop, the status is 1, nothing is on stdout, and stderr
    carries at most one event -/
theorem setup_done (env : Env) (impl : FmtImpl) (g : Globals) (fuel : Nat) (fs : FS) (args : Args)
    (r : CliResult) (h : setup env impl g fuel fs args = .done r) :
    r.status = 1 ∧ r.stdout = [] ∧ r.stderr.length ≤ 1 := by
  unfold setup at h
  repeat' split at h
  all_goals first
    | (cases h; simp [CliResult.status])
    | (simp only [escapeNow, Setup.done.injEq] at h; subst h; simp [CliResult.status])
    | cases h

/-- `setup` reads the schema file and the three arguments `schema`, `--validator`, `--base-uri`;
    nothing else -/
theorem setup_congr (env : Env) (impl : FmtImpl) (g : Globals) (fuel : Nat) (fs fs' : FS) (args args' : Args)
    (hf : lookupFile fs' args.schema = lookupFile fs args.schema)
    (hs : args'.schema = args.schema) (hv : args'.validator = args.validator)
    (hb : args'.baseUri = args.baseUri) :
    setup env impl g fuel fs' args' = setup env impl g fuel fs args := by
  simp only [setup, classFor, resolverFor, hs, hv, hb, hf]

end JS.Cli
