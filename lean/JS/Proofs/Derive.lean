/-
  Helper lemmas for C16 (JS/Props/C16.lean) about the heap model JS.Derive.

  The invariant `WF` types the heap: every address stored in an object cell holds a cell of the
  right kind, and every dict cell that is an attribute of an object carries that object's address
  as its (ghost) owner.  `WF` depends on the heap only through `kindAt`, which in-place updates
  preserve; the owner tags are what makes "no two objects share a dict" a LOCAL invariant.
-/
import JS.Derive
namespace JS.Derive
open JS

/-! ### kinds -/

inductive Kind where
  | tc | kw (owner : Option Addr) | fmt (owner : Option Addr) | cls | fc | val
deriving DecidableEq, Repr

def Cell.kind : Cell → Kind
  | .typeChecker _ => .tc
  | .kwDict o _ => .kw o
  | .fmtDict o _ => .fmt o
  | .cls _ _ _ _ _ => .cls
  | .formatChecker _ => .fc
  | .validator _ _ _ _ _ => .val

/-- the cells that some operation updates in place: format dicts, and dicts of the caller's -/
def Cell.isDict : Cell → Bool
  | .kwDict none _ => true
  | .fmtDict _ _ => true
  | _ => false

def kindAt (h : List Cell) (x : Addr) : Option Kind := h[x]?.map Cell.kind

/-- what the cell at address `a` requires of the cells it points at -/
def CellOK (h : List Cell) (a : Addr) : Cell → Prop
  | .cls v t _ _ _ => kindAt h v = some (.kw (some a)) ∧ kindAt h t = some .tc
  | .formatChecker d => kindAt h d = some (.fmt (some a))
  | .validator c tco _ fc _ =>
      kindAt h c = some .cls ∧ (∀ t, tco = some t → kindAt h t = some .tc)
        ∧ (∀ f, fc = some f → kindAt h f = some .fc)
  | _ => True

/-- the heap invariant: the class-level format registry sits at address 0 and is nobody's
    attribute; every object's references are well-kinded and its dicts are its own -/
structure WF (h : List Cell) : Prop where
  reg : kindAt h clsRegistry = some (.fmt none)
  dep : kindAt h deprecatedChecker = some .tc
  cells : ∀ a c, h[a]? = some c → CellOK h a c

theorem kindAt_some {h : List Cell} {x : Addr} {k : Kind} (hk : kindAt h x = some k) :
    ∃ c, h[x]? = some c ∧ c.kind = k := by
  unfold kindAt at hk
  cases hx : h[x]? with
  | none => rw [hx] at hk; cases hk
  | some c => rw [hx] at hk; exact ⟨c, rfl, by simpa using hk⟩

theorem kindAt_of_get {h : List Cell} {x : Addr} {c : Cell} (hc : h[x]? = some c) :
    kindAt h x = some c.kind := by
  unfold kindAt; rw [hc]; rfl

theorem lt_of_get {h : List Cell} {x : Addr} {c : Cell} (hc : h[x]? = some c) : x < h.length := by
  rcases List.getElem?_eq_some_iff.mp hc with ⟨hlt, _⟩; exact hlt

theorem lt_of_kindAt {h : List Cell} {x : Addr} {k : Kind} (hk : kindAt h x = some k) : x < h.length := by
  rcases kindAt_some hk with ⟨c, hc, _⟩; exact lt_of_get hc

/-! inversion of kinds -/
theorem kind_tc {c : Cell} (h : c.kind = .tc) : ∃ m, c = .typeChecker m := by
  cases c <;> simp [Cell.kind] at h; exact ⟨_, rfl⟩
theorem kind_kw {c : Cell} {o} (h : c.kind = .kw o) : ∃ kvs, c = .kwDict o kvs := by
  cases c <;> simp [Cell.kind] at h; subst h; exact ⟨_, rfl⟩
theorem kind_fmt {c : Cell} {o} (h : c.kind = .fmt o) : ∃ es, c = .fmtDict o es := by
  cases c <;> simp [Cell.kind] at h; subst h; exact ⟨_, rfl⟩
theorem kind_cls {c : Cell} (h : c.kind = .cls) : ∃ v t i m cw, c = .cls v t i m cw := by
  cases c <;> simp [Cell.kind] at h; exact ⟨_, _, _, _, _, rfl⟩
theorem kind_fc {c : Cell} (h : c.kind = .fc) : ∃ d, c = .formatChecker d := by
  cases c <;> simp [Cell.kind] at h; exact ⟨_, rfl⟩

theorem get_tc {h : List Cell} {x} (hk : kindAt h x = some .tc) : ∃ m, h[x]? = some (.typeChecker m) := by
  rcases kindAt_some hk with ⟨c, hc, hkc⟩; rcases kind_tc hkc with ⟨m, rfl⟩; exact ⟨m, hc⟩
theorem get_kw {h : List Cell} {x o} (hk : kindAt h x = some (.kw o)) : ∃ kvs, h[x]? = some (.kwDict o kvs) := by
  rcases kindAt_some hk with ⟨c, hc, hkc⟩; rcases kind_kw hkc with ⟨m, rfl⟩; exact ⟨m, hc⟩
theorem get_fmt {h : List Cell} {x o} (hk : kindAt h x = some (.fmt o)) : ∃ es, h[x]? = some (.fmtDict o es) := by
  rcases kindAt_some hk with ⟨c, hc, hkc⟩; rcases kind_fmt hkc with ⟨m, rfl⟩; exact ⟨m, hc⟩
theorem get_cls {h : List Cell} {x} (hk : kindAt h x = some .cls) :
    ∃ v t i m cw, h[x]? = some (.cls v t i m cw) := by
  rcases kindAt_some hk with ⟨c, hc, hkc⟩; rcases kind_cls hkc with ⟨v, t, i, m, cw, rfl⟩
  exact ⟨v, t, i, m, cw, hc⟩
theorem get_fc {h : List Cell} {x} (hk : kindAt h x = some .fc) : ∃ d, h[x]? = some (.formatChecker d) := by
  rcases kindAt_some hk with ⟨c, hc, hkc⟩; rcases kind_fc hkc with ⟨m, rfl⟩; exact ⟨m, hc⟩

/-- `CellOK` only asks for kinds to be present: it survives any change of the heap that keeps them -/
theorem CellOK_mono {h h' : List Cell} (hm : ∀ x k, kindAt h x = some k → kindAt h' x = some k)
    {a : Addr} {c : Cell} (hc : CellOK h a c) : CellOK h' a c := by
  cases c with
  | cls v t i m cw => exact ⟨hm _ _ hc.1, hm _ _ hc.2⟩
  | formatChecker d => exact hm _ _ hc
  | validator c tco s fc ms =>
    exact ⟨hm _ _ hc.1, fun t ht => hm _ _ (hc.2.1 t ht), fun f hf => hm _ _ (hc.2.2 f hf)⟩
  | typeChecker m => trivial
  | kwDict o kvs => trivial
  | fmtDict o es => trivial

/-! ### appending cells -/

theorem get_append {h l : List Cell} {x : Addr} {c : Cell} (hc : h[x]? = some c) : (h ++ l)[x]? = some c := by
  rw [List.getElem?_append_left (lt_of_get hc)]; exact hc

theorem kindAt_append {h l : List Cell} {x : Addr} {k : Kind} (hk : kindAt h x = some k) :
    kindAt (h ++ l) x = some k := by
  rcases kindAt_some hk with ⟨c, hc, rfl⟩; exact kindAt_of_get (get_append hc)

theorem kindAt_append_lt {h l : List Cell} {x : Addr} (hx : x < h.length) : kindAt (h ++ l) x = kindAt h x := by
  unfold kindAt; rw [List.getElem?_append_left hx]

/-- a heap grown by cells that are themselves in order is in order -/
theorem WF_append {h l : List Cell} (hwf : WF h)
    (hnew : ∀ i c, l[i]? = some c → CellOK (h ++ l) (h.length + i) c) : WF (h ++ l) := by
  refine ⟨kindAt_append hwf.reg, kindAt_append hwf.dep, ?_⟩
  intro a c hac
  by_cases ha : a < h.length
  · rw [List.getElem?_append_left ha] at hac
    exact CellOK_mono (fun x k hk => kindAt_append hk) (hwf.cells a c hac)
  · have hle : h.length ≤ a := Nat.le_of_not_lt ha
    rw [List.getElem?_append_right hle] at hac
    have := hnew (a - h.length) c hac
    rwa [Nat.add_sub_cancel' hle] at this

/-! ### updating a dict cell in place -/

theorem kindAt_set {h : List Cell} {d : Addr} {c c' : Cell} (hd : h[d]? = some c) (hk : c'.kind = c.kind)
    (x : Addr) : kindAt (h.set d c') x = kindAt h x := by
  unfold kindAt
  by_cases hx : d = x
  · subst hx; rw [List.getElem?_set_self (lt_of_get hd), hd]; simp [hk]
  · rw [List.getElem?_set_ne hx]

theorem WF_set {h : List Cell} {d : Addr} {c c' : Cell} (hwf : WF h) (hd : h[d]? = some c)
    (hk : c'.kind = c.kind) (hdict : c.isDict = true) : WF (h.set d c') := by
  refine ⟨by rw [kindAt_set hd hk]; exact hwf.reg, by rw [kindAt_set hd hk]; exact hwf.dep, ?_⟩
  intro a x hax
  have hm : ∀ y k, kindAt h y = some k → kindAt (h.set d c') y = some k := by
    intro y k hy; rw [kindAt_set hd hk]; exact hy
  by_cases ha : d = a
  · subst ha
    rw [List.getElem?_set_self (lt_of_get hd)] at hax
    cases hax
    cases c <;> simp [Cell.isDict] at hdict <;> cases c' <;> simp [Cell.kind] at hk <;> trivial
  · rw [List.getElem?_set_ne ha] at hax
    exact CellOK_mono hm (hwf.cells a x hax)

/-! ### what a probe sees is unchanged by growth … -/

theorem viewCls_append {h l : List Cell} (hwf : WF h) {x : Addr} (hx : x < h.length) :
    viewCls (h ++ l) x = viewCls h x := by
  unfold viewCls
  rw [List.getElem?_append_left hx]
  cases hc : h[x]? with
  | none => rfl
  | some c =>
    cases c with
    | cls v t i m cw =>
      have ok := hwf.cells x _ hc
      rcases get_kw ok.1 with ⟨kvs, hv⟩
      rcases get_tc ok.2 with ⟨mm, ht⟩
      simp only [get_append hv, get_append ht, hv, ht]
    | _ => rfl

theorem viewFc_append {h l : List Cell} (hwf : WF h) {x : Addr} (hx : x < h.length) :
    viewFc (h ++ l) x = viewFc h x := by
  unfold viewFc
  rw [List.getElem?_append_left hx]
  cases hc : h[x]? with
  | none => rfl
  | some c =>
    cases c with
    | formatChecker d =>
      rcases get_fmt (hwf.cells x _ hc) with ⟨es, hd⟩
      simp only [get_append hd, hd]
    | _ => rfl

theorem view_append {h l : List Cell} (hwf : WF h) {a : Addr} (ha : a < h.length) :
    view (h ++ l) a = view h a := by
  unfold view
  rw [List.getElem?_append_left ha]
  cases hc : h[a]? with
  | none => rfl
  | some c =>
    cases c with
    | cls v t i m cw => simp only [viewCls_append hwf ha]
    | formatChecker d => simp only [viewFc_append hwf ha]
    | validator c tco s fc ms =>
      have ok := hwf.cells a _ hc
      simp only [viewCls_append hwf (lt_of_kindAt ok.1)]
      have e1 : (match tco with
                  | none => (none : Option (List (Str × TyFn))) | some t => none) = none := by cases tco <;> rfl
      cases tco with
      | none =>
        cases fc with
        | none => rfl
        | some f => simp only [viewFc_append hwf (lt_of_kindAt (ok.2.2 f rfl))]
      | some t =>
        rcases get_tc (ok.2.1 t rfl) with ⟨mm, ht⟩
        cases fc with
        | none => simp only [get_append ht, ht]
        | some f => simp only [get_append ht, ht, viewFc_append hwf (lt_of_kindAt (ok.2.2 f rfl))]
    | _ => rfl

/-! ### … and by in-place updates of dicts it does not read -/

theorem get_set_of_not_dict {h : List Cell} {d x : Addr} {c c' cx : Cell} (hd : h[d]? = some c)
    (hdict : c.isDict = true) (hx : h[x]? = some cx) (hnd : cx.isDict = false) :
    (h.set d c')[x]? = some cx := by
  have hne : d ≠ x := by
    intro e; subst e; rw [hd] at hx; cases hx; rw [hdict] at hnd; cases hnd
  rw [List.getElem?_set_ne hne]; exact hx

theorem viewCls_set {h : List Cell} {d : Addr} {c c' : Cell} (hwf : WF h) (hd : h[d]? = some c)
    (hk : c'.kind = c.kind) (hdict : c.isDict = true) (x : Addr) :
    viewCls (h.set d c') x = viewCls h x := by
  unfold viewCls
  by_cases hx : d = x
  · subst hx
    rw [List.getElem?_set_self (lt_of_get hd), hd]
    cases c <;> simp [Cell.isDict] at hdict <;> cases c' <;> simp [Cell.kind] at hk <;> rfl
  · rw [List.getElem?_set_ne hx]
    cases hc : h[x]? with
    | none => rfl
    | some cx =>
      cases cx with
      | cls v t i m cw =>
        have ok := hwf.cells x _ hc
        rcases get_kw ok.1 with ⟨kvs, hv⟩
        rcases get_tc ok.2 with ⟨mm, ht⟩
        have hv' : (h.set d c')[v]? = some (.kwDict (some x) kvs) := by
          have hne : d ≠ v := by
            intro e; subst e; rw [hd] at hv; cases hv; simp [Cell.isDict] at hdict
          rw [List.getElem?_set_ne hne]; exact hv
        simp only [hv', get_set_of_not_dict hd hdict ht rfl, hv, ht]
      | _ => rfl

theorem viewFc_set {h : List Cell} {d : Addr} {c c' : Cell} (hd : h[d]? = some c)
    (hk : c'.kind = c.kind) (hdict : c.isDict = true) {x : Addr}
    (hne : ∀ d0, h[x]? = some (.formatChecker d0) → d0 ≠ d) :
    viewFc (h.set d c') x = viewFc h x := by
  unfold viewFc
  by_cases hx : d = x
  · subst hx
    rw [List.getElem?_set_self (lt_of_get hd), hd]
    cases c <;> simp [Cell.isDict] at hdict <;> cases c' <;> simp [Cell.kind] at hk <;> rfl
  · rw [List.getElem?_set_ne hx]
    cases hc : h[x]? with
    | none => rfl
    | some cx =>
      cases cx with
      | formatChecker d0 =>
        have := hne d0 hc
        simp only [List.getElem?_set_ne (Ne.symm this)]
      | _ => rfl

/-- the update at `d` is not read by a probe of `a` -/
def NotRead (h : List Cell) (d a : Addr) : Prop :=
  a ≠ d ∧ (∀ d0, h[a]? = some (.formatChecker d0) → d0 ≠ d)
    ∧ (∀ c0 tco s f ms d0, h[a]? = some (.validator c0 tco s (some f) ms) →
          h[f]? = some (.formatChecker d0) → d0 ≠ d)

theorem view_set {h : List Cell} {d : Addr} {c c' : Cell} (hwf : WF h) (hd : h[d]? = some c)
    (hk : c'.kind = c.kind) (hdict : c.isDict = true) {a : Addr} (hnr : NotRead h d a) :
    view (h.set d c') a = view h a := by
  unfold view
  rw [List.getElem?_set_ne (Ne.symm hnr.1)]
  cases hc : h[a]? with
  | none => rfl
  | some cx =>
    cases cx with
    | cls v t i m cw => simp only [viewCls_set hwf hd hk hdict]
    | formatChecker d0 => simp only [viewFc_set hd hk hdict hnr.2.1]
    | validator c0 tco s fc ms =>
      have ok := hwf.cells a _ hc
      simp only [viewCls_set hwf hd hk hdict]
      have hfc : ∀ f, fc = some f → viewFc (h.set d c') f = viewFc h f := by
        intro f hf; subst hf
        exact viewFc_set hd hk hdict (fun d0 h0 => hnr.2.2 c0 tco s f ms d0 hc h0)
      cases tco with
      | none =>
        cases fc with
        | none => rfl
        | some f => simp only [hfc f rfl]
      | some t =>
        rcases get_tc (ok.2.1 t rfl) with ⟨mm, ht⟩
        cases fc with
        | none => simp only [get_set_of_not_dict hd hdict ht rfl, ht]
        | some f => simp only [get_set_of_not_dict hd hdict ht rfl, ht, hfc f rfl]
    | _ => rfl

/-! ### the footprint is stable -/

theorem fpCls_append {h l : List Cell} {x : Addr} (hx : x < h.length) : fpCls (h ++ l) x = fpCls h x := by
  unfold fpCls; rw [List.getElem?_append_left hx]

theorem fpFc_append {h l : List Cell} {x : Addr} (hx : x < h.length) : fpFc (h ++ l) x = fpFc h x := by
  unfold fpFc; rw [List.getElem?_append_left hx]

theorem footprint_append {h l : List Cell} (hwf : WF h) {a : Addr} (ha : a < h.length) :
    footprint (h ++ l) a = footprint h a := by
  unfold footprint
  rw [List.getElem?_append_left ha]
  cases hc : h[a]? with
  | none => rfl
  | some c =>
    cases c with
    | cls v t i m cw => simp only [fpCls_append ha]
    | formatChecker d => simp only [fpFc_append ha]
    | validator c tco s fc ms =>
      have ok := hwf.cells a _ hc
      cases fc with
      | none => simp only [fpCls_append (lt_of_kindAt ok.1)]
      | some f => simp only [fpCls_append (lt_of_kindAt ok.1), fpFc_append (lt_of_kindAt (ok.2.2 f rfl))]
    | fmtDict o es => cases o <;> rfl
    | _ => rfl

theorem fpCls_set {h : List Cell} {d : Addr} {c c' : Cell} (hd : h[d]? = some c)
    (hk : c'.kind = c.kind) (hdict : c.isDict = true) (x : Addr) : fpCls (h.set d c') x = fpCls h x := by
  unfold fpCls
  by_cases hx : d = x
  · subst hx
    rw [List.getElem?_set_self (lt_of_get hd), hd]
    cases c <;> simp [Cell.isDict] at hdict <;> cases c' <;> simp [Cell.kind] at hk <;> rfl
  · rw [List.getElem?_set_ne hx]

theorem fpFc_set {h : List Cell} {d : Addr} {c c' : Cell} (hd : h[d]? = some c)
    (hk : c'.kind = c.kind) (hdict : c.isDict = true) (x : Addr) : fpFc (h.set d c') x = fpFc h x := by
  unfold fpFc
  by_cases hx : d = x
  · subst hx
    rw [List.getElem?_set_self (lt_of_get hd), hd]
    cases c <;> simp [Cell.isDict] at hdict <;> cases c' <;> simp [Cell.kind] at hk <;> rfl
  · rw [List.getElem?_set_ne hx]

theorem footprint_set {h : List Cell} {d : Addr} {c c' : Cell} (hd : h[d]? = some c)
    (hk : c'.kind = c.kind) (hdict : c.isDict = true) (a : Addr) :
    footprint (h.set d c') a = footprint h a := by
  unfold footprint
  by_cases ha : d = a
  · subst ha
    rw [List.getElem?_set_self (lt_of_get hd), hd]
    cases c with
    | kwDict o kvs =>
      cases o with
      | some _ => simp [Cell.isDict] at hdict
      | none => rcases kind_kw hk with ⟨kvs', rfl⟩; rfl
    | fmtDict o es =>
      rcases kind_fmt hk with ⟨es', rfl⟩; cases o <;> rfl
    | _ => simp [Cell.isDict] at hdict
  · rw [List.getElem?_set_ne ha]
    simp only [fpCls_set hd hk hdict, fpFc_set hd hk hdict]

/-! ### who is touched when a dict is updated -/

/-- `t` (the object the caller names) stands for the dict cell `d` -/
def Touch (h : List Cell) (t d : Addr) : Prop :=
  (t = d ∧ (kindAt h d = some (.kw none) ∨ kindAt h d = some (.fmt none)))
    ∨ h[t]? = some (.formatChecker d)

/-- the owner tags at work: if the dict updated through `t` is the dict of the checker `x`, then `t` IS `x` -/
theorem touch_owner {h : List Cell} (hwf : WF h) {t d x : Addr} (ht : Touch h t d)
    (hx : h[x]? = some (.formatChecker d)) : t = x := by
  have hdx : kindAt h d = some (.fmt (some x)) := hwf.cells x _ hx
  rcases ht with ⟨_, hk | hk⟩ | ht
  · rw [hk] at hdx; cases hdx
  · rw [hk] at hdx; cases hdx
  · have hdt : kindAt h d = some (.fmt (some t)) := hwf.cells t _ ht
    rw [hdt] at hdx; cases hdx; rfl

/-- an update made through an object outside the footprint of `a` is not read by a probe of `a` -/
theorem notRead_of_touch {h : List Cell} (hwf : WF h) {t d a : Addr} (ht : Touch h t d)
    (hfp : t ∉ footprint h a) : NotRead h d a := by
  refine ⟨?_, ?_, ?_⟩
  · -- `a` is not the dict itself
    intro e; subst e
    rcases ht with ⟨rfl, hk | hk⟩ | ht
    · apply hfp; unfold footprint
      rcases get_kw hk with ⟨kvs, hc⟩; rw [hc]; simp
    · apply hfp; unfold footprint
      rcases get_fmt hk with ⟨es, hc⟩; rw [hc]; simp
    · have hdt : kindAt h a = some (.fmt (some t)) := hwf.cells t _ ht
      rcases get_fmt hdt with ⟨es, hc⟩
      apply hfp; unfold footprint; rw [hc]; simp
  · intro d0 hc e; subst e
    have := touch_owner hwf ht hc
    subst this
    apply hfp; unfold footprint fpFc; rw [hc]; simp
  · intro c0 tco s f ms d0 hc hf e; subst e
    have := touch_owner hwf ht hf
    subst this
    apply hfp; unfold footprint fpFc; rw [hc]; simp [hf]

/-! ### every operation either appends well-kinded cells or updates one dict in place -/

theorem kindAt_new {h l : List Cell} (i : Nat) : kindAt (h ++ l) (h.length + i) = l[i]?.map Cell.kind := by
  unfold kindAt
  rw [List.getElem?_append_right (Nat.le_add_right _ _), Nat.add_sub_cancel_left]

theorem WF_nil {h : List Cell} (hwf : WF h) : WF (h ++ []) := by simpa using hwf

theorem alloc_tc {h : List Cell} (hwf : WF h) (m) : WF (h ++ [.typeChecker m]) := by
  apply WF_append hwf
  intro i c hic
  rcases i with _ | i <;> simp at hic
  subst hic; trivial

theorem alloc_kwUser {h : List Cell} (hwf : WF h) (kvs) : WF (h ++ [.kwDict none kvs]) := by
  apply WF_append hwf
  intro i c hic
  rcases i with _ | i <;> simp at hic
  subst hic; trivial

theorem alloc_cls {h : List Cell} (hwf : WF h) {tc : Addr} (htc : kindAt h tc = some .tc) (kvs i ms cw) :
    WF (h ++ [.kwDict (some (h.length + 1)) kvs, .cls h.length tc i ms cw]) := by
  apply WF_append hwf
  intro j c hjc
  rcases j with _ | _ | j <;> simp at hjc
  · subst hjc; trivial
  · subst hjc
    refine ⟨?_, kindAt_append htc⟩
    have := kindAt_new (h := h) (l := [.kwDict (some (h.length + 1)) kvs, .cls h.length tc i ms cw]) 0
    simpa [Cell.kind] using this

theorem alloc_tc_cls {h : List Cell} (hwf : WF h) (m kvs i ms cw) :
    WF (h ++ [.typeChecker m, .kwDict (some (h.length + 1 + 1)) kvs, .cls (h.length + 1) h.length i ms cw]) := by
  apply WF_append hwf
  intro j c hjc
  rcases j with _ | _ | _ | j <;> simp at hjc
  · subst hjc; trivial
  · subst hjc; trivial
  · subst hjc
    constructor
    · have := kindAt_new (h := h)
        (l := [.typeChecker m, .kwDict (some (h.length + 1 + 1)) kvs, .cls (h.length + 1) h.length i ms cw]) 1
      simpa [Cell.kind] using this
    · have := kindAt_new (h := h)
        (l := [.typeChecker m, .kwDict (some (h.length + 1 + 1)) kvs, .cls (h.length + 1) h.length i ms cw]) 0
      simpa [Cell.kind] using this

theorem alloc_fc {h : List Cell} (hwf : WF h) (es) :
    WF (h ++ [.fmtDict (some (h.length + 1)) es, .formatChecker h.length]) := by
  apply WF_append hwf
  intro j c hjc
  rcases j with _ | _ | j <;> simp at hjc
  · subst hjc; trivial
  · subst hjc
    have := kindAt_new (h := h) (l := [.fmtDict (some (h.length + 1)) es, .formatChecker h.length]) 0
    simpa [CellOK, Cell.kind] using this

theorem alloc_val {h : List Cell} (hwf : WF h) {c : Addr} (hc : kindAt h c = some .cls)
    {fc : Option Addr} (hfc : ∀ f, fc = some f → kindAt h f = some .fc) (s ms) :
    WF (h ++ [.validator c none s fc ms]) := by
  apply WF_append hwf
  intro j x hjx
  rcases j with _ | j <;> simp at hjx
  subst hjx
  exact ⟨kindAt_append hc, ⟨fun t ht => (by cases ht), fun f hf => kindAt_append (hfc f hf)⟩⟩

theorem alloc_tc_val {h : List Cell} (hwf : WF h) {c : Addr} (hc : kindAt h c = some .cls)
    {fc : Option Addr} (hfc : ∀ f, fc = some f → kindAt h f = some .fc) (m s ms) :
    WF (h ++ [.typeChecker m, .validator c (some h.length) s fc ms]) := by
  apply WF_append hwf
  intro j x hjx
  rcases j with _ | _ | j <;> simp at hjx
  · subst hjx; trivial
  · subst hjx
    refine ⟨kindAt_append hc, ?_, fun f hf => kindAt_append (hfc f hf)⟩
    intro t ht; cases ht
    have := kindAt_new (h := h) (l := [.typeChecker m, .validator c (some h.length) s fc ms]) 0
    simpa [Cell.kind] using this

theorem mkClass_shape (env : Env) (w : World) (pre : List Cell) (kvs tc idKey ms cwdt version)
    (hwf : WF w.heap)
    (hgood : WF (w.heap ++ (pre ++ [.kwDict (some (w.heap.length + pre.length + 1)) kvs,
                                    .cls (w.heap.length + pre.length) tc idKey ms cwdt]))) :
    (mkClass env w pre kvs tc idKey ms cwdt version).set = none
      ∧ WF (w.heap ++ (mkClass env w pre kvs tc idKey ms cwdt version).alloc) := by
  unfold mkClass
  cases version with
  | none => exact ⟨rfl, hgood⟩
  | some v =>
    dsimp only
    split
    · exact ⟨rfl, hgood⟩
    · exact ⟨rfl, WF_nil hwf⟩
    · exact ⟨rfl, WF_nil hwf⟩

theorem fcOk_spec {w : World} {fc : Option Addr} (h : fcOk w fc = true) :
    ∀ f, fc = some f → kindAt w.heap f = some .fc := by
  intro f hf; subst hf
  unfold fcOk World.cell at h
  dsimp only at h
  split at h
  · exact kindAt_of_get ‹_›
  · cases h

/-- the one existing cell an operation may update in place -/
def MutatedBy (h : List Cell) (op : DOp) (x : Addr) : Prop :=
  match op with
  | .checks fc _ _ _ => h[fc]? = some (.formatChecker x)          -- the instance's own dict
  | .clsChecks _ _ _ => x = clsRegistry                            -- the class-level dict
  | .userSet d _ _ => x = d ∧ kindAt h d = some (.kw none)         -- a dict of the caller's
  | _ => False

theorem touch_of_mutated {h : List Cell} (hwf : WF h) {op : DOp} {d : Addr} (hm : MutatedBy h op d) :
    ∃ t, op.touches = some t ∧ Touch h t d := by
  cases op <;> simp only [MutatedBy] at hm
  case checks fc name fn raises => exact ⟨fc, rfl, .inr hm⟩
  case clsChecks name fn raises => subst hm; exact ⟨clsRegistry, rfl, .inl ⟨rfl, .inr hwf.reg⟩⟩
  case userSet d0 k f => obtain ⟨rfl, hk⟩ := hm; exact ⟨d, rfl, .inl ⟨rfl, .inl hk⟩⟩

/-- the shape of every effect: cells are appended and the heap stays in order, or exactly one dict
    cell is updated in place, keeping its kind and owner, through the object the operation names -/
def EffShape (h : List Cell) (op : DOp) (e : Effect) : Prop :=
  (e.set = none ∧ WF (h ++ e.alloc)) ∨
  (∃ d c c', e.set = some (d, c') ∧ e.alloc = [] ∧ h[d]? = some c ∧ c'.kind = c.kind ∧ c.isDict = true
      ∧ MutatedBy h op d)

theorem effect_shape (env : Env) (w : World) (op : DOp) (hwf : WF w.heap) :
    EffShape w.heap op (effect env w op) := by
  have bad : ∀ r : DResult, EffShape w.heap op { result := r } := fun r => .inl ⟨rfl, WF_nil hwf⟩
  cases op with
  | redefine tc name f =>
    simp only [effect, World.cell]
    split
    · exact .inl ⟨rfl, alloc_tc hwf _⟩
    · exact bad _
  | redefineMany tc defs =>
    simp only [effect, World.cell]
    split
    · exact .inl ⟨rfl, alloc_tc hwf _⟩
    · exact bad _
  | remove tc names =>
    simp only [effect, World.cell]
    split
    · split
      · exact .inl ⟨rfl, alloc_tc hwf _⟩
      · exact bad _
    · exact bad _
  | extend c ov version tc =>
    simp only [effect, World.cell]
    split
    · have ok := hwf.cells c _ ‹w.heap[c]? = some (Cell.cls _ _ _ _ _)›
      split
      · cases tc with
        | none =>
          exact .inl (mkClass_shape env w [] _ _ _ _ _ _ hwf (by simpa using alloc_cls hwf ok.2 _ _ _ _))
        | some t' =>
          dsimp only
          split
          · exact bad _
          · split
            · exact .inl (mkClass_shape env w [] _ _ _ _ _ _ hwf
                (by simpa using alloc_cls hwf (kindAt_of_get ‹w.heap[t']? = some (Cell.typeChecker _)›) _ _ _ _))
            · exact bad _
      · exact bad _
    · exact bad _
  | create ms kws version dt tc idKey =>
    simp only [effect, World.cell]
    split
    · exact bad _
    · split
      · exact bad _
      · exact .inl (mkClass_shape env w [_] _ _ _ _ _ _ hwf (by simpa using alloc_tc_cls hwf _ _ _ _ _))
      · exact .inl (mkClass_shape env w [] _ _ _ _ _ _ hwf (by simpa using alloc_cls hwf hwf.dep _ _ _ _))
      · split
        · exact .inl (mkClass_shape env w [] _ _ _ _ _ _ hwf
            (by simpa using alloc_cls hwf (kindAt_of_get ‹w.heap[_]? = some (Cell.typeChecker _)›) _ _ _ _))
        · exact bad _
  | newValidator c schema types fc =>
    simp only [effect, World.cell]
    split
    · have hc := kindAt_of_get ‹w.heap[c]? = some (Cell.cls _ _ _ _ _)›
      split
      · exact bad _
      · have hfc : fcOk w fc = true := by simpa using ‹¬(!fcOk w fc) = true›
        split
        · exact bad _
        · split
          · exact .inl ⟨rfl, alloc_val hwf hc (fcOk_spec hfc) _ _⟩
          · split
            · exact .inl ⟨rfl, alloc_tc_val hwf hc (fcOk_spec hfc) _ _ _⟩
            · exact bad _
    · exact bad _
  | checks fc name fn raises =>
    simp only [effect, World.cell]
    split
    · split
      · rename_i d hfc _ o es hd
        exact .inr ⟨d, _, _, rfl, rfl, hd, rfl, rfl, hfc⟩
      · exact bad _
    · exact bad _
  | clsChecks name fn raises =>
    simp only [effect, World.cell]
    split
    · rename_i o es hd
      exact .inr ⟨clsRegistry, _, _, rfl, rfl, hd, rfl, rfl, rfl⟩
    · exact bad _
  | newFormatChecker formats =>
    simp only [effect, World.cell]
    split
    · cases formats with
      | none => exact .inl ⟨rfl, alloc_fc hwf _⟩
      | some names =>
        dsimp only
        split
        · exact bad _
        · exact .inl ⟨rfl, alloc_fc hwf _⟩
    · exact bad _
  | userDict kvs => exact .inl ⟨rfl, alloc_kwUser hwf _⟩
  | userSet d k f =>
    simp only [effect, World.cell]
    split
    · rename_i kvs hd
      exact .inr ⟨d, _, _, rfl, rfl, hd, rfl, rfl, rfl, kindAt_of_get hd⟩
    · exact bad _

/-! ### one step -/

/-- frame, for any effect whatsoever: an existing cell other than the one named by `set` is unchanged -/
theorem applyEffect_old (w : World) (e : Effect) {x : Addr} (hx : x < w.heap.length)
    (hne : ∀ d c', e.set = some (d, c') → d ≠ x) : (applyEffect w e).heap[x]? = w.heap[x]? := by
  unfold applyEffect
  dsimp only
  cases hs : e.set with
  | none => exact List.getElem?_append_left hx
  | some p =>
    obtain ⟨d, c'⟩ := p
    dsimp only
    rw [List.getElem?_append_left (by rw [List.length_set]; exact hx)]
    exact List.getElem?_set_ne (hne d c' hs)

theorem applyEffect_length (w : World) (e : Effect) : w.heap.length ≤ (applyEffect w e).heap.length := by
  unfold applyEffect
  dsimp only
  cases e.set with
  | none => simp
  | some p => simp [List.length_set]

theorem step_heap_pure {env : Env} {w : World} {op : DOp} (hs : (effect env w op).set = none) :
    (step env w op).1.heap = w.heap ++ (effect env w op).alloc := by
  simp only [step, applyEffect, hs]

theorem step_heap_upd {env : Env} {w : World} {op : DOp} {d : Addr} {c' : Cell}
    (hs : (effect env w op).set = some (d, c')) (ha : (effect env w op).alloc = []) :
    (step env w op).1.heap = w.heap.set d c' := by
  simp only [step, applyEffect, hs, ha, List.append_nil]

theorem step_WF (env : Env) (w : World) (op : DOp) (hwf : WF w.heap) : WF (step env w op).1.heap := by
  rcases effect_shape env w op hwf with ⟨hs, hw⟩ | ⟨d, c, c', hs, ha, hd, hk, hdict, _⟩
  · rw [step_heap_pure hs]; exact hw
  · rw [step_heap_upd hs ha]; exact WF_set hwf hd hk hdict

theorem step_length (env : Env) (w : World) (op : DOp) : w.heap.length ≤ (step env w op).1.heap.length :=
  applyEffect_length w _

theorem step_view (env : Env) (w : World) (op : DOp) (hwf : WF w.heap) {a : Addr} (ha : a < w.heap.length)
    (hfp : ∀ t d, op.touches = some t → Touch w.heap t d → t ∉ footprint w.heap a) :
    view (step env w op).1.heap a = view w.heap a := by
  rcases effect_shape env w op hwf with ⟨hs, _⟩ | ⟨d, c, c', hs, hal, hd, hk, hdict, hm⟩
  · rw [step_heap_pure hs]; exact view_append hwf ha
  · rw [step_heap_upd hs hal]
    rcases touch_of_mutated hwf hm with ⟨t, ht, htouch⟩
    exact view_set hwf hd hk hdict (notRead_of_touch hwf htouch (hfp t d ht htouch))

theorem step_footprint (env : Env) (w : World) (op : DOp) (hwf : WF w.heap) {a : Addr}
    (ha : a < w.heap.length) : footprint (step env w op).1.heap a = footprint w.heap a := by
  rcases effect_shape env w op hwf with ⟨hs, _⟩ | ⟨d, c, c', hs, hal, hd, hk, hdict, _⟩
  · rw [step_heap_pure hs]; exact footprint_append hwf ha
  · rw [step_heap_upd hs hal]; exact footprint_set hd hk hdict a

/-- the in-place update of an operation goes to a cell named by `touches` -/
theorem step_set_touches (env : Env) (w : World) (op : DOp) (hwf : WF w.heap) {d : Addr} {c' : Cell}
    (hs : (effect env w op).set = some (d, c')) :
    ∃ t, op.touches = some t ∧ Touch w.heap t d := by
  rcases effect_shape env w op hwf with ⟨hs', _⟩ | ⟨d0, c, c0, hs', _, _, _, _, hm⟩
  · rw [hs] at hs'; cases hs'
  · rw [hs] at hs'; cases hs'; exact touch_of_mutated hwf hm

/-- the in-place update of an operation: which cell, and that it keeps its kind and owner -/
theorem step_set_mutated (env : Env) (w : World) (op : DOp) (hwf : WF w.heap) {d : Addr} {c' : Cell}
    (hs : (effect env w op).set = some (d, c')) :
    MutatedBy w.heap op d ∧ ∃ c, w.heap[d]? = some c ∧ c'.kind = c.kind ∧ c.isDict = true := by
  rcases effect_shape env w op hwf with ⟨hs', _⟩ | ⟨d0, c, c0, hs', _, hd, hk, hdict, hm⟩
  · rw [hs] at hs'; cases hs'
  · rw [hs] at hs'; cases hs'; exact ⟨hm, c, hd, hk, hdict⟩

/-! ### probes -/

theorem answer_noReg (env : Env) (impl : FmtImpl) (fuel : Nat) (r r' : Regs) (v : View) {q : Query}
    (hq : q.readsRegistry = false) : answer env impl fuel r v q = answer env impl fuel r' v q := by
  unfold answer; simp [hq]

theorem probe_congr (env : Env) (impl : FmtImpl) (fuel : Nat) {w w' : World} {a a' : Addr} {q : Query}
    (hv : view w'.heap a' = view w.heap a) (hq : q.readsRegistry = false) :
    probe env impl fuel w' a' q = probe env impl fuel w a q := by
  unfold probe
  rw [hv]
  cases view w.heap a with
  | none => rfl
  | some v => exact answer_noReg env impl fuel _ _ v hq

/-- a probe that reads the registries agrees when they agree too -/
theorem probe_congr_reg (env : Env) (impl : FmtImpl) (fuel : Nat) {w w' : World} {a a' : Addr} (q : Query)
    (hv : view w'.heap a' = view w.heap a) (hr : regsOf w' = regsOf w) :
    probe env impl fuel w' a' q = probe env impl fuel w a q := by
  unfold probe
  rw [hv, hr]

/-! ### sequences -/

theorem run_WF (env : Env) (ops : List DOp) : ∀ (w : World), WF w.heap → WF (run env w ops).heap := by
  induction ops with
  | nil => intro w h; exact h
  | cons op ops ih => intro w h; exact ih _ (step_WF env w op h)

theorem run_length (env : Env) (ops : List DOp) : ∀ (w : World), w.heap.length ≤ (run env w ops).heap.length := by
  induction ops with
  | nil => intro w; exact Nat.le_refl _
  | cons op ops ih => intro w; exact Nat.le_trans (step_length env w op) (ih _)

theorem run_view (env : Env) (ops : List DOp) : ∀ (w : World), WF w.heap → ∀ {a : Addr}, a < w.heap.length →
    (∀ op ∈ ops, ∀ t, op.touches = some t → t ∉ footprint w.heap a) →
    view (run env w ops).heap a = view w.heap a := by
  induction ops with
  | nil => intro w _ a _ _; rfl
  | cons op ops ih =>
    intro w hwf a ha hfp
    have h1 := step_view env w op hwf ha (fun t _ ht _ => hfp op (List.mem_cons_self) t ht)
    have hfp' : ∀ op' ∈ ops, ∀ t, op'.touches = some t → t ∉ footprint (step env w op).1.heap a := by
      intro op' hop' t ht
      rw [step_footprint env w op hwf ha]
      exact hfp op' (List.mem_cons_of_mem _ hop') t ht
    have := ih (step env w op).1 (step_WF env w op hwf) (Nat.lt_of_lt_of_le ha (step_length env w op)) hfp'
    exact this.trans h1

/-! ### type checkers and classes are out of reach of every in-place update -/

theorem step_kindAt (env : Env) (w : World) (op : DOp) (hwf : WF w.heap) {a : Addr} (ha : a < w.heap.length) :
    kindAt (step env w op).1.heap a = kindAt w.heap a := by
  rcases effect_shape env w op hwf with ⟨hs, _⟩ | ⟨d, c, c', hs, hal, hd, hk, hdict, _⟩
  · rw [step_heap_pure hs]; exact kindAt_append_lt ha
  · rw [step_heap_upd hs hal]; exact kindAt_set hd hk a

theorem touch_kind {h : List Cell} {t d : Addr} (ht : Touch h t d) :
    kindAt h t = some (.kw none) ∨ kindAt h t = some (.fmt none) ∨ kindAt h t = some .fc := by
  rcases ht with ⟨rfl, hk | hk⟩ | ht
  · exact .inl hk
  · exact .inr (.inl hk)
  · exact .inr (.inr (kindAt_of_get ht))

theorem indep_of_kind {h : List Cell} (hwf : WF h) {a : Addr}
    (hk : kindAt h a = some .tc ∨ kindAt h a = some .cls) {t d : Addr} (ht : Touch h t d) :
    t ∉ footprint h a := by
  have tk := touch_kind ht
  intro hmem
  rcases hk with hk | hk
  · rcases get_tc hk with ⟨m, hc⟩
    unfold footprint at hmem; rw [hc] at hmem
    simp at hmem; subst hmem
    rw [hk] at tk; simp at tk
  · rcases get_cls hk with ⟨v, t0, i, m, cw, hc⟩
    have ok := hwf.cells a _ hc
    unfold footprint fpCls at hmem; rw [hc] at hmem
    simp at hmem
    rcases hmem with rfl | rfl | rfl
    · rw [hk] at tk; simp at tk
    · rw [ok.1] at tk; simp at tk
    · rw [ok.2] at tk; simp at tk

theorem run_view_obj (env : Env) (ops : List DOp) : ∀ (w : World), WF w.heap → ∀ {a : Addr},
    (kindAt w.heap a = some .tc ∨ kindAt w.heap a = some .cls) →
    view (run env w ops).heap a = view w.heap a := by
  induction ops with
  | nil => intro w _ a _; rfl
  | cons op ops ih =>
    intro w hwf a hk
    have ha : a < w.heap.length := by rcases hk with hk | hk <;> exact lt_of_kindAt hk
    have h1 := step_view env w op hwf ha (fun t d _ ht => indep_of_kind hwf hk ht)
    have hk' : kindAt (step env w op).1.heap a = some .tc ∨ kindAt (step env w op).1.heap a = some .cls := by
      rw [step_kindAt env w op hwf ha]; exact hk
    exact (ih _ (step_WF env w op hwf) hk').trans h1

/-! ### what `extend`, `Validator(…, types=…)`, `cls_checks` and `FormatChecker()` allocate -/

theorem mkClass_created {env : Env} {w : World} {pre : List Cell} {kvs tc idKey ms cwdt version} {a : Addr}
    (hr : (mkClass env w pre kvs tc idKey ms cwdt version).result = .created a) :
    a = w.heap.length + pre.length + 1
      ∧ (mkClass env w pre kvs tc idKey ms cwdt version).set = none
      ∧ (mkClass env w pre kvs tc idKey ms cwdt version).alloc
          = pre ++ [.kwDict (some a) kvs, .cls (w.heap.length + pre.length) tc idKey ms cwdt] := by
  unfold mkClass at hr ⊢
  cases version with
  | none =>
    simp only at hr
    cases hr; exact ⟨rfl, rfl, rfl⟩
  | some v =>
    dsimp only at hr ⊢
    split at hr
    · simp only at hr; cases hr
      exact ⟨rfl, rfl, rfl⟩
    · cases hr
    · cases hr

/-- `extend(c, overrides)` without a type checker: the new class has a COPY of the parent's table
    updated with the overrides, and the parent's type checker, id key and metaschema -/
theorem extend_created {env : Env} {w : World} (hwf : WF w.heap) {c : Addr} {ov : KwArg}
    {version : Option Str} {a : Addr}
    (hr : (step env w (.extend c ov version none)).2 = .created a) :
    ∃ v t i m cw kvs ovs cw',
      w.heap[c]? = some (.cls v t i m cw) ∧ w.heap[v]? = some (.kwDict (some c) kvs)
      ∧ kwArg w ov = some ovs ∧ a = w.heap.length + 1
      ∧ (step env w (.extend c ov version none)).1.heap
          = w.heap ++ [.kwDict (some a) (dictUpdate kvs ovs), .cls w.heap.length t i m cw'] := by
  simp only [step] at hr ⊢
  cases hc : w.heap[c]? with
  | none => simp [effect, World.cell, hc] at hr
  | some cell =>
    cases cell with
    | cls v t i m cw =>
      rcases get_kw (hwf.cells c _ hc).1 with ⟨kvs, hv⟩
      cases hov : kwArg w ov with
      | none => simp [effect, World.cell, hc, hov] at hr
      | some ovs =>
        have he : effect env w (.extend c ov version none)
            = mkClass env w [] (dictUpdate kvs ovs) t i m (if t = deprecatedChecker then some false else none) version := by
          simp [effect, World.cell, hc, hov, hv]
        rw [he] at hr ⊢
        rcases mkClass_created hr with ⟨ha, hs, hal⟩
        refine ⟨v, t, i, m, cw, kvs, ovs, (if t = deprecatedChecker then some false else none), rfl, hv, rfl,
          by simpa using ha, ?_⟩
        simp only [applyEffect, hs, hal]
        simp
    | _ => simp [effect, World.cell, hc] at hr

theorem fmtFind_fmtSet (e : FEntry) (es : List FEntry) : fmtFind e.name (fmtSet e es) = some e := by
  induction es with
  | nil => simp [fmtSet, fmtFind]
  | cons x xs ih =>
    unfold fmtSet
    by_cases hx : x.name = e.name
    · simp [hx, fmtFind]
    · simp only [hx, if_false]
      unfold fmtFind at ih ⊢
      simp [List.find?, hx, ih]

theorem lookupS_dictSet_self {α : Type} (k : Str) (v : α) (d : List (Str × α)) :
    lookupS k (dictSet k v d) = some v := by
  induction d with
  | nil => simp [dictSet, lookupS]
  | cons x xs ih =>
    obtain ⟨k', v'⟩ := x
    unfold dictSet
    by_cases hk : k' = k
    · simp [hk, lookupS]
    · simp [hk, lookupS, ih]

theorem lookupS_dictSet_ne {α : Type} {k k' : Str} (hne : k' ≠ k) (v : α) (d : List (Str × α)) :
    lookupS k' (dictSet k v d) = lookupS k' d := by
  induction d with
  | nil => simp [dictSet, lookupS, Ne.symm hne]
  | cons x xs ih =>
    obtain ⟨k0, v0⟩ := x
    unfold dictSet
    by_cases hk : k0 = k
    · subst hk; simp [lookupS, Ne.symm hne]
    · by_cases hk' : k0 = k'
      · subst hk'; simp [hne, lookupS]
      · simp [hk, lookupS, hk', ih]

/-- two fresh cells `[dict owned by the object, object]` on top of a heap: what the object looks like -/
theorem viewCls_new {h : List Cell} {t : Addr} {mt : List (Str × TyFn)} (ht : h[t]? = some (.typeChecker mt))
    (o : Option Addr) (tbl i m cw) :
    viewCls (h ++ [.kwDict o tbl, .cls h.length t i m cw]) (h.length + 1) = some ⟨tbl, mt, i, m, cw⟩ := by
  have h1 : (h ++ [Cell.kwDict o tbl, Cell.cls h.length t i m cw])[h.length + 1]?
      = some (Cell.cls h.length t i m cw) := by
    rw [List.getElem?_append_right (Nat.le_add_right _ _)]; simp
  have h0 : (h ++ [Cell.kwDict o tbl, Cell.cls h.length t i m cw])[h.length]? = some (Cell.kwDict o tbl) := by
    rw [List.getElem?_append_right (Nat.le_refl _)]; simp
  unfold viewCls
  simp only [h1, h0, get_append ht]

theorem view_cls_new {h : List Cell} {t : Addr} {mt : List (Str × TyFn)} (ht : h[t]? = some (.typeChecker mt))
    (o : Option Addr) (tbl i m cw) :
    view (h ++ [.kwDict o tbl, .cls h.length t i m cw]) (h.length + 1) = some (.cls ⟨tbl, mt, i, m, cw⟩) := by
  have h1 : (h ++ [Cell.kwDict o tbl, Cell.cls h.length t i m cw])[h.length + 1]?
      = some (Cell.cls h.length t i m cw) := by
    rw [List.getElem?_append_right (Nat.le_add_right _ _)]; simp
  unfold view
  simp only [h1, viewCls_new ht, Option.map]

theorem view_of_viewCls {h : List Cell} {a : Addr} {cv : ClsView} (hv : viewCls h a = some cv) :
    view h a = some (.cls cv) := by
  have hc : ∃ v t i m cw, h[a]? = some (.cls v t i m cw) := by
    unfold viewCls at hv
    split at hv
    · exact ⟨_, _, _, _, _, ‹_›⟩
    · cases hv
  rcases hc with ⟨v, t, i, m, cw, hc⟩
  unfold view
  simp only [hc, hv, Option.map]

theorem viewFc_new (h : List Cell) (o : Option Addr) (es : List FEntry) :
    view (h ++ [.fmtDict o es, .formatChecker h.length]) (h.length + 1) = some (.fc es) := by
  have h1 : (h ++ [Cell.fmtDict o es, Cell.formatChecker h.length])[h.length + 1]?
      = some (Cell.formatChecker h.length) := by
    rw [List.getElem?_append_right (Nat.le_add_right _ _)]; simp
  have h0 : (h ++ [Cell.fmtDict o es, Cell.formatChecker h.length])[h.length]? = some (Cell.fmtDict o es) := by
    rw [List.getElem?_append_right (Nat.le_refl _)]; simp
  unfold view viewFc
  simp only [h1, h0, Option.map]

/-- an operation that names no object to update updates none -/
theorem set_none_of_touches_none (env : Env) (w : World) (op : DOp) (hwf : WF w.heap)
    (ht : op.touches = none) : (effect env w op).set = none := by
  rcases effect_shape env w op hwf with ⟨hs, _⟩ | ⟨d, c, c', _, _, _, _, _, hm⟩
  · exact hs
  · rcases touch_of_mutated hwf hm with ⟨t, ht', _⟩
    rw [ht] at ht'; cases ht'

theorem clsChecks_step (env : Env) (w : World) (hwf : WF w.heap) (name : Str) (fn : FFn) (raises : List String) :
    ∃ es, w.heap[clsRegistry]? = some (.fmtDict none es)
      ∧ (step env w (.clsChecks name fn raises)).1.heap
          = w.heap.set clsRegistry (.fmtDict none (fmtSet ⟨name, fn, raises⟩ es)) := by
  rcases get_fmt hwf.reg with ⟨es, h0⟩
  refine ⟨es, h0, ?_⟩
  simp [step, applyEffect, effect, World.cell, h0]

theorem newFormatChecker_step (env : Env) (w : World) {o : Option Addr} {es : List FEntry}
    (h0 : w.heap[clsRegistry]? = some (.fmtDict o es)) :
    (step env w (.newFormatChecker none)).2 = .created (w.heap.length + 1)
      ∧ (step env w (.newFormatChecker none)).1.heap
          = w.heap ++ [.fmtDict (some (w.heap.length + 1)) es, .formatChecker w.heap.length] := by
  simp [step, applyEffect, effect, World.cell, h0]

theorem newValidator_regs (env : Env) (w : World) (c : Addr) (schema : Json) (types) (fc : Option Addr) :
    (step env w (.newValidator c schema types fc)).1.validators = w.validators
      ∧ (step env w (.newValidator c schema types fc)).1.metaSchemas = w.metaSchemas := by
  simp only [step, applyEffect, effect]
  repeat' split
  all_goals exact ⟨rfl, rfl⟩

/-- `Validator(schema, types=…)`: the redefined checker is a new cell referenced by the instance -/
theorem newValidator_types_created {env : Env} {w : World} (hwf : WF w.heap) {c : Addr} {schema : Json}
    {types : List (Str × List String)} {fc : Option Addr} {a : Addr} (hty : types.isEmpty = false)
    (hr : (step env w (.newValidator c schema types fc)).2 = .created a) :
    ∃ v t i m cw mt, w.heap[c]? = some (.cls v t i m cw) ∧ w.heap[t]? = some (.typeChecker mt)
      ∧ a = w.heap.length + 1
      ∧ (step env w (.newValidator c schema types fc)).1.heap
          = w.heap ++ [.typeChecker (dictUpdate mt (legacyDefs types)),
                       .validator c (some w.heap.length) schema fc (metasOf w)] := by
  simp only [step] at hr ⊢
  cases hc : w.heap[c]? with
  | none => simp [effect, World.cell, hc] at hr
  | some cell =>
    cases cell with
    | cls v t i m cw =>
      rcases get_tc (hwf.cells c _ hc).2 with ⟨mt, ht⟩
      refine ⟨v, t, i, m, cw, mt, rfl, ht, ?_⟩
      by_cases h1 : fcOk w fc = true
      · by_cases h2 : ctorOk i schema = true
        · simp [effect, World.cell, hc, h1, h2, hty, ht] at hr ⊢
          simp [applyEffect, hr]
        · simp [effect, World.cell, hc, h1, h2] at hr
      · simp [effect, World.cell, hc, h1] at hr
    | _ => simp [effect, World.cell, hc] at hr

/-! ### a decidable check of the invariant, for concrete heaps -/

def cellOKb (h : List Cell) (a : Addr) : Cell → Bool
  | .cls v t _ _ _ => kindAt h v == some (.kw (some a)) && kindAt h t == some .tc
  | .formatChecker d => kindAt h d == some (.fmt (some a))
  | .validator c tco _ fc _ =>
      kindAt h c == some .cls
        && (match tco with | none => true | some t => kindAt h t == some .tc)
        && (match fc with | none => true | some f => kindAt h f == some .fc)
  | _ => true

def wfb (h : List Cell) : Bool :=
  kindAt h clsRegistry == some (.fmt none) && kindAt h deprecatedChecker == some .tc
    && (List.range h.length).all (fun a => match h[a]? with | some c => cellOKb h a c | none => true)

theorem cellOKb_sound {h : List Cell} {a : Addr} {c : Cell} (hb : cellOKb h a c = true) : CellOK h a c := by
  cases c with
  | cls v t i m cw => simpa [cellOKb, CellOK] using hb
  | formatChecker d => simpa [cellOKb, CellOK] using hb
  | validator c tco s fc ms =>
    simp only [cellOKb, Bool.and_eq_true, beq_iff_eq] at hb
    refine ⟨hb.1.1, ?_, ?_⟩
    · intro t ht; subst ht; simpa using hb.1.2
    · intro f hf; subst hf; simpa using hb.2
  | typeChecker m => trivial
  | kwDict o kvs => trivial
  | fmtDict o es => trivial

theorem wfb_sound {h : List Cell} (hb : wfb h = true) : WF h := by
  simp only [wfb, Bool.and_eq_true, beq_iff_eq, List.all_eq_true, List.mem_range] at hb
  refine ⟨hb.1.1, hb.1.2, ?_⟩
  intro a c hac
  have := hb.2 a (lt_of_get hac)
  rw [hac] at this
  exact cellOKb_sound this

/-! ### the evaluator reads the keyword table only by looking up the schema's own keys -/

theorem anyType_kws (cfg : Cfg) (kws : List (Str × KwFn)) (inst : Json) (ts : List Json) :
    anyType { cfg with keywords := kws } inst ts = anyType cfg inst ts := by
  induction ts with
  | nil => rfl
  | cons t ts ih =>
    unfold anyType
    rw [ih]
    rfl

theorem typeDraft3Loop_kws (cfg : Cfg) (kws : List (Str × KwFn)) (rec : Rec) (inst : Json)
    (k : Bool → List Err → Gen) (l : List (Nat × Json)) : ∀ acc,
    typeDraft3Loop { cfg with keywords := kws } rec inst k l acc = typeDraft3Loop cfg rec inst k l acc := by
  induction l with
  | nil => intro acc; rfl
  | cons x xs ih =>
    intro acc
    obtain ⟨i, t⟩ := x
    unfold typeDraft3Loop
    simp only [ih]
    rfl

/-- no keyword function consults the keyword table -/
theorem applyKw_keywords_irrelevant (env : Env) (impl : FmtImpl) (cfg : Cfg) (kws : List (Str × KwFn)) (rec : Rec)
    (f : KwFn) (v inst schema : Json) :
    applyKw env impl { cfg with keywords := kws } rec f v inst schema = applyKw env impl cfg rec f v inst schema := by
  cases f
  case type => simp only [applyKw, kwType, anyType_kws]
  case type_draft3 => simp only [applyKw, kwTypeDraft3, typeDraft3Loop_kws]
  all_goals rfl

theorem runKeyword_kws (env : Env) (impl : FmtImpl) (cfg : Cfg) (kws : List (Str × KwFn)) (rec : Rec)
    (inst schema : Json) (kv : Str × Json) (h : lookupS kv.1 kws = lookupS kv.1 cfg.keywords) :
    runKeyword env impl { cfg with keywords := kws } rec inst schema kv
      = runKeyword env impl cfg rec inst schema kv := by
  unfold runKeyword
  show (match lookupS kv.1 kws with
        | none => nothing
        | some f => mapErrs (stamp kv.1 kv.2 inst schema)
            (applyKw env impl { cfg with keywords := kws } rec f kv.2 inst schema)) = _
  rw [h]
  cases lookupS kv.1 cfg.keywords with
  | none => rfl
  | some f => simp only [applyKw_keywords_irrelevant]

theorem seqG_congr {α : Type} (f g : α → Gen) (l : List α) (h : ∀ x ∈ l, f x = g x) : seqG f l = seqG g l := by
  induction l with
  | nil => rfl
  | cons x xs ih =>
    unfold seqG
    rw [h x (List.mem_cons_self), ih (fun y hy => h y (List.mem_cons_of_mem _ hy))]

theorem key_ne_of_lookup_none {k : Str} {kvs : List (Str × Json)} (h : Json.lookup k kvs = none) :
    ∀ kv ∈ kvs, kv.1 ≠ k := by
  induction kvs with
  | nil => intro kv hkv; cases hkv
  | cons x xs ih =>
    obtain ⟨k0, v0⟩ := x
    unfold Json.lookup at h
    by_cases hk : k0 = k
    · simp [hk] at h
    · simp only [hk, if_false] at h
      intro kv hkv
      rcases List.mem_cons.mp hkv with rfl | hm
      · exact hk
      · exact ih h kv hm

/-- One layer of `iter_errors` on a schema object that does not contain the key `k` is the same
    function of the recursive call for two classes whose tables agree away from `k` (and that share
    types, id key and format checker). -/
theorem evalStep_override (env : Env) (impl : FmtImpl) (cfg : Cfg) (kws : List (Str × KwFn)) (k : Str)
    (hagree : ∀ k', k' ≠ k → lookupS k' kws = lookupS k' cfg.keywords) (rec : Rec) (inst : Json)
    (kvs : List (Str × Json)) (hk : Json.lookup k kvs = none) :
    evalStep env impl { cfg with keywords := kws } rec inst (.obj kvs) = evalStep env impl cfg rec inst (.obj kvs) := by
  have hkeys := key_ne_of_lookup_none hk
  have hseq : seqG (runKeyword env impl { cfg with keywords := kws } rec inst (.obj kvs)) kvs
      = seqG (runKeyword env impl cfg rec inst (.obj kvs)) kvs :=
    seqG_congr _ _ kvs (fun kv hkv => runKeyword_kws env impl cfg kws rec inst _ kv (hagree kv.1 (hkeys kv hkv)))
  have hbody : schemaBody env impl { cfg with keywords := kws } rec inst kvs = schemaBody env impl cfg rec inst kvs := by
    unfold schemaBody
    cases hr : Json.lookup (skey "$ref") kvs with
    | none => exact hseq
    | some ref =>
      have hne : skey "$ref" ≠ k := by
        intro e; rw [e] at hr; rw [hk] at hr; cases hr
      cases ref with
      | null => exact hseq
      | _ => exact runKeyword_kws env impl cfg kws rec inst _ _ (hagree _ hne)
  unfold evalStep
  show (match scopeOf cfg kvs with
        | .ok scope => withScopeOpt env scope (schemaBody env impl { cfg with keywords := kws } rec inst kvs)
        | .error cls => crashG cls) = _
  rw [hbody]
  rfl

/-! ### module-level state: when registry-reading probes are preserved too -/

/-- does the operation call `validates` (a `version` argument was given) -/
def DOp.registers : DOp → Bool
  | .extend _ _ (some _) _ => true
  | .create _ _ (some _) _ _ _ => true
  | _ => false

theorem mkClass_regs_none (env : Env) (w : World) (pre kvs tc idKey ms cwdt) :
    (mkClass env w pre kvs tc idKey ms cwdt none).validators = none
      ∧ (mkClass env w pre kvs tc idKey ms cwdt none).metaSchemas = none := ⟨rfl, rfl⟩

theorem effect_regs_none (env : Env) (w : World) (op : DOp) (hv : op.registers = false) :
    (effect env w op).validators = none ∧ (effect env w op).metaSchemas = none := by
  cases op with
  | extend c ov version tc =>
    cases version with
    | some v => simp [DOp.registers] at hv
    | none =>
      simp only [effect]
      repeat' split
      all_goals first | exact ⟨rfl, rfl⟩ | exact mkClass_regs_none ..
  | create ms kws version dt tc idKey =>
    cases version with
    | some v => simp [DOp.registers] at hv
    | none =>
      simp only [effect]
      repeat' split
      all_goals first | exact ⟨rfl, rfl⟩ | exact mkClass_regs_none ..
  | _ =>
    simp only [effect]
    repeat' split
    all_goals first | exact ⟨rfl, rfl⟩ | exact ⟨trivial, trivial⟩

theorem filterMap_congr' {α β : Type} (f g : α → Option β) (l : List α) (h : ∀ x ∈ l, f x = g x) :
    l.filterMap f = l.filterMap g := by
  induction l with
  | nil => rfl
  | cons x xs ih =>
    have hx := h x (List.mem_cons_self)
    have ih' := ih (fun y hy => h y (List.mem_cons_of_mem _ hy))
    simp only [List.filterMap_cons, hx, ih']

/-- a cell that is not an updatable dict is never changed -/
theorem step_cell_nondict (env : Env) (w : World) (op : DOp) (hwf : WF w.heap) {x : Addr} {c : Cell}
    (hc : w.heap[x]? = some c) (hnd : c.isDict = false) : (step env w op).1.heap[x]? = some c := by
  rw [← hc]
  refine applyEffect_old w _ (lt_of_get hc) ?_
  intro d c' hs e; subst e
  rcases (step_set_mutated env w op hwf hs).2 with ⟨c0, hc0, _, hd0⟩
  rw [hc] at hc0; cases hc0; rw [hd0] at hnd; cases hnd

/-- the metaschema a registry entry stands for does not change -/
theorem step_metaEntry (env : Env) (w : World) (op : DOp) (hwf : WF w.heap) {x : Addr} (hx : x < w.heap.length)
    (k : Str) :
    (match (step env w op).1.heap[x]? with
      | some (.cls _ _ _ m _) => some (k, m)
      | _ => none)
    = (match w.heap[x]? with
      | some (.cls _ _ _ m _) => some (k, m)
      | _ => none) := by
  cases hc : w.heap[x]? with
  | none => exact absurd hx (Nat.not_lt.mpr (List.getElem?_eq_none_iff.mp hc))
  | some c =>
    by_cases hd : c.isDict = true
    · have hk := step_kindAt env w op hwf hx
      rw [kindAt_of_get hc] at hk
      rcases kindAt_some hk with ⟨c', hc', hkc'⟩
      rw [hc']
      cases c <;> simp [Cell.isDict] at hd <;> cases c' <;> simp [Cell.kind] at hkc' <;> rfl
    · rw [step_cell_nondict env w op hwf hc (by simpa using hd)]

theorem step_metasOf (env : Env) (w : World) (op : DOp) (hwf : WF w.heap)
    (hreg : ∀ p ∈ w.metaSchemas, p.2 < w.heap.length) (hv : op.registers = false) :
    metasOf (step env w op).1 = metasOf w := by
  have hm : (step env w op).1.metaSchemas = w.metaSchemas := by
    simp [step, applyEffect, (effect_regs_none env w op hv).2]
  unfold metasOf World.cell
  rw [hm]
  apply filterMap_congr'
  intro p hp
  exact step_metaEntry env w op hwf (hreg p hp) p.1

theorem step_regsOf (env : Env) (w : World) (op : DOp) (hwf : WF w.heap)
    (hreg : ∀ p ∈ w.metaSchemas, p.2 < w.heap.length) (hv : op.registers = false)
    (hcc : op.isClsChecks = false) : regsOf (step env w op).1 = regsOf w := by
  have h0 : (step env w op).1.heap[clsRegistry]? = w.heap[clsRegistry]? := by
    refine applyEffect_old w _ (lt_of_kindAt hwf.reg) ?_
    intro d c' hs e; subst e
    have hm := (step_set_mutated env w op hwf hs).1
    have hreg0 := hwf.reg
    cases op <;> simp only [MutatedBy] at hm
    case checks fc name fn raises =>
      have : kindAt w.heap clsRegistry = some (.fmt (some fc)) := hwf.cells fc _ hm
      rw [hreg0] at this; cases this
    case clsChecks => simp [DOp.isClsChecks] at hcc
    case userSet d0 k f => rw [← hm.1, hreg0] at hm; cases hm.2
  unfold regsOf World.cell
  rw [h0, step_metasOf env w op hwf hreg hv]
  simp [step, applyEffect, (effect_regs_none env w op hv).1, (effect_regs_none env w op hv).2]

/-! ### a concrete environment (for counterexamples) -/

def stripHash (u : Str) : Str := if u.getLast? = some '#' then u.dropLast else u
def splitHash (u : Str) : Str × Str := (u.takeWhile (· ≠ '#'), (u.dropWhile (· ≠ '#')).drop 1)

/-- URI functions good enough for absolute URIs with an optional empty fragment -/
def env0 : Env :=
  { (default : Env) with
    urinorm := fun u => some (stripHash u)
    urldefrag := fun u => some (splitHash u)
    urljoin := fun _ r => some r }

def d7id : Str := "http://json-schema.org/draft-07/schema#".toList
/-- `create(meta_schema={"$id": <draft-07 id>, "type": "number"}, validators={"type": type}, version="y")` -/
def hijack : DOp :=
  .create (.obj [("$id".toList, .str d7id), ("type".toList, .str "number".toList)])
    (.lit [("type".toList, .type)]) (some "y".toList) none none "$id".toList
/-- `Draft7Validator({"$ref": <draft-07 id>}).is_valid(5)` -/
def hijackQuery : Query := .clsIsValid (.obj [("$ref".toList, .str d7id)]) (.num (.int 5))
def Answer.asBool : Answer → Option Bool | .bool b => some b | _ => none

/-- the world after `import jsonschema` is in order -/
theorem initial_WF : WF initial.heap := wfb_sound (by decide +kernel)

/-- `draft7_type_checker = draft6_type_checker` (one object, address 4): the regenerated tables agree -/
theorem d7_types_are_d6_types : Generated.d7Types = Generated.d6Types := by decide +kernel

end JS.Derive
