/-
  Helper lemmas for C08 (equality). Filled in by the proof development.
-/
import JS.Keywords
import JS.Spec.Equality
namespace JS

/-! ### numbers -/

theorem Spec.numVal_eq (a : Num) :
    Spec.numVal a = (a.sm * 2 ^ a.ex.toNat, (-a.ex).toNat) := by
  cases a with
  | int v => simp [Spec.numVal, Num.sm, Num.ex]
  | flt neg m e =>
    simp only [Spec.numVal, Num.sm, Num.ex]
    split
    · next h => rw [show (-e).toNat = 0 by omega]
    · next h => rw [show e.toNat = 0 by omega, Int.pow_zero, Int.mul_one]

theorem pow_two_cancel (s t : Int) (p q c u1 u2 v1 v2 : Nat) (hu : u1 + u2 = p + c)
    (hv : v1 + v2 = q + c) :
    (s * 2 ^ p = t * 2 ^ q) ↔ (s * 2 ^ u1 * 2 ^ u2 = t * 2 ^ v1 * 2 ^ v2) := by
  have h2 : (2 : Int) ^ c ≠ 0 := by
    apply Int.pow_ne_zero; decide
  rw [Int.mul_assoc, Int.mul_assoc, ← Int.pow_add, ← Int.pow_add, hu, hv,
    Int.pow_add, Int.pow_add, ← Int.mul_assoc, ← Int.mul_assoc]
  exact (Int.mul_eq_mul_right_iff h2).symm

theorem Num.eq_eq_numEq (a b : Num) : Num.eq a b = Spec.numEq a b := by
  unfold Num.eq Spec.numEq Num.scaled
  rw [Spec.numVal_eq a, Spec.numVal_eq b]
  generalize a.sm = s, b.sm = t, a.ex = e, b.ex = f
  apply decide_eq_decide.mpr
  exact pow_two_cancel s t _ _ ((-e).toNat + (-f).toNat + min e f).toNat _ _ _ _
    (by omega) (by omega)

/-! ### induction principle for `Json` -/

theorem Json.induct {P : Json → Prop}
    (null : P .null) (bool : ∀ b, P (.bool b)) (num : ∀ n, P (.num n)) (str : ∀ s, P (.str s))
    (arr : ∀ xs, (∀ x ∈ xs, P x) → P (.arr xs))
    (obj : ∀ kvs, (∀ q ∈ kvs, P q.2) → P (.obj kvs)) : ∀ j, P j :=
  Json.rec (motive_1 := P) (motive_2 := fun xs => ∀ x ∈ xs, P x)
    (motive_3 := fun kvs => ∀ q ∈ kvs, P q.2) (motive_4 := fun q => P q.2)
    null bool num str arr obj
    (by intro x hx; cases hx)
    (by
      intro h t ih1 ih2 x hx
      rcases List.mem_cons.mp hx with rfl | hx
      · exact ih1
      · exact ih2 x hx)
    (by intro x hx; cases hx)
    (by
      intro h t ih1 ih2 x hx
      rcases List.mem_cons.mp hx with rfl | hx
      · exact ih1
      · exact ih2 x hx)
    (by intro k v ih; exact ih)

/-! ### keys, `lookupWith` -/

/-- the key list of an object -/
def keys (xs : List (Str × Json)) : List Str := xs.map Prod.fst

theorem mem_keys {k : Str} {xs : List (Str × Json)} : k ∈ keys xs ↔ ∃ v, (k, v) ∈ xs := by
  simp [keys]

theorem keysDistinct_iff (xs : List (Str × Json)) :
    Spec.keysDistinct xs = true ↔ (keys xs).Nodup := by
  induction xs with
  | nil => simp [Spec.keysDistinct, keys]
  | cons q xs ih =>
    obtain ⟨k, v⟩ := q
    simp only [Spec.keysDistinct, keys, List.map_cons, List.nodup_cons, Bool.and_eq_true,
      Bool.not_eq_true', ← Bool.not_eq_true, List.any_eq_true, beq_iff_eq] at ih ⊢
    rw [ih]
    simp only [List.mem_map]

theorem sameKeys_iff (xs ys : List (Str × Json)) :
    Spec.sameKeys xs ys = true ↔ keys xs ⊆ keys ys ∧ keys ys ⊆ keys xs := by
  have aux : ∀ xs ys : List (Str × Json),
      (xs.all (fun p => ys.any (fun q => q.1 == p.1)) = true) ↔ keys xs ⊆ keys ys := by
    intro xs ys
    simp only [List.all_eq_true, List.any_eq_true, beq_iff_eq, keys]
    constructor
    · intro h k hk
      obtain ⟨p, hp, rfl⟩ := List.mem_map.mp hk
      obtain ⟨q, hq, hqk⟩ := h p hp
      exact List.mem_map.mpr ⟨q, hq, hqk⟩
    · intro h p hp
      obtain ⟨q, hq, hqk⟩ := List.mem_map.mp (h (List.mem_map.mpr ⟨p, hp, rfl⟩))
      exact ⟨q, hq, hqk⟩
  unfold Spec.sameKeys
  rw [Bool.and_eq_true, aux xs ys]
  have h2 := aux ys xs
  simp only [List.all_eq_true, List.any_eq_true, beq_iff_eq] at h2 ⊢
  rw [h2]

theorem sameKeys_comm (xs ys : List (Str × Json)) : Spec.sameKeys xs ys = Spec.sameKeys ys xs := by
  rw [Bool.eq_iff_iff, sameKeys_iff, sameKeys_iff]
  exact And.comm

theorem sameKeys_self (xs : List (Str × Json)) : Spec.sameKeys xs xs = true := by
  rw [sameKeys_iff]; exact ⟨fun _ h => h, fun _ h => h⟩

/-- pigeonhole: a duplicate-free list contained in a list that is not longer contains it -/
theorem subset_of_nodup_of_length_le {α : Type} [DecidableEq α] :
    ∀ (xs ys : List α), xs.Nodup → xs ⊆ ys → ys.length ≤ xs.length → ys ⊆ xs := by
  intro xs
  induction xs with
  | nil =>
    intro ys _ _ hl y hy
    have : ys = [] := List.eq_nil_of_length_eq_zero (by simpa using hl)
    subst this; cases hy
  | cons a t ih =>
    intro ys hnd hsub hl y hy
    rw [List.nodup_cons] at hnd
    have ha : a ∈ ys := hsub List.mem_cons_self
    have htsub : t ⊆ ys.erase a := by
      intro x hx
      have hxa : x ≠ a := fun h => hnd.1 (h ▸ hx)
      exact (List.mem_erase_of_ne hxa).2 (hsub (List.mem_cons_of_mem _ hx))
    have hlen : (ys.erase a).length = ys.length - 1 := by rw [List.length_erase]; simp [ha]
    have hl' : (ys.erase a).length ≤ t.length := by
      rw [hlen]; simp only [List.length_cons] at hl; omega
    by_cases hya : y = a
    · subst hya; exact List.mem_cons_self
    · exact List.mem_cons_of_mem _ (ih _ hnd.2 htsub hl' ((List.mem_erase_of_ne hya).2 hy))

/-- for duplicate-free key lists with `keys xs ⊆ keys ys`: same size iff same key set -/
theorem length_beq_eq_sameKeys (xs ys : List (Str × Json))
    (dx : Spec.keysDistinct xs = true) (dy : Spec.keysDistinct ys = true)
    (hsub : keys xs ⊆ keys ys) : (xs.length == ys.length) = Spec.sameKeys xs ys := by
  rw [keysDistinct_iff] at dx dy
  rw [Bool.eq_iff_iff, sameKeys_iff, beq_iff_eq]
  have lx : (keys xs).length = xs.length := by simp [keys]
  have ly : (keys ys).length = ys.length := by simp [keys]
  constructor
  · intro h
    exact ⟨hsub, subset_of_nodup_of_length_le _ _ dx hsub (by omega)⟩
  · rintro ⟨h1, h2⟩
    have := dx.length_le_of_subset h1
    have := dy.length_le_of_subset h2
    omega

theorem hasWith_eq_lookupWith (k : Str) (p : Json → Bool) (ys : List (Str × Json)) :
    Spec.hasWith k p ys = lookupWith k p ys := by
  induction ys with
  | nil => rfl
  | cons q ys ih => obtain ⟨k', v⟩ := q; simp only [Spec.hasWith, lookupWith, ih]

theorem lookupWith_congr (k : Str) (p p' : Json → Bool) (ys : List (Str × Json))
    (h : ∀ q ∈ ys, p q.2 = p' q.2) : lookupWith k p ys = lookupWith k p' ys := by
  induction ys with
  | nil => rfl
  | cons q ys ih =>
    obtain ⟨k', v⟩ := q
    simp only [lookupWith]
    rw [ih (fun q hq => h q (List.mem_cons_of_mem _ hq)), h (k', v) List.mem_cons_self]

theorem lookupWith_true_mem (k : Str) (p : Json → Bool) (ys : List (Str × Json))
    (h : lookupWith k p ys = true) : ∃ w, (k, w) ∈ ys ∧ p w = true := by
  induction ys with
  | nil => simp [lookupWith] at h
  | cons q ys ih =>
    obtain ⟨k', v⟩ := q
    simp only [lookupWith] at h
    split at h
    · next hk => subst hk; exact ⟨v, List.mem_cons_self, h⟩
    · obtain ⟨w, hw, hp⟩ := ih h
      exact ⟨w, List.mem_cons_of_mem _ hw, hp⟩

theorem lookupWith_of_mem (k : Str) (w : Json) (p : Json → Bool) (ys : List (Str × Json))
    (d : Spec.keysDistinct ys = true) (hm : (k, w) ∈ ys) : lookupWith k p ys = p w := by
  induction ys with
  | nil => cases hm
  | cons q ys ih =>
    obtain ⟨k', v⟩ := q
    simp only [Spec.keysDistinct, Bool.and_eq_true, Bool.not_eq_true', ← Bool.not_eq_true,
      List.any_eq_true, beq_iff_eq] at d
    simp only [lookupWith]
    rcases List.mem_cons.mp hm with heq | hm'
    · cases heq; simp
    · have hne : k' ≠ k := fun hk => d.1 ⟨(k, w), hm', hk.symm⟩
      rw [if_neg hne]
      exact ih (by simpa using d.2) hm'

/-! ### the three list-level functions as quantified statements -/

theorem equalKvs_iff (xs ys : List (Str × Json)) :
    equalKvs xs ys = true ↔ ∀ q ∈ xs, lookupWith q.1 (equal q.2) ys = true := by
  induction xs with
  | nil => simp [equalKvs]
  | cons q xs ih => obtain ⟨k, v⟩ := q; simp [equalKvs, ih]

theorem jsonSub_iff (xs ys : List (Str × Json)) :
    Spec.jsonSub xs ys = true ↔ ∀ q ∈ xs, lookupWith q.1 (Spec.jsonEq q.2) ys = true := by
  induction xs with
  | nil => simp [Spec.jsonSub]
  | cons q xs ih => obtain ⟨k, v⟩ := q; simp [Spec.jsonSub, ih, hasWith_eq_lookupWith]

theorem sub_keys (f : Json → Json → Bool) (xs ys : List (Str × Json))
    (h : ∀ q ∈ xs, lookupWith q.1 (f q.2) ys = true) : keys xs ⊆ keys ys := by
  intro k hk
  obtain ⟨v, hv⟩ := mem_keys.mp hk
  obtain ⟨w, hw, _⟩ := lookupWith_true_mem _ _ _ (h _ hv)
  exact mem_keys.mpr ⟨w, hw⟩

/-! ### well-formedness of members -/

theorem WFList_mem {xs : List Json} (h : Spec.WFList xs = true) : ∀ x ∈ xs, Spec.WF x = true := by
  induction xs with
  | nil => intro x hx; cases hx
  | cons y ys ih =>
    simp only [Spec.WFList, Bool.and_eq_true] at h
    intro x hx
    rcases List.mem_cons.mp hx with rfl | hx
    · exact h.1
    · exact ih h.2 x hx

theorem WFKvs_mem {xs : List (Str × Json)} (h : Spec.WFKvs xs = true) :
    ∀ q ∈ xs, Spec.WF q.2 = true := by
  induction xs with
  | nil => intro x hx; cases hx
  | cons y ys ih =>
    obtain ⟨k, v⟩ := y
    simp only [Spec.WFKvs, Bool.and_eq_true] at h
    intro x hx
    rcases List.mem_cons.mp hx with rfl | hx
    · exact h.1
    · exact ih h.2 x hx

theorem WF_obj {xs : List (Str × Json)} (h : Spec.WF (.obj xs) = true) :
    Spec.keysDistinct xs = true ∧ ∀ q ∈ xs, Spec.WF q.2 = true := by
  simp only [Spec.WF, Bool.and_eq_true] at h
  exact ⟨h.1, WFKvs_mem h.2⟩

theorem WF_arr {xs : List Json} (h : Spec.WF (.arr xs) = true) : ∀ x ∈ xs, Spec.WF x = true := by
  simp only [Spec.WF] at h
  exact WFList_mem h

/-! ### `equal` is `jsonEq` -/

theorem equalList_eq (xs : List Json)
    (ih : ∀ x ∈ xs, ∀ b, Spec.WF x = true → Spec.WF b = true → equal x b = Spec.jsonEq x b) :
    ∀ ys, (∀ x ∈ xs, Spec.WF x = true) → (∀ y ∈ ys, Spec.WF y = true) →
      equalList xs ys = Spec.jsonEqList xs ys := by
  induction xs with
  | nil => intro ys _ _; cases ys <;> simp [equalList, Spec.jsonEqList]
  | cons x xs ihx =>
    intro ys hx hy
    cases ys with
    | nil => simp [equalList, Spec.jsonEqList]
    | cons y ys =>
      simp only [equalList, Spec.jsonEqList]
      rw [ih x List.mem_cons_self y (hx x List.mem_cons_self) (hy y List.mem_cons_self),
        ihx (fun x hx => ih x (List.mem_cons_of_mem _ hx)) ys
          (fun x h => hx x (List.mem_cons_of_mem _ h)) (fun y h => hy y (List.mem_cons_of_mem _ h))]

theorem equal_eq_jsonEq : ∀ a b : Json, Spec.WF a = true → Spec.WF b = true →
    equal a b = Spec.jsonEq a b := by
  intro a
  induction a using Json.induct with
  | null => intro b _ _; cases b <;> simp [equal, Spec.jsonEq]
  | bool x => intro b _ _; cases b <;> simp [equal, Spec.jsonEq]
  | num x => intro b _ _; cases b <;> simp [equal, Spec.jsonEq, Num.eq_eq_numEq]
  | str x => intro b _ _; cases b <;> simp [equal, Spec.jsonEq]
  | arr xs ih =>
    intro b ha hb
    cases b with
    | arr ys =>
      simp only [equal, Spec.jsonEq]
      exact equalList_eq xs ih ys (WF_arr ha) (WF_arr hb)
    | _ => simp [equal, Spec.jsonEq]
  | obj xs ih =>
    intro b ha hb
    cases b with
    | obj ys =>
      obtain ⟨dx, wx⟩ := WF_obj ha
      obtain ⟨dy, wy⟩ := WF_obj hb
      simp only [equal, Spec.jsonEq]
      have hsub : equalKvs xs ys = Spec.jsonSub xs ys := by
        rw [Bool.eq_iff_iff, equalKvs_iff, jsonSub_iff]
        apply forall_congr'; intro q; apply forall_congr'; intro hq
        rw [lookupWith_congr q.1 (equal q.2) (Spec.jsonEq q.2) ys
          (fun r hr => ih q hq r.2 (wx q hq) (wy r hr))]
      rw [hsub]
      cases hS : Spec.jsonSub xs ys with
      | false => simp
      | true =>
        rw [Bool.and_true, Bool.and_true]
        exact length_beq_eq_sameKeys xs ys dx dy (sub_keys _ xs ys ((jsonSub_iff xs ys).mp hS))
    | _ => simp [equal, Spec.jsonEq]

/-! ### `jsonEq` is reflexive and symmetric -/

theorem jsonEqList_refl (xs : List Json) (ih : ∀ x ∈ xs, Spec.jsonEq x x = true) :
    Spec.jsonEqList xs xs = true := by
  induction xs with
  | nil => simp [Spec.jsonEqList]
  | cons x xs ihx =>
    simp only [Spec.jsonEqList, Bool.and_eq_true]
    exact ⟨ih x List.mem_cons_self, ihx (fun y hy => ih y (List.mem_cons_of_mem _ hy))⟩

theorem jsonEq_refl' : ∀ a : Json, Spec.WF a = true → Spec.jsonEq a a = true := by
  intro a
  induction a using Json.induct with
  | null => intro _; simp [Spec.jsonEq]
  | bool x => intro _; simp [Spec.jsonEq]
  | num x =>
    intro _
    simp [Spec.jsonEq, Spec.numEq]
  | str x => intro _; simp [Spec.jsonEq]
  | arr xs ih =>
    intro ha
    simp only [Spec.jsonEq]
    exact jsonEqList_refl xs (fun x hx => ih x hx (WF_arr ha x hx))
  | obj xs ih =>
    intro ha
    obtain ⟨dx, wx⟩ := WF_obj ha
    simp only [Spec.jsonEq, Bool.and_eq_true]
    refine ⟨sameKeys_self xs, (jsonSub_iff xs xs).mpr ?_⟩
    intro q hq
    rw [lookupWith_of_mem q.1 q.2 _ xs dx hq]
    exact ih q hq (wx q hq)

theorem jsonEqList_symm (xs : List Json)
    (ih : ∀ x ∈ xs, ∀ b, Spec.WF x = true → Spec.WF b = true → Spec.jsonEq x b = Spec.jsonEq b x) :
    ∀ ys, (∀ x ∈ xs, Spec.WF x = true) → (∀ y ∈ ys, Spec.WF y = true) →
      Spec.jsonEqList xs ys = Spec.jsonEqList ys xs := by
  induction xs with
  | nil => intro ys _ _; cases ys <;> simp [Spec.jsonEqList]
  | cons x xs ihx =>
    intro ys hx hy
    cases ys with
    | nil => simp [Spec.jsonEqList]
    | cons y ys =>
      simp only [Spec.jsonEqList]
      rw [ih x List.mem_cons_self y (hx x List.mem_cons_self) (hy y List.mem_cons_self),
        ihx (fun x hx => ih x (List.mem_cons_of_mem _ hx)) ys
          (fun x h => hx x (List.mem_cons_of_mem _ h)) (fun y h => hy y (List.mem_cons_of_mem _ h))]

/-- one direction of the symmetry of "every member has a related value under its key" -/
theorem sub_swap (f g : Json → Json → Bool) (xs ys : List (Str × Json))
    (dx : Spec.keysDistinct xs = true) (dy : Spec.keysDistinct ys = true)
    (hk : keys ys ⊆ keys xs)
    (hfg : ∀ q ∈ xs, ∀ r ∈ ys, f q.2 r.2 = g r.2 q.2)
    (h : ∀ q ∈ xs, lookupWith q.1 (f q.2) ys = true) :
    ∀ r ∈ ys, lookupWith r.1 (g r.2) xs = true := by
  intro r hr
  obtain ⟨v, hv⟩ := mem_keys.mp (hk (mem_keys.mpr ⟨r.2, hr⟩))
  have h1 := h _ hv
  rw [lookupWith_of_mem r.1 r.2 _ ys dy hr] at h1
  rw [lookupWith_of_mem r.1 v _ xs dx hv, ← hfg _ hv r hr]
  exact h1

theorem numEq_symm (a b : Num) : Spec.numEq a b = Spec.numEq b a := by
  unfold Spec.numEq
  apply decide_eq_decide.mpr
  exact eq_comm

theorem jsonEq_symm' : ∀ a b : Json, Spec.WF a = true → Spec.WF b = true →
    Spec.jsonEq a b = Spec.jsonEq b a := by
  intro a
  induction a using Json.induct with
  | null => intro b _ _; cases b <;> simp [Spec.jsonEq]
  | bool x => intro b _ _; cases b <;> simp [Spec.jsonEq, Bool.beq_comm]
  | num x => intro b _ _; cases b <;> simp [Spec.jsonEq, numEq_symm x]
  | str x => intro b _ _; cases b <;> simp [Spec.jsonEq]; exact BEq.comm
  | arr xs ih =>
    intro b ha hb
    cases b with
    | arr ys =>
      simp only [Spec.jsonEq]
      exact jsonEqList_symm xs ih ys (WF_arr ha) (WF_arr hb)
    | _ => simp [Spec.jsonEq]
  | obj xs ih =>
    intro b ha hb
    cases b with
    | obj ys =>
      obtain ⟨dx, wx⟩ := WF_obj ha
      obtain ⟨dy, wy⟩ := WF_obj hb
      simp only [Spec.jsonEq]
      rw [sameKeys_comm ys xs]
      cases hK : Spec.sameKeys xs ys with
      | false => simp
      | true =>
        rw [Bool.true_and, Bool.true_and, Bool.eq_iff_iff, jsonSub_iff, jsonSub_iff]
        obtain ⟨k1, k2⟩ := (sameKeys_iff xs ys).mp hK
        constructor
        · exact sub_swap _ _ xs ys dx dy k2 (fun q hq r hr => ih q hq r.2 (wx q hq) (wy r hr))
        · exact sub_swap _ _ ys xs dy dx k1
            (fun r hr q hq => (ih q hq r.2 (wx q hq) (wy r hr)).symm)
    | _ => simp [Spec.jsonEq]

/-! ### `uniq` -/

theorem unboolEq_eq_equal (x y : Json) (hx : hashable x = true) (hy : hashable y = true) :
    unboolEq x y = equal x y := by
  cases x <;> cases y <;> simp [unboolEq, pyEq, equal, hashable] at hx hy ⊢

theorem any_congr_mem {α : Type} (xs : List α) (f g : α → Bool) (h : ∀ x ∈ xs, f x = g x) :
    xs.any f = xs.any g := by
  induction xs with
  | nil => rfl
  | cons x xs ih =>
    simp only [List.any_cons]
    rw [h x List.mem_cons_self, ih (fun y hy => h y (List.mem_cons_of_mem _ hy))]

theorem hasDupHash_eq_hasDup (xs : List Json) (h : xs.all hashable = true) :
    hasDupHash xs = hasDup xs := by
  induction xs with
  | nil => rfl
  | cons x xs ih =>
    simp only [List.all_cons, Bool.and_eq_true] at h
    simp only [hasDupHash, hasDup]
    rw [ih h.2, any_congr_mem xs (unboolEq x) (equal x)
      (fun y hy => unboolEq_eq_equal x y h.1 (List.all_eq_true.mp h.2 y hy))]

theorem hasDup_eq (xs : List Json) (h : Spec.WFList xs = true) :
    hasDup xs = !Spec.allDistinct xs := by
  induction xs with
  | nil => rfl
  | cons x xs ih =>
    simp only [Spec.WFList, Bool.and_eq_true] at h
    simp only [hasDup, Spec.allDistinct]
    rw [ih h.2, any_congr_mem xs (equal x) (Spec.jsonEq x)
      (fun y hy => equal_eq_jsonEq x y h.1 (WFList_mem h.2 y hy))]
    simp

theorem uniq_eq_allDistinct (xs : List Json) (h : Spec.WFList xs = true) :
    uniq xs = Spec.allDistinct xs := by
  unfold uniq
  split
  · next hh => rw [hasDupHash_eq_hasDup xs hh, hasDup_eq xs h, Bool.not_not]
  · rw [hasDup_eq xs h, Bool.not_not]

/-! ### generators -/

theorem nothing_errs (b : Option Nat) (st : RState) : (nothing b st).errs = [] := by
  rfl

theorem emit_st (es : List Err) (b : Option Nat) (st : RState) : (emit es b st).st = st := by
  unfold emit
  cases b with
  | none => rfl
  | some k => dsimp only; split <;> rfl

theorem emit_one_errs (e : Err) (b : Option Nat) (st : RState) (hb : b ≠ some 0) :
    (emit [e] b st).errs ≠ [] := by
  unfold emit
  cases b with
  | none => simp
  | some k =>
    have hk : k ≠ 0 := fun h => hb (by rw [h])
    dsimp only
    split
    · simp
    · obtain ⟨k', rfl⟩ := Nat.exists_eq_succ_of_ne_zero hk
      simp

theorem kwConst_errs (c x : Json) (b : Option Nat) (st : RState) (hb : b ≠ some 0) :
    (kwConst c x b st).errs = [] ↔ equal x c = true := by
  unfold kwConst
  cases h : equal x c with
  | true => simp [nothing_errs]
  | false => simpa using emit_one_errs _ b st hb

theorem kwConst_st (c x : Json) (b : Option Nat) (st : RState) : (kwConst c x b st).st = st := by
  unfold kwConst
  split
  · rfl
  · exact emit_st _ _ _

theorem kwEnum_errs (es : List Json) (x : Json) (b : Option Nat) (st : RState) (hb : b ≠ some 0) :
    (kwEnum (.arr es) x b st).errs = [] ↔ es.any (equal x) = true := by
  unfold kwEnum
  dsimp only
  have hall : es.all (fun each => !equal x each) = !es.any (equal x) := by
    induction es with
    | nil => rfl
    | cons e es ih => simp only [List.all_cons, List.any_cons, ih, Bool.not_or]
  rw [hall]
  cases h : es.any (equal x) with
  | true => simp [nothing_errs]
  | false => simpa using emit_one_errs _ b st hb

theorem kwUniqueItems_errs (cfg : Cfg) (xs : List Json)
    (harr : lookupS (skey "array") cfg.types = some .isArray)
    (b : Option Nat) (st : RState) (hb : b ≠ some 0) :
    (kwUniqueItems cfg (.bool true) (.arr xs) b st).errs = [] ↔ uniq xs = true := by
  have ht : isTypeS cfg (.arr xs) "array" = .ok true := by
    unfold isTypeS isType
    dsimp only
    have : lookupS "array".toList cfg.types = some .isArray := harr
    rw [this]
    rfl
  unfold kwUniqueItems
  rw [ht]
  simp only [truthy, withRes, Bool.not_true, Bool.false_eq_true, if_false]
  cases h : uniq xs with
  | true => simp [nothing_errs]
  | false => simpa using emit_one_errs _ b st hb

end JS
