/-
  Helper lemmas for C08 (equality). Filled in by the proof development.
-/
import JS.Keywords
import JS.Spec.Equality
namespace JS
end JS
