/- Helper lemmas for C12 (format switch). -/
import JS.Keywords
namespace JS

/-- `format` with a checker and a string value: the `withRes` over `fmtCheck` -/
theorem kwFormat_str (env : Env) (impl : FmtImpl) (cfg : Cfg) (fc : FormatChecker)
    (h : cfg.formatChecker = some fc) (name : Str) (inst : Json) :
    kwFormat env impl cfg (.str name) inst =
      withRes (fmtCheck env impl fc inst name) fun r =>
        match r with
        | none => nothing
        | some cause => emit [Err.fresh "format" [inst, .str name] [] cause] := by
  unfold kwFormat
  simp only [h]
  rfl

theorem kwFormat_str_pass (env : Env) (impl : FmtImpl) (cfg : Cfg) (fc : FormatChecker)
    (h : cfg.formatChecker = some fc) (name : Str) (inst : Json)
    (hc : fmtCheck env impl fc inst name = .ok none) (b : Option Nat) (st : RState) :
    kwFormat env impl cfg (.str name) inst b st = ⟨[], .done, st⟩ := by
  rw [kwFormat_str env impl cfg fc h, hc]
  rfl

theorem kwFormat_str_fail (env : Env) (impl : FmtImpl) (cfg : Cfg) (fc : FormatChecker)
    (h : cfg.formatChecker = some fc) (name : Str) (inst : Json) (cause : Option String)
    (hc : fmtCheck env impl fc inst name = .ok (some cause)) (st : RState) :
    kwFormat env impl cfg (.str name) inst none st
      = ⟨[Err.fresh "format" [inst, .str name] [] cause], .done, st⟩ := by
  rw [kwFormat_str env impl cfg fc h, hc]
  rfl

theorem kwFormat_str_raise (env : Env) (impl : FmtImpl) (cfg : Cfg) (fc : FormatChecker)
    (h : cfg.formatChecker = some fc) (name : Str) (inst : Json) (x : Exc)
    (hc : fmtCheck env impl fc inst name = .raise x) (b : Option Nat) (st : RState) :
    kwFormat env impl cfg (.str name) inst b st = ⟨[], .raised x, st⟩ := by
  rw [kwFormat_str env impl cfg fc h, hc]
  rfl

theorem kwFormat_str_miss (env : Env) (impl : FmtImpl) (cfg : Cfg) (fc : FormatChecker)
    (h : cfg.formatChecker = some fc) (name : Str) (inst : Json) (q : Query)
    (hc : fmtCheck env impl fc inst name = .miss q) (b : Option Nat) (st : RState) :
    kwFormat env impl cfg (.str name) inst b st = ⟨[], .miss q, st⟩ := by
  rw [kwFormat_str env impl cfg fc h, hc]
  rfl

theorem emit_st (es : List Err) (b : Option Nat) (st : RState) : (emit es b st).st = st := by
  unfold emit
  cases b with
  | none => rfl
  | some k =>
    dsimp only
    split <;> rfl

theorem kwFormat_st (env : Env) (impl : FmtImpl) (cfg : Cfg) (fmt inst : Json) (b : Option Nat)
    (st : RState) : (kwFormat env impl cfg fmt inst b st).st = st := by
  unfold kwFormat
  cases hfc : cfg.formatChecker with
  | none => rfl
  | some fc =>
    dsimp only
    cases fmt with
    | str name =>
      dsimp only
      cases fmtCheck env impl fc inst name with
      | ok r =>
        cases r with
        | none => rfl
        | some cause => exact emit_st _ _ _
      | raise e => rfl
      | miss q => rfl
    | arr _ => rfl
    | obj _ => rfl
    | null => rfl
    | bool _ => rfl
    | num _ => rfl

theorem fmtCheck_unknown (env : Env) (impl : FmtImpl) (fc : FormatChecker) (inst : Json) (name : Str)
    (h : fc.find name = none) : fmtCheck env impl fc inst name = .ok none := by
  unfold fmtCheck
  simp only [h]

theorem fmtCheck_ret (env : Env) (impl : FmtImpl) (fc : FormatChecker) (inst : Json) (name : Str)
    (e : FmtEntry) (t : Bool) (hf : fc.find name = some e) (hr : runFmt env impl e inst = .ok (.ret t)) :
    fmtCheck env impl fc inst name = .ok (if t then none else some none) := by
  unfold fmtCheck
  simp only [hf, hr]

theorem fmtCheck_listed (env : Env) (impl : FmtImpl) (fc : FormatChecker) (inst : Json) (name : Str)
    (e : FmtEntry) (cls : String) (mro : List String)
    (hf : fc.find name = some e) (hr : runFmt env impl e inst = .ok (.raise (cls :: mro)))
    (hl : (cls :: mro).any (fun c => e.raises.contains c) = true) :
    fmtCheck env impl fc inst name = .ok (some (some cls)) := by
  unfold fmtCheck
  simp only [hf, hr, hl]
  rfl

theorem fmtCheck_unlisted (env : Env) (impl : FmtImpl) (fc : FormatChecker) (inst : Json) (name : Str)
    (e : FmtEntry) (cls : String) (mro : List String)
    (hf : fc.find name = some e) (hr : runFmt env impl e inst = .ok (.raise (cls :: mro)))
    (hl : (cls :: mro).any (fun c => e.raises.contains c) = false) :
    fmtCheck env impl fc inst name = .raise (.custom cls) := by
  unfold fmtCheck
  simp only [hf, hr, hl]
  rfl

end JS
