/- Helper lemmas for C13 (built-in format checkers): digits, `splitOn`, octets, dates, IPv6. -/
import JS.Format
import JS.Spec.Formats
import JS.Generated.Tables
import Mathlib.Tactic.IntervalCases
import Mathlib.Data.List.Induction
import Mathlib.Data.List.TakeDrop

namespace JS.Fmt
open JS

/-- `FmtRes` has decidable equality (used by the `decide +kernel` sanity tests) -/
instance decEqFmtRes : DecidableEq FmtRes
  | .ret a, .ret b =>
    if h : a = b then isTrue (by rw [h]) else isFalse (by intro e; cases e; exact h rfl)
  | .raise a, .raise b =>
    if h : a = b then isTrue (by rw [h]) else isFalse (by intro e; cases e; exact h rfl)
  | .ret _, .raise _ => isFalse (by intro e; cases e)
  | .raise _, .ret _ => isFalse (by intro e; cases e)

/-! ### (a) ASCII digits and decimal renderings -/

theorem char_le_iff (a b : Char) : a ≤ b ↔ a.toNat ≤ b.toNat := by
  rw [Char.le_def, UInt32.le_iff_toNat_le]; rfl

theorem digitChar_facts (d : Nat) (h : d < 10) :
    isDigit (Nat.digitChar d) = true ∧ (Nat.digitChar d).toNat - '0'.toNat = d
      ∧ (0 < d → '1' ≤ Nat.digitChar d ∧ Nat.digitChar d ≤ '9') := by
  interval_cases d <;> decide

theorem digit_char_eq (c : Char) (h : isDigit c = true) :
    Nat.digitChar (c.toNat - '0'.toNat) = c ∧ c.toNat - '0'.toNat < 10 := by
  simp only [isDigit, Bool.and_eq_true, decide_eq_true_eq, char_le_iff] at h
  have h0 : '0'.toNat = 48 := by decide
  have h9 : '9'.toNat = 57 := by decide
  rw [h0, h9] at h
  rw [h0]
  obtain ⟨k, hk⟩ : ∃ k, c.toNat = k := ⟨_, rfl⟩
  rw [hk] at h ⊢
  have : c = Char.ofNat k := by rw [← hk]; simp
  subst this
  obtain ⟨h1, h2⟩ := h
  interval_cases k <;> decide

theorem digitsVal_snoc (s : Str) (c : Char) :
    digitsVal (s ++ [c]) = digitsVal s * 10 + (c.toNat - '0'.toNat) := by
  simp [digitsVal, List.foldl_append]

theorem digitsVal_zero_cons (s : Str) : digitsVal ('0' :: s) = digitsVal s := by
  simp [digitsVal]

/-- properties of the decimal rendering -/
theorem toDigits_props (n : Nat) :
    (Nat.toDigits 10 n).all isDigit = true ∧ digitsVal (Nat.toDigits 10 n) = n ∧
      (0 < n → ∃ c rest, Nat.toDigits 10 n = c :: rest ∧ '1' ≤ c ∧ c ≤ '9') := by
  induction n using Nat.strongRecOn with
  | _ n ih =>
    rw [Nat.toDigits_eq_if (by decide)]
    by_cases hn : n < 10
    · rw [if_pos hn]
      obtain ⟨f1, f2, f3⟩ := digitChar_facts n hn
      refine ⟨by simp [f1], by simpa [digitsVal] using f2, fun hp => ⟨_, _, rfl, f3 hp⟩⟩
    · rw [if_neg hn]
      obtain ⟨i1, i2, i3⟩ := ih (n / 10) (by omega)
      obtain ⟨f1, f2, _⟩ := digitChar_facts (n % 10) (by omega)
      refine ⟨by simp [i1, f1], ?_, fun _ => ?_⟩
      · rw [digitsVal_snoc, i2, f2]; omega
      · obtain ⟨c, rest, e, hc⟩ := i3 (by omega)
        exact ⟨c, rest ++ [Nat.digitChar (n % 10)], by rw [e]; rfl, hc⟩

/-- a canonical digit string (no leading zero) is the rendering of its value -/
theorem toDigits_digitsVal (s : Str) :
    s.all isDigit = true → ∀ c rest, s = c :: rest → '1' ≤ c →
      Nat.toDigits 10 (digitsVal s) = s ∧ 0 < digitsVal s := by
  induction s using List.reverseRecOn with
  | nil => intro _ c rest h; cases h
  | append_singleton s d ih =>
    intro hall c rest hs hc
    simp only [List.all_append, List.all_cons, List.all_nil, Bool.and_true, Bool.and_eq_true] at hall
    obtain ⟨g1, g2⟩ := digit_char_eq d hall.2
    rw [digitsVal_snoc]
    cases s with
    | nil =>
      simp only [List.nil_append, List.cons.injEq] at hs
      obtain ⟨rfl, _⟩ := hs
      have : 0 < d.toNat - '0'.toNat := by
        rw [char_le_iff] at hc
        have : '1'.toNat = 49 := by decide
        have : '0'.toNat = 48 := by decide
        omega
      refine ⟨?_, by omega⟩
      simp only [digitsVal, List.foldl_nil, Nat.zero_mul, Nat.zero_add, List.nil_append]
      rw [Nat.toDigits_of_lt_base g2, g1]
    | cons x s' =>
      simp only [List.cons_append, List.cons.injEq] at hs
      obtain ⟨rfl, _⟩ := hs
      obtain ⟨i1, i2⟩ := ih hall.1 x s' rfl hc
      refine ⟨?_, by omega⟩
      rw [Nat.mul_comm, ← Nat.toDigits_append_toDigits (by decide) i2 g2, i1,
        Nat.toDigits_of_lt_base g2, g1]

/-- a digit is '0' or at least '1' -/
theorem digit_zero_or_pos (c : Char) (h : isDigit c = true) : c = '0' ∨ '1' ≤ c := by
  by_cases hc : c = '0'
  · exact .inl hc
  · right
    simp only [isDigit, Bool.and_eq_true, decide_eq_true_eq, char_le_iff] at h
    rw [char_le_iff]
    have h0 : '0'.toNat = 48 := by decide
    have h1 : '1'.toNat = 49 := by decide
    have : c.toNat ≠ 48 := by
      intro e
      apply hc
      have : c = Char.ofNat c.toNat := by simp
      rw [this, e]
    omega

theorem decimal_all_digit (n : Nat) : (Spec.decimal n).all isDigit = true := (toDigits_props n).1

theorem mem_decimal_isDigit (n : Nat) (c : Char) (h : c ∈ Spec.decimal n) : isDigit c = true :=
  List.all_eq_true.mp (decimal_all_digit n) c h

theorem decimal_ne_nil (n : Nat) : Spec.decimal n ≠ [] := by
  unfold Spec.decimal; exact Nat.toDigits_ne_nil

/-! ### (b) `splitOn` and joining with a separator -/

/-- parts joined by a separator character (the shape of `Spec.colonJoin`) -/
def joinSep (c : Char) : List Str → Str
  | [] => []
  | [g] => g
  | g :: g' :: gs => g ++ c :: joinSep c (g' :: gs)

theorem colonJoin_eq (gs : List Str) : Spec.colonJoin gs = joinSep ':' gs := by
  induction gs with
  | nil => rfl
  | cons g gs ih =>
    cases gs with
    | nil => rfl
    | cons g' gs => simp only [Spec.colonJoin, joinSep, ih]

theorem joinSep_cons_ne (c : Char) (g : Str) (gs : List Str) (h : gs ≠ []) :
    joinSep c (g :: gs) = g ++ c :: joinSep c gs := by
  cases gs with
  | nil => exact absurd rfl h
  | cons g' gs => rfl

theorem splitOn_ne_nil (c : Char) (s : Str) : splitOn c s ≠ [] := by
  induction s with
  | nil => simp [splitOn]
  | cons x xs ih =>
    unfold splitOn
    split
    · simp
    · split <;> simp

theorem splitOn_no_sep (c : Char) (t : Str) (h : c ∉ t) : splitOn c t = [t] := by
  induction t with
  | nil => simp [splitOn]
  | cons x xs ih =>
    have hx : x ≠ c := fun e => h (by simp [e])
    have ht : c ∉ xs := fun e => h (by simp [e])
    simp [splitOn, hx, ih ht]

theorem splitOn_append_sep (c : Char) (t rest : Str) (h : c ∉ t) :
    splitOn c (t ++ c :: rest) = t :: splitOn c rest := by
  induction t with
  | nil => simp [splitOn]
  | cons x xs ih =>
    have hx : x ≠ c := fun e => h (by simp [e])
    have ht : c ∉ xs := fun e => h (by simp [e])
    simp [splitOn, hx, ih ht]

/-- `sep.join(s.split(sep)) == s`, and no part contains the separator -/
theorem splitOn_spec (c : Char) (s : Str) :
    joinSep c (splitOn c s) = s ∧ ∀ p ∈ splitOn c s, c ∉ p := by
  induction s with
  | nil => simp [splitOn, joinSep]
  | cons x xs ih =>
    obtain ⟨ih1, ih2⟩ := ih
    unfold splitOn
    by_cases hx : x = c
    · rw [if_pos hx]
      refine ⟨?_, ?_⟩
      · rw [joinSep_cons_ne _ _ _ (splitOn_ne_nil c xs), ih1, hx]; rfl
      · intro p hp
        rcases List.mem_cons.mp hp with rfl | hp
        · simp
        · exact ih2 p hp
    · rw [if_neg hx]
      cases hsp : splitOn c xs with
      | nil => exact absurd hsp (splitOn_ne_nil c xs)
      | cons h t =>
        rw [hsp] at ih1 ih2
        refine ⟨?_, ?_⟩
        · cases t with
          | nil => simp only [joinSep] at ih1 ⊢; rw [ih1]
          | cons h' t' => simp only [joinSep, List.cons_append] at ih1 ⊢; rw [ih1]
        · intro p hp
          rcases List.mem_cons.mp hp with rfl | hp
          · intro hm
            rcases List.mem_cons.mp hm with e | hm
            · exact hx e.symm
            · exact ih2 h (by simp) hm
          · exact ih2 p (List.mem_cons_of_mem _ hp)

theorem splitOn_joinSep (c : Char) (parts : List Str) (hne : parts ≠ [])
    (h : ∀ p ∈ parts, c ∉ p) : splitOn c (joinSep c parts) = parts := by
  induction parts with
  | nil => exact absurd rfl hne
  | cons g gs ih =>
    cases gs with
    | nil => exact splitOn_no_sep c g (h g (by simp))
    | cons g' gs =>
      simp only [joinSep]
      rw [splitOn_append_sep c g _ (h g (by simp)),
        ih (by simp) (fun p hp => h p (List.mem_cons_of_mem _ hp))]

/-! ### (c) octets and `IPv4Address` -/

theorem parseOctet_decimal : ∀ n, n < 256 → parseOctet (Spec.decimal n) = some n := by decide +kernel

theorem parseOctet_some (p : Str) (n : Nat) (h : parseOctet p = some n) :
    n < 256 ∧ p = Spec.decimal n := by
  unfold parseOctet at h
  split at h; · cases h
  split at h; · cases h
  split at h; · cases h
  split at h; · cases h
  split at h; · cases h
  rename_i h1 h2 h3 h4 h5
  cases h
  refine ⟨by omega, ?_⟩
  cases p with
  | nil => simp at h1
  | cons c rest =>
    have h2 : (c :: rest).all isDigit = true := by simpa using h2
    have hc : isDigit c = true := by
      simp only [List.all_cons, Bool.and_eq_true] at h2; exact h2.1
    rcases digit_zero_or_pos c hc with rfl | hpos
    · have : rest = [] := by
        by_contra hne
        apply h4
        simp [hne]
      subst this
      decide
    · exact ((toDigits_digitsVal (c :: rest) h2 c rest rfl hpos).1).symm

theorem parseOctet_iff (p : Str) (n : Nat) :
    parseOctet p = some n ↔ n < 256 ∧ p = Spec.decimal n :=
  ⟨parseOctet_some p n, fun ⟨h1, h2⟩ => h2 ▸ parseOctet_decimal n h1⟩

theorem not_mem_decimal (n : Nat) (c : Char) (h : isDigit c = false) : c ∉ Spec.decimal n := by
  intro hm
  rw [mem_decimal_isDigit n c hm] at h
  cases h

/-- the shape of the strings `Spec.isIpv4Text` describes -/
def quad (a b c d : Nat) : Str :=
  Spec.decimal a ++ ['.'] ++ Spec.decimal b ++ ['.'] ++ Spec.decimal c ++ ['.'] ++ Spec.decimal d

theorem quad_eq (a b c d : Nat) :
    quad a b c d = joinSep '.' [Spec.decimal a, Spec.decimal b, Spec.decimal c, Spec.decimal d] := by
  simp [quad, joinSep]

theorem mem_quad (a b c d : Nat) (x : Char) (h : x ∈ quad a b c d) : isDigit x = true ∨ x = '.' := by
  simp only [quad, List.mem_append, List.mem_singleton] at h
  rcases h with (((((h | h) | h) | h) | h) | h) | h
  all_goals first | exact .inr h | exact .inl (mem_decimal_isDigit _ _ h)

theorem parseOctets_four (p1 p2 p3 p4 : Str) (l : List Nat) :
    parseOctets [p1, p2, p3, p4] = some l ↔
      ∃ a b c d, parseOctet p1 = some a ∧ parseOctet p2 = some b ∧ parseOctet p3 = some c ∧
        parseOctet p4 = some d ∧ l = [a, b, c, d] := by
  simp only [parseOctets]
  cases parseOctet p1 <;> cases parseOctet p2 <;> cases parseOctet p3 <;> cases parseOctet p4 <;>
    simp [eq_comm]

theorem ipv4Parse_iff (s : Str) (l : List Nat) :
    ipv4Parse s = some l ↔ ∃ a b c d, a < 256 ∧ b < 256 ∧ c < 256 ∧ d < 256 ∧ l = [a, b, c, d] ∧
      s = quad a b c d := by
  constructor
  · intro h
    unfold ipv4Parse at h
    split at h; · cases h
    split at h; · cases h
    split at h; · cases h
    rename_i _ _ hlen
    obtain ⟨hj, _⟩ := splitOn_spec '.' s
    match hsp : splitOn '.' s, hlen with
    | [p1, p2, p3, p4], _ =>
      rw [hsp] at h hj
      obtain ⟨a, b, c, d, h1, h2, h3, h4, rfl⟩ := (parseOctets_four _ _ _ _ _).mp h
      rw [parseOctet_iff] at h1 h2 h3 h4
      refine ⟨a, b, c, d, h1.1, h2.1, h3.1, h4.1, rfl, ?_⟩
      rw [quad_eq, ← h1.2, ← h2.2, ← h3.2, ← h4.2, hj]
  · rintro ⟨a, b, c, d, ha, hb, hc, hd, rfl, rfl⟩
    have hdot : ∀ n, '.' ∉ Spec.decimal n := fun n => not_mem_decimal n '.' (by decide)
    have hsp : splitOn '.' (quad a b c d) =
        [Spec.decimal a, Spec.decimal b, Spec.decimal c, Spec.decimal d] := by
      rw [quad_eq]
      exact splitOn_joinSep '.' _ (by simp) (by simp [hdot])
    have hslash : (quad a b c d).contains '/' = false := by
      rw [Bool.eq_false_iff]
      intro hm
      rw [List.contains_iff_mem] at hm
      rcases mem_quad a b c d _ hm with h | h
      · exact absurd h (by decide)
      · exact absurd h (by decide)
    have hne : (quad a b c d).isEmpty = false := by
      cases hq : quad a b c d with
      | nil =>
        have := congrArg (splitOn '.') hq
        rw [hsp] at this
        simp [splitOn] at this
      | cons => rfl
    unfold ipv4Parse
    rw [hslash, hne, hsp]
    simp only [Bool.false_eq_true, if_false]
    rw [if_neg (by simp)]
    rw [parseOctets_four]
    exact ⟨a, b, c, d, (parseOctet_iff _ _).mpr ⟨ha, rfl⟩, (parseOctet_iff _ _).mpr ⟨hb, rfl⟩,
      (parseOctet_iff _ _).mpr ⟨hc, rfl⟩, (parseOctet_iff _ _).mpr ⟨hd, rfl⟩, rfl⟩

theorem fmtIpv4_iff (s : Str) : fmtIpv4 (.str s) = .ret true ↔ Spec.isIpv4Text s := by
  simp only [fmtIpv4]
  constructor
  · intro h
    cases hp : ipv4Parse s with
    | none => rw [hp] at h; cases h
    | some l =>
      obtain ⟨a, b, c, d, ha, hb, hc, hd, _, hs⟩ := (ipv4Parse_iff s l).mp hp
      exact ⟨a, b, c, d, ha, hb, hc, hd, hs⟩
  · rintro ⟨a, b, c, d, ha, hb, hc, hd, hs⟩
    rw [(ipv4Parse_iff s [a, b, c, d]).mpr ⟨a, b, c, d, ha, hb, hc, hd, rfl, hs⟩]

/-! ### (d) dates -/

theorem digitsVal_replicate_zero (k : Nat) (q : Str) :
    digitsVal (List.replicate k '0' ++ q) = digitsVal q := by
  induction k with
  | zero => rfl
  | succ k ih => rw [List.replicate_succ, List.cons_append, digitsVal_zero_cons, ih]

theorem digitsVal_lt (p : Str) (hall : p.all isDigit = true) : digitsVal p < 10 ^ p.length := by
  induction p using List.reverseRecOn with
  | nil => simp [digitsVal]
  | append_singleton s d ih =>
    simp only [List.all_append, List.all_cons, List.all_nil, Bool.and_true, Bool.and_eq_true] at hall
    obtain ⟨_, g2⟩ := digit_char_eq d hall.2
    have := ih hall.1
    rw [digitsVal_snoc, List.length_append, List.length_singleton, Nat.pow_succ]
    omega

theorem pad_props (w n : Nat) (hw : 0 < w) (h : n < 10 ^ w) :
    (Spec.pad w n).length = w ∧ (Spec.pad w n).all isDigit = true ∧ digitsVal (Spec.pad w n) = n := by
  have hl : (Spec.decimal n).length ≤ w := (Nat.length_toDigits_le_iff (by decide) hw).mpr h
  refine ⟨?_, ?_, ?_⟩
  · simp only [Spec.pad, List.length_append, List.length_replicate]; omega
  · simp only [Spec.pad, List.all_append, Bool.and_eq_true, decimal_all_digit, and_true]
    simp only [List.all_replicate]
    split <;> decide
  · rw [Spec.pad, digitsVal_replicate_zero]; exact (toDigits_props n).2.1

theorem pad_digitsVal (p : Str) (hall : p.all isDigit = true) (hne : p ≠ []) :
    Spec.pad p.length (digitsVal p) = p := by
  induction p with
  | nil => exact absurd rfl hne
  | cons c rest ih =>
    simp only [List.all_cons, Bool.and_eq_true] at hall
    obtain ⟨hc, hrest⟩ := hall
    cases hr : rest with
    | nil =>
      obtain ⟨g1, g2⟩ := digit_char_eq c hc
      have hv : digitsVal [c] = c.toNat - '0'.toNat := by simp [digitsVal]
      rw [hv]
      simp only [Spec.pad, Spec.decimal, Nat.toDigits_of_lt_base g2, g1]
      rfl
    | cons c2 r2 =>
      rw [← hr]
      have hne' : rest ≠ [] := by rw [hr]; simp
      have ih' := ih hrest hne'
      rcases digit_zero_or_pos c hc with rfl | hpos
      · rw [digitsVal_zero_cons]
        have hlen : (Spec.decimal (digitsVal rest)).length ≤ rest.length := by
          have := congrArg List.length ih'
          simp only [Spec.pad, List.length_append, List.length_replicate] at this
          omega
        unfold Spec.pad at ih' ⊢
        rw [List.length_cons,
          show rest.length + 1 - (Spec.decimal (digitsVal rest)).length
            = (rest.length - (Spec.decimal (digitsVal rest)).length) + 1 by omega,
          List.replicate_succ, List.cons_append, ih']
      · have := (toDigits_digitsVal (c :: rest) (by simp [hc, hrest]) c rest rfl hpos).1
        unfold Spec.pad Spec.decimal
        rw [this]
        simp

theorem isLeap_iff (y : Nat) : isLeap y = true ↔ Spec.leapYear y := by
  simp only [isLeap, Spec.leapYear, Bool.and_eq_true, Bool.or_eq_true, beq_iff_eq, bne_iff_ne]
  omega

theorem pyDaysInMonth_eq (y m : Nat) (h1 : 1 ≤ m) (h2 : m ≤ 12) :
    pyDaysInMonth y m = Spec.daysInMonth y m := by
  unfold pyDaysInMonth Spec.daysInMonth
  by_cases hl : Spec.leapYear y
  · have := (isLeap_iff y).mpr hl
    interval_cases m <;> simp [this, hl]
  · have : isLeap y = false := by
      rw [Bool.eq_false_iff, Ne, isLeap_iff]; exact hl
    interval_cases m <;> simp [this, hl]

theorem daysInMonth_le (y m : Nat) : Spec.daysInMonth y m ≤ 31 := by
  unfold Spec.daysInMonth
  split
  · split <;> omega
  · split <;> omega

theorem length_four (p : Str) (h : p.length = 4) : ∃ a b c d, p = [a, b, c, d] := by
  match p, h with
  | [a, b, c, d], _ => exact ⟨a, b, c, d, rfl⟩

theorem length_two (p : Str) (h : p.length = 2) : ∃ a b, p = [a, b] := by
  match p, h with
  | [a, b], _ => exact ⟨a, b, rfl⟩

/-- the year-guarded grammar (Python's `MINYEAR = 1`) -/
def fullDateFrom1 (s : Str) : Prop :=
  ∃ y m d : Nat, 1 ≤ y ∧ y ≤ 9999 ∧ 1 ≤ m ∧ m ≤ 12 ∧ 1 ≤ d ∧ d ≤ Spec.daysInMonth y m ∧
    s = Spec.pad 4 y ++ ['-'] ++ Spec.pad 2 m ++ ['-'] ++ Spec.pad 2 d

theorem fmtDate_iff (s : Str) : fmtDate (.str s) = .ret true ↔ fullDateFrom1 s := by
  constructor
  · intro h
    simp only [fmtDate] at h
    split at h
    · rename_i y1 y2 y3 y4 s1 m1 m2 s2 d1 d2
      split at h
      · rename_i hcond
        split at h
        · rename_i hr
          simp only [Bool.and_eq_true, beq_iff_eq, decide_eq_true_eq, List.all_cons, List.all_nil,
            Bool.and_true] at hcond hr
          obtain ⟨⟨rfl, rfl⟩, a1, a2, a3, a4, a5, a6, a7, a8⟩ := hcond
          obtain ⟨⟨⟨⟨r1, r2⟩, r3⟩, r4⟩, r5⟩ := hr
          have hy := digitsVal_lt [y1, y2, y3, y4] (by simp [a1, a2, a3, a4])
          have py := pad_digitsVal [y1, y2, y3, y4] (by simp [a1, a2, a3, a4]) (by simp)
          have pm := pad_digitsVal [m1, m2] (by simp [a5, a6]) (by simp)
          have pd := pad_digitsVal [d1, d2] (by simp [a7, a8]) (by simp)
          refine ⟨digitsVal [y1, y2, y3, y4], digitsVal [m1, m2], digitsVal [d1, d2], r1, ?_, r2, r3, r4,
            ?_, ?_⟩
          · simp only [List.length_cons, List.length_nil] at hy; omega
          · rw [← pyDaysInMonth_eq _ _ r2 r3]; exact r5
          · simp only [List.length_cons, List.length_nil, Nat.zero_add, Nat.reduceAdd] at py pm pd
            rw [py, pm, pd]; rfl
        · cases h
      · cases h
    · cases h
  · rintro ⟨y, m, d, hy1, hy2, hm1, hm2, hd1, hd2, rfl⟩
    have hd3 := daysInMonth_le y m
    obtain ⟨ly, ay, vy⟩ := pad_props 4 y (by decide) (by omega)
    obtain ⟨lm, am, vm⟩ := pad_props 2 m (by decide) (by omega)
    obtain ⟨ld, ad, vd⟩ := pad_props 2 d (by decide) (by omega)
    obtain ⟨y1, y2, y3, y4, ey⟩ := length_four _ ly
    obtain ⟨m1, m2, em⟩ := length_two _ lm
    obtain ⟨d1, d2, ed⟩ := length_two _ ld
    rw [ey] at ay vy
    rw [em] at am vm
    rw [ed] at ad vd
    rw [ey, em, ed]
    simp only [List.all_cons, List.all_nil, Bool.and_true, Bool.and_eq_true] at ay am ad
    have hdm : d ≤ pyDaysInMonth y m := by rw [pyDaysInMonth_eq _ _ hm1 hm2]; exact hd2
    simp only [List.cons_append, List.nil_append, fmtDate, vy, vm, vd]
    simp [ay, am, ad, hy1, hm1, hm2, hd1, hdm]

/-! ### (e) result shapes, non-strings, `FormatChecker.check` -/

/-- the exception class a modelled format function is registered with (`raises=` in `_format.py`) -/
def listedRaises : FmtFn → Option String
  | .ipv4 => some "AddressValueError"
  | .ipv6 => some "AddressValueError"
  | .date => some "ValueError"
  | .email => none
  | .oracle => none

theorem fmtIpv4_cases (s : Str) :
    fmtIpv4 (.str s) = .ret true ∨ fmtIpv4 (.str s) = .raise addrValueErrorMro := by
  simp only [fmtIpv4]
  cases ipv4Parse s <;> simp

theorem fmtIpv6_cases (s : Str) :
    (∃ b, fmtIpv6 (.str s) = .ret b) ∨ fmtIpv6 (.str s) = .raise addrValueErrorMro := by
  simp only [fmtIpv6]
  cases ipv6Address s <;> simp

theorem fmtDate_cases (s : Str) :
    (∃ b, fmtDate (.str s) = .ret b) ∨ fmtDate (.str s) = .raise valueErrorMro := by
  simp only [fmtDate]
  split
  · split
    · split <;> simp
    · simp
  · simp

theorem builtin_result (f : FmtFn) (j : Json) (r : FmtRes) (hr : builtinImpl.run f j = some r) :
    (∃ b, r = .ret b) ∨ ∃ c mro, listedRaises f = some c ∧ r = .raise mro ∧ c ∈ mro := by
  cases j with
  | str s =>
    cases f with
    | email => simp only [builtinImpl, Option.some.injEq] at hr; subst hr; exact .inl ⟨_, rfl⟩
    | ipv4 =>
      simp only [builtinImpl, Option.some.injEq] at hr; subst hr
      rcases fmtIpv4_cases s with h | h
      · exact .inl ⟨_, h⟩
      · exact .inr ⟨_, _, rfl, h, by decide⟩
    | ipv6 =>
      simp only [builtinImpl, Option.some.injEq] at hr; subst hr
      rcases fmtIpv6_cases s with ⟨b, h⟩ | h
      · exact .inl ⟨_, h⟩
      · exact .inr ⟨_, _, rfl, h, by decide⟩
    | date =>
      simp only [builtinImpl, Option.some.injEq] at hr; subst hr
      rcases fmtDate_cases s with ⟨b, h⟩ | h
      · exact .inl ⟨_, h⟩
      · exact .inr ⟨_, _, rfl, h, by decide⟩
    | oracle => simp [builtinImpl] at hr
  | _ =>
    left
    cases f <;> simp only [builtinImpl, Option.some.injEq, reduceCtorEq] at hr <;> subst hr <;>
      exact ⟨_, rfl⟩

theorem builtin_nonstring (f : FmtFn) (j : Json) (h : j.isStr = false) (r : FmtRes)
    (hr : builtinImpl.run f j = some r) : r = .ret true := by
  cases j with
  | str s => simp [Json.isStr] at h
  | _ =>
    cases f <;> simp only [builtinImpl, Option.some.injEq, reduceCtorEq] at hr <;> subst hr <;> rfl

/-- every registration of a modelled function in the generated tables lists its exception class -/
def entryOk (e : FmtEntry) : Bool :=
  match listedRaises e.fn with
  | some c => e.raises.contains c
  | none => true

def builtinTables : List FormatChecker :=
  [Generated.d3Formats, Generated.d4Formats, Generated.d6Formats, Generated.d7Formats,
    Generated.classFormats]

theorem tables_entryOk : ∀ fc ∈ builtinTables, fc.checkers.all entryOk = true := by decide

theorem fmtCheck_ok (env : Env) (fc : FormatChecker) (hfc : fc.checkers.all entryOk = true)
    (inst : Json) (name : Str) (e : FmtEntry) (he : fc.find name = some e) (hm : e.fn ≠ .oracle) :
    ∃ r, fmtCheck env builtinImpl fc inst name = .ok r := by
  have hmem : e ∈ fc.checkers := List.mem_of_find?_eq_some he
  have hok := List.all_eq_true.mp hfc e hmem
  obtain ⟨r, hr⟩ : ∃ r, builtinImpl.run e.fn inst = some r := by
    cases hf : e.fn <;> simp_all [builtinImpl]
  unfold fmtCheck
  rw [he]
  simp only [runFmt, hr]
  rcases builtin_result e.fn inst r hr with ⟨b, rfl⟩ | ⟨c, mro, hc, rfl, hin⟩
  · exact ⟨_, rfl⟩
  · simp only [entryOk, hc] at hok
    have : mro.any (fun c => e.raises.contains c) = true :=
      List.any_eq_true.mpr ⟨c, hin, hok⟩
    simp only [this, if_true]
    exact ⟨_, rfl⟩

/-! ### (f) IPv6: hextets -/

theorem hexDigits_iff (c : Char) : hexDigits.contains c = true ↔ c ∈ Spec.hexChars := by
  rw [List.contains_iff_mem]
  constructor
  · revert c; decide
  · revert c; decide

theorem hextetOk_iff (p : Str) : hextetOk p = true ↔ Spec.isHexGroup p := by
  unfold hextetOk Spec.isHexGroup
  simp only [Bool.and_eq_true, List.all_eq_true, hexDigits_iff, decide_eq_true_eq, Bool.not_eq_true',
    List.isEmpty_eq_false_iff]
  constructor
  · rintro ⟨⟨h1, h2⟩, h3⟩
    exact ⟨List.length_pos_iff.mpr h3, h2, h1⟩
  · rintro ⟨h1, h2, h3⟩
    exact ⟨⟨h3, h2⟩, List.length_pos_iff.mp h1⟩

theorem hextetOk_ne_nil (p : Str) (h : hextetOk p = true) : p ≠ [] := by
  rintro rfl; exact absurd h (by decide)

theorem digitChar_hex : ∀ d, d < 16 → hexDigits.contains (Nat.digitChar d) = true := by decide

theorem toDigits16_mem (n : Nat) : ∀ c ∈ Nat.toDigits 16 n, hexDigits.contains c = true := by
  induction n using Nat.strongRecOn with
  | _ n ih =>
    rw [Nat.toDigits_eq_if (by decide)]
    by_cases hn : n < 16
    · rw [if_pos hn]
      intro c hc
      rw [List.mem_singleton] at hc
      subst hc
      exact digitChar_hex n hn
    · rw [if_neg hn]
      intro c hc
      rcases List.mem_append.mp hc with hc | hc
      · exact ih (n / 16) (by omega) c hc
      · rw [List.mem_singleton] at hc
        subst hc
        exact digitChar_hex _ (by omega)

theorem hexStr_ok (n : Nat) (h : n < 65536) : hextetOk (hexStr n) = true := by
  unfold hextetOk hexStr
  have h1 : (Nat.toDigits 16 n).length ≤ 4 :=
    (Nat.length_toDigits_le_iff (by decide) (by decide)).mpr (by omega)
  simp only [Bool.and_eq_true, List.all_eq_true, decide_eq_true_eq, Bool.not_eq_true',
    List.isEmpty_eq_false_iff]
  exact ⟨⟨toDigits16_mem n, h1⟩, Nat.toDigits_ne_nil⟩

/-! ### (g) IPv6: the positions of empty parts -/

theorem emptiesFrom_noEmpty (k : Nat) (l : List Str) (h : ∀ p ∈ l, p ≠ []) : emptiesFrom k l = [] := by
  induction l generalizing k with
  | nil => rfl
  | cons p ps ih =>
    have hp : p.isEmpty = false := by
      rw [List.isEmpty_eq_false_iff]; exact h p (by simp)
    simp only [emptiesFrom, hp, Bool.false_eq_true, if_false]
    exact ih _ (fun q hq => h q (List.mem_cons_of_mem _ hq))

theorem emptiesFrom_eq_nil (k : Nat) (l : List Str) (h : emptiesFrom k l = []) : ∀ p ∈ l, p ≠ [] := by
  induction l generalizing k with
  | nil => simp
  | cons p ps ih =>
    simp only [emptiesFrom] at h
    split at h
    · cases h
    · rename_i hp
      intro q hq
      rcases List.mem_cons.mp hq with rfl | hq
      · rintro rfl; exact hp rfl
      · exact ih _ h q hq

theorem emptiesFrom_mid (k : Nat) (A B : List Str) (hA : ∀ p ∈ A, p ≠ []) (hB : ∀ p ∈ B, p ≠ []) :
    emptiesFrom k (A ++ [] :: B) = [k + A.length] := by
  induction A generalizing k with
  | nil => simp [emptiesFrom, emptiesFrom_noEmpty _ B hB]
  | cons p ps ih =>
    have hp : p.isEmpty = false := by
      rw [List.isEmpty_eq_false_iff]; exact hA p (by simp)
    simp only [List.cons_append, emptiesFrom, hp, Bool.false_eq_true, if_false]
    rw [ih _ (fun q hq => hA q (List.mem_cons_of_mem _ hq)), List.length_cons]
    congr 1; omega

theorem emptiesFrom_singleton (k : Nat) (l : List Str) (i : Nat) (h : emptiesFrom k l = [i]) :
    ∃ A B, l = A ++ [] :: B ∧ i = k + A.length ∧ (∀ p ∈ A, p ≠ []) ∧ (∀ p ∈ B, p ≠ []) := by
  induction l generalizing k with
  | nil => cases h
  | cons p ps ih =>
    simp only [emptiesFrom] at h
    split at h
    · rename_i hp
      rw [List.isEmpty_iff] at hp
      subst hp
      simp only [List.cons.injEq] at h
      exact ⟨[], ps, rfl, by simp [h.1], by simp, emptiesFrom_eq_nil _ _ h.2⟩
    · rename_i hp
      obtain ⟨A, B, rfl, hi, hA, hB⟩ := ih _ h
      refine ⟨p :: A, B, rfl, by simp only [List.length_cons]; omega, ?_, hB⟩
      intro q hq
      rcases List.mem_cons.mp hq with rfl | hq
      · rintro rfl; exact hp rfl
      · exact hA q hq

/-! ### (h) IPv6: the part list after the suffix step -/

/-- the closed form of the `[skip]` branch of `ipv6PartsOk` -/
theorem partsOk_of_empties_singleton (parts : List Str) (skip : Nat)
    (h : emptiesFrom 1 parts.tail.dropLast = [skip]) :
    ipv6PartsOk parts =
      (if parts.length > 9 then false else
        if ((parts.headD []).isEmpty &&
              (if (parts.headD []).isEmpty then skip - 1 else skip) != 0) then false
        else if ((parts.getLastD []).isEmpty &&
              (if (parts.getLastD []).isEmpty then parts.length - skip - 1 - 1
                else parts.length - skip - 1) != 0) then false
        else if (if (parts.headD []).isEmpty then skip - 1 else skip) +
              (if (parts.getLastD []).isEmpty then parts.length - skip - 1 - 1
                else parts.length - skip - 1) ≥ 8 then false
        else (parts.take (if (parts.headD []).isEmpty then skip - 1 else skip)).all hextetOk &&
          (parts.drop (parts.length - (if (parts.getLastD []).isEmpty then parts.length - skip - 1 - 1
                else parts.length - skip - 1))).all hextetOk) := by
  unfold ipv6PartsOk
  rw [h]

theorem partsOk_skip (p0 pl : Str) (A B : List Str) (hA : ∀ p ∈ A, p ≠ []) (hB : ∀ p ∈ B, p ≠ []) :
    ipv6PartsOk (p0 :: (A ++ [] :: B) ++ [pl]) = true ↔
      (p0 = [] → A = []) ∧ (pl = [] → B = []) ∧
      ((if p0 = [] then 0 else 1 + A.length) + (if pl = [] then 0 else B.length + 1) ≤ 7) ∧
      (p0 ≠ [] → ∀ p ∈ p0 :: A, hextetOk p = true) ∧ (pl ≠ [] → ∀ p ∈ B ++ [pl], hextetOk p = true) := by
  have hmid : (p0 :: (A ++ [] :: B) ++ [pl]).tail.dropLast = A ++ [] :: B := by
    show ((A ++ [] :: B) ++ [pl]).dropLast = _
    exact List.dropLast_concat
  have hE := emptiesFrom_mid 1 A B hA hB
  rw [← hmid] at hE
  rw [partsOk_of_empties_singleton _ _ hE]
  have hlen : (p0 :: (A ++ [] :: B) ++ [pl]).length = A.length + B.length + 3 := by
    simp only [List.cons_append, List.length_cons, List.length_append, List.length_nil]; omega
  have hhead : (p0 :: (A ++ [] :: B) ++ [pl]).headD [] = p0 := rfl
  have hlast : (p0 :: (A ++ [] :: B) ++ [pl]).getLastD [] = pl := by
    show ((p0 :: (A ++ [] :: B)) ++ [pl]).getLastD [] = pl
    rw [List.getLastD_eq_getLast?, List.getLast?_concat]; rfl
  have htake : (p0 :: (A ++ [] :: B) ++ [pl]).take (1 + A.length) = p0 :: A := by
    have : p0 :: (A ++ [] :: B) ++ [pl] = (p0 :: A) ++ ([] :: B ++ [pl]) := by simp
    rw [this]; exact List.take_left' (by simp; omega)
  have hdrop : (p0 :: (A ++ [] :: B) ++ [pl]).drop (A.length + 2) = B ++ [pl] := by
    have : p0 :: (A ++ [] :: B) ++ [pl] = (p0 :: A ++ [[]]) ++ (B ++ [pl]) := by simp
    rw [this]; exact List.drop_left' (by simp)
  have hdropAll : ∀ x ∈ (p0 :: (A ++ [] :: B) ++ [pl]).drop (A.length + B.length + 3),
      hextetOk x = true := by
    rw [List.drop_eq_nil_of_le (by omega)]; simp
  rw [hlen, hhead, hlast]
  have e1 : A.length + B.length + 3 - (1 + A.length) - 1 = B.length + 1 := by omega
  have e3 : 1 + A.length - 1 = A.length := by omega
  rw [e1, e3]
  simp only [Nat.add_sub_cancel]
  generalize p0 :: (A ++ [] :: B) ++ [pl] = L at htake hdrop hdropAll
  by_cases h0 : p0 = [] <;> by_cases hl : pl = []
  · subst h0; subst hl
    cases A <;> cases B <;> simp_all
  · subst h0
    have hl' : pl.isEmpty = false := by rw [List.isEmpty_eq_false_iff]; exact hl
    cases A with
    | cons a A' => simp
    | nil =>
      simp only [List.length_nil, Nat.zero_add, Nat.add_zero] at hdrop ⊢
      have e4 : B.length + 3 - (B.length + 1) = 2 := by omega
      simp only [List.isEmpty_nil, hl', if_true, Bool.false_eq_true, if_false, e4, hdrop]
      simp [hl]
      intro hb
      constructor
      · rintro ⟨_, h1, h2⟩ p (hp | rfl)
        · exact h1 p hp
        · exact h2
      · intro h; exact ⟨by omega, fun x hx => h x (.inl hx), h pl (.inr rfl)⟩
  · subst hl
    have h0' : p0.isEmpty = false := by rw [List.isEmpty_eq_false_iff]; exact h0
    cases B with
    | cons b B' => simp
    | nil =>
      simp only [List.isEmpty_nil, h0', if_true, Bool.false_eq_true, if_false, htake, List.length_nil,
        Nat.sub_zero]
      simp only [List.length_nil, Nat.add_zero] at hdropAll
      simp [h0]
      constructor
      · rintro ⟨_, _, h, _⟩; exact ⟨by omega, h⟩
      · rintro ⟨h1, h2⟩; exact ⟨by omega, by omega, h2, hdropAll⟩
  · have h0' : p0.isEmpty = false := by rw [List.isEmpty_eq_false_iff]; exact h0
    have hl' : pl.isEmpty = false := by rw [List.isEmpty_eq_false_iff]; exact hl
    have e4 : A.length + B.length + 3 - (B.length + 1) = A.length + 2 := by omega
    simp only [h0', hl', Bool.false_eq_true, if_false, htake, e4, hdrop]
    simp [h0, hl]
    constructor
    · rintro ⟨_, _, h1, h2, h3⟩
      exact ⟨by omega, h1, fun p hp => hp.elim (h2 p) (fun e => e ▸ h3)⟩
    · rintro ⟨h, h1, h2⟩
      exact ⟨by omega, by omega, h1, fun x hx => h2 x (.inl hx), h2 pl (.inr rfl)⟩

theorem partsOk_noskip (parts : List Str) (hl : parts.length = 8)
    (h : ∀ p ∈ parts, hextetOk p = true) : ipv6PartsOk parts = true := by
  have hne : ∀ p ∈ parts, p ≠ [] := fun p hp => hextetOk_ne_nil p (h p hp)
  have hE : emptiesFrom 1 parts.tail.dropLast = [] :=
    emptiesFrom_noEmpty _ _ (fun p hp => hne p (List.mem_of_mem_tail (List.dropLast_subset _ hp)))
  unfold ipv6PartsOk
  rw [hE]
  match parts, hl with
  | [a, b, c, d, e, f, g, i], _ =>
    have ha : a ≠ [] := hne a (by simp)
    have hi : i ≠ [] := hne i (by simp)
    simp only [List.mem_cons, List.not_mem_nil, or_false, forall_eq_or_imp, forall_eq] at h
    simp [ha, hi, h]

/-- a `::` written at the very start / end leaves an empty first / last part -/
def wrapE (l : List Str) : List Str := if l = [] then [[]] else l

theorem of_tail_dropLast (parts M : List Str) (h : parts.tail.dropLast = M) (hM : M ≠ []) :
    ∃ p0 pl, parts = p0 :: M ++ [pl] := by
  cases parts with
  | nil => simp at h; exact absurd h hM
  | cons p0 t =>
    have ht : t ≠ [] := by
      rintro rfl; simp at h; exact hM h
    refine ⟨p0, t.getLast ht, ?_⟩
    simp only [List.tail_cons] at h
    rw [← h, List.cons_append, List.dropLast_concat_getLast]

theorem partsOk_iff (parts : List Str) :
    ipv6PartsOk parts = true ↔
      (parts.length = 8 ∧ ∀ p ∈ parts, hextetOk p = true) ∨
      ∃ pre post, (∀ p ∈ pre, hextetOk p = true) ∧ (∀ p ∈ post, hextetOk p = true) ∧
        pre.length + post.length ≤ 7 ∧ parts = wrapE pre ++ [] :: wrapE post := by
  constructor
  · intro h
    cases hE : emptiesFrom 1 parts.tail.dropLast with
    | nil =>
      left
      unfold ipv6PartsOk at h
      rw [hE] at h
      simp only [gt_iff_lt, bne_iff_ne, ne_eq, ite_not, Bool.if_false_left, Bool.if_false_right,
        Bool.and_eq_true, decide_eq_true_eq, Bool.not_eq_true', List.all_eq_true] at h
      exact ⟨h.2.1, h.2.2.2.2⟩
    | cons i rest =>
      cases rest with
      | cons j rest' =>
        unfold ipv6PartsOk at h
        rw [hE] at h
        simp at h
      | nil =>
        right
        obtain ⟨A, B, hM, _, hA, hB⟩ := emptiesFrom_singleton _ _ _ hE
        obtain ⟨p0, pl, rfl⟩ := of_tail_dropLast parts _ hM (by simp)
        obtain ⟨c1, c2, c3, c4, c5⟩ := (partsOk_skip p0 pl A B hA hB).mp h
        by_cases h0 : p0 = [] <;> by_cases hl : pl = []
        · obtain rfl := c1 h0
          obtain rfl := c2 hl
          subst h0; subst hl
          exact ⟨[], [], by simp, by simp, by simp, by simp [wrapE]⟩
        · obtain rfl := c1 h0
          subst h0
          rw [if_pos rfl, if_neg hl] at c3
          refine ⟨[], B ++ [pl], by simp, c5 hl, by simp at c3 ⊢; omega, by simp [wrapE]⟩
        · obtain rfl := c2 hl
          subst hl
          rw [if_neg h0, if_pos rfl] at c3
          refine ⟨p0 :: A, [], c4 h0, by simp, by simp at c3 ⊢; omega, by simp [wrapE]⟩
        · rw [if_neg h0, if_neg hl] at c3
          refine ⟨p0 :: A, B ++ [pl], c4 h0, c5 hl, by simp at c3 ⊢; omega, by simp [wrapE]⟩
  · rintro (⟨hl, h⟩ | ⟨pre, post, hpre, hpost, hlen, rfl⟩)
    · exact partsOk_noskip parts hl h
    · have nePre : ∀ p ∈ pre, p ≠ [] := fun p hp => hextetOk_ne_nil p (hpre p hp)
      have nePost : ∀ p ∈ post, p ≠ [] := fun p hp => hextetOk_ne_nil p (hpost p hp)
      cases pre with
      | nil =>
        rcases List.eq_nil_or_concat post with rfl | ⟨B, pl, hc⟩
        · exact (partsOk_skip [] [] [] [] (by simp) (by simp)).mpr (by simp)
        · rw [List.concat_eq_append] at hc; subst hc
          have hpl : pl ≠ [] := nePost pl (by simp)
          have := (partsOk_skip [] pl [] B (by simp)
            (fun p hp => nePost p (by simp [hp]))).mpr
            ⟨by simp, by simp [hpl], by simp [hpl] at hlen ⊢; omega, by simp, fun _ => hpost⟩
          simpa [wrapE] using this
      | cons p0 A =>
        have hp0 : p0 ≠ [] := nePre p0 (by simp)
        rcases List.eq_nil_or_concat post with rfl | ⟨B, pl, hc⟩
        · have := (partsOk_skip p0 [] A [] (fun p hp => nePre p (by simp [hp])) (by simp)).mpr
            ⟨by simp [hp0], by simp, by simp [hp0] at hlen ⊢; omega, fun _ => hpre, by simp⟩
          simpa [wrapE] using this
        · rw [List.concat_eq_append] at hc; subst hc
          have hpl : pl ≠ [] := nePost pl (by simp)
          have := (partsOk_skip p0 pl A B (fun p hp => nePre p (by simp [hp]))
            (fun p hp => nePost p (by simp [hp]))).mpr
            ⟨by simp [hp0], by simp [hpl], by simp [hp0, hpl] at hlen ⊢; omega, fun _ => hpre,
              fun _ => hpost⟩
          simpa [wrapE] using this

/-! ### (i) IPv6: joining, the IPv4 suffix step -/

theorem joinSep_append (c : Char) (X Y : List Str) (hX : X ≠ []) (hY : Y ≠ []) :
    joinSep c (X ++ Y) = joinSep c X ++ c :: joinSep c Y := by
  induction X with
  | nil => exact absurd rfl hX
  | cons x X' ih =>
    cases X' with
    | nil =>
      simp only [List.cons_append, List.nil_append]
      rw [joinSep_cons_ne c x Y hY]; rfl
    | cons x' X'' =>
      have := ih (by simp)
      simp only [List.cons_append, joinSep] at this ⊢
      rw [this]; simp

theorem wrapE_ne_nil (l : List Str) : wrapE l ≠ [] := by
  unfold wrapE; split <;> simp [*]

theorem wrapE_of_ne (l : List Str) (h : l ≠ []) : wrapE l = l := by
  unfold wrapE; rw [if_neg h]

theorem joinSep_wrapE (c : Char) (l : List Str) : joinSep c (wrapE l) = joinSep c l := by
  unfold wrapE; split
  · subst_vars; rfl
  · rfl

theorem joinSep_skip (pre post : List Str) :
    joinSep ':' (wrapE pre ++ [] :: wrapE post) =
      joinSep ':' pre ++ [':', ':'] ++ joinSep ':' post := by
  rw [joinSep_append _ _ _ (wrapE_ne_nil pre) (by simp), joinSep_wrapE,
    show ([] : Str) :: wrapE post = [[]] ++ wrapE post from rfl,
    joinSep_append _ _ _ (by simp) (wrapE_ne_nil post), joinSep_wrapE]
  simp [joinSep]

theorem mem_joinSep (c : Char) (l : List Str) (x : Char) (h : x ∈ joinSep c l) :
    x = c ∨ ∃ g ∈ l, x ∈ g := by
  induction l with
  | nil => simp [joinSep] at h
  | cons g gs ih =>
    cases gs with
    | nil => exact .inr ⟨g, by simp, h⟩
    | cons g' gs' =>
      simp only [joinSep, List.mem_append, List.mem_cons] at h
      rcases h with h | h | h
      · exact .inr ⟨g, by simp, h⟩
      · exact .inl h
      · rcases ih h with h | ⟨g2, hg2, hx⟩
        · exact .inl h
        · exact .inr ⟨g2, List.mem_cons_of_mem _ hg2, hx⟩

theorem ipv6Tail_noDot (parts : List Str) (h : ∀ p ∈ parts, p.contains '.' = false) :
    ipv6Tail parts = some parts := by
  unfold ipv6Tail
  split
  · rfl
  · rename_i last hlast
    rw [h last (List.mem_of_getLast? hlast)]
    rfl

theorem dot_mem_quad (a b c d : Nat) : (quad a b c d).contains '.' = true := by
  rw [List.contains_iff_mem]; simp [quad]

theorem ipv6Tail_quad (front : List Str) (a b c d : Nat) (ha : a < 256) (hb : b < 256)
    (hc : c < 256) (hd : d < 256) :
    ipv6Tail (front ++ [quad a b c d]) =
      some (front ++ [hexStr (a * 256 + b), hexStr (c * 256 + d)]) := by
  unfold ipv6Tail
  rw [List.getLast?_concat]
  simp only [dot_mem_quad, if_true, List.dropLast_concat]
  rw [(ipv4Parse_iff _ [a, b, c, d]).mpr ⟨a, b, c, d, ha, hb, hc, hd, rfl, rfl⟩]

theorem ipv6Tail_some (front : List Str) (last : Str) (parts' : List Str)
    (h : ipv6Tail (front ++ [last]) = some parts') :
    (last.contains '.' = false ∧ parts' = front ++ [last]) ∨
    ∃ a b c d, a < 256 ∧ b < 256 ∧ c < 256 ∧ d < 256 ∧ last = quad a b c d ∧
      parts' = front ++ [hexStr (a * 256 + b), hexStr (c * 256 + d)] := by
  unfold ipv6Tail at h
  rw [List.getLast?_concat] at h
  simp only [List.dropLast_concat] at h
  split at h
  · right
    cases hp : ipv4Parse last with
    | none => rw [hp] at h; cases h
    | some l =>
      obtain ⟨a, b, c, d, ha, hb, hc, hd, rfl, hq⟩ := (ipv4Parse_iff last l).mp hp
      rw [hp] at h
      simp only [Option.some.injEq] at h
      exact ⟨a, b, c, d, ha, hb, hc, hd, hq, h.symm⟩
  · left
    rename_i hd
    simp only [Option.some.injEq] at h
    exact ⟨by simpa using hd, h.symm⟩

/-! ### (j) IPv6: `_ip_int_from_string` against the grammar -/

theorem ipv6Ok_of_parts (parts parts' : List Str) (hlen : 3 ≤ parts.length)
    (hc : ∀ p ∈ parts, ':' ∉ p) (ht : ipv6Tail parts = some parts')
    (hok : ipv6PartsOk parts' = true) : ipv6Ok (joinSep ':' parts) = true := by
  have hne : parts ≠ [] := by rintro rfl; simp at hlen
  have hsp := splitOn_joinSep ':' parts hne hc
  have hnil : (joinSep ':' parts).isEmpty = false := by
    rw [List.isEmpty_eq_false_iff]
    intro h
    rw [h] at hsp
    rw [← hsp] at hlen
    simp [splitOn] at hlen
  unfold ipv6Ok
  rw [hnil, hsp, ht]
  simp only [Bool.false_eq_true, if_false]
  rw [if_neg (by omega)]
  exact hok

theorem ipv6Ok_parts (s : Str) (h : ipv6Ok s = true) :
    ∃ parts', 3 ≤ (splitOn ':' s).length ∧ ipv6Tail (splitOn ':' s) = some parts' ∧
      ipv6PartsOk parts' = true := by
  unfold ipv6Ok at h
  split at h; · cases h
  split at h; · cases h
  rename_i _ hlen
  split at h
  · cases h
  · rename_i parts' ht
    exact ⟨parts', by omega, ht, h⟩

theorem colon_not_mem_hexGroup (g : Str) (hg : Spec.isHexGroup g) : ':' ∉ g :=
  fun h => absurd (hg.2.2 _ h) (by decide)

theorem dot_not_mem_hexGroup (g : Str) (hg : Spec.isHexGroup g) : g.contains '.' = false := by
  rw [Bool.eq_false_iff, Ne, List.contains_iff_mem]
  exact fun h => absurd (hg.2.2 _ h) (by decide)

theorem colon_not_mem_quad (a b c d : Nat) : ':' ∉ quad a b c d := by
  intro h
  rcases mem_quad a b c d _ h with h | h
  · exact absurd h (by decide)
  · exact absurd h (by decide)

theorem isIpv4Text_quad (t : Str) (h : Spec.isIpv4Text t) :
    ∃ a b c d, a < 256 ∧ b < 256 ∧ c < 256 ∧ d < 256 ∧ t = quad a b c d := h

theorem quad_isIpv4Text (a b c d : Nat) (ha : a < 256) (hb : b < 256) (hc : c < 256) (hd : d < 256) :
    Spec.isIpv4Text (quad a b c d) := ⟨a, b, c, d, ha, hb, hc, hd, rfl⟩

theorem all_hextetOk (gs : List Str) (h : ∀ g ∈ gs, Spec.isHexGroup g) :
    ∀ p ∈ gs, hextetOk p = true := fun p hp => (hextetOk_iff p).mpr (h p hp)

/-- form 1 (no `::`) is accepted -/
theorem ipv6Ok_form1 (gs : List Str) (tail : Option Str) (hgs : ∀ g ∈ gs, Spec.isHexGroup g)
    (ht : ∀ t ∈ tail, Spec.isIpv4Text t) (hlen : gs.length + Spec.tailWidth tail = 8) :
    ipv6Ok (joinSep ':' (gs ++ tail.toList)) = true := by
  cases tail with
  | none =>
    simp only [Spec.tailWidth, Nat.add_zero] at hlen
    simp only [Option.toList_none, List.append_nil]
    refine ipv6Ok_of_parts gs gs (by omega) (fun p hp => colon_not_mem_hexGroup p (hgs p hp))
      (ipv6Tail_noDot gs (fun p hp => dot_not_mem_hexGroup p (hgs p hp)))
      (partsOk_noskip gs hlen (all_hextetOk gs hgs))
  | some t =>
    simp only [Spec.tailWidth] at hlen
    obtain ⟨a, b, c, d, ha, hb, hc, hd, rfl⟩ := isIpv4Text_quad t (ht t rfl)
    simp only [Option.toList_some]
    refine ipv6Ok_of_parts _ _ (by simp; omega) ?_ (ipv6Tail_quad gs a b c d ha hb hc hd)
      (partsOk_noskip _ (by simp; omega) ?_)
    · intro p hp
      rcases List.mem_append.mp hp with hp | hp
      · exact colon_not_mem_hexGroup p (hgs p hp)
      · rw [List.mem_singleton] at hp; subst hp; exact colon_not_mem_quad a b c d
    · intro p hp
      simp only [List.mem_append, List.mem_cons, List.not_mem_nil, or_false] at hp
      rcases hp with hp | rfl | rfl
      · exact all_hextetOk gs hgs p hp
      · exact hexStr_ok _ (by omega)
      · exact hexStr_ok _ (by omega)

/-- form 2 (one `::`) is accepted -/
theorem ipv6Ok_form2 (pre post : List Str) (tail : Option Str) (hpre : ∀ g ∈ pre, Spec.isHexGroup g)
    (hpost : ∀ g ∈ post, Spec.isHexGroup g) (ht : ∀ t ∈ tail, Spec.isIpv4Text t)
    (hlen : pre.length + post.length + Spec.tailWidth tail ≤ 7) :
    ipv6Ok (joinSep ':' pre ++ [':', ':'] ++ joinSep ':' (post ++ tail.toList)) = true := by
  rw [← joinSep_skip]
  have hcw : ∀ (l : List Str), (∀ p ∈ l, ':' ∉ p) → ∀ p ∈ wrapE l, ':' ∉ p := by
    intro l hl p hp
    unfold wrapE at hp
    split at hp
    · rw [List.mem_singleton] at hp; subst hp; simp
    · exact hl p hp
  have hlen3 : ∀ X Y : List Str, 3 ≤ (wrapE X ++ [] :: wrapE Y).length := by
    intro X Y
    have := List.length_pos_iff.mpr (wrapE_ne_nil X)
    have := List.length_pos_iff.mpr (wrapE_ne_nil Y)
    simp only [List.length_append, List.length_cons]; omega
  cases tail with
  | none =>
    simp only [Spec.tailWidth, Nat.add_zero] at hlen
    simp only [Option.toList_none, List.append_nil]
    refine ipv6Ok_of_parts _ _ (hlen3 _ _) ?_ (ipv6Tail_noDot _ ?_)
      ((partsOk_iff _).mpr (.inr ⟨pre, post, all_hextetOk pre hpre, all_hextetOk post hpost, hlen, rfl⟩))
    · intro p hp
      rcases List.mem_append.mp hp with hp | hp
      · exact hcw pre (fun p hp => colon_not_mem_hexGroup p (hpre p hp)) p hp
      · rcases List.mem_cons.mp hp with rfl | hp
        · simp
        · exact hcw post (fun p hp => colon_not_mem_hexGroup p (hpost p hp)) p hp
    · have hdw : ∀ (l : List Str), (∀ g ∈ l, Spec.isHexGroup g) → ∀ p ∈ wrapE l, p.contains '.' = false := by
        intro l hl p hp
        unfold wrapE at hp
        split at hp
        · rw [List.mem_singleton] at hp; subst hp; rfl
        · exact dot_not_mem_hexGroup p (hl p hp)
      intro p hp
      rcases List.mem_append.mp hp with hp | hp
      · exact hdw pre hpre p hp
      · rcases List.mem_cons.mp hp with rfl | hp
        · rfl
        · exact hdw post hpost p hp
  | some t =>
    simp only [Spec.tailWidth] at hlen
    obtain ⟨a, b, c, d, ha, hb, hc, hd, rfl⟩ := isIpv4Text_quad t (ht t rfl)
    simp only [Option.toList_some]
    rw [wrapE_of_ne (post ++ [quad a b c d]) (by simp)]
    have hre : wrapE pre ++ [] :: (post ++ [quad a b c d]) =
        (wrapE pre ++ [] :: post) ++ [quad a b c d] := by simp
    refine ipv6Ok_of_parts _ ((wrapE pre ++ [] :: post) ++ [hexStr (a * 256 + b), hexStr (c * 256 + d)])
      ?_ ?_ (by rw [hre]; exact ipv6Tail_quad _ a b c d ha hb hc hd) ?_
    · have := List.length_pos_iff.mpr (wrapE_ne_nil pre)
      simp only [List.length_append, List.length_cons, List.length_nil]; omega
    · intro p hp
      rcases List.mem_append.mp hp with hp | hp
      · exact hcw pre (fun p hp => colon_not_mem_hexGroup p (hpre p hp)) p hp
      · rcases List.mem_cons.mp hp with rfl | hp
        · simp
        · rcases List.mem_append.mp hp with hp | hp
          · exact colon_not_mem_hexGroup p (hpost p hp)
          · rw [List.mem_singleton] at hp; subst hp; exact colon_not_mem_quad a b c d
    · refine (partsOk_iff _).mpr (.inr ⟨pre, post ++ [hexStr (a * 256 + b), hexStr (c * 256 + d)],
        all_hextetOk pre hpre, ?_, by simp; omega, ?_⟩)
      · intro p hp
        simp only [List.mem_append, List.mem_cons, List.not_mem_nil, or_false] at hp
        rcases hp with hp | rfl | rfl
        · exact all_hextetOk post hpost p hp
        · exact hexStr_ok _ (by omega)
        · exact hexStr_ok _ (by omega)
      · rw [wrapE_of_ne (post ++ [hexStr (a * 256 + b), hexStr (c * 256 + d)]) (by simp)]; simp

theorem suffix_surgery (X front post : List Str) (h1 h2 : Str) (hh1 : h1 ≠ [])
    (h : X ++ [] :: wrapE post = front ++ [h1, h2]) :
    ∃ q, post = q ++ [h1, h2] ∧ front = X ++ [] :: q := by
  rcases List.eq_nil_or_concat post with rfl | ⟨q1, y, hc⟩
  · have e : X ++ [] :: wrapE [] = X ++ [[], []] := by simp [wrapE]
    rw [e] at h
    have := (List.append_inj' h rfl).2
    simp only [List.cons.injEq] at this
    exact absurd this.1.symm hh1
  · rw [List.concat_eq_append] at hc; subst hc
    rw [wrapE_of_ne _ (by simp)] at h
    rcases List.eq_nil_or_concat q1 with rfl | ⟨q, x, hc⟩
    · have e : X ++ [] :: ([] ++ [y]) = X ++ [[], y] := by simp
      rw [e] at h
      have := (List.append_inj' h rfl).2
      simp only [List.cons.injEq] at this
      exact absurd this.1.symm hh1
    · rw [List.concat_eq_append] at hc; subst hc
      have e : X ++ [] :: (q ++ [x] ++ [y]) = (X ++ [] :: q) ++ [x, y] := by simp
      rw [e] at h
      obtain ⟨e1, e2⟩ := List.append_inj' h rfl
      simp only [List.cons.injEq, and_true] at e2
      obtain ⟨rfl, rfl⟩ := e2
      exact ⟨q, by simp, e1.symm⟩

theorem all_isHexGroup (gs : List Str) (h : ∀ p ∈ gs, hextetOk p = true) :
    ∀ g ∈ gs, Spec.isHexGroup g := fun p hp => (hextetOk_iff p).mp (h p hp)

theorem ipv6Ok_spec (s : Str) (h : ipv6Ok s = true) : Spec.isIpv6Text s := by
  obtain ⟨parts', hlen, ht, hok⟩ := ipv6Ok_parts s h
  obtain ⟨hj, _⟩ := splitOn_spec ':' s
  rcases List.eq_nil_or_concat (splitOn ':' s) with hnil | ⟨front, last, hc⟩
  · exact absurd hnil (splitOn_ne_nil ':' s)
  rw [List.concat_eq_append] at hc
  rw [hc] at ht hj
  unfold Spec.isIpv6Text
  simp only [colonJoin_eq]
  rcases ipv6Tail_some front last parts' ht with ⟨_, rfl⟩ | ⟨a, b, c, d, ha, hb, hc', hd, rfl, rfl⟩
  · -- no IPv4 suffix
    rcases (partsOk_iff _).mp hok with ⟨h8, hall⟩ | ⟨pre, post, hpre, hpost, hl, hparts⟩
    · left
      exact ⟨front ++ [last], none, all_isHexGroup _ hall, by simp, by simpa [Spec.tailWidth] using h8,
        by simp [hj]⟩
    · right
      refine ⟨pre, post, none, all_isHexGroup _ hpre, all_isHexGroup _ hpost, by simp,
        by simpa [Spec.tailWidth] using hl, ?_⟩
      rw [← hj, hparts, joinSep_skip]; simp
  · -- IPv4 suffix
    have hq := quad_isIpv4Text a b c d ha hb hc' hd
    rcases (partsOk_iff _).mp hok with ⟨h8, hall⟩ | ⟨pre, post, hpre, hpost, hl, hparts⟩
    · left
      refine ⟨front, some (quad a b c d), all_isHexGroup _ (fun p hp => hall p (by simp [hp])), ?_, ?_, ?_⟩
      · intro t ht'; cases ht'; exact hq
      · simp only [List.length_append, List.length_cons, List.length_nil] at h8
        simp only [Spec.tailWidth]; omega
      · simp [hj]
    · right
      obtain ⟨q, rfl, rfl⟩ := suffix_surgery (wrapE pre) front post _ _
        (hextetOk_ne_nil _ (hexStr_ok _ (by omega))) hparts.symm
      refine ⟨pre, q, some (quad a b c d), all_isHexGroup _ hpre,
        all_isHexGroup _ (fun p hp => hpost p (by simp [hp])), ?_, ?_, ?_⟩
      · intro t ht'; cases ht'; exact hq
      · simp only [List.length_append, List.length_cons, List.length_nil] at hl
        simp only [Spec.tailWidth]; omega
      · rw [← hj]
        have : (wrapE pre ++ [] :: q) ++ [quad a b c d] = wrapE pre ++ [] :: wrapE (q ++ [quad a b c d]) := by
          rw [wrapE_of_ne (q ++ [quad a b c d]) (by simp)]; simp
        rw [this, joinSep_skip]; simp

theorem isIpv6Text_ok (s : Str) (h : Spec.isIpv6Text s) : ipv6Ok s = true := by
  unfold Spec.isIpv6Text at h
  simp only [colonJoin_eq] at h
  rcases h with ⟨gs, tail, hgs, ht, hlen, rfl⟩ | ⟨pre, post, tail, hpre, hpost, ht, hlen, rfl⟩
  · exact ipv6Ok_form1 gs tail hgs ht hlen
  · exact ipv6Ok_form2 pre post tail hpre hpost ht hlen

theorem ipv6Ok_iff (s : Str) : ipv6Ok s = true ↔ Spec.isIpv6Text s :=
  ⟨ipv6Ok_spec s, isIpv6Text_ok s⟩

/-! ### (k) IPv6: `IPv6Address` and `is_ipv6` -/

/-- neither a prefix length nor a zone id can be written -/
def plainChar (c : Char) : Prop := c ≠ '/' ∧ c ≠ '%'

theorem plain_of_hex : ∀ c ∈ Spec.hexChars, plainChar c := by unfold plainChar; decide

theorem plain_of_unit (gs : List Str) (tail : Option Str) (hgs : ∀ g ∈ gs, Spec.isHexGroup g)
    (ht : ∀ t ∈ tail, Spec.isIpv4Text t) : ∀ u ∈ gs ++ tail.toList, ∀ c ∈ u, plainChar c := by
  intro u hu c hc
  rcases List.mem_append.mp hu with hu | hu
  · exact plain_of_hex c ((hgs u hu).2.2 c hc)
  · rw [Option.mem_toList] at hu
    obtain ⟨a, b, c', d, _, _, _, _, rfl⟩ := isIpv4Text_quad u (ht u hu)
    rcases mem_quad _ _ _ _ c hc with h | rfl
    · constructor <;> (rintro rfl; exact absurd h (by decide))
    · constructor <;> decide

theorem plain_of_joinSep (l : List Str) (h : ∀ u ∈ l, ∀ c ∈ u, plainChar c) :
    ∀ c ∈ joinSep ':' l, plainChar c := by
  intro c hc
  rcases mem_joinSep ':' l c hc with rfl | ⟨g, hg, hx⟩
  · constructor <;> decide
  · exact h g hg c hx

theorem isIpv6Text_plain (s : Str) (h : Spec.isIpv6Text s) : ∀ c ∈ s, plainChar c := by
  unfold Spec.isIpv6Text at h
  simp only [colonJoin_eq] at h
  rcases h with ⟨gs, tail, hgs, ht, _, rfl⟩ | ⟨pre, post, tail, hpre, hpost, ht, _, rfl⟩
  · exact plain_of_joinSep _ (plain_of_unit gs tail hgs ht)
  · intro c hc
    simp only [List.mem_append, List.mem_cons, List.not_mem_nil, or_false] at hc
    rcases hc with (hc | hc | hc) | hc
    · exact plain_of_joinSep pre (fun u hu c hc => plain_of_hex c ((hpre u hu).2.2 c hc)) c hc
    · subst hc; constructor <;> decide
    · subst hc; constructor <;> decide
    · exact plain_of_joinSep _ (plain_of_unit post tail hpost ht) c hc

theorem takeWhile_all (p : Char → Bool) (s : Str) (h : ∀ c ∈ s, p c = true) : s.takeWhile p = s := by
  induction s with
  | nil => rfl
  | cons x xs ih =>
    rw [List.takeWhile_cons, if_pos (h x (by simp)), ih (fun c hc => h c (List.mem_cons_of_mem _ hc))]

theorem dropWhile_all (p : Char → Bool) (s : Str) (h : ∀ c ∈ s, p c = true) : s.dropWhile p = [] := by
  induction s with
  | nil => rfl
  | cons x xs ih =>
    rw [List.dropWhile_cons, if_pos (h x (by simp))]
    exact ih (fun c hc => h c (List.mem_cons_of_mem _ hc))

theorem span_all (p : Char → Bool) (s : Str) (h : ∀ c ∈ s, p c = true) : s.span p = (s, []) := by
  rw [List.span_eq_takeWhile_dropWhile, takeWhile_all p s h, dropWhile_all p s h]

theorem span_snd_nil (p : Char → Bool) (s a : Str) (h : s.span p = (a, [])) : a = s := by
  rw [List.span_eq_takeWhile_dropWhile] at h
  have := List.takeWhile_append_dropWhile (p := p) (l := s)
  simp only [Prod.mk.injEq] at h
  rw [h.1, h.2, List.append_nil] at this
  exact this

theorem ipv6Address_false_iff (s : Str) : ipv6Address s = some false ↔ Spec.isIpv6Text s := by
  constructor
  · intro h
    unfold ipv6Address at h
    split at h; · cases h
    split at h
    · rename_i addr hsp
      split at h
      · rename_i hok
        rw [span_snd_nil _ _ _ hsp] at hok
        exact ipv6Ok_spec s hok
      · cases h
    · split at h
      · cases h
      · split at h <;> cases h
  · intro h
    have hp := isIpv6Text_plain s h
    have hslash : s.contains '/' = false := by
      rw [Bool.eq_false_iff, Ne, List.contains_iff_mem]
      exact fun hm => (hp _ hm).1 rfl
    have hspan : s.span (· != '%') = (s, []) :=
      span_all _ s (fun c hc => by simpa using (hp c hc).2)
    unfold ipv6Address
    rw [hslash, hspan]
    simp [isIpv6Text_ok s h]

theorem fmtIpv6_iff (s : Str) : fmtIpv6 (.str s) = .ret true ↔ Spec.isIpv6Text s := by
  rw [← ipv6Address_false_iff]
  simp only [fmtIpv6]
  cases ipv6Address s with
  | none => simp
  | some b => cases b <;> simp

end JS.Fmt
