/- Helper lemmas for C13 (built-in format checkers): digits, `splitOn`, octets, dates, IPv6. -/
import JS.Format
import JS.Spec.Formats
import JS.Generated.Tables
import Mathlib.Tactic.IntervalCases
import Mathlib.Data.List.Induction

namespace JS.Fmt
open JS

/-- `FmtRes` has decidable equality (used by the `decide +kernel` sanity tests) -/
instance decEqFmtRes : DecidableEq FmtRes
  | .ret a, .ret b =>
    if h : a = b then isTrue (by rw [h]) else isFalse (by intro e; cases e; exact h rfl)
  | .raise a, .raise b =>
    if h : a = b then isTrue (by rw [h]) else isFalse (by intro e; cases e; exact h rfl)
  | .ret _, .raise _ => isFalse (by intro e; cases e)
  | .raise _, .ret _ => isFalse (by intro e; cases e)

/-! ### (a) ASCII digits and decimal renderings -/

theorem char_le_iff (a b : Char) : a ≤ b ↔ a.toNat ≤ b.toNat := by
  rw [Char.le_def, UInt32.le_iff_toNat_le]; rfl

theorem digitChar_facts (d : Nat) (h : d < 10) :
    isDigit (Nat.digitChar d) = true ∧ (Nat.digitChar d).toNat - '0'.toNat = d
      ∧ (0 < d → '1' ≤ Nat.digitChar d ∧ Nat.digitChar d ≤ '9') := by
  interval_cases d <;> decide

theorem digit_char_eq (c : Char) (h : isDigit c = true) :
    Nat.digitChar (c.toNat - '0'.toNat) = c ∧ c.toNat - '0'.toNat < 10 := by
  simp only [isDigit, Bool.and_eq_true, decide_eq_true_eq, char_le_iff] at h
  have h0 : '0'.toNat = 48 := by decide
  have h9 : '9'.toNat = 57 := by decide
  rw [h0, h9] at h
  rw [h0]
  obtain ⟨k, hk⟩ : ∃ k, c.toNat = k := ⟨_, rfl⟩
  rw [hk] at h ⊢
  have : c = Char.ofNat k := by rw [← hk]; simp
  subst this
  obtain ⟨h1, h2⟩ := h
  interval_cases k <;> decide

theorem digitsVal_snoc (s : Str) (c : Char) :
    digitsVal (s ++ [c]) = digitsVal s * 10 + (c.toNat - '0'.toNat) := by
  simp [digitsVal, List.foldl_append]

theorem digitsVal_zero_cons (s : Str) : digitsVal ('0' :: s) = digitsVal s := by
  simp [digitsVal]

/-- properties of the decimal rendering -/
theorem toDigits_props (n : Nat) :
    (Nat.toDigits 10 n).all isDigit = true ∧ digitsVal (Nat.toDigits 10 n) = n ∧
      (0 < n → ∃ c rest, Nat.toDigits 10 n = c :: rest ∧ '1' ≤ c ∧ c ≤ '9') := by
  induction n using Nat.strongRecOn with
  | _ n ih =>
    rw [Nat.toDigits_eq_if (by decide)]
    by_cases hn : n < 10
    · rw [if_pos hn]
      obtain ⟨f1, f2, f3⟩ := digitChar_facts n hn
      refine ⟨by simp [f1], by simpa [digitsVal] using f2, fun hp => ⟨_, _, rfl, f3 hp⟩⟩
    · rw [if_neg hn]
      obtain ⟨i1, i2, i3⟩ := ih (n / 10) (by omega)
      obtain ⟨f1, f2, _⟩ := digitChar_facts (n % 10) (by omega)
      refine ⟨by simp [i1, f1], ?_, fun _ => ?_⟩
      · rw [digitsVal_snoc, i2, f2]; omega
      · obtain ⟨c, rest, e, hc⟩ := i3 (by omega)
        exact ⟨c, rest ++ [Nat.digitChar (n % 10)], by rw [e]; rfl, hc⟩

/-- a canonical digit string (no leading zero) is the rendering of its value -/
theorem toDigits_digitsVal (s : Str) :
    s.all isDigit = true → ∀ c rest, s = c :: rest → '1' ≤ c →
      Nat.toDigits 10 (digitsVal s) = s ∧ 0 < digitsVal s := by
  induction s using List.reverseRecOn with
  | nil => intro _ c rest h; cases h
  | append_singleton s d ih =>
    intro hall c rest hs hc
    simp only [List.all_append, List.all_cons, List.all_nil, Bool.and_true, Bool.and_eq_true] at hall
    obtain ⟨g1, g2⟩ := digit_char_eq d hall.2
    rw [digitsVal_snoc]
    cases s with
    | nil =>
      simp only [List.nil_append, List.cons.injEq] at hs
      obtain ⟨rfl, _⟩ := hs
      have : 0 < d.toNat - '0'.toNat := by
        rw [char_le_iff] at hc
        have : '1'.toNat = 49 := by decide
        have : '0'.toNat = 48 := by decide
        omega
      refine ⟨?_, by omega⟩
      simp only [digitsVal, List.foldl_nil, Nat.zero_mul, Nat.zero_add, List.nil_append]
      rw [Nat.toDigits_of_lt_base g2, g1]
    | cons x s' =>
      simp only [List.cons_append, List.cons.injEq] at hs
      obtain ⟨rfl, _⟩ := hs
      obtain ⟨i1, i2⟩ := ih hall.1 x s' rfl hc
      refine ⟨?_, by omega⟩
      rw [Nat.mul_comm, ← Nat.toDigits_append_toDigits (by decide) i2 g2, i1,
        Nat.toDigits_of_lt_base g2, g1]

/-- a digit is '0' or at least '1' -/
theorem digit_zero_or_pos (c : Char) (h : isDigit c = true) : c = '0' ∨ '1' ≤ c := by
  by_cases hc : c = '0'
  · exact .inl hc
  · right
    simp only [isDigit, Bool.and_eq_true, decide_eq_true_eq, char_le_iff] at h
    rw [char_le_iff]
    have h0 : '0'.toNat = 48 := by decide
    have h1 : '1'.toNat = 49 := by decide
    have : c.toNat ≠ 48 := by
      intro e
      apply hc
      have : c = Char.ofNat c.toNat := by simp
      rw [this, e]
    omega

theorem decimal_all_digit (n : Nat) : (Spec.decimal n).all isDigit = true := (toDigits_props n).1

theorem mem_decimal_isDigit (n : Nat) (c : Char) (h : c ∈ Spec.decimal n) : isDigit c = true :=
  List.all_eq_true.mp (decimal_all_digit n) c h

theorem decimal_ne_nil (n : Nat) : Spec.decimal n ≠ [] := by
  unfold Spec.decimal; exact Nat.toDigits_ne_nil

/-! ### (b) `splitOn` and joining with a separator -/

/-- parts joined by a separator character (the shape of `Spec.colonJoin`) -/
def joinSep (c : Char) : List Str → Str
  | [] => []
  | [g] => g
  | g :: g' :: gs => g ++ c :: joinSep c (g' :: gs)

theorem colonJoin_eq (gs : List Str) : Spec.colonJoin gs = joinSep ':' gs := by
  induction gs with
  | nil => rfl
  | cons g gs ih =>
    cases gs with
    | nil => rfl
    | cons g' gs => simp only [Spec.colonJoin, joinSep, ih]

theorem joinSep_cons_ne (c : Char) (g : Str) (gs : List Str) (h : gs ≠ []) :
    joinSep c (g :: gs) = g ++ c :: joinSep c gs := by
  cases gs with
  | nil => exact absurd rfl h
  | cons g' gs => rfl

theorem splitOn_ne_nil (c : Char) (s : Str) : splitOn c s ≠ [] := by
  induction s with
  | nil => simp [splitOn]
  | cons x xs ih =>
    unfold splitOn
    split
    · simp
    · split <;> simp

theorem splitOn_no_sep (c : Char) (t : Str) (h : c ∉ t) : splitOn c t = [t] := by
  induction t with
  | nil => simp [splitOn]
  | cons x xs ih =>
    have hx : x ≠ c := fun e => h (by simp [e])
    have ht : c ∉ xs := fun e => h (by simp [e])
    simp [splitOn, hx, ih ht]

theorem splitOn_append_sep (c : Char) (t rest : Str) (h : c ∉ t) :
    splitOn c (t ++ c :: rest) = t :: splitOn c rest := by
  induction t with
  | nil => simp [splitOn]
  | cons x xs ih =>
    have hx : x ≠ c := fun e => h (by simp [e])
    have ht : c ∉ xs := fun e => h (by simp [e])
    simp [splitOn, hx, ih ht]

/-- `sep.join(s.split(sep)) == s`, and no part contains the separator -/
theorem splitOn_spec (c : Char) (s : Str) :
    joinSep c (splitOn c s) = s ∧ ∀ p ∈ splitOn c s, c ∉ p := by
  induction s with
  | nil => simp [splitOn, joinSep]
  | cons x xs ih =>
    obtain ⟨ih1, ih2⟩ := ih
    unfold splitOn
    by_cases hx : x = c
    · rw [if_pos hx]
      refine ⟨?_, ?_⟩
      · rw [joinSep_cons_ne _ _ _ (splitOn_ne_nil c xs), ih1, hx]; rfl
      · intro p hp
        rcases List.mem_cons.mp hp with rfl | hp
        · simp
        · exact ih2 p hp
    · rw [if_neg hx]
      cases hsp : splitOn c xs with
      | nil => exact absurd hsp (splitOn_ne_nil c xs)
      | cons h t =>
        rw [hsp] at ih1 ih2
        refine ⟨?_, ?_⟩
        · cases t with
          | nil => simp only [joinSep] at ih1 ⊢; rw [ih1]
          | cons h' t' => simp only [joinSep, List.cons_append] at ih1 ⊢; rw [ih1]
        · intro p hp
          rcases List.mem_cons.mp hp with rfl | hp
          · intro hm
            rcases List.mem_cons.mp hm with e | hm
            · exact hx e.symm
            · exact ih2 h (by simp) hm
          · exact ih2 p (List.mem_cons_of_mem _ hp)

theorem splitOn_joinSep (c : Char) (parts : List Str) (hne : parts ≠ [])
    (h : ∀ p ∈ parts, c ∉ p) : splitOn c (joinSep c parts) = parts := by
  induction parts with
  | nil => exact absurd rfl hne
  | cons g gs ih =>
    cases gs with
    | nil => exact splitOn_no_sep c g (h g (by simp))
    | cons g' gs =>
      simp only [joinSep]
      rw [splitOn_append_sep c g _ (h g (by simp)),
        ih (by simp) (fun p hp => h p (List.mem_cons_of_mem _ hp))]

/-! ### (c) octets and `IPv4Address` -/

theorem parseOctet_decimal : ∀ n, n < 256 → parseOctet (Spec.decimal n) = some n := by decide +kernel

theorem parseOctet_some (p : Str) (n : Nat) (h : parseOctet p = some n) :
    n < 256 ∧ p = Spec.decimal n := by
  unfold parseOctet at h
  split at h; · cases h
  split at h; · cases h
  split at h; · cases h
  split at h; · cases h
  split at h; · cases h
  rename_i h1 h2 h3 h4 h5
  cases h
  refine ⟨by omega, ?_⟩
  cases p with
  | nil => simp at h1
  | cons c rest =>
    have h2 : (c :: rest).all isDigit = true := by simpa using h2
    have hc : isDigit c = true := by
      simp only [List.all_cons, Bool.and_eq_true] at h2; exact h2.1
    rcases digit_zero_or_pos c hc with rfl | hpos
    · have : rest = [] := by
        by_contra hne
        apply h4
        simp [hne]
      subst this
      decide
    · exact ((toDigits_digitsVal (c :: rest) h2 c rest rfl hpos).1).symm

theorem parseOctet_iff (p : Str) (n : Nat) :
    parseOctet p = some n ↔ n < 256 ∧ p = Spec.decimal n :=
  ⟨parseOctet_some p n, fun ⟨h1, h2⟩ => h2 ▸ parseOctet_decimal n h1⟩

theorem not_mem_decimal (n : Nat) (c : Char) (h : isDigit c = false) : c ∉ Spec.decimal n := by
  intro hm
  rw [mem_decimal_isDigit n c hm] at h
  cases h

/-- the shape of the strings `Spec.isIpv4Text` describes -/
def quad (a b c d : Nat) : Str :=
  Spec.decimal a ++ ['.'] ++ Spec.decimal b ++ ['.'] ++ Spec.decimal c ++ ['.'] ++ Spec.decimal d

theorem quad_eq (a b c d : Nat) :
    quad a b c d = joinSep '.' [Spec.decimal a, Spec.decimal b, Spec.decimal c, Spec.decimal d] := by
  simp [quad, joinSep]

theorem mem_quad (a b c d : Nat) (x : Char) (h : x ∈ quad a b c d) : isDigit x = true ∨ x = '.' := by
  simp only [quad, List.mem_append, List.mem_singleton] at h
  rcases h with (((((h | h) | h) | h) | h) | h) | h
  all_goals first | exact .inr h | exact .inl (mem_decimal_isDigit _ _ h)

theorem parseOctets_four (p1 p2 p3 p4 : Str) (l : List Nat) :
    parseOctets [p1, p2, p3, p4] = some l ↔
      ∃ a b c d, parseOctet p1 = some a ∧ parseOctet p2 = some b ∧ parseOctet p3 = some c ∧
        parseOctet p4 = some d ∧ l = [a, b, c, d] := by
  simp only [parseOctets]
  cases parseOctet p1 <;> cases parseOctet p2 <;> cases parseOctet p3 <;> cases parseOctet p4 <;>
    simp [eq_comm]

theorem ipv4Parse_iff (s : Str) (l : List Nat) :
    ipv4Parse s = some l ↔ ∃ a b c d, a < 256 ∧ b < 256 ∧ c < 256 ∧ d < 256 ∧ l = [a, b, c, d] ∧
      s = quad a b c d := by
  constructor
  · intro h
    unfold ipv4Parse at h
    split at h; · cases h
    split at h; · cases h
    split at h; · cases h
    rename_i _ _ hlen
    obtain ⟨hj, _⟩ := splitOn_spec '.' s
    match hsp : splitOn '.' s, hlen with
    | [p1, p2, p3, p4], _ =>
      rw [hsp] at h hj
      obtain ⟨a, b, c, d, h1, h2, h3, h4, rfl⟩ := (parseOctets_four _ _ _ _ _).mp h
      rw [parseOctet_iff] at h1 h2 h3 h4
      refine ⟨a, b, c, d, h1.1, h2.1, h3.1, h4.1, rfl, ?_⟩
      rw [quad_eq, ← h1.2, ← h2.2, ← h3.2, ← h4.2, hj]
  · rintro ⟨a, b, c, d, ha, hb, hc, hd, rfl, rfl⟩
    have hdot : ∀ n, '.' ∉ Spec.decimal n := fun n => not_mem_decimal n '.' (by decide)
    have hsp : splitOn '.' (quad a b c d) =
        [Spec.decimal a, Spec.decimal b, Spec.decimal c, Spec.decimal d] := by
      rw [quad_eq]
      exact splitOn_joinSep '.' _ (by simp) (by simp [hdot])
    have hslash : (quad a b c d).contains '/' = false := by
      rw [Bool.eq_false_iff]
      intro hm
      rw [List.contains_iff_mem] at hm
      rcases mem_quad a b c d _ hm with h | h
      · exact absurd h (by decide)
      · exact absurd h (by decide)
    have hne : (quad a b c d).isEmpty = false := by
      cases hq : quad a b c d with
      | nil =>
        have := congrArg (splitOn '.') hq
        rw [hsp] at this
        simp [splitOn] at this
      | cons => rfl
    unfold ipv4Parse
    rw [hslash, hne, hsp]
    simp only [Bool.false_eq_true, if_false]
    rw [if_neg (by simp)]
    rw [parseOctets_four]
    exact ⟨a, b, c, d, (parseOctet_iff _ _).mpr ⟨ha, rfl⟩, (parseOctet_iff _ _).mpr ⟨hb, rfl⟩,
      (parseOctet_iff _ _).mpr ⟨hc, rfl⟩, (parseOctet_iff _ _).mpr ⟨hd, rfl⟩, rfl⟩

theorem fmtIpv4_iff (s : Str) : fmtIpv4 (.str s) = .ret true ↔ Spec.isIpv4Text s := by
  simp only [fmtIpv4]
  constructor
  · intro h
    cases hp : ipv4Parse s with
    | none => rw [hp] at h; cases h
    | some l =>
      obtain ⟨a, b, c, d, ha, hb, hc, hd, _, hs⟩ := (ipv4Parse_iff s l).mp hp
      exact ⟨a, b, c, d, ha, hb, hc, hd, hs⟩
  · rintro ⟨a, b, c, d, ha, hb, hc, hd, hs⟩
    rw [(ipv4Parse_iff s [a, b, c, d]).mpr ⟨a, b, c, d, ha, hb, hc, hd, rfl, hs⟩]

/-! ### (d) dates -/

theorem digitsVal_replicate_zero (k : Nat) (q : Str) :
    digitsVal (List.replicate k '0' ++ q) = digitsVal q := by
  induction k with
  | zero => rfl
  | succ k ih => rw [List.replicate_succ, List.cons_append, digitsVal_zero_cons, ih]

theorem digitsVal_lt (p : Str) (hall : p.all isDigit = true) : digitsVal p < 10 ^ p.length := by
  induction p using List.reverseRecOn with
  | nil => simp [digitsVal]
  | append_singleton s d ih =>
    simp only [List.all_append, List.all_cons, List.all_nil, Bool.and_true, Bool.and_eq_true] at hall
    obtain ⟨_, g2⟩ := digit_char_eq d hall.2
    have := ih hall.1
    rw [digitsVal_snoc, List.length_append, List.length_singleton, Nat.pow_succ]
    omega

theorem pad_props (w n : Nat) (hw : 0 < w) (h : n < 10 ^ w) :
    (Spec.pad w n).length = w ∧ (Spec.pad w n).all isDigit = true ∧ digitsVal (Spec.pad w n) = n := by
  have hl : (Spec.decimal n).length ≤ w := (Nat.length_toDigits_le_iff (by decide) hw).mpr h
  refine ⟨?_, ?_, ?_⟩
  · simp only [Spec.pad, List.length_append, List.length_replicate]; omega
  · simp only [Spec.pad, List.all_append, Bool.and_eq_true, decimal_all_digit, and_true]
    simp only [List.all_replicate]
    split <;> decide
  · rw [Spec.pad, digitsVal_replicate_zero]; exact (toDigits_props n).2.1

theorem pad_digitsVal (p : Str) (hall : p.all isDigit = true) (hne : p ≠ []) :
    Spec.pad p.length (digitsVal p) = p := by
  induction p with
  | nil => exact absurd rfl hne
  | cons c rest ih =>
    simp only [List.all_cons, Bool.and_eq_true] at hall
    obtain ⟨hc, hrest⟩ := hall
    cases hr : rest with
    | nil =>
      obtain ⟨g1, g2⟩ := digit_char_eq c hc
      have hv : digitsVal [c] = c.toNat - '0'.toNat := by simp [digitsVal]
      rw [hv]
      simp only [Spec.pad, Spec.decimal, Nat.toDigits_of_lt_base g2, g1]
      rfl
    | cons c2 r2 =>
      rw [← hr]
      have hne' : rest ≠ [] := by rw [hr]; simp
      have ih' := ih hrest hne'
      rcases digit_zero_or_pos c hc with rfl | hpos
      · rw [digitsVal_zero_cons]
        have hlen : (Spec.decimal (digitsVal rest)).length ≤ rest.length := by
          have := congrArg List.length ih'
          simp only [Spec.pad, List.length_append, List.length_replicate] at this
          omega
        unfold Spec.pad at ih' ⊢
        rw [List.length_cons,
          show rest.length + 1 - (Spec.decimal (digitsVal rest)).length
            = (rest.length - (Spec.decimal (digitsVal rest)).length) + 1 by omega,
          List.replicate_succ, List.cons_append, ih']
      · have := (toDigits_digitsVal (c :: rest) (by simp [hc, hrest]) c rest rfl hpos).1
        unfold Spec.pad Spec.decimal
        rw [this]
        simp

theorem isLeap_iff (y : Nat) : isLeap y = true ↔ Spec.leapYear y := by
  simp only [isLeap, Spec.leapYear, Bool.and_eq_true, Bool.or_eq_true, beq_iff_eq, bne_iff_ne]
  omega

theorem pyDaysInMonth_eq (y m : Nat) (h1 : 1 ≤ m) (h2 : m ≤ 12) :
    pyDaysInMonth y m = Spec.daysInMonth y m := by
  unfold pyDaysInMonth Spec.daysInMonth
  by_cases hl : Spec.leapYear y
  · have := (isLeap_iff y).mpr hl
    interval_cases m <;> simp [this, hl]
  · have : isLeap y = false := by
      rw [Bool.eq_false_iff, Ne, isLeap_iff]; exact hl
    interval_cases m <;> simp [this, hl]

theorem daysInMonth_le (y m : Nat) : Spec.daysInMonth y m ≤ 31 := by
  unfold Spec.daysInMonth
  split
  · split <;> omega
  · split <;> omega

theorem length_four (p : Str) (h : p.length = 4) : ∃ a b c d, p = [a, b, c, d] := by
  match p, h with
  | [a, b, c, d], _ => exact ⟨a, b, c, d, rfl⟩

theorem length_two (p : Str) (h : p.length = 2) : ∃ a b, p = [a, b] := by
  match p, h with
  | [a, b], _ => exact ⟨a, b, rfl⟩

/-- the year-guarded grammar (Python's `MINYEAR = 1`) -/
def fullDateFrom1 (s : Str) : Prop :=
  ∃ y m d : Nat, 1 ≤ y ∧ y ≤ 9999 ∧ 1 ≤ m ∧ m ≤ 12 ∧ 1 ≤ d ∧ d ≤ Spec.daysInMonth y m ∧
    s = Spec.pad 4 y ++ ['-'] ++ Spec.pad 2 m ++ ['-'] ++ Spec.pad 2 d

theorem fmtDate_iff (s : Str) : fmtDate (.str s) = .ret true ↔ fullDateFrom1 s := by
  constructor
  · intro h
    simp only [fmtDate] at h
    split at h
    · rename_i y1 y2 y3 y4 s1 m1 m2 s2 d1 d2
      split at h
      · rename_i hcond
        split at h
        · rename_i hr
          simp only [Bool.and_eq_true, beq_iff_eq, decide_eq_true_eq, List.all_cons, List.all_nil,
            Bool.and_true] at hcond hr
          obtain ⟨⟨rfl, rfl⟩, a1, a2, a3, a4, a5, a6, a7, a8⟩ := hcond
          obtain ⟨⟨⟨⟨r1, r2⟩, r3⟩, r4⟩, r5⟩ := hr
          have hy := digitsVal_lt [y1, y2, y3, y4] (by simp [a1, a2, a3, a4])
          have py := pad_digitsVal [y1, y2, y3, y4] (by simp [a1, a2, a3, a4]) (by simp)
          have pm := pad_digitsVal [m1, m2] (by simp [a5, a6]) (by simp)
          have pd := pad_digitsVal [d1, d2] (by simp [a7, a8]) (by simp)
          refine ⟨digitsVal [y1, y2, y3, y4], digitsVal [m1, m2], digitsVal [d1, d2], r1, ?_, r2, r3, r4,
            ?_, ?_⟩
          · simp only [List.length_cons, List.length_nil] at hy; omega
          · rw [← pyDaysInMonth_eq _ _ r2 r3]; exact r5
          · simp only [List.length_cons, List.length_nil, Nat.zero_add, Nat.reduceAdd] at py pm pd
            rw [py, pm, pd]; rfl
        · cases h
      · cases h
    · cases h
  · rintro ⟨y, m, d, hy1, hy2, hm1, hm2, hd1, hd2, rfl⟩
    have hd3 := daysInMonth_le y m
    obtain ⟨ly, ay, vy⟩ := pad_props 4 y (by decide) (by omega)
    obtain ⟨lm, am, vm⟩ := pad_props 2 m (by decide) (by omega)
    obtain ⟨ld, ad, vd⟩ := pad_props 2 d (by decide) (by omega)
    obtain ⟨y1, y2, y3, y4, ey⟩ := length_four _ ly
    obtain ⟨m1, m2, em⟩ := length_two _ lm
    obtain ⟨d1, d2, ed⟩ := length_two _ ld
    rw [ey] at ay vy
    rw [em] at am vm
    rw [ed] at ad vd
    rw [ey, em, ed]
    simp only [List.all_cons, List.all_nil, Bool.and_true, Bool.and_eq_true] at ay am ad
    have hdm : d ≤ pyDaysInMonth y m := by rw [pyDaysInMonth_eq _ _ hm1 hm2]; exact hd2
    simp only [List.cons_append, List.nil_append, fmtDate, vy, vm, vd]
    simp [ay, am, ad, hy1, hm1, hm2, hd1, hdm]

/-! ### (e) result shapes, non-strings, `FormatChecker.check` -/

/-- the exception class a modelled format function is registered with (`raises=` in `_format.py`) -/
def listedRaises : FmtFn → Option String
  | .ipv4 => some "AddressValueError"
  | .ipv6 => some "AddressValueError"
  | .date => some "ValueError"
  | .email => none
  | .oracle => none

theorem fmtIpv4_cases (s : Str) :
    fmtIpv4 (.str s) = .ret true ∨ fmtIpv4 (.str s) = .raise addrValueErrorMro := by
  simp only [fmtIpv4]
  cases ipv4Parse s <;> simp

theorem fmtIpv6_cases (s : Str) :
    (∃ b, fmtIpv6 (.str s) = .ret b) ∨ fmtIpv6 (.str s) = .raise addrValueErrorMro := by
  simp only [fmtIpv6]
  cases ipv6Address s <;> simp

theorem fmtDate_cases (s : Str) :
    (∃ b, fmtDate (.str s) = .ret b) ∨ fmtDate (.str s) = .raise valueErrorMro := by
  simp only [fmtDate]
  split
  · split
    · split <;> simp
    · simp
  · simp

theorem builtin_result (f : FmtFn) (j : Json) (r : FmtRes) (hr : builtinImpl.run f j = some r) :
    (∃ b, r = .ret b) ∨ ∃ c mro, listedRaises f = some c ∧ r = .raise mro ∧ c ∈ mro := by
  cases j with
  | str s =>
    cases f with
    | email => simp only [builtinImpl, Option.some.injEq] at hr; subst hr; exact .inl ⟨_, rfl⟩
    | ipv4 =>
      simp only [builtinImpl, Option.some.injEq] at hr; subst hr
      rcases fmtIpv4_cases s with h | h
      · exact .inl ⟨_, h⟩
      · exact .inr ⟨_, _, rfl, h, by decide⟩
    | ipv6 =>
      simp only [builtinImpl, Option.some.injEq] at hr; subst hr
      rcases fmtIpv6_cases s with ⟨b, h⟩ | h
      · exact .inl ⟨_, h⟩
      · exact .inr ⟨_, _, rfl, h, by decide⟩
    | date =>
      simp only [builtinImpl, Option.some.injEq] at hr; subst hr
      rcases fmtDate_cases s with ⟨b, h⟩ | h
      · exact .inl ⟨_, h⟩
      · exact .inr ⟨_, _, rfl, h, by decide⟩
    | oracle => simp [builtinImpl] at hr
  | _ =>
    left
    cases f <;> simp only [builtinImpl, Option.some.injEq, reduceCtorEq] at hr <;> subst hr <;>
      exact ⟨_, rfl⟩

theorem builtin_nonstring (f : FmtFn) (j : Json) (h : j.isStr = false) (r : FmtRes)
    (hr : builtinImpl.run f j = some r) : r = .ret true := by
  cases j with
  | str s => simp [Json.isStr] at h
  | _ =>
    cases f <;> simp only [builtinImpl, Option.some.injEq, reduceCtorEq] at hr <;> subst hr <;> rfl

/-- every registration of a modelled function in the generated tables lists its exception class -/
def entryOk (e : FmtEntry) : Bool :=
  match listedRaises e.fn with
  | some c => e.raises.contains c
  | none => true

def builtinTables : List FormatChecker :=
  [Generated.d3Formats, Generated.d4Formats, Generated.d6Formats, Generated.d7Formats,
    Generated.classFormats]

theorem tables_entryOk : ∀ fc ∈ builtinTables, fc.checkers.all entryOk = true := by decide

theorem fmtCheck_ok (env : Env) (fc : FormatChecker) (hfc : fc.checkers.all entryOk = true)
    (inst : Json) (name : Str) (e : FmtEntry) (he : fc.find name = some e) (hm : e.fn ≠ .oracle) :
    ∃ r, fmtCheck env builtinImpl fc inst name = .ok r := by
  have hmem : e ∈ fc.checkers := List.mem_of_find?_eq_some he
  have hok := List.all_eq_true.mp hfc e hmem
  obtain ⟨r, hr⟩ : ∃ r, builtinImpl.run e.fn inst = some r := by
    cases hf : e.fn <;> simp_all [builtinImpl]
  unfold fmtCheck
  rw [he]
  simp only [runFmt, hr]
  rcases builtin_result e.fn inst r hr with ⟨b, rfl⟩ | ⟨c, mro, hc, rfl, hin⟩
  · exact ⟨_, rfl⟩
  · simp only [entryOk, hc] at hok
    have : mro.any (fun c => e.raises.contains c) = true :=
      List.any_eq_true.mpr ⟨c, hin, hok⟩
    simp only [this, if_true]
    exact ⟨_, rfl⟩

end JS.Fmt
