/-
  JS.Proofs.Framework — every evaluator-wide invariant that is a predicate `P` on generators
  closed under the combinators of `JS.Gen` (and under the `$ref` keyword function, the only
  keyword that touches the resolver state directly) holds of every keyword function, of the
  dispatcher `evalStep`, and of `eval` at every fuel.  Proved once, here; each invariant
  (scope restoration, budget-prefix law, store monotonicity, …) then only supplies `Closed`.
-/
import JS.Eval
import JS.Proofs.RefString
namespace JS

/-- `P` is closed under the generator combinators -/
structure Closed (env : Env) (P : Gen → Prop) : Prop where
  emit : ∀ es, P (emit es)
  nothing : P nothing
  /-- every stage that just stops — except "the consumer stopped pulling", which no stage of the
      model produces on its own (`.budget` only arises in `emit`) -/
  stop : ∀ s, s ≠ .budget → P (stopG s)
  andThen : ∀ {g h : Gen}, P g → P h → P (andThen g h)
  mapErrs : ∀ (f : Err → Err) {g : Gen}, P g → P (mapErrs f g)
  inner : ∀ {g : Gen} (b' : Option Nat) (k : List Err → Gen), P g → (∀ es, P (k es)) → P (inner g b' k)
  withScope : ∀ (scope : Str) {g : Gen}, P g → P (withScope env scope g)
  kwRef : ∀ {rec : Rec}, (∀ i s, P (rec i s)) → ∀ ref inst, P (kwRef env rec ref inst)

namespace Closed
variable {env : Env} {P : Gen → Prop} (H : Closed env P)
include H

theorem P_emit (es : List Err) : P (JS.emit es) := H.emit es
theorem P_nothing : P JS.nothing := H.nothing
theorem P_stopG {s : Stop} (hs : s ≠ .budget) : P (stopG s) := H.stop s hs
theorem P_stopG_fuel : P (stopG .fuel) := H.stop _ nofun
theorem P_stopG_miss (q : Query) : P (stopG (.miss q)) := H.stop _ nofun
theorem P_raiseG (e : Exc) : P (raiseG e) := H.stop _ nofun
theorem P_crashG (c : String) : P (crashG c) := H.stop _ nofun
theorem P_mapErrs (f : Err → Err) {g : Gen} (hg : P g) : P (JS.mapErrs f g) := H.mapErrs f hg
theorem P_inner {g : Gen} (b' : Option Nat) (k : List Err → Gen) (hg : P g) (hk : ∀ es, P (k es)) :
    P (JS.inner g b' k) := H.inner b' k hg hk

theorem P_seqG {α : Type} (f : α → Gen) (xs : List α) (hf : ∀ x, P (f x)) : P (seqG f xs) := by
  induction xs with
  | nil => exact H.nothing
  | cons x xs ih => exact H.andThen (hf x) ih

theorem P_descendG {g : Gen} (p sp : Option PathElem) (hg : P g) : P (descendG g p sp) :=
  H.mapErrs _ hg

theorem P_innerValid {g : Gen} (k : Bool → Gen) (hg : P g) (hk : ∀ v, P (k v)) : P (innerValid g k) :=
  H.inner _ _ hg (fun _ => hk _)

theorem P_withScopeOpt (scope : Option Str) {g : Gen} (hg : P g) : P (withScopeOpt env scope g) := by
  unfold withScopeOpt
  cases scope with
  | none => exact hg
  | some s => exact H.withScope s hg

theorem P_withRes {α : Type} (r : Res α) (k : α → Gen) (hk : ∀ a, P (k a)) : P (withRes r k) := by
  unfold withRes
  cases r with
  | ok a => exact hk a
  | raise e => exact H.stop _ nofun
  | miss q => exact H.stop _ nofun

theorem P_gate (cfg : Cfg) (inst : Json) (name : String) {k : Gen} (hk : P k) : P (gate cfg inst name k) := by
  unfold gate
  apply P_withRes H
  intro ok
  split
  · exact hk
  · exact H.nothing

theorem P_kwRef {rec : Rec} (hrec : ∀ i s, P (rec i s)) (ref inst : Json) : P (JS.kwRef env rec ref inst) :=
  H.kwRef hrec ref inst

end Closed

open Closed

/-- one step of the syntax-directed proof that a keyword function satisfies `P` -/
syntax "inv_step" ident : tactic
macro_rules | `(tactic| inv_step $H) => `(tactic| first
  | with_reducible exact P_nothing $H
  | with_reducible exact P_emit $H _
  | with_reducible exact P_crashG $H _
  | with_reducible exact P_stopG_fuel $H
  | with_reducible exact P_stopG_miss $H _
  | with_reducible exact P_raiseG $H _
  | with_reducible assumption
  | with_reducible apply P_descendG $H
  | with_reducible apply P_gate $H
  | with_reducible apply P_withRes $H
  | with_reducible apply P_seqG $H
  | with_reducible apply P_innerValid $H
  | with_reducible apply P_inner $H
  | with_reducible apply P_withScopeOpt $H
  | with_reducible apply P_mapErrs $H
  | with_reducible apply_assumption (exfalso := false)
  | intro _
  | split)

syntax "inv_tac" ident : tactic
macro_rules | `(tactic| inv_tac $H) => `(tactic| repeat inv_step $H)

variable {env : Env} {P : Gen → Prop} (H : Closed env P) {rec : Rec} (hrec : ∀ i s, P (rec i s))
include H hrec

theorem P_kwPatternProperties (cfg : Cfg) (v inst : Json) :
    P (kwPatternProperties env cfg rec v inst) := by
  unfold kwPatternProperties; inv_tac H

theorem P_kwPropertyNames (cfg : Cfg) (v inst : Json) :
    P (kwPropertyNames cfg rec v inst) := by
  unfold kwPropertyNames; inv_tac H

theorem P_kwAdditionalProperties (cfg : Cfg) (aP inst schema : Json) :
    P (kwAdditionalProperties env cfg rec aP inst schema) := by
  unfold kwAdditionalProperties; inv_tac H

theorem P_kwItems (cfg : Cfg) (v inst : Json) : P (kwItems cfg rec v inst) := by
  unfold kwItems; inv_tac H

theorem P_kwItemsDraft3Draft4 (cfg : Cfg) (v inst : Json) :
    P (kwItemsDraft3Draft4 cfg rec v inst) := by
  unfold kwItemsDraft3Draft4; inv_tac H

theorem P_kwAdditionalItems (cfg : Cfg) (v inst schema : Json) :
    P (kwAdditionalItems cfg rec v inst schema) := by
  unfold kwAdditionalItems; inv_tac H

theorem P_containsLoop (sub whole : Json) (xs : List Json) :
    P (containsLoop rec sub whole xs) := by
  induction xs with
  | nil => unfold containsLoop; inv_tac H
  | cons x xs ih => unfold containsLoop; inv_tac H

theorem P_kwContains (cfg : Cfg) (v inst : Json) : P (kwContains cfg rec v inst) := by
  unfold kwContains
  have := P_containsLoop H hrec
  inv_tac H

theorem P_kwDependencies (cfg : Cfg) (v inst : Json) : P (kwDependencies cfg rec v inst) := by
  unfold kwDependencies depArray; inv_tac H

theorem P_kwProperties (cfg : Cfg) (v inst : Json) : P (kwProperties cfg rec v inst) := by
  unfold kwProperties; inv_tac H

theorem P_kwAllOf (v inst : Json) : P (kwAllOf rec v inst) := by
  unfold kwAllOf; inv_tac H

theorem P_firstValid (inst : Json) (k : Option (Json × List (Nat × Json)) → List Err → Gen)
    (hk : ∀ r acc, P (k r acc)) (xs : List (Nat × Json)) (acc : List Err) :
    P (firstValid rec inst k xs acc) := by
  induction xs generalizing acc with
  | nil => unfold firstValid; exact hk _ _
  | cons x xs ih =>
    obtain ⟨i, s⟩ := x
    unfold firstValid; inv_tac H

theorem P_moreValid (inst : Json) (k : List Json → Gen) (hk : ∀ acc, P (k acc))
    (xs : List (Nat × Json)) (acc : List Json) : P (moreValid rec inst k xs acc) := by
  induction xs generalizing acc with
  | nil => unfold moreValid; exact hk _
  | cons x xs ih =>
    obtain ⟨i, s⟩ := x
    unfold moreValid; inv_tac H

theorem P_kwAnyOf (v inst : Json) : P (kwAnyOf rec v inst) := by
  unfold kwAnyOf
  split
  · apply P_firstValid H hrec
    intro r acc; inv_tac H
  · inv_tac H

theorem P_kwOneOf (v inst : Json) : P (kwOneOf rec v inst) := by
  unfold kwOneOf
  split
  · apply P_firstValid H hrec
    intro r acc
    split
    · inv_tac H
    · apply P_moreValid H hrec
      intro more; inv_tac H
  · inv_tac H

theorem P_kwNot (v inst : Json) : P (kwNot rec v inst) := by
  unfold kwNot; inv_tac H

theorem P_kwIf (v inst schema : Json) : P (kwIf rec v inst schema) := by
  unfold kwIf; inv_tac H

theorem P_kwDependenciesDraft3 (cfg : Cfg) (v inst : Json) :
    P (kwDependenciesDraft3 cfg rec v inst) := by
  unfold kwDependenciesDraft3 depArray; inv_tac H

theorem P_kwDisallowDraft3 (v inst : Json) : P (kwDisallowDraft3 rec v inst) := by
  unfold kwDisallowDraft3; inv_tac H

theorem P_kwExtendsDraft3 (cfg : Cfg) (v inst : Json) : P (kwExtendsDraft3 cfg rec v inst) := by
  unfold kwExtendsDraft3; inv_tac H

theorem P_kwPropertiesDraft3 (cfg : Cfg) (v inst schema : Json) :
    P (kwPropertiesDraft3 cfg rec v inst schema) := by
  unfold kwPropertiesDraft3; inv_tac H

theorem P_typeDraft3Loop (cfg : Cfg) (inst : Json) (k : Bool → List Err → Gen)
    (hk : ∀ m acc, P (k m acc)) (xs : List (Nat × Json)) (acc : List Err) :
    P (typeDraft3Loop cfg rec inst k xs acc) := by
  induction xs generalizing acc with
  | nil => unfold typeDraft3Loop; exact hk _ _
  | cons x xs ih =>
    obtain ⟨i, t⟩ := x
    unfold typeDraft3Loop; inv_tac H

theorem P_kwTypeDraft3 (cfg : Cfg) (v inst : Json) : P (kwTypeDraft3 cfg rec v inst) := by
  unfold kwTypeDraft3
  split
  · inv_tac H
  · apply P_typeDraft3Loop H hrec
    intro m acc; inv_tac H

omit hrec

/-! keyword functions that do not recurse -/

theorem P_kwBound (cfg : Cfg) (t : String) (f : Num → Num → Bool) (v inst : Json) :
    P (kwBound cfg t f v inst) := by
  unfold kwBound; inv_tac H

theorem P_kwLenBound (cfg : Cfg) (ty t : String) (lt : Bool) (len : Json → Option Nat) (v inst : Json) :
    P (kwLenBound cfg ty t lt len v inst) := by
  unfold kwLenBound; inv_tac H

theorem P_leaf (impl : FmtImpl) (cfg : Cfg) (v inst schema : Json) :
    P (kwConst v inst) ∧ P (kwMultipleOf cfg v inst) ∧ P (kwUniqueItems cfg v inst)
    ∧ P (kwPattern env cfg v inst) ∧ P (kwFormat env impl cfg v inst) ∧ P (kwEnum v inst)
    ∧ P (kwType cfg v inst) ∧ P (kwRequired cfg v inst)
    ∧ P (kwMinimumDraft3Draft4 cfg v inst schema) ∧ P (kwMaximumDraft3Draft4 cfg v inst schema) := by
  refine ⟨?_, ?_, ?_, ?_, ?_, ?_, ?_, ?_, ?_, ?_⟩
  · unfold kwConst; inv_tac H
  · unfold kwMultipleOf; inv_tac H
  · unfold kwUniqueItems; inv_tac H
  · unfold kwPattern; inv_tac H
  · unfold kwFormat; inv_tac H
  · unfold kwEnum; inv_tac H
  · unfold kwType; inv_tac H
  · unfold kwRequired; inv_tac H
  · unfold kwMinimumDraft3Draft4; split <;> exact P_kwBound H _ _ _ _ _
  · unfold kwMaximumDraft3Draft4; split <;> exact P_kwBound H _ _ _ _ _

/-! ### the dispatcher -/

theorem P_applyKw (impl : FmtImpl) (cfg : Cfg) {rec : Rec} (hrec : (∀ i s, P (rec i s)))
    (f : KwFn) (v inst schema : Json) : P (applyKw env impl cfg rec f v inst schema) := by
  have leaf := P_leaf H impl cfg v inst schema
  cases f <;> unfold applyKw <;> dsimp only
  case ref => exact P_kwRef H hrec v inst
  case additionalItems => exact P_kwAdditionalItems H hrec ..
  case additionalProperties => exact P_kwAdditionalProperties H hrec ..
  case const => exact leaf.1
  case contains => exact P_kwContains H hrec ..
  case exclusiveMinimum => exact P_kwBound H ..
  case exclusiveMaximum => exact P_kwBound H ..
  case minimum => exact P_kwBound H ..
  case maximum => exact P_kwBound H ..
  case multipleOf => exact leaf.2.1
  case minItems => exact P_kwLenBound H ..
  case maxItems => exact P_kwLenBound H ..
  case uniqueItems => exact leaf.2.2.1
  case pattern => exact leaf.2.2.2.1
  case format => exact leaf.2.2.2.2.1
  case minLength => exact P_kwLenBound H ..
  case maxLength => exact P_kwLenBound H ..
  case dependencies => exact P_kwDependencies H hrec ..
  case enum => exact leaf.2.2.2.2.2.1
  case type => exact leaf.2.2.2.2.2.2.1
  case properties => exact P_kwProperties H hrec ..
  case required => exact leaf.2.2.2.2.2.2.2.1
  case minProperties => exact P_kwLenBound H ..
  case maxProperties => exact P_kwLenBound H ..
  case allOf => exact P_kwAllOf H hrec ..
  case anyOf => exact P_kwAnyOf H hrec ..
  case oneOf => exact P_kwOneOf H hrec ..
  case not_ => exact P_kwNot H hrec ..
  case if_ => exact P_kwIf H hrec ..
  case items => exact P_kwItems H hrec ..
  case patternProperties => exact P_kwPatternProperties H hrec ..
  case propertyNames => exact P_kwPropertyNames H hrec ..
  case dependencies_draft3 => exact P_kwDependenciesDraft3 H hrec ..
  case disallow_draft3 => exact P_kwDisallowDraft3 H hrec ..
  case extends_draft3 => exact P_kwExtendsDraft3 H hrec ..
  case items_draft3_draft4 => exact P_kwItemsDraft3Draft4 H hrec ..
  case minimum_draft3_draft4 => exact leaf.2.2.2.2.2.2.2.2.1
  case maximum_draft3_draft4 => exact leaf.2.2.2.2.2.2.2.2.2
  case properties_draft3 => exact P_kwPropertiesDraft3 H hrec ..
  case type_draft3 => exact P_kwTypeDraft3 H hrec ..
  case alwaysFail => exact P_emit H _
  case never => exact P_nothing H
  case foreign => exact P_crashG H _

theorem P_runKeyword (impl : FmtImpl) (cfg : Cfg) {rec : Rec} (hrec : (∀ i s, P (rec i s)))
    (inst schema : Json) (kv : Str × Json) : P (runKeyword env impl cfg rec inst schema kv) := by
  unfold runKeyword
  split
  · exact P_nothing H
  · exact P_mapErrs H _ (P_applyKw H impl cfg hrec ..)

theorem P_evalStep (impl : FmtImpl) (cfg : Cfg) {rec : Rec} (hrec : (∀ i s, P (rec i s))) :
    ∀ i s, P (evalStep env impl cfg rec i s) := by
  intro inst schema
  unfold evalStep
  split
  · exact P_nothing H
  · exact P_emit H _
  · split
    · apply P_withScopeOpt H
      unfold schemaBody
      split
      · exact P_seqG H _ _ (fun kv => P_runKeyword H impl cfg hrec ..)
      · exact P_runKeyword H impl cfg hrec ..
      · exact P_seqG H _ _ (fun kv => P_runKeyword H impl cfg hrec ..)
    · exact P_crashG H _
  · exact P_crashG H _
  · exact P_crashG H _

/-- **Scope restoration** for the whole evaluator, every fuel. -/
theorem P_eval (impl : FmtImpl) (cfg : Cfg) (fuel : Nat) :
    ∀ i s, P (eval env impl cfg fuel i s) := by
  induction fuel with
  | zero => intro i s; exact P_stopG_fuel H
  | succ n ih => exact P_evalStep H impl cfg ih

end JS
