/-
  Binary version of JS.Proofs.Framework: a relation `R : Gen → Gen → Prop` closed under the
  generator combinators relates `evalStep … rec` and `evalStep … rec'` whenever it relates `rec`
  and `rec'` pointwise.  Same shape as the unary framework: one lemma per keyword function, a
  syntax-directed tactic, the dispatcher, `runKeyword`, `schemaBody`, `evalStep`.
-/
import JS.Proofs.Framework
namespace JS

/-- `R` is closed under the generator combinators (both sides built the same way) -/
structure Closed₂ (env : Env) (R : Gen → Gen → Prop) : Prop where
  emit : ∀ es, R (emit es) (emit es)
  nothing : R nothing nothing
  stop : ∀ s, s ≠ .budget → R (stopG s) (stopG s)
  andThen : ∀ {g g' h h' : Gen}, R g g' → R h h' → R (andThen g h) (andThen g' h')
  mapErrs : ∀ (f : Err → Err) {g g' : Gen}, R g g' → R (mapErrs f g) (mapErrs f g')
  inner : ∀ {g g' : Gen} (b' : Option Nat) (k k' : List Err → Gen), R g g' →
    (∀ es, R (k es) (k' es)) → R (inner g b' k) (inner g' b' k')
  withScope : ∀ (scope : Str) {g g' : Gen}, R g g' → R (withScope env scope g) (withScope env scope g')
  kwRef : ∀ {rec rec' : Rec}, (∀ i s, R (rec i s) (rec' i s)) →
    ∀ ref inst, R (kwRef env rec ref inst) (kwRef env rec' ref inst)

namespace Closed₂
variable {env : Env} {R : Gen → Gen → Prop} (H : Closed₂ env R)
include H

theorem R_emit (es : List Err) : R (JS.emit es) (JS.emit es) := H.emit es
theorem R_nothing : R JS.nothing JS.nothing := H.nothing
theorem R_stopG_fuel : R (stopG .fuel) (stopG .fuel) := H.stop _ nofun
theorem R_stopG_miss (q : Query) : R (stopG (.miss q)) (stopG (.miss q)) := H.stop _ nofun
theorem R_raiseG (e : Exc) : R (raiseG e) (raiseG e) := H.stop _ nofun
theorem R_crashG (c : String) : R (crashG c) (crashG c) := H.stop _ nofun
theorem R_mapErrs (f : Err → Err) {g g' : Gen} (hg : R g g') : R (JS.mapErrs f g) (JS.mapErrs f g') :=
  H.mapErrs f hg
theorem R_inner {g g' : Gen} (b' : Option Nat) (k k' : List Err → Gen) (hg : R g g')
    (hk : ∀ es, R (k es) (k' es)) : R (JS.inner g b' k) (JS.inner g' b' k') := H.inner b' k k' hg hk

theorem R_seqG {α : Type} (f f' : α → Gen) (xs : List α) (hf : ∀ x, R (f x) (f' x)) :
    R (seqG f xs) (seqG f' xs) := by
  induction xs with
  | nil => exact H.nothing
  | cons x xs ih => exact H.andThen (hf x) ih

theorem R_descendG {g g' : Gen} (p sp : Option PathElem) (hg : R g g') :
    R (descendG g p sp) (descendG g' p sp) :=
  H.mapErrs _ hg

theorem R_innerValid {g g' : Gen} (k k' : Bool → Gen) (hg : R g g') (hk : ∀ v, R (k v) (k' v)) :
    R (innerValid g k) (innerValid g' k') :=
  H.inner _ _ _ hg (fun _ => hk _)

theorem R_withScopeOpt (scope : Option Str) {g g' : Gen} (hg : R g g') :
    R (withScopeOpt env scope g) (withScopeOpt env scope g') := by
  unfold withScopeOpt
  cases scope with
  | none => exact hg
  | some s => exact H.withScope s hg

theorem R_withRes {α : Type} (r : Res α) (k k' : α → Gen) (hk : ∀ a, R (k a) (k' a)) :
    R (withRes r k) (withRes r k') := by
  unfold withRes
  cases r with
  | ok a => exact hk a
  | raise e => exact H.stop _ nofun
  | miss q => exact H.stop _ nofun

theorem R_gate (cfg : Cfg) (inst : Json) (name : String) {k k' : Gen} (hk : R k k') :
    R (gate cfg inst name k) (gate cfg inst name k') := by
  unfold gate
  apply R_withRes H
  intro ok
  cases ok
  · exact H.nothing
  · exact hk

theorem R_kwRef {rec rec' : Rec} (hrec : ∀ i s, R (rec i s) (rec' i s)) (ref inst : Json) :
    R (JS.kwRef env rec ref inst) (JS.kwRef env rec' ref inst) :=
  H.kwRef hrec ref inst

end Closed₂

open Closed₂

/-- one step of the syntax-directed proof that a keyword function preserves `R` -/
syntax "rel_step" ident : tactic
macro_rules | `(tactic| rel_step $H) => `(tactic| first
  | with_reducible exact R_nothing $H
  | with_reducible exact R_emit $H _
  | with_reducible exact R_crashG $H _
  | with_reducible exact R_stopG_fuel $H
  | with_reducible exact R_stopG_miss $H _
  | with_reducible exact R_raiseG $H _
  | with_reducible assumption
  | with_reducible apply R_descendG $H
  | with_reducible apply R_gate $H
  | with_reducible apply R_withRes $H
  | with_reducible apply R_seqG $H
  | with_reducible apply R_innerValid $H
  | with_reducible apply R_inner $H
  | with_reducible apply R_withScopeOpt $H
  | with_reducible apply R_mapErrs $H
  | with_reducible apply_assumption (exfalso := false)
  | intro _
  | split)

syntax "rel_tac" ident : tactic
macro_rules | `(tactic| rel_tac $H) => `(tactic| repeat rel_step $H)

variable {env : Env} {R : Gen → Gen → Prop} (H : Closed₂ env R) {rec rec' : Rec}
  (hrec : ∀ i s, R (rec i s) (rec' i s))
include H hrec

theorem R_kwPatternProperties (cfg : Cfg) (v inst : Json) :
    R (kwPatternProperties env cfg rec v inst) (kwPatternProperties env cfg rec' v inst) := by
  unfold kwPatternProperties; rel_tac H

theorem R_kwPropertyNames (cfg : Cfg) (v inst : Json) :
    R (kwPropertyNames cfg rec v inst) (kwPropertyNames cfg rec' v inst) := by
  unfold kwPropertyNames; rel_tac H

theorem R_kwAdditionalProperties (cfg : Cfg) (aP inst schema : Json) :
    R (kwAdditionalProperties env cfg rec aP inst schema)
      (kwAdditionalProperties env cfg rec' aP inst schema) := by
  unfold kwAdditionalProperties; rel_tac H

theorem R_kwItems (cfg : Cfg) (v inst : Json) : R (kwItems cfg rec v inst) (kwItems cfg rec' v inst) := by
  unfold kwItems; rel_tac H

theorem R_kwItemsDraft3Draft4 (cfg : Cfg) (v inst : Json) :
    R (kwItemsDraft3Draft4 cfg rec v inst) (kwItemsDraft3Draft4 cfg rec' v inst) := by
  unfold kwItemsDraft3Draft4; rel_tac H

theorem R_kwAdditionalItems (cfg : Cfg) (v inst schema : Json) :
    R (kwAdditionalItems cfg rec v inst schema) (kwAdditionalItems cfg rec' v inst schema) := by
  unfold kwAdditionalItems; rel_tac H

theorem R_containsLoop (sub whole : Json) (xs : List Json) :
    R (containsLoop rec sub whole xs) (containsLoop rec' sub whole xs) := by
  induction xs with
  | nil => unfold containsLoop; rel_tac H
  | cons x xs ih => unfold containsLoop; rel_tac H

theorem R_kwContains (cfg : Cfg) (v inst : Json) :
    R (kwContains cfg rec v inst) (kwContains cfg rec' v inst) := by
  unfold kwContains
  have := R_containsLoop H hrec
  rel_tac H

theorem R_kwDependencies (cfg : Cfg) (v inst : Json) :
    R (kwDependencies cfg rec v inst) (kwDependencies cfg rec' v inst) := by
  unfold kwDependencies depArray; rel_tac H

theorem R_kwProperties (cfg : Cfg) (v inst : Json) :
    R (kwProperties cfg rec v inst) (kwProperties cfg rec' v inst) := by
  unfold kwProperties; rel_tac H

theorem R_kwAllOf (v inst : Json) : R (kwAllOf rec v inst) (kwAllOf rec' v inst) := by
  unfold kwAllOf; rel_tac H

theorem R_firstValid (inst : Json) (k k' : Option (Json × List (Nat × Json)) → List Err → Gen)
    (hk : ∀ r acc, R (k r acc) (k' r acc)) (xs : List (Nat × Json)) (acc : List Err) :
    R (firstValid rec inst k xs acc) (firstValid rec' inst k' xs acc) := by
  induction xs generalizing acc with
  | nil => unfold firstValid; exact hk _ _
  | cons x xs ih =>
    obtain ⟨i, s⟩ := x
    unfold firstValid; rel_tac H

theorem R_moreValid (inst : Json) (k k' : List Json → Gen) (hk : ∀ acc, R (k acc) (k' acc))
    (xs : List (Nat × Json)) (acc : List Json) :
    R (moreValid rec inst k xs acc) (moreValid rec' inst k' xs acc) := by
  induction xs generalizing acc with
  | nil => unfold moreValid; exact hk _
  | cons x xs ih =>
    obtain ⟨i, s⟩ := x
    unfold moreValid; rel_tac H

theorem R_kwAnyOf (v inst : Json) : R (kwAnyOf rec v inst) (kwAnyOf rec' v inst) := by
  unfold kwAnyOf
  split
  · apply R_firstValid H hrec
    intro r acc; rel_tac H
  · rel_tac H

theorem R_kwOneOf (v inst : Json) : R (kwOneOf rec v inst) (kwOneOf rec' v inst) := by
  unfold kwOneOf
  split
  · apply R_firstValid H hrec
    intro r acc
    split
    · rel_tac H
    · apply R_moreValid H hrec
      intro more; rel_tac H
  · rel_tac H

theorem R_kwNot (v inst : Json) : R (kwNot rec v inst) (kwNot rec' v inst) := by
  unfold kwNot; rel_tac H

theorem R_kwIf (v inst schema : Json) : R (kwIf rec v inst schema) (kwIf rec' v inst schema) := by
  unfold kwIf; rel_tac H

theorem R_kwDependenciesDraft3 (cfg : Cfg) (v inst : Json) :
    R (kwDependenciesDraft3 cfg rec v inst) (kwDependenciesDraft3 cfg rec' v inst) := by
  unfold kwDependenciesDraft3 depArray; rel_tac H

theorem R_kwDisallowDraft3 (v inst : Json) :
    R (kwDisallowDraft3 rec v inst) (kwDisallowDraft3 rec' v inst) := by
  unfold kwDisallowDraft3; rel_tac H

theorem R_kwExtendsDraft3 (cfg : Cfg) (v inst : Json) :
    R (kwExtendsDraft3 cfg rec v inst) (kwExtendsDraft3 cfg rec' v inst) := by
  unfold kwExtendsDraft3; rel_tac H

theorem R_kwPropertiesDraft3 (cfg : Cfg) (v inst schema : Json) :
    R (kwPropertiesDraft3 cfg rec v inst schema) (kwPropertiesDraft3 cfg rec' v inst schema) := by
  unfold kwPropertiesDraft3; rel_tac H

theorem R_typeDraft3Loop (cfg : Cfg) (inst : Json) (k k' : Bool → List Err → Gen)
    (hk : ∀ m acc, R (k m acc) (k' m acc)) (xs : List (Nat × Json)) (acc : List Err) :
    R (typeDraft3Loop cfg rec inst k xs acc) (typeDraft3Loop cfg rec' inst k' xs acc) := by
  induction xs generalizing acc with
  | nil => unfold typeDraft3Loop; exact hk _ _
  | cons x xs ih =>
    obtain ⟨i, t⟩ := x
    unfold typeDraft3Loop; rel_tac H

theorem R_kwTypeDraft3 (cfg : Cfg) (v inst : Json) :
    R (kwTypeDraft3 cfg rec v inst) (kwTypeDraft3 cfg rec' v inst) := by
  unfold kwTypeDraft3
  split
  · rel_tac H
  · apply R_typeDraft3Loop H hrec
    intro m acc; rel_tac H

omit hrec

/-! keyword functions that do not recurse: both sides are the same generator -/

theorem R_kwBound (cfg : Cfg) (t : String) (f : Num → Num → Bool) (v inst : Json) :
    R (kwBound cfg t f v inst) (kwBound cfg t f v inst) := by
  unfold kwBound; rel_tac H

theorem R_kwLenBound (cfg : Cfg) (ty t : String) (lt : Bool) (len : Json → Option Nat) (v inst : Json) :
    R (kwLenBound cfg ty t lt len v inst) (kwLenBound cfg ty t lt len v inst) := by
  unfold kwLenBound; rel_tac H

theorem R_leaf (impl : FmtImpl) (cfg : Cfg) (v inst schema : Json) :
    R (kwConst v inst) (kwConst v inst) ∧ R (kwMultipleOf cfg v inst) (kwMultipleOf cfg v inst)
    ∧ R (kwUniqueItems cfg v inst) (kwUniqueItems cfg v inst)
    ∧ R (kwPattern env cfg v inst) (kwPattern env cfg v inst)
    ∧ R (kwFormat env impl cfg v inst) (kwFormat env impl cfg v inst)
    ∧ R (kwEnum v inst) (kwEnum v inst)
    ∧ R (kwType cfg v inst) (kwType cfg v inst) ∧ R (kwRequired cfg v inst) (kwRequired cfg v inst)
    ∧ R (kwMinimumDraft3Draft4 cfg v inst schema) (kwMinimumDraft3Draft4 cfg v inst schema)
    ∧ R (kwMaximumDraft3Draft4 cfg v inst schema) (kwMaximumDraft3Draft4 cfg v inst schema) := by
  refine ⟨?_, ?_, ?_, ?_, ?_, ?_, ?_, ?_, ?_, ?_⟩
  · unfold kwConst; rel_tac H
  · unfold kwMultipleOf; rel_tac H
  · unfold kwUniqueItems; rel_tac H
  · unfold kwPattern; rel_tac H
  · unfold kwFormat; rel_tac H
  · unfold kwEnum; rel_tac H
  · unfold kwType; rel_tac H
  · unfold kwRequired; rel_tac H
  · unfold kwMinimumDraft3Draft4; split <;> exact R_kwBound H _ _ _ _ _
  · unfold kwMaximumDraft3Draft4; split <;> exact R_kwBound H _ _ _ _ _

/-! ### the dispatcher -/

theorem R_applyKw (impl : FmtImpl) (cfg : Cfg) {rec rec' : Rec} (hrec : ∀ i s, R (rec i s) (rec' i s))
    (f : KwFn) (v inst schema : Json) :
    R (applyKw env impl cfg rec f v inst schema) (applyKw env impl cfg rec' f v inst schema) := by
  have leaf := R_leaf H impl cfg v inst schema
  cases f <;> unfold applyKw <;> dsimp only
  case ref => exact R_kwRef H hrec v inst
  case additionalItems => exact R_kwAdditionalItems H hrec ..
  case additionalProperties => exact R_kwAdditionalProperties H hrec ..
  case const => exact leaf.1
  case contains => exact R_kwContains H hrec ..
  case exclusiveMinimum => exact R_kwBound H ..
  case exclusiveMaximum => exact R_kwBound H ..
  case minimum => exact R_kwBound H ..
  case maximum => exact R_kwBound H ..
  case multipleOf => exact leaf.2.1
  case minItems => exact R_kwLenBound H ..
  case maxItems => exact R_kwLenBound H ..
  case uniqueItems => exact leaf.2.2.1
  case pattern => exact leaf.2.2.2.1
  case format => exact leaf.2.2.2.2.1
  case minLength => exact R_kwLenBound H ..
  case maxLength => exact R_kwLenBound H ..
  case dependencies => exact R_kwDependencies H hrec ..
  case enum => exact leaf.2.2.2.2.2.1
  case type => exact leaf.2.2.2.2.2.2.1
  case properties => exact R_kwProperties H hrec ..
  case required => exact leaf.2.2.2.2.2.2.2.1
  case minProperties => exact R_kwLenBound H ..
  case maxProperties => exact R_kwLenBound H ..
  case allOf => exact R_kwAllOf H hrec ..
  case anyOf => exact R_kwAnyOf H hrec ..
  case oneOf => exact R_kwOneOf H hrec ..
  case not_ => exact R_kwNot H hrec ..
  case if_ => exact R_kwIf H hrec ..
  case items => exact R_kwItems H hrec ..
  case patternProperties => exact R_kwPatternProperties H hrec ..
  case propertyNames => exact R_kwPropertyNames H hrec ..
  case dependencies_draft3 => exact R_kwDependenciesDraft3 H hrec ..
  case disallow_draft3 => exact R_kwDisallowDraft3 H hrec ..
  case extends_draft3 => exact R_kwExtendsDraft3 H hrec ..
  case items_draft3_draft4 => exact R_kwItemsDraft3Draft4 H hrec ..
  case minimum_draft3_draft4 => exact leaf.2.2.2.2.2.2.2.2.1
  case maximum_draft3_draft4 => exact leaf.2.2.2.2.2.2.2.2.2
  case properties_draft3 => exact R_kwPropertiesDraft3 H hrec ..
  case type_draft3 => exact R_kwTypeDraft3 H hrec ..
  case alwaysFail => exact R_emit H _
  case never => exact R_nothing H
  case foreign => exact R_crashG H _

theorem R_runKeyword (impl : FmtImpl) (cfg : Cfg) {rec rec' : Rec} (hrec : ∀ i s, R (rec i s) (rec' i s))
    (inst schema : Json) (kv : Str × Json) :
    R (runKeyword env impl cfg rec inst schema kv) (runKeyword env impl cfg rec' inst schema kv) := by
  unfold runKeyword
  split
  · exact R_nothing H
  · exact R_mapErrs H _ (R_applyKw H impl cfg hrec ..)

theorem R_schemaBody (impl : FmtImpl) (cfg : Cfg) {rec rec' : Rec} (hrec : ∀ i s, R (rec i s) (rec' i s))
    (inst : Json) (kvs : List (Str × Json)) :
    R (schemaBody env impl cfg rec inst kvs) (schemaBody env impl cfg rec' inst kvs) := by
  unfold schemaBody
  split
  · exact R_seqG H _ _ _ (fun kv => R_runKeyword H impl cfg hrec ..)
  · exact R_runKeyword H impl cfg hrec ..
  · exact R_seqG H _ _ _ (fun kv => R_runKeyword H impl cfg hrec ..)

/-- the relation passes through one layer of `iter_errors` -/
theorem R_evalStep (impl : FmtImpl) (cfg : Cfg) {rec rec' : Rec} (hrec : ∀ i s, R (rec i s) (rec' i s)) :
    ∀ i s, R (evalStep env impl cfg rec i s) (evalStep env impl cfg rec' i s) := by
  intro inst schema
  unfold evalStep
  split
  · exact R_nothing H
  · exact R_emit H _
  · split
    · exact R_withScopeOpt H _ (R_schemaBody H impl cfg hrec ..)
    · exact R_crashG H _
  · exact R_crashG H _
  · exact R_crashG H _

end JS
