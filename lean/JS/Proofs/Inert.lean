/- Helper lemmas for C10 (inert keys): lookups in lists with an inserted key, `seqG` over them,
   and the simulation `Sim` ("same stop, same state, same errors up to the recorded enclosing
   schema") with one congruence lemma per generator combinator. -/
import JS.Eval
import JS.Drafts
import JS.Spec.Vocabulary
namespace JS

/-! ### lookups in a list with one more key -/

theorem lookup_insert {c key : Str} (h : c ≠ key) (v : Json) (pre post : List (Str × Json)) :
    Json.lookup c (pre ++ (key, v) :: post) = Json.lookup c (pre ++ post) := by
  induction pre with
  | nil =>
    show (if key = c then some v else Json.lookup c post) = Json.lookup c post
    rw [if_neg (fun e => h e.symm)]
  | cons kv pre ih =>
    obtain ⟨k', v'⟩ := kv
    show (if k' = c then some v' else Json.lookup c (pre ++ (key, v) :: post))
       = (if k' = c then some v' else Json.lookup c (pre ++ post))
    rw [ih]

theorem get?_insert {c key : Str} (h : c ≠ key) (v : Json) (pre post : List (Str × Json)) :
    (Json.obj (pre ++ (key, v) :: post)).get? c = (Json.obj (pre ++ post)).get? c :=
  lookup_insert h v pre post

/-! ### errors up to the recorded enclosing schema -/

/-- forget the enclosing schema recorded in an error (same function as `Props.C10.eraseSchema`) -/
def eraseSch : Err → Err
  | .mk m info p sp ctx c => .mk m (info.map fun i => { i with schema := .null }) p sp ctx c

/-- two results agree on everything but the recorded enclosing schemas of their errors -/
def OutSim (o o' : Out) : Prop :=
  o.errs.map eraseSch = o'.errs.map eraseSch ∧ o.stop = o'.stop ∧ o.st = o'.st

/-- two generators agree, for every budget and state, up to recorded enclosing schemas -/
def Sim (g g' : Gen) : Prop := ∀ b st, OutSim (g b st) (g' b st)

theorem Sim.refl (g : Gen) : Sim g g := fun _ _ => ⟨rfl, rfl, rfl⟩

theorem Sim.of_eq {g g' : Gen} (h : g = g') : Sim g g' := h ▸ Sim.refl g

theorem Sim.trans {g g' g'' : Gen} (h : Sim g g') (h' : Sim g' g'') : Sim g g'' := fun b st =>
  ⟨(h b st).1.trans (h' b st).1, (h b st).2.1.trans (h' b st).2.1, (h b st).2.2.trans (h' b st).2.2⟩

theorem map_eraseSch_length {es es' : List Err} (h : es.map eraseSch = es'.map eraseSch) :
    es.length = es'.length := by
  have := congrArg List.length h
  simpa using this

theorem map_eraseSch_map {f f' : Err → Err}
    (hf : ∀ e e', eraseSch e = eraseSch e' → eraseSch (f e) = eraseSch (f' e')) :
    ∀ {es es' : List Err}, es.map eraseSch = es'.map eraseSch →
      (es.map f).map eraseSch = (es'.map f').map eraseSch
  | [], [], _ => rfl
  | [], _ :: _, h => by simp at h
  | _ :: _, [], h => by simp at h
  | e :: es, e' :: es', h => by
    simp only [List.map_cons, List.cons.injEq] at h ⊢
    exact ⟨hf e e' h.1, map_eraseSch_map hf h.2⟩

/-! ### `nothing` is a left unit -/

theorem budgetSub_zero (b : Option Nat) : budgetSub b 0 = b := by
  cases b <;> rfl

theorem andThen_nothing_left (h : Gen) : andThen nothing h = h := by
  funext b st
  show (match h (budgetSub b 0) st with | ⟨es', s, st''⟩ => (⟨[] ++ es', s, st''⟩ : Out)) = h b st
  rw [budgetSub_zero]
  rfl

/-! ### congruence lemmas -/

theorem Sim.andThen {g g' h h' : Gen} (hg : Sim g g') (hh : Sim h h') :
    Sim (andThen g h) (andThen g' h') := by
  intro b st
  have h1 := hg b st
  unfold JS.andThen
  rcases hgo : g b st with ⟨es, s, st1⟩
  rcases hgo' : g' b st with ⟨es', s', st1'⟩
  rw [hgo, hgo'] at h1
  obtain ⟨he, hs, hst⟩ := h1
  simp only at he hs hst
  subst hs hst
  have hlen := map_eraseSch_length he
  cases s with
  | done =>
    have h2 := hh (budgetSub b es.length) st1
    dsimp only
    rw [← hlen]
    obtain ⟨he2, hs2, hst2⟩ := h2
    refine ⟨?_, hs2, hst2⟩
    show (es ++ _).map eraseSch = (es' ++ _).map eraseSch
    rw [List.map_append, List.map_append, he, he2]
  | budget => exact ⟨he, rfl, rfl⟩
  | raised e => exact ⟨he, rfl, rfl⟩
  | fuel => exact ⟨he, rfl, rfl⟩
  | miss q => exact ⟨he, rfl, rfl⟩

theorem Sim.seqG {α : Type} {f f' : α → Gen} :
    ∀ (xs : List α), (∀ x ∈ xs, Sim (f x) (f' x)) → Sim (seqG f xs) (seqG f' xs)
  | [], _ => Sim.refl _
  | x :: xs, h =>
    Sim.andThen (h x (List.mem_cons_self ..))
      (Sim.seqG xs fun y hy => h y (List.mem_cons_of_mem _ hy))

theorem Sim.mapErrs {f f' : Err → Err} {g g' : Gen} (hg : Sim g g')
    (hf : ∀ e e', eraseSch e = eraseSch e' → eraseSch (f e) = eraseSch (f' e')) :
    Sim (mapErrs f g) (mapErrs f' g') := by
  intro b st
  obtain ⟨he, hs, hst⟩ := hg b st
  exact ⟨map_eraseSch_map hf he, hs, hst⟩

theorem Sim.withScope (env : Env) (scope : Str) {g g' : Gen} (hg : Sim g g') :
    Sim (withScope env scope g) (withScope env scope g') := by
  intro b st
  unfold JS.withScope
  cases env.urljoin st.top scope with
  | none => exact ⟨rfl, rfl, rfl⟩
  | some u =>
    obtain ⟨he, hs, hst⟩ := hg b { st with scopes := u :: st.scopes }
    dsimp only
    refine ⟨he, hs, ?_⟩
    dsimp only
    rw [hst]

theorem Sim.withScopeOpt (env : Env) (scope : Option Str) {g g' : Gen} (hg : Sim g g') :
    Sim (withScopeOpt env scope g) (withScopeOpt env scope g') := by
  cases scope with
  | none => exact hg
  | some s => exact Sim.withScope env s hg

theorem Sim.withRes {α : Type} (r : Res α) {k k' : α → Gen} (hk : ∀ a, Sim (k a) (k' a)) :
    Sim (withRes r k) (withRes r k') := by
  cases r with
  | ok a => exact hk a
  | raise e => exact Sim.refl _
  | miss q => exact Sim.refl _

theorem Sim.gate (cfg : Cfg) (inst : Json) (name : String) {k k' : Gen} (hk : Sim k k') :
    Sim (gate cfg inst name k) (gate cfg inst name k') := by
  unfold JS.gate
  refine Sim.withRes _ fun ok => ?_
  cases ok
  · exact Sim.refl _
  · exact hk

theorem Sim.emit {es es' : List Err} (h : es.map eraseSch = es'.map eraseSch) :
    Sim (emit es) (emit es') := by
  intro b st
  have hlen := map_eraseSch_length h
  unfold JS.emit
  cases b with
  | none => exact ⟨h, rfl, rfl⟩
  | some k =>
    dsimp only
    rw [hlen]
    by_cases hk : es'.length < k
    · rw [if_pos hk, if_pos hk]; exact ⟨h, rfl, rfl⟩
    · rw [if_neg hk, if_neg hk]
      refine ⟨?_, rfl, rfl⟩
      show (es.take k).map eraseSch = (es'.take k).map eraseSch
      rw [List.map_take, List.map_take, h]

/-! ### the keyword functions depend on the enclosing schema only through the consulted names -/

/-- the enclosing schemas `s`, `s'` look the same to every keyword function -/
def SameSiblings (s s' : Json) : Prop := ∀ c ∈ Spec.consulted, s.get? c = s'.get? c

theorem SameSiblings.insert {key : Str} (hc : key ∉ Spec.consulted) (v : Json)
    (pre post : List (Str × Json)) :
    SameSiblings (.obj (pre ++ (key, v) :: post)) (.obj (pre ++ post)) := fun c hcm =>
  get?_insert (by intro e; subst e; exact hc hcm) v pre post

theorem eraseSch_requiredDraft3Err (prop : Str) (r inst s s' : Json) :
    eraseSch (requiredDraft3Err prop r inst s) = eraseSch (requiredDraft3Err prop r inst s') := rfl

theorem kwPropertiesDraft3_sim (cfg : Cfg) (rec : Rec) (props inst s s' : Json) :
    Sim (kwPropertiesDraft3 cfg rec props inst s) (kwPropertiesDraft3 cfg rec props inst s') := by
  unfold kwPropertiesDraft3
  refine Sim.gate _ _ _ ?_
  split
  · refine Sim.seqG _ fun ps _ => ?_
    split
    · exact Sim.refl _
    · split
      · split
        · split
          · exact Sim.emit (by simp only [List.map_cons, eraseSch_requiredDraft3Err _ _ _ s s'])
          · exact Sim.refl _
        · exact Sim.refl _
      · exact Sim.refl _
  · exact Sim.refl _

/-- the keyword functions that read sibling keywords of the enclosing schema -/
def KwFn.readsSiblings : KwFn → Bool
  | .additionalItems | .additionalProperties | .if_ | .minimum_draft3_draft4 | .maximum_draft3_draft4 => true
  | _ => false

/-- a keyword function that does not read siblings sees the enclosing schema only in the errors
    it pre-fills (`properties_draft3`) -/
theorem applyKw_sim_of_not_reads (env : Env) (impl : FmtImpl) (cfg : Cfg) (rec : Rec) (f : KwFn)
    (v inst s s' : Json) (hf : f.readsSiblings = false) :
    Sim (applyKw env impl cfg rec f v inst s) (applyKw env impl cfg rec f v inst s') := by
  cases f <;> first
    | exact Sim.refl _
    | exact kwPropertiesDraft3_sim cfg rec v inst s s'
    | exact absurd hf (by decide)

theorem applyKw_sim (env : Env) (impl : FmtImpl) (cfg : Cfg) (rec : Rec) (f : KwFn)
    (v inst s s' : Json) (h : SameSiblings s s') :
    Sim (applyKw env impl cfg rec f v inst s) (applyKw env impl cfg rec f v inst s') := by
  have hp := h (Spec.k "properties") (by simp [Spec.consulted])
  have hpp := h (Spec.k "patternProperties") (by simp [Spec.consulted])
  have hi := h (Spec.k "items") (by simp [Spec.consulted])
  have ht := h (Spec.k "then") (by simp [Spec.consulted])
  have he := h (Spec.k "else") (by simp [Spec.consulted])
  have hmin := h (Spec.k "exclusiveMinimum") (by simp [Spec.consulted])
  have hmax := h (Spec.k "exclusiveMaximum") (by simp [Spec.consulted])
  by_cases hf : f.readsSiblings = false
  · exact applyKw_sim_of_not_reads env impl cfg rec f v inst s s' hf
  · cases f <;> first
      | exact absurd rfl hf
      | skip
    · exact Sim.of_eq (by show kwAdditionalItems cfg rec v inst s = kwAdditionalItems cfg rec v inst s'; unfold kwAdditionalItems; rw [show s.get? (skey "items") = s'.get? (skey "items") from hi])
    · exact Sim.of_eq (by
        show kwAdditionalProperties env cfg rec v inst s = kwAdditionalProperties env cfg rec v inst s'
        unfold kwAdditionalProperties
        rw [show s.get? (skey "properties") = s'.get? (skey "properties") from hp,
            show s.get? (skey "patternProperties") = s'.get? (skey "patternProperties") from hpp])
    · exact Sim.of_eq (by
        show kwIf rec v inst s = kwIf rec v inst s'
        unfold kwIf
        rw [show s.get? (skey "then") = s'.get? (skey "then") from ht,
            show s.get? (skey "else") = s'.get? (skey "else") from he])
    · exact Sim.of_eq (by
        show kwMinimumDraft3Draft4 cfg v inst s = kwMinimumDraft3Draft4 cfg v inst s'
        unfold kwMinimumDraft3Draft4
        rw [show s.get? (skey "exclusiveMinimum") = s'.get? (skey "exclusiveMinimum") from hmin])
    · exact Sim.of_eq (by
        show kwMaximumDraft3Draft4 cfg v inst s = kwMaximumDraft3Draft4 cfg v inst s'
        unfold kwMaximumDraft3Draft4
        rw [show s.get? (skey "exclusiveMaximum") = s'.get? (skey "exclusiveMaximum") from hmax])

/-! ### `stamp` up to the recorded schema -/

theorem eraseSch_stamp (k : Str) (v inst s s' : Json) (e e' : Err) (h : eraseSch e = eraseSch e') :
    eraseSch (stamp k v inst s e) = eraseSch (stamp k v inst s' e') := by
  obtain ⟨m, i, p, sp, c, ca⟩ := e
  obtain ⟨m', i', p', sp', c', ca'⟩ := e'
  simp only [eraseSch, Err.mk.injEq] at h
  obtain ⟨rfl, hi, rfl, rfl, rfl, rfl⟩ := h
  have hinfo : (i.orElse fun _ => some (⟨some k, v, inst, s⟩ : Meta)).map (fun i => { i with schema := Json.null })
      = (i'.orElse fun _ => some (⟨some k, v, inst, s'⟩ : Meta)).map (fun i => { i with schema := Json.null }) := by
    cases i <;> cases i' <;> simp_all
  unfold stamp
  by_cases hk : k = skey "if" ∨ k = skey "$ref"
  · simp only [if_pos hk, Err.setInfo, eraseSch, hinfo]
  · simp only [if_neg hk, Err.setInfo, Err.consSchemaPath, eraseSch, hinfo]

/-! ### one iteration of the keyword loop -/

theorem runKeyword_sim (env : Env) (impl : FmtImpl) (cfg : Cfg) (rec : Rec) (inst s s' : Json)
    (kv : Str × Json) (h : SameSiblings s s') :
    Sim (runKeyword env impl cfg rec inst s kv) (runKeyword env impl cfg rec inst s' kv) := by
  unfold runKeyword
  cases lookupS kv.1 cfg.keywords with
  | none => exact Sim.refl _
  | some f =>
    exact Sim.mapErrs (applyKw_sim env impl cfg rec f kv.2 inst s s' h) (eraseSch_stamp _ _ _ s s')

theorem runKeyword_sim_of_not_reads (env : Env) (impl : FmtImpl) (cfg : Cfg) (rec : Rec) (inst s s' : Json)
    (kv : Str × Json) (h : ∀ f, lookupS kv.1 cfg.keywords = some f → f.readsSiblings = false) :
    Sim (runKeyword env impl cfg rec inst s kv) (runKeyword env impl cfg rec inst s' kv) := by
  unfold runKeyword
  cases hl : lookupS kv.1 cfg.keywords with
  | none => exact Sim.refl _
  | some f =>
    exact Sim.mapErrs (applyKw_sim_of_not_reads env impl cfg rec f kv.2 inst s s' (h f hl))
      (eraseSch_stamp _ _ _ s s')

theorem runKeyword_unknown (env : Env) (impl : FmtImpl) (cfg : Cfg) (rec : Rec) (inst s : Json)
    (key : Str) (v : Json) (hk : lookupS key cfg.keywords = none) :
    runKeyword env impl cfg rec inst s (key, v) = nothing := by
  unfold runKeyword
  simp only [hk]

/-- the keyword loop over a list with one more pair, on which the loop body does nothing -/
theorem seqG_insert_sim {f f' : Str × Json → Gen} (hf : ∀ kv, Sim (f kv) (f' kv))
    (key : Str) (v : Json) (hkv : f (key, v) = nothing) (post : List (Str × Json)) :
    ∀ pre : List (Str × Json), Sim (seqG f (pre ++ (key, v) :: post)) (seqG f' (pre ++ post))
  | [] => by
    show Sim (andThen (f (key, v)) (seqG f post)) (seqG f' post)
    rw [hkv, andThen_nothing_left]
    exact Sim.seqG post fun kv _ => hf kv
  | kv :: pre => Sim.andThen (hf kv) (seqG_insert_sim hf key v hkv post pre)

/-! ### one layer of `iter_errors` -/

theorem hasKey_insert {c key : Str} (h : c ≠ key) (v : Json) (pre post : List (Str × Json)) :
    Json.hasKey c (pre ++ (key, v) :: post) = Json.hasKey c (pre ++ post) := by
  unfold Json.hasKey
  rw [lookup_insert h]

/-- inserting a key other than `$ref` leaves the scope alone when the key is not the id key -/
theorem scopeOf_insert (cfg : Cfg) {key : Str} (hid : key ≠ cfg.idKey) (href : key ≠ skey "$ref") (v : Json)
    (pre post : List (Str × Json)) :
    scopeOf cfg (pre ++ (key, v) :: post) = scopeOf cfg (pre ++ post) := by
  unfold scopeOf
  rw [lookup_insert (fun e => hid e.symm), hasKey_insert (fun e => href e.symm)]

/-- … or when a `$ref` key is present (no scope either way) -/
theorem scopeOf_insert_of_ref (cfg : Cfg) {key : Str} (href : key ≠ skey "$ref") (v : Json)
    (pre post : List (Str × Json)) (hr : Json.hasKey (skey "$ref") (pre ++ post) = true) :
    scopeOf cfg (pre ++ (key, v) :: post) = scopeOf cfg (pre ++ post) := by
  unfold scopeOf
  rw [hasKey_insert (fun e => href e.symm), if_pos hr, if_pos hr]

theorem evalStep_sim_of_body (env : Env) (impl : FmtImpl) (cfg : Cfg) (rec : Rec) (inst : Json)
    {key : Str} (v : Json) (pre post : List (Str × Json))
    (hsc : scopeOf cfg (pre ++ (key, v) :: post) = scopeOf cfg (pre ++ post))
    (hbody : Sim (schemaBody env impl cfg rec inst (pre ++ (key, v) :: post))
                 (schemaBody env impl cfg rec inst (pre ++ post))) :
    Sim (evalStep env impl cfg rec inst (.obj (pre ++ (key, v) :: post)))
        (evalStep env impl cfg rec inst (.obj (pre ++ post))) := by
  show Sim (match scopeOf cfg (pre ++ (key, v) :: post) with
            | .ok scope => withScopeOpt env scope (schemaBody env impl cfg rec inst (pre ++ (key, v) :: post))
            | .error cls => crashG cls)
           (match scopeOf cfg (pre ++ post) with
            | .ok scope => withScopeOpt env scope (schemaBody env impl cfg rec inst (pre ++ post))
            | .error cls => crashG cls)
  rw [hsc]
  cases scopeOf cfg (pre ++ post) with
  | error cls => exact Sim.refl _
  | ok scope => exact Sim.withScopeOpt env scope hbody

/-- **unknown keys are inert** (as a simulation) -/
theorem evalStep_unknown_sim (env : Env) (impl : FmtImpl) (cfg : Cfg) (rec : Rec)
    (pre post : List (Str × Json)) (key : Str) (v inst : Json)
    (hk : lookupS key cfg.keywords = none) (hid : key ≠ cfg.idKey) (href : key ≠ skey "$ref")
    (hc : key ∉ Spec.consulted) :
    Sim (evalStep env impl cfg rec inst (.obj (pre ++ (key, v) :: post)))
        (evalStep env impl cfg rec inst (.obj (pre ++ post))) := by
  have hs := SameSiblings.insert hc v pre post
  have hloop : Sim (seqG (runKeyword env impl cfg rec inst (.obj (pre ++ (key, v) :: post))) (pre ++ (key, v) :: post))
      (seqG (runKeyword env impl cfg rec inst (.obj (pre ++ post))) (pre ++ post)) :=
    seqG_insert_sim (fun kv => runKeyword_sim env impl cfg rec inst _ _ kv hs) key v
      (runKeyword_unknown env impl cfg rec inst _ key v hk) post pre
  refine evalStep_sim_of_body env impl cfg rec inst v pre post (scopeOf_insert cfg hid href v pre post) ?_
  unfold schemaBody
  rw [lookup_insert (fun e => href e.symm)]
  split
  · exact hloop
  · exact runKeyword_sim env impl cfg rec inst _ _ _ hs
  · exact hloop

/-- **keys next to a non-null `$ref` are inert** (the id key included: with a `$ref` key present no
    scope is pushed), provided the function bound to `$ref` does not
    read sibling keywords (or the inserted key is not one that any function reads) -/
theorem evalStep_refSibling_sim (env : Env) (impl : FmtImpl) (cfg : Cfg) (rec : Rec)
    (pre post : List (Str × Json)) (key : Str) (v ref inst : Json)
    (hkey : key ≠ skey "$ref")
    (href : Json.lookup (skey "$ref") (pre ++ post) = some ref) (hnn : ref ≠ .null)
    (hfn : (∀ f, lookupS (skey "$ref") cfg.keywords = some f → f.readsSiblings = false)
            ∨ key ∉ Spec.consulted) :
    Sim (evalStep env impl cfg rec inst (.obj (pre ++ (key, v) :: post)))
        (evalStep env impl cfg rec inst (.obj (pre ++ post))) := by
  refine evalStep_sim_of_body env impl cfg rec inst v pre post
    (scopeOf_insert_of_ref cfg hkey v pre post (by unfold Json.hasKey; rw [href]; rfl)) ?_
  unfold schemaBody
  rw [lookup_insert (fun e => hkey e.symm), href]
  split
  · exact absurd (by assumption) (by intro h; exact hnn (Option.some.inj h))
  · rename_i r hr _
    cases hfn with
    | inl hfn => exact runKeyword_sim_of_not_reads env impl cfg rec inst _ _ _ hfn
    | inr hc => exact runKeyword_sim env impl cfg rec inst _ _ _ (SameSiblings.insert hc v pre post)
  · rename_i h; exact absurd h (by simp)

/-- the four drafts bind `$ref` to the `ref` function -/
theorem draft_ref_bound (d : Draft) : lookupS (skey "$ref") d.keywords = some .ref := by
  cases d <;> decide +kernel

/-! ### a validator class whose `$ref` function reads a sibling: keys next to `$ref` are not inert

`ref_siblings_inert` of C10 quantifies over every `Cfg`, including classes that bind `$ref` to a
function that consults sibling keywords.  Here `$ref` is bound to the draft-3/4 `minimum`, which
reads `exclusiveMinimum`: inserting `"exclusiveMinimum": true` next to `"$ref": 5` turns the
valid instance `5` into an invalid one. -/

namespace RefCex
def env : Env :=
  ⟨fun _ _ => none, fun _ _ => none, fun _ => none, fun _ => none, fun _ => none,
   fun _ => none, fun _ => none, fun _ _ => none, fun _ _ => none⟩
def impl : FmtImpl := ⟨fun _ _ => none⟩
def cfg : Cfg :=
  { keywords := [(skey "$ref", .minimum_draft3_draft4)], types := [(skey "number", .isNumber)],
    idKey := skey "id", formatChecker := none }
def rec : Rec := fun _ _ => nothing
def st : RState := ⟨[], [], [], none, false, 0, []⟩
def key : Str := skey "exclusiveMinimum"
def five : Json := .num (.int 5)
def post : List (Str × Json) := [(skey "$ref", five)]

theorem hkey : key ≠ skey "$ref" := by decide +kernel
theorem href : Json.lookup (skey "$ref") ([] ++ post) = some five := by decide +kernel
theorem hnn : five ≠ .null := by decide +kernel

theorem errs_differ :
    (evalStep env impl cfg rec five (.obj ([] ++ (key, .bool true) :: post)) none st).errs.length
      ≠ (evalStep env impl cfg rec five (.obj ([] ++ post)) none st).errs.length := by
  decide +kernel
end RefCex

end JS
